#!/bin/bash
# usage: tools/try_seed.sh <worktree> <check-id> [tier]   -> runs the check against the seeded worktree (development switch
# VERIF_REPO), stores the outcome in out/seedruns/<name>.log, removes the alternate build directory afterwards.
WT=$1; ID=$2; TIER=${3:-quick}
N=$(basename $WT)
mkdir -p /verif/out/seedruns
cd /verif
VERIF_REPO=$WT ./check $ID --tier $TIER > out/seedruns/$N.$ID.log 2>&1
echo "rc=$?" >> out/seedruns/$N.$ID.log
cp out/alt_$N/evidence/$ID.json out/seedruns/$N.$ID.evidence.json 2>/dev/null
rm -rf out/alt_$N
rm -rf /verif/harness/target_alt/$N
grep -E "^VIOLATION|^KNOWN|rc=|TOOL-ERROR" out/seedruns/$N.$ID.log | head -8
