#!/bin/bash
# usage: tools/confirm_seed.sh <worktree-with-seed-dir> <seed-id>
# Confirms a seeded change in its scratch worktree (never in /repo):
#  (1) the demonstration passes WITHOUT the change, (2) fails WITH it,
#  (3) the crate builds and the whole pinned suite still passes with the change: only the baseline's always-failing
#      test and the demonstration itself may fail; any other failing test is re-run alone up to 2 more times (the
#      machine may be loaded and a few ICE/DTLS tests are timing-sensitive) and counts only if it fails every time.
# Writes /verif/seeded/<seed-id>/{patch.diff,seed_demo.rs,README.md,confirm.log,suite_failures.txt}.
set -u
WT=$1; ID=$2
DEST=/verif/seeded/$ID
ALWAYS_FAIL="reinvite_answer_audio_codecs_follow_remote_offer_subset"
mkdir -p $DEST
export CARGO_TARGET_DIR=/tmp/seed_target_$ID CARGO_NET_OFFLINE=true
cd $WT || exit 2
cp seed/patch.diff $DEST/ || exit 2
cp seed/README.md $DEST/ 2>/dev/null
cp seed/seed_demo.rs $DEST/seed_demo.rs 2>/dev/null || cp tests/seed_demo.rs $DEST/seed_demo.rs
LOG=$DEST/confirm.log; : > $LOG
git checkout -q -- src 2>>$LOG
cp $DEST/seed_demo.rs tests/seed_demo.rs
echo "== demo WITHOUT change" >> $LOG
cargo test --offline --test seed_demo >> $LOG 2>&1; RC_WITHOUT=$?
git apply $DEST/patch.diff >> $LOG 2>&1 || { echo "patch does not apply" | tee -a $LOG; exit 2; }
echo "== demo WITH change" >> $LOG
cargo test --offline --test seed_demo >> $LOG 2>&1; RC_WITH=$?
DEMO_TESTS=$(grep -E "^test .* (ok|FAILED)$" $LOG | awk '{print $2}' | sort -u | tr '\n' '|' | sed 's/|$//')
echo "== full suite WITH change" >> $LOG
cargo test --workspace --no-fail-fast --offline > $DEST/suite.log 2>&1
OKN=$(grep -cE "^test .* ok$" $DEST/suite.log)
grep -E "^test .* FAILED$" $DEST/suite.log | awk '{print $2}' | sort -u > $DEST/suite_failures.txt
REAL=""
for t in $(grep -vE "$ALWAYS_FAIL|^(${DEMO_TESTS:-__none__})$" $DEST/suite_failures.txt); do
  pass=0
  for i in 1 2; do
    short=${t##*::}
    if cargo test --workspace --offline -- --exact "$t" 2>&1 | grep -qE "^test .*$short \.\.\. ok$"; then pass=1; break; fi
  done
  if [ $pass = 1 ]; then echo "flaky under load (passes alone): $t" >> $LOG; else REAL="$REAL $t"; fi
done
echo "demo_without_rc=$RC_WITHOUT demo_with_rc=$RC_WITH suite_ok=$OKN real_suite_failures=[${REAL# }]" | tee -a $LOG
rm -f $DEST/suite.log
rm -rf $CARGO_TARGET_DIR
if [ $RC_WITHOUT = 0 ] && [ $RC_WITH != 0 ] && [ -z "$REAL" ]; then echo "CONFIRMED $ID" | tee -a $LOG; else echo "NOT-CONFIRMED $ID" | tee -a $LOG; fi
