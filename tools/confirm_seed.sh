#!/bin/bash
# usage: tools/confirm_seed.sh <worktree-with-seed-dir> <seed-id>
# Confirms a seeded change in its scratch worktree: (1) demo fails with the change, (2) demo passes without it,
# (3) the crate builds and the whole pinned suite still passes with the change (only the baseline's always-failing test
# may fail). Writes /verif/seeded/<seed-id>/{patch.diff,seed_demo.rs,README.md,confirm.log}.
set -u
WT=$1; ID=$2
DEST=/verif/seeded/$ID
mkdir -p $DEST
export CARGO_TARGET_DIR=/tmp/seed_target_$ID CARGO_NET_OFFLINE=true
cd $WT || exit 2
cp seed/patch.diff seed/README.md $DEST/ 2>/dev/null
cp seed/seed_demo.rs $DEST/seed_demo.rs 2>/dev/null || cp tests/seed_demo.rs $DEST/seed_demo.rs
LOG=$DEST/confirm.log; : > $LOG
git checkout -q -- src 2>>$LOG; git stash list >> $LOG
cp $DEST/seed_demo.rs tests/seed_demo.rs
echo "== demo WITHOUT change" >> $LOG
cargo test --offline --test seed_demo >> $LOG 2>&1; RC_WITHOUT=$?
git apply $DEST/patch.diff >> $LOG 2>&1 || { echo "patch does not apply" >> $LOG; exit 2; }
echo "== demo WITH change" >> $LOG
cargo test --offline --test seed_demo >> $LOG 2>&1; RC_WITH=$?
echo "== full suite WITH change" >> $LOG
cargo test --workspace --no-fail-fast --offline > $DEST/suite.log 2>&1
FAILED=$(grep -E "^test .* FAILED$" $DEST/suite.log | grep -v "seed_demo\|tests::seed_\|^test seed_\|^test test_seed" | sort -u)
OKN=$(grep -cE "^test .* ok$" $DEST/suite.log)
echo "demo_without_rc=$RC_WITHOUT demo_with_rc=$RC_WITH suite_ok=$OKN" | tee -a $LOG
echo "suite failures (excluding the demo):" | tee -a $LOG
echo "$FAILED" | tee -a $LOG
grep -E "^test .* FAILED$" $DEST/suite.log | sort -u > $DEST/suite_failures.txt
rm -f $DEST/suite.log
rm -rf $CARGO_TARGET_DIR
