#!/usr/bin/env python3
"""Regenerates MANIFEST.json from the table below (keeps it valid against the schema)."""
import json, os, subprocess
ROOT = os.path.dirname(os.path.dirname(os.path.abspath(__file__)))

CHECKS = {
 "C18": dict(
   engine="Latch", category="model_checking", design_ref="DESIGN.md section 4 / C18",
   technique="TLA+ spec (Latch.tla) model-checked with TLC; transition-cover replay of every model edge on the real IceConn",
   text="TLC checks Legit/CommitRule/Sticky/Bounded/RtcpOnly/PairPreserves on the bounded latch model exhaustively; every "
        "(state, action) edge TLC generates is then executed on a real IceConn and each observable (send address, RTCP "
        "address, latched flags) compared with the model under the rule that governs it. Exhaustive inside the bounds, "
        "which is what a universally quantified packet-sequence property needs and what sampled unit tests lack.",
   note="Bounds: 3 source addresses, sequence alphabet {0,1,(2,)65535}, history length 5 (quick) / 7 (thorough), probation "
        "settings 0..3 (quick) / 0..4 (thorough). Trusted: TLC, the replayer's projection (public fields + read-only "
        "probation snapshot hook), sequential driving of IceConn."),
}

NOT_APPLICABLE = []

# A check is claimed only after the lead verified it (green, deterministic, detects its negative controls):
# its id is then listed in tools/claimed.txt and its entry comes from checks/<ID>.manifest.json.
def load_claimed():
    path = os.path.join(ROOT, "tools", "claimed.txt")
    ids = [l.strip() for l in open(path) if l.strip() and not l.startswith("#")] if os.path.exists(path) else []
    for pid in ids:
        f = os.path.join(ROOT, "checks", f"{pid}.manifest.json")
        if pid in CHECKS or not os.path.exists(f):
            continue
        e = json.load(open(f))
        CHECKS[pid] = dict(engine=e["engine"], category=e["category"], design_ref=e.get("design_ref", "DESIGN.md section 4 / " + pid),
                           technique=e["technique"], text=e["text"], note=e["note"])

def main():
    load_claimed()
    props = [json.loads(l)["id"] for l in open(os.path.join(ROOT, "properties.jsonl"))]
    hooks_commits = subprocess.run(["git", "-C", "/repo", "log", "--format=%h %s"], capture_output=True, text=True).stdout
    hook_shas = [l.split()[0] for l in hooks_commits.splitlines() if l.split(" ", 1)[1].startswith("verif hooks")]
    m = {
      "version": 1,
      "setup_cmd": "cd /verif/harness && cargo build --release --offline",
      "hooks": {
        "guard": "rustrtc_verif",
        "enable": "rustc --cfg rustrtc_verif, set in /verif/harness/.cargo/config.toml [build] rustflags; the harness crate depends on /repo by path, so every check rebuilds /repo's working tree with the hooks on",
        "baseline_off_cmd": "cd /repo && cargo test --workspace --no-fail-fast --offline",
        "source_commits": hook_shas,
        "add_only": True,
      },
      "engines": [],
      "checks": [],
      "notes": "Every check: TLA+ specification in spec/, model-checked by TLC, bound to the implementation by replaying TLC-generated behaviours into the real code and/or validating traces recorded from the real code against the trace specification. See DESIGN.md. Exit 2 = tool error (never a verdict).",
      "not_applicable": [],
    }
    engines = {}
    for pid in props:
        if pid in CHECKS:
            c = CHECKS[pid]
            m["checks"].append({
              "property_id": pid,
              "quick_cmd": f"./check {pid} --tier quick",
              "thorough_cmd": f"./check {pid} --tier thorough",
              "evidence_file": f"/verif/evidence/{pid}.json",
              "replay_cmd_template": f"./check {pid} --replay {{path}}",
              "engine": c["engine"],
              "level_claimed": {"category": c["category"], "text": c["text"], "design_ref": c["design_ref"]},
              "level_note": c["note"],
              "technique": c["technique"],
            })
            engines.setdefault(c["engine"], []).append(pid)
        else:
            reason = dict(NOT_APPLICABLE).get(pid, "check not built yet in this revision of /verif (planned: see DESIGN.md section 4); not claimed until its TLA+ spec and binding are committed")
            m["not_applicable"].append({"property_id": pid, "reason": reason})
    for e, pids in engines.items():
        m["engines"].append({"name": e, "path": f"spec/{e}.tla", "serves_properties": pids,
                             "kind_free_text": "TLA+ specification checked by TLC + Rust conformance harness (harness/src/bin)"})
    # engines that grow the specification beyond the listed properties (every rule EXT: DRIFT only); not checks
    import glob
    for f in sorted(glob.glob(os.path.join(ROOT, "checks", "EXT*.manifest.json"))):
        e = json.load(open(f))
        eid = os.path.basename(f).split(".")[0]
        m["engines"].append({"name": f"{eid}:{e['engine']}", "path": f"spec/{e['engine']}.tla", "serves_properties": [],
                             "kind_free_text": "specification growth beyond the listed properties (run: ./check %s); %s" % (eid, e.get("technique", "")[:300])})
    with open(os.path.join(ROOT, "MANIFEST.json"), "w") as f:
        json.dump(m, f, indent=1)
    try:
        import jsonschema
        jsonschema.validate(m, json.load(open("/root/.vp/MANIFEST.schema.json")))
        print("MANIFEST.json valid;", len(m["checks"]), "checks,", len(m["not_applicable"]), "not_applicable")
    except ImportError:
        print("jsonschema not available; wrote MANIFEST.json unvalidated")

if __name__ == "__main__":
    main()
