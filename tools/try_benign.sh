#!/bin/bash
# usage: tools/try_benign.sh <worktree> <check-id>...   -> runs each check against a worktree holding behaviour-preserving
# changes; every run must exit 0 without a VIOLATION line (false-alarm probe). Results in out/benign/<name>.<ID>.log
WT=$1; shift
N=$(basename $WT)
mkdir -p /verif/out/benign
cd /verif
for ID in "$@"; do
  VERIF_REPO=$WT ./check $ID --tier quick > out/benign/$N.$ID.log 2>&1
  rc=$?
  echo "$N $ID rc=$rc violations=$(grep -c '^VIOLATION' out/benign/$N.$ID.log) known=$(grep -c '^KNOWN-FINDING' out/benign/$N.$ID.log) drift=$(grep -c '^DRIFT' out/benign/$N.$ID.log)"
  rm -rf out/alt_$N
done
rm -rf /verif/harness/target_alt/$N
