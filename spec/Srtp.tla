------------------------------- MODULE Srtp -------------------------------
(***************************************************************************)
(* SRTP / SRTCP index reconstruction, per-SSRC receive contexts and the    *)
(* context table of rustrtc's SrtpSession (src/srtp.rs), with a sender, a  *)
(* lossy / reordering / duplicating network and an on-path forger.         *)
(*                                                                         *)
(* One action per entry point of the code:                                 *)
(*   Protect / ProtectRtcp     SrtpSession::protect_rtp / protect_rtcp     *)
(*   Deliver / DeliverRtcp     unprotect_rtp / unprotect_rtcp on a packet  *)
(*                             produced by the key holder (any order, any  *)
(*                             number of times; never = loss)              *)
(*   ForgeRtp / ForgeRtcp      the same entry points on a packet that the  *)
(*                             key holder did not produce                  *)
(*   Tick                      60 s pass without traffic                   *)
(*                                                                         *)
(* Cryptography is abstract: a packet authenticates iff it was produced by *)
(* the key holder AND the receiver reconstructs the index it was protected *)
(* with (the index is part of the MAC input / the AEAD nonce).             *)
(*                                                                         *)
(* Sequence numbers are modulo M = 2^SeqBits with the RFC 3711 predicates, *)
(* so the wrap is reachable in small models; SeqBits = 16 with a boundary  *)
(* alphabet exercises the exact thresholds.                                *)
(*                                                                         *)
(* The spec is the intended design (properties C04 / C05 hold with         *)
(* Deviations = {}); where the pinned code deviated, the deviation is a     *)
(* named switch.                                                           *)
(***************************************************************************)
EXTENDS Integers, Sequences, FiniteSets, TLC

CONSTANTS
  Ssrcs,         \* SSRCs of the key holder's streams (small ints)
  ForgedSsrcs,   \* further SSRC values only the forger uses
  SeqBits,       \* width of the RTP sequence number in the model
  SeqAlpha,      \* sequence numbers used (subset of 0..M-1)
  MaxRoc,        \* the sender's rollover counter stays <= MaxRoc
  StartIdx,      \* initial synchronised indices per stream (sender and receiver agree on them)
  StartFresh,    \* TRUE: a stream may also start with nothing sent yet
  StepsFwd, StepsBack,  \* sender steps explored (magnitudes of forward / backward differences of true indices); both {} = every step inside the window
  MaxLen,        \* bound on the number of actions
  MaxSent,       \* bound on the number of packets protected in a behaviour
  Watermark,     \* context-table high-water mark (32 in the code)
  RtcpTop,       \* highest SRTCP index (2^31 - 1 in reality): after it the key is exhausted (RFC 3711 9.2)
  WithRtcp, WithTick,
  RtpForgeKinds, RtcpForgeKinds,   \* forgery classes explored
  ForgeOffsets,  \* forged sequence numbers, relative to the receiver's highest (and 0 when it has none)
  ForgeReps,     \* a forgery is presented this many times in a row (failure counters, rate-limited paths)
  Deviations,    \* subset of {"EvictLosesState", "RtcpIndexOverflow", "RtcpIndexBeforeAuth", "TableBeforeAuth", "RtpUpdateBeforeAuth", "EstimateSlack"}
  Props          \* listed properties whose rules are switched on: subset of {"C04", "C05", "EXT"}

VARIABLES
  sHi,     \* application: highest true index handed to the sender per SSRC (-1 = none)
  sRtcp,   \* application: number of RTCP packets handed to the sender per SSRC
  tx,      \* sender context table: Ssrcs -> [on, roc, last, rtcp, idle] (what protect_* keeps per SSRC)
  sent,    \* every packet the key holder produced (the network and the forger know them all)
  got,     \* packets delivered at least once
  rx,      \* receiver context table: AllSsrcs -> [on, roc, last, rtcp, idle]
  start,   \* the initial synchronised indices (constant along a behaviour)
  ideal,   \* ghost: highest genuine index ever accepted per SSRC by a receiver that never forgets (-1 = none)
  hist,    \* actions so far (replayed by the harness)
  step     \* description of the last action (what the rules speak about)

vars == <<sHi, sRtcp, tx, sent, got, rx, start, ideal, hist, step>>
\* hist/step are bookkeeping; they never influence a later step
view == <<sHi, sRtcp, tx, sent, got, rx, start, ideal>>

Rule(p, e) == (p \in Props) => e

M        == 2^SeqBits
Steps    == StepsFwd \cup {-d : d \in StepsBack}
Starts   == StartIdx \cup (IF StartFresh THEN {-1} ELSE {})
Half     == M \div 2
RocMod   == MaxRoc + 2            \* ROC arithmetic is modular; "0 - 1" is a value no genuine packet has
TopIdx   == (MaxRoc + 1) * M - 1
AllSsrcs == Ssrcs \cup ForgedSsrcs
SeqNo(i) == i % M
RocNo(i) == i \div M
Abs(x)   == IF x < 0 THEN -x ELSE x
MaxOf(a, b) == IF a >= b THEN a ELSE b

\* idx: the index the application means (RTP: true extended index; RTCP: ordinal of the packet);
\* widx: the index the sender context put on the wire / into the keystream
Pkt(proto, s, i, w) == [proto |-> proto, ssrc |-> s, idx |-> i, widx |-> w]

---------------------------------------------------------------------------
(* RFC 3711 section 3.3.1 / appendix A: the receiver's estimate v of the    *)
(* packet's ROC from its own (ROC, s_l) and the received SEQ.              *)
Slack == IF "EstimateSlack" \in Deviations THEN 1 ELSE 0
EstimateRoc(roc, sl, seq) ==
  IF sl < 0 THEN roc                                  \* nothing received yet
  ELSE IF sl < Half
       THEN (IF seq - sl > Half + Slack THEN (roc + RocMod - 1) % RocMod ELSE roc)
       ELSE (IF sl - Half > seq + Slack THEN (roc + 1) % RocMod ELSE roc)

FreshCtx == [on |-> FALSE, roc |-> 0, last |-> -1, rtcp |-> 0, idle |-> FALSE]
Hi(c) == IF c.last < 0 THEN -1 ELSE c.roc * M + c.last

\* RFC 3711 3.3.1: after authentication, s_l and ROC follow the highest index received
Advance(c, v, seq) ==
  IF c.last < 0 \/ v * M + seq > Hi(c) THEN [c EXCEPT !.roc = v, !.last = seq] ELSE c

\* what acceptance depends on: a context that does not exist behaves like a fresh one
Crypto(t) == [k \in AllSsrcs |-> IF t[k].on THEN <<t[k].roc, t[k].last, t[k].rtcp>> ELSE <<0, -1, 0>>]

\* the statement's window: a genuine packet with true index i "must" be accepted by context c
MustAcceptIdx(c, i) == IF c.last < 0 THEN RocNo(i) = 0 ELSE Abs(i - Hi(c)) < Half
\* what the intended receiver does with it (also outside the window: decided by the estimate)
WouldAcceptIdx(c, i) == EstimateRoc(c.roc, c.last, SeqNo(i)) = RocNo(i)
\* the same window measured from what a receiver that never evicts a context would remember
IdealMustAt(id, k, i) == IF id[k] < 0 THEN RocNo(i) = 0 ELSE Abs(i - id[k]) < Half
IdealMust(k, i) == IdealMustAt(ideal, k, i)

---------------------------------------------------------------------------
(* Context table                                                            *)
CountIn(t, D) == Cardinality({k \in D : t[k].on})
\* Intended design: a context that holds a stream's position is never lost (C04 quantifies over any number of
\* SSRCs and over histories with silences). The pinned code drops every context idle for 60 s once more than 32
\* exist (deviation "EvictLosesState": open finding KF-C04-2).
\* The same table logic serves the receive table (domain AllSsrcs) and the transmit table (domain Ssrcs).
EvictIn(t, k, D) ==
  IF "EvictLosesState" \in Deviations /\ CountIn(t, D) > Watermark
  THEN [j \in D |-> IF j # k /\ t[j].on /\ t[j].idle THEN FreshCtx ELSE t[j]]
  ELSE t
AdmitIn(t, k, D) == LET e == EvictIn(t, k, D) IN [e EXCEPT ![k] = [@ EXCEPT !.on = TRUE, !.idle = FALSE]]
Admit(t, k) == AdmitIn(t, k, AllSsrcs)

\* The receiver's handling of an RTP packet for SSRC k carrying sequence number seq;
\* `genuine` = produced by the key holder with true ROC `roc`.
RecvRtp(t, k, genuine, seq, roc) ==
  LET c   == IF t[k].on THEN t[k] ELSE FreshCtx
      v   == EstimateRoc(c.roc, c.last, seq)
      ok  == genuine /\ v = roc
      pre == IF ok \/ "TableBeforeAuth" \in Deviations THEN Admit(t, k) ELSE t
      upd == ok \/ ("RtpUpdateBeforeAuth" \in Deviations /\ pre[k].on)
  IN [ok |-> ok,
      t  |-> IF upd THEN [pre EXCEPT ![k] = Advance(@, v, seq)] ELSE pre]

\* SRTCP carries its index in clear: no estimate; the receiver remembers the highest index seen
RecvRtcp(t, k, genuine, idx) ==
  LET ok  == genuine /\ idx <= RtcpTop        \* beyond the top the sender's keystream index is not the one on the wire
      pre == IF ok \/ "TableBeforeAuth" \in Deviations THEN Admit(t, k) ELSE t
      upd == ok \/ ("RtcpIndexBeforeAuth" \in Deviations /\ pre[k].on)
  IN [ok |-> ok,
      t  |-> IF upd THEN [pre EXCEPT ![k].rtcp = MaxOf(@, idx % (RtcpTop + 1))] ELSE pre]

---------------------------------------------------------------------------
NoStep == [op |-> "init", proto |-> "", ssrc |-> 0, idx |-> -1, kind |-> "", x |-> -1,
           forged |-> FALSE, acc |-> FALSE, must |-> FALSE, replay |-> FALSE, est |-> -1, imust |-> FALSE, rep |-> 1]

\* hist entry: <<op, proto, ssrc, idx, kind, x, acc, must, replay, rep>>
Log(s) == hist' = Append(hist, <<s.op, s.proto, s.ssrc, s.idx, s.kind, s.x,
                                 IF s.acc THEN 1 ELSE 0, IF s.must THEN 1 ELSE 0, IF s.replay THEN 1 ELSE 0, s.rep>>)
Do(s) == step' = s /\ Log(s)

Init ==
  /\ start \in [Ssrcs -> Starts]
  /\ sHi = start
  /\ ideal = start
  /\ sRtcp = [s \in Ssrcs |-> 0]
  /\ sent = {Pkt("rtp", s, start[s], start[s]) : s \in {q \in Ssrcs : start[q] >= 0}}
  /\ tx = [k \in Ssrcs |->
             IF start[k] >= 0
             THEN [on |-> TRUE, roc |-> RocNo(start[k]), last |-> SeqNo(start[k]), rtcp |-> 0, idle |-> FALSE]
             ELSE FreshCtx]
  /\ got = sent
  /\ rx = [k \in AllSsrcs |->
             IF k \in Ssrcs /\ start[k] >= 0
             THEN [on |-> TRUE, roc |-> RocNo(start[k]), last |-> SeqNo(start[k]), rtcp |-> 0, idle |-> FALSE]
             ELSE FreshCtx]
  /\ hist = <<>>
  /\ step = NoStep

StepOK(d) == d # 0 /\ -Half < d /\ d < Half /\ (Steps = {} \/ d \in Steps)

SentIdx(proto, k) == {p.idx : p \in {pp \in sent : pp.proto = proto /\ pp.ssrc = k}}

\* protect_rtp: the application hands over a packet whose true (extended) index is i; the sender context
\* (created / refreshed / garbage-collected like a receive context, but nothing to authenticate) estimates the ROC
\* from its own highest index
Protect(s, i) ==
  /\ Cardinality(sent) < MaxSent
  /\ SeqNo(i) \in SeqAlpha
  /\ i \notin SentIdx("rtp", s)                        \* an index is used once
  /\ IF sHi[s] < 0 THEN RocNo(i) = 0 ELSE StepOK(i - sHi[s])
  /\ LET t1  == AdmitIn(tx, s, Ssrcs)
         c   == t1[s]
         v   == EstimateRoc(c.roc, c.last, SeqNo(i))
         est == v * M + SeqNo(i)                        \* the index the sender context uses
     IN /\ sent' = sent \cup {Pkt("rtp", s, i, est)}
        /\ tx' = [t1 EXCEPT ![s] = Advance(@, v, SeqNo(i))]
        /\ Do([NoStep EXCEPT !.op = "protect", !.proto = "rtp", !.ssrc = s, !.idx = i, !.x = est, !.est = est])
  /\ sHi' = [sHi EXCEPT ![s] = MaxOf(@, i)]
  /\ UNCHANGED <<sRtcp, got, rx, start, ideal>>

\* protect_rtcp. Once the 31-bit SRTCP index space of a stream is used up the key is exhausted: the intended sender
\* refuses (the application must re-key). Deviation "RtcpIndexOverflow" (pinned code): it goes on; the index it
\* encrypts with no longer fits the 31-bit field the receiver reads, so the packet cannot be decoded.
ProtectRtcp(s) ==
  /\ WithRtcp
  /\ Cardinality(sent) < MaxSent
  /\ LET t1 == AdmitIn(tx, s, Ssrcs)
         w  == t1[s].rtcp + 1
         n  == sRtcp[s] + 1
     IN IF w > RtcpTop /\ "RtcpIndexOverflow" \notin Deviations
        THEN /\ tx' = t1
             /\ Do([NoStep EXCEPT !.op = "protect", !.proto = "rtcp", !.ssrc = s, !.idx = n, !.kind = "refused"])
             /\ UNCHANGED <<sRtcp, sent>>
        ELSE /\ sRtcp' = [sRtcp EXCEPT ![s] = n]
             /\ tx' = [t1 EXCEPT ![s].rtcp = w]
             /\ sent' = sent \cup {Pkt("rtcp", s, n, w)}
             /\ Do([NoStep EXCEPT !.op = "protect", !.proto = "rtcp", !.ssrc = s, !.idx = n, !.x = w, !.est = w])
  /\ UNCHANGED <<sHi, got, rx, start, ideal>>

\* the network hands a genuine packet to the receiver (first time or again)
Deliver(p) ==
  /\ p \in sent
  /\ LET c == IF rx[p.ssrc].on THEN rx[p.ssrc] ELSE FreshCtx
         r == IF p.proto = "rtp" THEN RecvRtp(rx, p.ssrc, TRUE, SeqNo(p.widx), RocNo(p.widx))
                                 ELSE RecvRtcp(rx, p.ssrc, TRUE, p.widx)
     IN /\ rx' = r.t
        /\ Do([NoStep EXCEPT !.op = "deliver", !.proto = p.proto, !.ssrc = p.ssrc, !.idx = p.idx,
                             !.acc = r.ok, !.replay = (p \in got),
                             !.must = IF p.proto = "rtp" THEN MustAcceptIdx(c, p.idx) ELSE TRUE,
                             !.imust = IF p.proto = "rtp" THEN IdealMust(p.ssrc, p.idx) ELSE TRUE])
        /\ ideal' = IF p.proto = "rtp" /\ r.ok THEN [ideal EXCEPT ![p.ssrc] = MaxOf(@, p.idx)] ELSE ideal
  /\ got' = got \cup {p}
  /\ UNCHANGED <<sHi, sRtcp, tx, sent, start>>

\* forged sequence numbers worth trying against context c
ForgeSeqs(c) == {q \in SeqAlpha : \E d \in ForgeOffsets : q = ((IF c.last < 0 THEN 0 ELSE c.last) + d) % M}

\* kinds that alter a genuine packet without touching its sequence number
BaseKinds   == {"flip_hdr", "flip_csrc_ext", "flip_payload", "flip_tag", "truncate", "extend"}
\* "reseq": a genuine packet with its sequence number rewritten; "wrongkey": protected under another key
\* n presentations of the same forgery: the receiver's reaction applied n times (its effect is idempotent from the
\* third application on in every variant of the model, so three applications stand for any n >= 3)
RepRtp(t, k, seq, n) ==
  LET t1 == RecvRtp(t, k, FALSE, seq, 0).t
      t2 == RecvRtp(t1, k, FALSE, seq, 0).t
      t3 == RecvRtp(t2, k, FALSE, seq, 0).t
  IN IF n = 1 THEN t1 ELSE IF n = 2 THEN t2 ELSE t3
RepRtcp(t, k, x, n) ==
  LET t1 == RecvRtcp(t, k, FALSE, x).t
      t2 == RecvRtcp(t1, k, FALSE, x).t
      t3 == RecvRtcp(t2, k, FALSE, x).t
  IN IF n = 1 THEN t1 ELSE IF n = 2 THEN t2 ELSE t3

ForgeRtp(kind, k, base, seq, rep) ==
  /\ kind \in RtpForgeKinds
  /\ \/ /\ kind \in BaseKinds /\ base \in SentIdx("rtp", k) /\ seq = SeqNo(base)
     \/ /\ kind = "reseq" /\ base \in SentIdx("rtp", k) /\ seq # SeqNo(base)
        /\ seq \in ForgeSeqs(IF rx[k].on THEN rx[k] ELSE FreshCtx)
     \/ /\ kind = "wrongkey" /\ k \in Ssrcs /\ base = -1
        /\ seq \in ForgeSeqs(IF rx[k].on THEN rx[k] ELSE FreshCtx)
     \/ /\ kind = "newssrc" /\ k \in ForgedSsrcs /\ base = -1 /\ seq = 0
  /\ LET r == RecvRtp(rx, k, FALSE, seq, 0)
     IN /\ rx' = RepRtp(rx, k, seq, rep)
        /\ Do([NoStep EXCEPT !.op = "forge", !.proto = "rtp", !.ssrc = k, !.idx = base, !.kind = kind,
                             !.x = seq, !.forged = TRUE, !.acc = r.ok, !.rep = rep])
  /\ UNCHANGED <<sHi, sRtcp, tx, sent, got, start, ideal>>

RtcpBaseKinds == {"flip_hdr", "flip_payload", "flip_tag", "flip_ebit", "truncate", "extend"}
\* "reindex": a genuine SRTCP packet with its index field rewritten to x
ForgeRtcp(kind, k, base, x, rep) ==
  /\ WithRtcp
  /\ kind \in RtcpForgeKinds
  /\ \/ /\ kind \in RtcpBaseKinds /\ base \in SentIdx("rtcp", k) /\ x = base
     \/ /\ kind = "reindex" /\ base \in SentIdx("rtcp", k) /\ x # base
        /\ x \in {0, rx[k].rtcp, rx[k].rtcp + 1, rx[k].rtcp + 5}
     \/ /\ kind = "wrongkey" /\ k \in Ssrcs /\ base = -1 /\ x \in {rx[k].rtcp, rx[k].rtcp + 1, rx[k].rtcp + 5}
     \/ /\ kind = "newssrc" /\ k \in ForgedSsrcs /\ base = -1 /\ x = 1
  /\ LET r == RecvRtcp(rx, k, FALSE, x)
     IN /\ rx' = RepRtcp(rx, k, x, rep)
        /\ Do([NoStep EXCEPT !.op = "forge", !.proto = "rtcp", !.ssrc = k, !.idx = base, !.kind = kind,
                             !.x = x, !.forged = TRUE, !.acc = r.ok, !.rep = rep])
  /\ UNCHANGED <<sHi, sRtcp, tx, sent, got, start, ideal>>

\* 60 s pass: every context that saw nothing since becomes stale
Tick ==
  /\ WithTick
  /\ \/ \E k \in AllSsrcs : rx[k].on /\ ~rx[k].idle
     \/ \E k \in Ssrcs : tx[k].on /\ ~tx[k].idle
  /\ rx' = [k \in AllSsrcs |-> IF rx[k].on THEN [rx[k] EXCEPT !.idle = TRUE] ELSE rx[k]]
  /\ tx' = [k \in Ssrcs |-> IF tx[k].on THEN [tx[k] EXCEPT !.idle = TRUE] ELSE tx[k]]
  /\ Do([NoStep EXCEPT !.op = "tick"])
  /\ UNCHANGED <<sHi, sRtcp, sent, got, start, ideal>>

CtxOf(k) == IF rx[k].on THEN rx[k] ELSE FreshCtx

ForgeRtpAny == \E rep \in ForgeReps :
  \/ \E kind \in RtpForgeKinds \cap BaseKinds, k \in Ssrcs : \E base \in SentIdx("rtp", k) :
        ForgeRtp(kind, k, base, SeqNo(base), rep)
  \/ \E k \in Ssrcs : \E q \in ForgeSeqs(CtxOf(k)) :
        \/ ForgeRtp("wrongkey", k, -1, q, rep)
        \/ \E base \in SentIdx("rtp", k) : ForgeRtp("reseq", k, base, q, rep)
  \/ \E k \in ForgedSsrcs : ForgeRtp("newssrc", k, -1, 0, rep)

ForgeRtcpAny == \E rep \in ForgeReps :
  \/ \E kind \in RtcpForgeKinds \cap RtcpBaseKinds, k \in Ssrcs : \E base \in SentIdx("rtcp", k) :
        ForgeRtcp(kind, k, base, base, rep)
  \/ \E k \in Ssrcs : \E x \in {0, rx[k].rtcp, rx[k].rtcp + 1, rx[k].rtcp + 5} :
        \/ ForgeRtcp("wrongkey", k, -1, x, rep)
        \/ \E base \in SentIdx("rtcp", k) : ForgeRtcp("reindex", k, base, x, rep)
  \/ \E k \in ForgedSsrcs : ForgeRtcp("newssrc", k, -1, 1, rep)

Next ==
  /\ Len(hist) < MaxLen
  /\ \/ \E s \in Ssrcs : ProtectRtcp(s) \/ \E r \in 0..MaxRoc, q \in SeqAlpha : Protect(s, r * M + q)
     \/ \E p \in sent : Deliver(p)
     \/ ForgeRtpAny
     \/ ForgeRtcpAny
     \/ Tick

Spec == Init /\ [][Next]_vars

---------------------------------------------------------------------------
(* C04 on the model                                                         *)

\* the sender context reconstructs the index the application meant
SenderAgreement == Rule("C04", step.op = "protect" => step.est = step.idx)

\* every delivered genuine packet whose true index is within +-half of the receiver's highest
\* (or, for the first packet of a stream, whose ROC is the initial one) is accepted; acceptance
\* means the receiver's estimate equals the sender's index (RecvRtp), i.e. it decodes with it
IndexAgreement == Rule("C04", (step.op = "deliver" /\ step.must) => step.acc)

\* the receiver's state is always the highest genuine index it accepted: never ahead of the sender
NoPhantomIndex == Rule("C04", \A s \in Ssrcs : (rx[s].on /\ rx[s].last >= 0) =>
                                 /\ \E p \in sent : p.proto = "rtp" /\ p.ssrc = s /\ p.widx = Hi(rx[s])
                                 /\ Hi(rx[s]) <= sHi[s])
\* (EXT) an SRTCP index is never used twice for a stream under one key (RFC 3711 9.1: keystream reuse)
SrtcpIndexFresh == Rule("EXT", \A p, q \in sent : (p.proto = "rtcp" /\ q.proto = "rtcp" /\ p.ssrc = q.ssrc /\ p.widx = q.widx)
                                                     => p = q)

(* C05 on the model                                                         *)
Rejected == Rule("C05", step.forged => ~step.acc)

ForgeUnchanged == [][ Rule("C05", step'.forged => Crypto(rx') = Crypto(rx)) ]_vars

\* the genuine packets (any the key holder could ever produce in the bounded universe) that
\* the receiver would accept are the same before and after a forged step
Universe == {Pkt("rtp", s, r * M + q, r * M + q) : s \in Ssrcs, r \in 0..MaxRoc, q \in SeqAlpha}
AcceptSet(t) == {p \in Universe : WouldAcceptIdx(IF t[p.ssrc].on THEN t[p.ssrc] ELSE FreshCtx, p.idx)}
AcceptanceStable == [][ Rule("C05", step'.forged => AcceptSet(rx') = AcceptSet(rx)) ]_vars

(* beyond the listed properties (tag EXT)                                   *)
\* any rejected packet, genuine or not, leaves the whole table untouched
RejectIsNoop == [][ Rule("EXT", (step'.op \in {"deliver", "forge"} /\ ~step'.acc) => rx' = rx) ]_vars
\* receiver indices never move backwards while the context lives
IndexMonotone == [][ Rule("EXT", \A s \in Ssrcs : (rx[s].on /\ rx'[s].on) =>
                                     (Hi(rx'[s]) >= Hi(rx[s]) /\ rx'[s].rtcp >= rx[s].rtcp)) ]_vars
\* genuine SRTCP is accepted in any order
RtcpAccepted == Rule("EXT", (step.op = "deliver" /\ step.proto = "rtcp") => step.acc)

\* context eviction never costs a stream: what a receiver that never forgets must accept, this one must accept
NoLossByEviction == Rule("C04", (step.op = "deliver" /\ step.imust /\ ~step.replay) => step.acc)

TypeOK ==
  /\ \A s \in Ssrcs : sHi[s] \in -1..TopIdx
  /\ \A k \in AllSsrcs : rx[k].roc \in 0..(RocMod - 1) /\ rx[k].last \in -1..(M - 1)
  /\ \A k \in Ssrcs : tx[k].roc \in 0..(RocMod - 1) /\ tx[k].last \in -1..(M - 1)
  /\ got \subseteq sent
=============================================================================
