------------------------- MODULE MC_LifecyclePair -------------------------
(* The configuration lattice of C10: TLC checks the pair model for every compatible configuration and prints
   one CFG line per lattice point - the scenario list of the binding. *)
EXTENDS LifecyclePair, Json

EmitCfg == IF ~ldesc["A"] /\ ~ldesc["B"] THEN PrintT(<<"CFG", ToJson(cfg)>>) ELSE TRUE
NoEmit == TRUE
=============================================================================
