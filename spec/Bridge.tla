------------------------------- MODULE Bridge -------------------------------
(***************************************************************************)
(* RTP rewrite bridge of RtpTransport (src/transports/rtp.rs,              *)
(* RewriteBridge::rewrite_packet): per source SSRC an output SSRC, the     *)
(* next output sequence number, a timestamp offset and the last forward    *)
(* source timestamp; a rule table selected by payload type (exact match,   *)
(* else the catch-all, else pass-through).                                 *)
(*                                                                         *)
(* One action: Forward(src, pt, ts) = one inbound RTP packet taken by the  *)
(* bridge fast path.                                                       *)
(*                                                                         *)
(* 32-bit quantities (SSRC, timestamps, offsets) are TLC integers holding  *)
(* the SAME 32 bits as the u32 in the code (two's complement: a negative   *)
(* integer is a value in the upper half), so the arithmetic below is the   *)
(* code's wrapping arithmetic at full width and the real thresholds        *)
(* 900 000 and 0x8000_0000 appear literally; sequence numbers are plain    *)
(* integers modulo 65536.                                                  *)
(*                                                                         *)
(* Property C19 (second sentence): each source stream maps to one stable   *)
(* output SSRC and payload type per rule; output sequence numbers are      *)
(* consecutive in arrival order; output timestamps preserve source         *)
(* timestamp differences except across source discontinuities;             *)
(* independently for every concurrent source stream.                       *)
(***************************************************************************)
EXTENDS Integers, Sequences, FiniteSets, TLC

CONSTANTS Sources,     \* source SSRCs (32-bit patterns)
          PtAlpha,     \* payload types of inbound packets
          Tables,      \* set of rule tables; a table is a sequence of rules
                       \*   [m : -1 (catch-all) or a PT, fixOn : BOOLEAN, fix, off, pt : -1 (keep) or a PT, mid : 0..]
          StartTs,     \* timestamps of the first packet of a source
          Deltas,      \* source timestamp steps between consecutive packets of one source
          Modes,       \* set of [fixed : BOOLEAN, pinOn : BOOLEAN, strip : BOOLEAN]
          Seq0, Off0,  \* initial_sequence_number / initial_timestamp_offset when fixed
          Pin,         \* initial_output_timestamp when pinOn
          VideoPts,    \* source payload types that go to the optional video target ({} = no video target)
          Reinstalls,  \* BOOLEAN: the bridge may be cleared and installed again mid-behaviour
          Ups,         \* {TRUE}, or {TRUE, FALSE} when the push to the target socket may fail for a packet
          MaxLen

VARIABLES tbl, mode,
          st,          \* [Sources -> [on, outSsrc, nextSeq, off, hasLast, lastSrc]]   (the code's StreamRewriteState)
          prev,        \* ghost: the previous packet of each source [on, ts, outTs, outSeq]
          seen,        \* ghost: {<<src, rule index, outSsrc, outPt>>} observed so far
          hist,        \* steps so far, each with the model's output
          last

vars == <<tbl, mode, st, prev, seen, hist, last>>

---------------------------------------------------------------------------
(* u32 wrapping arithmetic on 32-bit patterns held in TLC's 32-bit integers *)
MaxI == 2147483647
MinI == -2147483647 - 1
Add32(a, b) ==
  IF a >= 0 /\ b >= 0 /\ a > MaxI - b THEN ((a + MinI) + b) + MinI        \* a + b - 2^32
  ELSE IF a < 0 /\ b < 0 /\ a < MinI - b THEN ((a - MinI) + b) - MinI     \* a + b + 2^32
  ELSE a + b
Neg32(a)    == IF a = MinI THEN MinI ELSE 0 - a
Sub32(a, b) == Add32(a, Neg32(b))
\* unsigned comparisons on patterns
Forward31(d) == d >= 0                 \* d < 0x8000_0000
Thr == 900000
Gap == 3000

NoSt   == [on |-> FALSE, outSsrc |-> 0, nextSeq |-> 0, off |-> 0, hasLast |-> FALSE, lastSrc |-> 0]
NoPrev == [on |-> FALSE, ts |-> 0, outTs |-> 0, outSeq |-> 0, sent |-> TRUE]

Init ==
  /\ tbl \in Tables
  /\ mode \in Modes
  /\ st = [s \in Sources |-> NoSt]
  /\ prev = [s \in Sources |-> NoPrev]
  /\ seen = {}
  /\ hist = <<>>
  /\ last = [kind |-> "init", src |-> 0, rule |-> 0, first |-> TRUE, cont |-> "first", outSsrc |-> 0, outPt |-> 0,
             outSeq |-> 0, outTs |-> 0, dPair |-> 0]

\* rule_for: exact payload-type match wins, otherwise the catch-all, otherwise none (0)
RuleIdx(pt) ==
  LET E == {i \in 1..Len(tbl) : tbl[i].m = pt}
      C == {i \in 1..Len(tbl) : tbl[i].m = -1}
      Min(S) == CHOOSE x \in S : \A y \in S : x <= y
  IN IF E # {} THEN Min(E) ELSE IF C # {} THEN Min(C) ELSE 0

\* continuity class of this packet against the previous packet OF THE SAME SOURCE
PairClass(src, ts) ==
  IF ~prev[src].on THEN "first"
  ELSE LET d == Sub32(ts, prev[src].ts) IN
       IF ~Forward31(d) THEN "backward"
       ELSE IF d > Thr THEN "jump" ELSE "cont"

\* `up` = the relay push to the target socket succeeds. A failed push loses the packet AFTER it was rewritten:
\* its sequence number is consumed (the output stream shows the loss as a gap) and the timestamp state moves on.
Forward(src, pt, ts, up) ==
  LET ri   == RuleIdx(pt)
      map  == IF ri = 0 THEN src
              ELSE IF tbl[ri].fixOn THEN tbl[ri].fix ELSE Add32(src, tbl[ri].off)
      s0   == IF st[src].on THEN st[src]
              ELSE [on |-> TRUE, outSsrc |-> map,
                    nextSeq |-> IF mode.fixed THEN Seq0 ELSE 0,
                    off |-> IF mode.fixed THEN Off0 ELSE 0,
                    hasLast |-> FALSE, lastSrc |-> 0]
      outPt == IF ri # 0 /\ tbl[ri].pt >= 0 THEN tbl[ri].pt ELSE pt
      d    == Sub32(ts, s0.lastSrc)
      \* timestamp state update, exactly the code's cascade
      off1 == IF s0.hasLast
              THEN (IF Forward31(d) /\ d > Thr
                    THEN Sub32(Add32(Add32(s0.lastSrc, s0.off), Gap), ts)
                    ELSE s0.off)
              ELSE (IF mode.pinOn THEN Sub32(Pin, ts) ELSE s0.off)
      ls1  == IF s0.hasLast THEN (IF Forward31(d) THEN ts ELSE s0.lastSrc) ELSE ts
      outTs  == Add32(ts, off1)
      outSeq == s0.nextSeq
      cls  == PairClass(src, ts)
      first == ~st[src].on
      \* which rule of C19 governs each output field of this packet
      tsRule == IF cls = "cont" /\ prev[src].sent THEN "TsPreserve" ELSE "EXT"
      rec  == [op |-> "fwd", src |-> src, pt |-> pt, ts |-> ts, up |-> up,
               \* target_for: chosen from the ORIGINAL payload type, before any rewrite (EXT)
               tgt |-> IF pt \in VideoPts THEN 2 ELSE 1,
               exp |-> [ssrc |-> s0.outSsrc, pt |-> outPt, seq |-> outSeq, ts |-> outTs,
                        first |-> first, cont |-> cls,
                        mid |-> IF ri # 0 /\ ~mode.strip THEN tbl[ri].mid ELSE 0,
                        tsRule |-> tsRule,      \* ssrc and pt are always under "StableMap"
                        \* consecutive with the previous OUTPUT of this source; after a lost push: EXT (gap of one)
                        seqRule |-> IF first THEN "EXT" ELSE IF prev[src].sent THEN "SeqConsecutive" ELSE "EXT"]]
  IN
  /\ st' = [st EXCEPT ![src] = [on |-> TRUE, outSsrc |-> s0.outSsrc, nextSeq |-> (s0.nextSeq + 1) % 65536,
                                off |-> off1, hasLast |-> TRUE, lastSrc |-> ls1]]
  /\ prev' = [prev EXCEPT ![src] = [on |-> TRUE, ts |-> ts, outTs |-> outTs, outSeq |-> outSeq, sent |-> up]]
  /\ seen' = seen \cup {<<src, ri, s0.outSsrc, outPt>>}
  /\ hist' = Append(hist, rec)
  /\ last' = [kind |-> "fwd", src |-> src, rule |-> ri, first |-> first, cont |-> cls, outSsrc |-> s0.outSsrc, outPt |-> outPt,
              outSeq |-> outSeq, outTs |-> outTs,
              dPair |-> IF prev[src].on THEN Sub32(ts, prev[src].ts) ELSE 0]
  /\ UNCHANGED <<tbl, mode>>

\* clear_bridge_rewrite() followed by installing the same bridge again: every source starts afresh
\* (beyond the statement, which speaks about one bridge: EXT)
Reinstall ==
  /\ Reinstalls /\ Len(hist) > 0 /\ hist[Len(hist)].op # "reinstall"
  /\ st' = [s \in Sources |-> NoSt]
  /\ prev' = [s \in Sources |-> NoPrev]
  /\ seen' = {}
  /\ hist' = Append(hist, [op |-> "reinstall"])
  /\ last' = [last EXCEPT !.kind = "reinstall"]
  /\ UNCHANGED <<tbl, mode>>

Next ==
  /\ Len(hist) < MaxLen
  /\ \/ \E src \in Sources, pt \in PtAlpha :
          IF prev[src].on
          THEN \E dl \in Deltas, up \in Ups : Forward(src, pt, Add32(prev[src].ts, dl), up)
          ELSE \E t0 \in StartTs, up \in Ups : Forward(src, pt, t0, up)
     \/ Reinstall

Spec == Init /\ [][Next]_vars

---------------------------------------------------------------------------
(* Property C19, second sentence, on the model                              *)

\* one stable output SSRC per source stream; one stable payload type per (source, rule) for every rule
\* that rewrites the payload type (a rule with out_payload_type = None, and "no rule", keep the packet's)
StableMap ==
  /\ \A a, b \in seen : a[1] = b[1] => a[3] = b[3]
  /\ \A a, b \in seen : (a[1] = b[1] /\ a[2] = b[2] /\ a[2] # 0 /\ tbl[a[2]].pt >= 0) => a[4] = b[4]

\* the output SSRC / PT are the ones the matched rule names (SSRC: the rule matched by the source's
\* first packet - the mapping of a source stream is chosen once)
RuleApplied ==
  [][ last'.kind = "fwd" =>
      LET ri == last'.rule IN
      /\ (ri # 0 /\ tbl[ri].pt >= 0) => last'.outPt = tbl[ri].pt
      /\ (ri = 0 \/ tbl[ri].pt < 0) => last'.outPt = hist'[Len(hist')].pt
      /\ (last'.first /\ ri # 0 /\ tbl[ri].fixOn) => last'.outSsrc = tbl[ri].fix
      /\ (last'.first /\ ri = 0) => last'.outSsrc = last'.src ]_vars

\* consecutive output sequence numbers in arrival order, per source
SeqConsecutive ==
  [][ (last'.kind = "fwd" /\ ~last'.first) => last'.outSeq = (prev[last'.src].outSeq + 1) % 65536 ]_vars

\* source timestamp differences are preserved between consecutive packets of a source unless the step
\* is a discontinuity (backward, or forward by more than 900000)
TsPreserve ==
  [][ (last'.kind = "fwd" /\ last'.cont = "cont") => last'.outTs = Add32(prev[last'.src].outTs, last'.dPair) ]_vars

\* (Not a rule: "a backward step keeps the offset". The code measures steps against the last FORWARD
\* source timestamp, not against the previous packet, so after a step of exactly 2^31 a pairwise-backward
\* packet can be a forward jump for the code - TLC finds this in three packets. Backward and jump steps
\* are therefore compared under the EXT tag only.)

\* independently for every concurrent source stream
Independent ==
  [][ last'.kind = "fwd" => \A s \in Sources : s # last'.src => (st'[s] = st[s] /\ prev'[s] = prev[s]) ]_vars

TypeOK == \A s \in Sources : st[s].nextSeq \in 0..65535
=============================================================================
