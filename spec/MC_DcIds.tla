------------------------------ MODULE MC_DcIds ------------------------------
EXTENDS DcIds, Json
\* one line per maximal program (MaxOps calls) and per program that cannot be extended
EmitProgram == (Len(hist) = MaxOps) => PrintT(<<"PROG", ToJson([ops |-> hist])>>)
NoEmit == TRUE
=============================================================================
