----------------------------- MODULE Trace_Stack -----------------------------
(***************************************************************************)
(* Cross-layer ordering of Stack checked on the hook events of ALL layers  *)
(* recorded in pc-pair runs (H5 peer-connection events, DTLS, SCTP, RTP    *)
(* gate, application).  Both endpoints of a run are tracked.  The log      *)
(* drives the layer variables; every step is judged against the ordering   *)
(* the composed model has by construction.  All rules are beyond the       *)
(* listed properties: tags "EXT.<name>", reported as drift only.           *)
(* The DTLS layer counts as up from its key derivation event on (the       *)
(* `connected` hook of that layer is written after the state watch is set, *)
(* so a faster upper layer may log first); likewise the application may    *)
(* log its Open before the SCTP layer's own `open` hook line is written.   *)
(***************************************************************************)
EXTENDS Naturals, Sequences, FiniteSets, TLC, Json, IOUtils

Rec == ndJsonDeserialize(IOEnv.TRACE)
Sides == {"A", "B"}

VARIABLES l, mode, ice, started, dtlsAct, dtlsKeyed, keys, sctpAct, sctpUp, chanL2, chanApp, pc, viol, id

vars == <<l, mode, ice, started, dtlsAct, dtlsKeyed, keys, sctpAct, sctpUp, chanL2, chanApp, pc, viol, id>>

Ev == Rec[l]
Is(t) == l <= Len(Rec) /\ Rec[l].t = t
F == [s \in Sides |-> FALSE]

Init ==
    /\ l = 1 /\ mode = "WebRtc" /\ id = 0 /\ viol = {}
    /\ ice = F /\ started = F /\ dtlsAct = F /\ dtlsKeyed = F /\ keys = F /\ sctpAct = F /\ sctpUp = F
    /\ chanL2 = F /\ chanApp = F /\ pc = F
    /\ TLCSet(1, 1)

Broken(S) == {<<p[1], Ev.t, Ev.inst>> : p \in {q \in S : ~q[2]}}
Judge(S) == viol' = viol \cup Broken(S)
Web == mode = "WebRtc"
Set(f) == [f EXCEPT ![Ev.inst] = TRUE]

TReset ==
    /\ Is("reset")
    /\ mode' = Ev.site /\ id' = Ev.n /\ viol' = {}
    /\ ice' = F /\ started' = F /\ dtlsAct' = F /\ dtlsKeyed' = F /\ keys' = F /\ sctpAct' = F /\ sctpUp' = F
    /\ chanL2' = F /\ chanApp' = F /\ pc' = F
    /\ l' = l + 1

Step(t, upd, rules) ==
    /\ Is(t) /\ Ev.inst \in Sides
    /\ upd
    /\ Judge(rules)
    /\ l' = l + 1

TIceUp == Step("ice_up", ice' = Set(ice), {})
          /\ UNCHANGED <<mode, id, started, dtlsAct, dtlsKeyed, keys, sctpAct, sctpUp, chanL2, chanApp, pc>>
TStart == Step("start", started' = Set(started), {<<"EXT.StartAfterIce", ice[Ev.inst] \/ ~Web>>})
          /\ UNCHANGED <<mode, id, ice, dtlsAct, dtlsKeyed, keys, sctpAct, sctpUp, chanL2, chanApp, pc>>
TDtlsAct == Step("dtls_act", dtlsAct' = Set(dtlsAct), {<<"EXT.DtlsAfterStart", started[Ev.inst]>>, <<"EXT.DtlsOnlyWebRtc", Web>>})
          /\ UNCHANGED <<mode, id, ice, started, dtlsKeyed, keys, sctpAct, sctpUp, chanL2, chanApp, pc>>
TDtlsKeyed == Step("dtls_keyed", dtlsKeyed' = Set(dtlsKeyed), {<<"EXT.DtlsAfterStart", started[Ev.inst]>>})
          /\ UNCHANGED <<mode, id, ice, started, dtlsAct, keys, sctpAct, sctpUp, chanL2, chanApp, pc>>
\* site = "dtls" (exported) | "sdes"
TKeys == Step("keys", keys' = Set(keys),
              {<<"EXT.KeysAfterDtls", (Ev.site = "dtls") => dtlsKeyed[Ev.inst]>>,
               <<"EXT.KeysKindByMode", (Ev.site = "dtls") <=> Web>>,
               <<"EXT.NoKeysInRtp", mode # "Rtp">>})
          /\ UNCHANGED <<mode, id, ice, started, dtlsAct, dtlsKeyed, sctpAct, sctpUp, chanL2, chanApp, pc>>
\* site = association state at the event
TSctp == Step("sctp_act", /\ sctpAct' = Set(sctpAct)
                          /\ sctpUp' = [sctpUp EXCEPT ![Ev.inst] = @ \/ Ev.site = "Connected"],
              {<<"EXT.SctpAfterDtls", dtlsKeyed[Ev.inst]>>, <<"EXT.SctpOnlyWebRtc", Web>>})
          /\ UNCHANGED <<mode, id, ice, started, dtlsAct, dtlsKeyed, keys, chanL2, chanApp, pc>>
TChanL2 == Step("chan_open", chanL2' = Set(chanL2), {<<"EXT.OpenAfterSctp", sctpUp[Ev.inst]>>})
          /\ UNCHANGED <<mode, id, ice, started, dtlsAct, dtlsKeyed, keys, sctpAct, sctpUp, chanApp, pc>>
TChanApp == Step("app_open", chanApp' = Set(chanApp), {<<"EXT.AppOpenAfterLayer", chanL2[Ev.inst] \/ sctpUp[Ev.inst]>>})
          /\ UNCHANGED <<mode, id, ice, started, dtlsAct, dtlsKeyed, keys, sctpAct, sctpUp, chanL2, pc>>
TPcConn == Step("pc_conn", pc' = Set(pc),
                {<<"EXT.ConnectedAfterAll", /\ started[Ev.inst]
                                            /\ (Web => dtlsKeyed[Ev.inst])
                                            /\ (mode # "Rtp" => keys[Ev.inst])>>})
          /\ UNCHANGED <<mode, id, ice, started, dtlsAct, dtlsKeyed, keys, sctpAct, sctpUp, chanL2, chanApp>>
\* RTP gate decision: site = outcome
TGate == Step("gate", TRUE,
              {<<"EXT.ProtectedAfterKeys", (Ev.site = "protected") => keys[Ev.inst]>>,
               <<"EXT.ClearOnlyInRtp", (Ev.site = "clear") => mode = "Rtp">>})
          /\ UNCHANGED <<mode, id, ice, started, dtlsAct, dtlsKeyed, keys, sctpAct, sctpUp, chanL2, chanApp, pc>>
TEnd ==
    /\ Is("end")
    /\ PrintT(<<"VERDICT", ToJson([id |-> id, viol |-> viol])>>)
    /\ l' = l + 1
    /\ UNCHANGED <<mode, id, viol, ice, started, dtlsAct, dtlsKeyed, keys, sctpAct, sctpUp, chanL2, chanApp, pc>>

Next == TReset \/ TIceUp \/ TStart \/ TDtlsAct \/ TDtlsKeyed \/ TKeys \/ TSctp \/ TChanL2 \/ TChanApp \/ TPcConn
        \/ TGate \/ TEnd
TraceSpec == Init /\ [][Next]_vars

Furthest == IF l > TLCGet(1) THEN TLCSet(1, l) ELSE TRUE
Accepted == TLCGet(1) = Len(Rec) + 1
Post ==
    IF Accepted THEN PrintT(<<"TRACE", "accepted", Len(Rec)>>)
    ELSE PrintT(<<"TRACE", "rejected", TLCGet(1), ToJson(Rec[TLCGet(1)])>>)
=============================================================================
