SPECIFICATION Spec
CONSTANTS
  Mode = "WebRtc"
  HasDc = TRUE
  Traffic = FALSE
  Deviations = {}
  Props = {"C17"}
  MaxEvents = 1
  PhaseSet = {"created", "offerMade", "gathering", "checking", "iceConnected", "dtlsHandshaking", "dtlsConnected", "sctpConnecting", "channelsOpen", "renegotiating"}
  Ev1Set = {"Close", "Drop", "PeerCloseNotify", "PeerSctpAbort", "PeerSctpShutdown", "IceStop", "SocketLoss", "BlockedSender"}
  WfcBudget = 2
  Answerer = FALSE
  MaxFlaps = 0
  IceFailFallback = TRUE
  Ev2Set = {"Close"}
INVARIANTS TypeOK ReasonSet CloseAtMostOnce
PROPERTIES TerminalIsStable CloseEventually ReportsTerminal LocalEndsClosed NoHang Released
ACTION_CONSTRAINT NoEmit
CHECK_DEADLOCK FALSE
