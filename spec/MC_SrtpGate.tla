---------------------------- MODULE MC_SrtpGate ----------------------------
(* Bounded model + G-bounded replay generator for SrtpGate.tla.            *)
(* Replay is an INVARIANT with a print side effect: one JSON line per      *)
(* maximal behaviour (Len(hist) = MaxLen), carrying for every step the     *)
(* action, the emissions / deliveries the contract expects (exact: EXT)    *)
(* and what property C14 allows in the pre-state (classes per transport,   *)
(* rule name, delivery allowed).  Compact encoding, decoded by gate.rs:    *)
(*   step = <<op, emission, deliveries, awX, awY, rwX, rwY, ad, dx, vid>>  *)
(*   emission   "" | "Xp" | "Xc" | "Yp" | "Yc"   (transport + class)       *)
(*   deliveries string over o(bserver) t(arget observer) b(ridged peer)    *)
(*              l(istener) r(tcp listener)                                 *)
(*   aw*        0 = nothing may leave, 1 = protected only, 2 = anything    *)
(*   rw*        "N" NothingBeforeKeys | "E" NoClearEgress                  *)
(*   ad         1 = C14 allows this step's inbound packet to be delivered  *)
(*   dx         1 = the exact expectation (EXT) is meaningful for the step  *)
(*   vid        1 = inbound RTP of this step carries the video payload type *)
EXTENDS SrtpGate, Json

ClsCode(c) == IF c = "protected" THEN "p" ELSE "c"
SinkCode(s) == CASE s = "obs" -> "o" [] s = "tobs" -> "t" [] s = "bridged" -> "b"
                 [] s = "lst" -> "l" [] s = "rtcp" -> "r"
RECURSIVE Cat(_)
Cat(ss) == IF Len(ss) = 0 THEN "" ELSE ss[1] \o Cat(Tail(ss))
AwCode(S) == IF S = {} THEN 0 ELSE IF S = {"protected"} THEN 1 ELSE 2
RwCode(r) == IF r = "NothingBeforeKeys" THEN "N" ELSE "E"

StepJ(s) == << s.op,
               Cat([i \in 1..Len(s.w) |-> s.w[i].tr \o ClsCode(s.w[i].cls)]),
               Cat([i \in 1..Len(s.d) |-> SinkCode(s.d[i])]),
               AwCode(s.aw["X"]), AwCode(s.aw["Y"]), RwCode(s.rw["X"]), RwCode(s.rw["Y"]),
               IF s.ad THEN 1 ELSE 0, IF s.dx THEN 1 ELSE 0, IF s.vid THEN 1 ELSE 0 >>

Done == Len(hist) = MaxLen
Replay == Done => PrintT(<<"REPLAY", ToJson([rx |-> req["X"], ry |-> req["Y"], rep |-> rep,
                                              h |-> [i \in 1..Len(hist) |-> StepJ(hist[i])]])>>)
NoReplay == TRUE
=============================================================================
