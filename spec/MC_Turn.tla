------------------------------ MODULE MC_Turn ------------------------------
(* Behaviour generator for Turn.tla (check EXT05): every maximal behaviour  *)
(* (ending in Stop or in a failed / hanging allocation) is printed with the  *)
(* request sequence the as-built model predicts for each step.              *)
EXTENDS Turn, Json

EmitRun == Done => PrintT(<<"RUN", ToJson([tr |-> tr, steps |-> hist])>>)
NoEmit  == TRUE
=============================================================================
