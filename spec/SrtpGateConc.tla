---------------------------- MODULE SrtpGateConc ----------------------------
(***************************************************************************)
(* The SRTP gates of RtpTransport with three tasks racing (property C14,   *)
(* "the same operations racing from several tasks").                       *)
(*                                                                         *)
(*   snd : send / send_rtp / send_rtcp / send_rtcp_sync on X               *)
(*   rcv : PacketReceiver::receive on X (incl. the rewrite-bridge path)    *)
(*   ctl : start_srtp on X / Y, bridge_rewrite_to, clear_bridge_rewrite    *)
(*                                                                         *)
(* One step per critical section of the code (src/transports/rtp.rs):      *)
(*   * the session slot is read under `srtp_session.lock()` and released   *)
(*     before protecting/sending in send, send_rtp, receive   (two steps), *)
(*   * send_rtcp, send_rtcp_sync and the bridge fast path decide and       *)
(*     protect while holding the slot's lock, then send       (two steps), *)
(*   * the bridge is a slot (`rewrite_bridge`) plus a flag (`has_bridge`)  *)
(*     written one after the other.                                        *)
(* The step boundaries are the verif::sched points of the hooks (H7); the  *)
(* label a task parks at is `pc` below.                                    *)
(***************************************************************************)
EXTENDS Naturals, Sequences, FiniteSets, TLC

CONSTANTS ReqX, ReqY, MaxGen,
          NSnd, NRcv, NCtl,        \* operations each task may start
          SndOps, RcvOps, CtlOps,  \* alphabets
          Deviations               \* subset of GateNames \cup {"AuthFailOpen"}

VARIABLES req, gen,
          bslot, bflag,            \* rewrite_bridge slot ("None"/"X"/"Y") and has_bridge flag
          closed,                  \* X's listeners were cleared by the close path
          pc, loc, left,           \* per task: label, locals, operations left
          last,                    \* what the step just taken did (emissions, deliveries, allowances)
          hist

vars == <<req, gen, bslot, bflag, closed, pc, loc, left, last, hist>>
view == <<req, gen, bslot, bflag, closed, pc, loc, left>>

Tr == {"X", "Y"}
Task == {"snd", "rcv", "ctl"}
NoLoc == [op |-> "", slot |-> 0, tgt |-> "None", out |-> "", auth |-> "none", unspec |-> FALSE]

Init ==
  /\ req \in [Tr -> BOOLEAN] /\ req["X"] \in ReqX /\ req["Y"] \in ReqY
  /\ gen = [t \in Tr |-> 0]
  /\ bslot = "None" /\ bflag = FALSE /\ closed = FALSE
  /\ pc = [k \in Task |-> "idle"]
  /\ loc = [k \in Task |-> NoLoc]
  /\ left = [snd |-> NSnd, rcv |-> NRcv, ctl |-> NCtl]
  /\ last = [task |-> "", op |-> "", lbl |-> "", w |-> <<>>, d |-> <<>>, aw |-> [t \in Tr |-> {}],
             rw |-> [t \in Tr |-> ""], ad |-> FALSE, start |-> FALSE]
  /\ hist = <<>>

AllowedCls(t) == IF ~req[t] THEN {"protected", "clear"}
                 ELSE IF gen[t] > 0 THEN {"protected"} ELSE {}
EgressRule(t) == IF req[t] /\ gen[t] = 0 THEN "NothingBeforeKeys" ELSE "NoClearEgress"
DeliverAllowed(auth) == ~req["X"] \/ (gen["X"] > 0 /\ auth = "valid")

\* gate decision of transport t, copy g, on a slot value read earlier (or just now)
Decide(t, g, slot) ==
  IF slot > 0 THEN "p" ELSE IF req[t] /\ g \notin Deviations THEN "" ELSE "c"
AcceptOn(slot, auth, g) ==
  IF slot > 0 THEN (auth = "valid" \/ "AuthFailOpen" \in Deviations)
  ELSE IF req["X"] /\ g \notin Deviations THEN FALSE ELSE TRUE
Wire(t, o) == IF o = "" THEN <<>> ELSE <<[tr |-> t, cls |-> IF o = "p" THEN "protected" ELSE "clear"]>>

\* a step of task k: new label, new locals, what it emitted / delivered, whether it started an operation
Took(k, op, lbl, newloc, w, d, auth, start) ==
  /\ pc' = [pc EXCEPT ![k] = lbl]
  /\ loc' = [loc EXCEPT ![k] = IF lbl = "idle" THEN NoLoc ELSE newloc]
  /\ left' = IF start THEN [left EXCEPT ![k] = @ - 1] ELSE left
  /\ last' = [task |-> k, op |-> op, lbl |-> lbl, w |-> w, d |-> d,
              aw |-> [t \in Tr |-> AllowedCls(t)], rw |-> [t \in Tr |-> EgressRule(t)],
              ad |-> IF auth = "none" THEN FALSE ELSE DeliverAllowed(auth), start |-> start]
  \* u: the outcome of this step is not specified (a protected packet taken as plain RTP/RTCP by a transport
  \* without session and without the SRTP requirement parses or not) - the replayer does not compare it exactly
  /\ hist' = Append(hist, [task |-> k, op |-> IF start THEN op ELSE "", lbl |-> lbl, u |-> (~start /\ loc[k].unspec)])

GateOf(op) == CASE op = "S" -> "send" [] op = "SR" -> "send_rtp" [] op = "SC" -> "send_rtcp" [] op = "BYE" -> "sync_bye"

---------------------------------------------------------------------------
(* snd                                                                      *)
SndStart(op) ==
  /\ pc["snd"] = "idle" /\ left["snd"] > 0
  /\ IF op \in {"S", "SR"}
     THEN \* slot read, lock released
          Took("snd", op, "snd.slot", [NoLoc EXCEPT !.op = op, !.slot = gen["X"]], <<>>, <<>>, "none", TRUE)
     ELSE \* send_rtcp / send_rtcp_sync: decision and protection under the slot's lock
          LET o == Decide("X", GateOf(op), gen["X"]) IN
          IF o = "" THEN Took("snd", op, "idle", NoLoc, <<>>, <<>>, "none", TRUE)
          ELSE Took("snd", op, "snd.emit", [NoLoc EXCEPT !.op = op, !.out = o], <<>>, <<>>, "none", TRUE)
  /\ UNCHANGED <<req, gen, bslot, bflag, closed>>

SndSlotToEmit ==   \* send / send_rtp: gate on the snapshot, protect, transport.send
  /\ pc["snd"] = "snd.slot"
  /\ LET o == Decide("X", GateOf(loc["snd"].op), loc["snd"].slot) IN
     Took("snd", loc["snd"].op, "idle", NoLoc, Wire("X", o), <<>>, "none", FALSE)
  /\ UNCHANGED <<req, gen, bslot, bflag, closed>>

SndEmit ==
  /\ pc["snd"] = "snd.emit"
  /\ Took("snd", loc["snd"].op, "idle", NoLoc, Wire("X", loc["snd"].out), <<>>, "none", FALSE)
  /\ UNCHANGED <<req, gen, bslot, bflag, closed>>

---------------------------------------------------------------------------
(* rcv                                                                      *)
AuthOf(op) == IF op \in {"RcR", "RcC"} THEN "clear" ELSE IF op \in {"RvR", "RvC"} THEN "valid" ELSE "forged"
KindOf(op) == IF op \in {"RcC", "RvC", "RfC"} THEN "rtcp" ELSE "rtp"

RcvStart(op, kind, auth) ==    \* slot read
  /\ pc["rcv"] = "idle" /\ left["rcv"] > 0
  /\ Took("rcv", op, IF kind = "rtcp" THEN "rcv.rtcp_slot" ELSE "rcv.rtp_slot",
          [NoLoc EXCEPT !.op = op, !.slot = gen["X"], !.auth = auth,
                        !.unspec = (auth # "clear" /\ gen["X"] = 0 /\ ~req["X"])], <<>>, <<>>, "none", TRUE)
  /\ UNCHANGED <<req, gen, bslot, bflag, closed>>

RcvRtcpGate ==   \* unprotect / gate on the snapshot, then the RTCP listener
  /\ pc["rcv"] = "rcv.rtcp_slot"
  /\ LET a == loc["rcv"].auth IN
     IF AcceptOn(loc["rcv"].slot, a, "recv_rtcp") /\ ~closed
     THEN Took("rcv", loc["rcv"].op, "idle", NoLoc, <<>>, <<"rtcp">>, a, FALSE)
     ELSE Took("rcv", loc["rcv"].op, "idle", NoLoc, <<>>, <<>>, a, FALSE)
  /\ UNCHANGED <<req, gen, bslot, bflag, closed>>

RcvRtpGate ==    \* unprotect / gate on the snapshot, ingress observers; parks before the bridge flag is read
  /\ pc["rcv"] = "rcv.rtp_slot"
  /\ LET a == loc["rcv"].auth IN
     IF AcceptOn(loc["rcv"].slot, a, "recv_rtp")
     THEN Took("rcv", loc["rcv"].op, "rcv.bridge", loc["rcv"], <<>>, <<"obs">>, a, FALSE)
     ELSE Took("rcv", loc["rcv"].op, "idle", NoLoc, <<>>, <<>>, a, FALSE)
  /\ UNCHANGED <<req, gen, bslot, bflag, closed>>

RcvBridge ==     \* has_bridge, then the slot under its lock; otherwise demux to the listener
  /\ pc["rcv"] = "rcv.bridge"
  /\ LET a == loc["rcv"].auth IN
     IF bflag /\ bslot # "None"
     THEN Took("rcv", loc["rcv"].op, "rcv.target", [loc["rcv"] EXCEPT !.tgt = bslot], <<>>, <<>>, a, FALSE)
     ELSE Took("rcv", loc["rcv"].op, "idle", NoLoc, <<>>, IF closed THEN <<>> ELSE <<"lst">>, a, FALSE)
  /\ UNCHANGED <<req, gen, bslot, bflag, closed>>

RcvTarget ==     \* target's egress observers, then decision + protection under the target's slot lock
  /\ pc["rcv"] = "rcv.target"
  /\ LET a == loc["rcv"].auth
         t == loc["rcv"].tgt
         o == Decide(t, "bridge", gen[t]) IN
     IF o = "" THEN Took("rcv", loc["rcv"].op, "idle", NoLoc, <<>>, <<"tobs">>, a, FALSE)
     ELSE Took("rcv", loc["rcv"].op, "rcv.emit", [loc["rcv"] EXCEPT !.out = o], <<>>, <<"tobs">>, a, FALSE)
  /\ UNCHANGED <<req, gen, bslot, bflag, closed>>

RcvEmit ==
  /\ pc["rcv"] = "rcv.emit"
  /\ Took("rcv", loc["rcv"].op, "idle", NoLoc, Wire(loc["rcv"].tgt, loc["rcv"].out), <<"bridged">>, loc["rcv"].auth, FALSE)
  /\ UNCHANGED <<req, gen, bslot, bflag, closed>>

---------------------------------------------------------------------------
(* ctl                                                                      *)
CtlKeys(op, t) ==
  /\ pc["ctl"] = "idle" /\ left["ctl"] > 0 /\ gen[t] < MaxGen
  /\ gen' = [gen EXCEPT ![t] = @ + 1]
  /\ Took("ctl", op, "idle", NoLoc, <<>>, <<>>, "none", TRUE)
  /\ UNCHANGED <<req, bslot, bflag, closed>>

CtlBridgeSlot(op, v) ==     \* *rewrite_bridge.lock() = ...
  /\ pc["ctl"] = "idle" /\ left["ctl"] > 0
  /\ bslot' = v
  /\ Took("ctl", op, "ctl.flag", [NoLoc EXCEPT !.op = op, !.tgt = v], <<>>, <<>>, "none", TRUE)
  /\ UNCHANGED <<req, gen, bflag, closed>>

CtlBridgeFlag ==            \* has_bridge.store(...)
  /\ pc["ctl"] = "ctl.flag"
  /\ bflag' = (loc["ctl"].tgt # "None")
  /\ Took("ctl", loc["ctl"].op, "idle", NoLoc, <<>>, <<>>, "none", FALSE)
  /\ UNCHANGED <<req, gen, bslot, closed>>

\* the close path of PeerConnection run by the control task: clear_listeners, then send_rtcp_sync (decision and
\* protection under the slot's lock; the BYE leaves in a second step)
CtlClose ==
  /\ pc["ctl"] = "idle" /\ left["ctl"] > 0
  /\ closed' = TRUE
  /\ LET o == Decide("X", "sync_bye", gen["X"]) IN
     IF o = "" THEN Took("ctl", "CL", "idle", NoLoc, <<>>, <<>>, "none", TRUE)
     ELSE Took("ctl", "CL", "snd.emit", [NoLoc EXCEPT !.op = "CL", !.out = o], <<>>, <<>>, "none", TRUE)
  /\ UNCHANGED <<req, gen, bslot, bflag>>

CtlCloseEmit ==
  /\ pc["ctl"] = "snd.emit"
  /\ Took("ctl", "CL", "idle", NoLoc, Wire("X", loc["ctl"].out), <<>>, "none", FALSE)
  /\ UNCHANGED <<req, gen, bslot, bflag, closed>>

Next ==
  \/ \E op \in SndOps : SndStart(op)
  \/ SndSlotToEmit \/ SndEmit
  \/ \E op \in RcvOps : RcvStart(op, KindOf(op), AuthOf(op))
  \/ RcvRtcpGate \/ RcvRtpGate \/ RcvBridge \/ RcvTarget \/ RcvEmit
  \/ ("KX" \in CtlOps /\ CtlKeys("KX", "X")) \/ ("KY" \in CtlOps /\ CtlKeys("KY", "Y"))
  \/ ("BX" \in CtlOps /\ CtlBridgeSlot("BX", "X")) \/ ("BY" \in CtlOps /\ CtlBridgeSlot("BY", "Y"))
  \/ ("B0" \in CtlOps /\ CtlBridgeSlot("B0", "None"))
  \/ CtlBridgeFlag
  \/ ("CL" \in CtlOps /\ CtlClose) \/ CtlCloseEmit

Spec == Init /\ [][Next]_vars

---------------------------------------------------------------------------
(* Property C14 for every interleaving: whatever a step puts on the wire or  *)
(* hands to a sink is allowed in the state in which it does so.              *)
\* (action properties: TLC evaluates them on every transition, also into states already seen under the VIEW)
EgressOK == [][ \A i \in DOMAIN last'.w :
                  req[last'.w[i].tr] => (gen[last'.w[i].tr] > 0 /\ last'.w[i].cls = "protected") ]_vars
IngressOK == [][ (req["X"] /\ Len(last'.d) > 0) => last'.ad ]_vars
\* the per-step allowances shipped to the replayer are not looser than that
AllowedInside == [][ /\ \A i \in DOMAIN last'.w : last'.w[i].cls \in last'.aw[last'.w[i].tr]
                     /\ \A t \in Tr : req[t] => (last'.aw[t] \subseteq {"protected"} /\ (gen[t] = 0 => last'.aw[t] = {})) ]_vars

TypeOK ==
  /\ gen \in [Tr -> 0..MaxGen] /\ bslot \in {"None", "X", "Y"} /\ bflag \in BOOLEAN /\ closed \in BOOLEAN
  /\ \A k \in Task : left[k] \in Nat
=============================================================================
