------------------------------- MODULE DcIds -------------------------------
(***************************************************************************)
(* Stream identifiers of data channels (PeerConnection::create_data_channel *)
(* + the DCEP handling of sctp.rs), contract level.                         *)
(*                                                                         *)
(* A channel is a stream id shared by both ends.  Pre-negotiated channels  *)
(* are created by the applications on both sides with an agreed id; an     *)
(* in-band channel gets its id from its creator, which announces it with   *)
(* DCEP OPEN.  The contract of the allocation (the property C12 needs it   *)
(* for "every delivered message equals one submitted message of the same   *)
(* channel" and "a channel opened in-band appears at the peer with the     *)
(* label ... it was created with"):                                        *)
(*   UniqueLive      no two live channels of one side share a stream id;   *)
(*   NoSharedStream  no stream id is used by two different channels        *)
(*                   (one created in-band by each side, or an in-band one  *)
(*                   on the id of a pre-negotiated one).                   *)
(* The allocation is left nondeterministic within these (the code's        *)
(* "lowest free id of the local parity" is one implementation).            *)
(* The named deviation "SinglePassSearch" is a search that walks the live  *)
(* list once (correct only for ascending creation order).                  *)
(*                                                                         *)
(* Actions = application calls: NegBoth(id) (both sides create the         *)
(* negotiated channel id), Inband(side), DropBoth(tag) (both applications  *)
(* give the channel up: its id may be reused), Connect.  Behaviours up to MaxOps calls are the replay         *)
(* programs.                                                               *)
(***************************************************************************)
EXTENDS Naturals, Sequences, FiniteSets, TLC

CONSTANTS Ids, MaxOps, Deviations

Side == {"A", "B"}
Peer(s) == IF s = "A" THEN "B" ELSE "A"

VARIABLES live,      \* [Side -> Seq of [id, kind ("neg" | "ib"), by (creating side), tag, alive]] in creation order
          connected, nextTag, hist
vars == <<live, connected, nextTag, hist>>

LiveOf(s) == {live[s][k] : k \in {j \in 1..Len(live[s]) : live[s][j].alive}}
IdsOf(s) == {c.id : c \in LiveOf(s)}

Init == /\ live = [s \in Side |-> <<>>] /\ connected = FALSE /\ nextTag = 1 /\ hist = <<>>

Bounded == Len(hist) < MaxOps

NegBoth(id) ==
  /\ Bounded
  /\ \A s \in Side : id \notin IdsOf(s)
  /\ ~(\E s \in Side : \E k \in 1..Len(live[s]) : live[s][k].id = id)      \* an id is negotiated once
  /\ live' = [s \in Side |-> Append(live[s], [id |-> id, kind |-> "neg", by |-> "AB", tag |-> nextTag, alive |-> TRUE])]
  /\ nextTag' = nextTag + 1
  /\ hist' = Append(hist, [op |-> "neg", id |-> id, side |-> "AB", k |-> 0])
  /\ UNCHANGED connected

\* the parity of the ids a side allocates once the roles are known (here: A even, B odd)
Parity(s) == IF s = "A" THEN 0 ELSE 1
\* the search of the pinned code / of the deviation, over the creation-ordered list of live channels
RECURSIVE Lowest(_, _)
Lowest(used, id) == IF id \in used THEN Lowest(used, id + 2) ELSE id
SinglePass(s, start) ==
  LET RECURSIVE Walk(_, _)
      Walk(k, id) == IF k > Len(live[s]) THEN id
                     ELSE IF live[s][k].alive /\ live[s][k].id = id THEN Walk(k + 1, id + 2) ELSE Walk(k + 1, id)
  IN Walk(1, start)

Inband(s) ==
  /\ Bounded
  /\ \E id \in Ids :
       /\ (IF "SinglePassSearch" \in Deviations THEN id = SinglePass(s, Parity(s))
           ELSE /\ id \notin IdsOf(s)                                      \* UniqueLive
                /\ id \notin {c.id : c \in LiveOf(Peer(s))}                 \* NoSharedStream
                /\ (connected => id % 2 = Parity(s)))
       /\ live' = [live EXCEPT ![s] = Append(@, [id |-> id, kind |-> "ib", by |-> s, tag |-> nextTag, alive |-> TRUE]),
                               \* the peer learns the channel from the DCEP OPEN
                               ![Peer(s)] = Append(@, [id |-> id, kind |-> "ib", by |-> s, tag |-> nextTag, alive |-> TRUE])]
  /\ nextTag' = nextTag + 1
  /\ hist' = Append(hist, [op |-> "inband", id |-> 0, side |-> s, k |-> 0])
  /\ UNCHANGED connected

\* The applications give a channel up on BOTH sides (close / drop of every handle): only then is its id free
\* again.  A channel dropped on one side only is an inconsistency of the application's own making (the other
\* side still uses the stream); the contract says nothing about it, so the programs do not contain it.
DropBoth(t) ==
  /\ Bounded
  /\ \E s \in Side : \E k \in 1..Len(live[s]) : live[s][k].alive /\ live[s][k].tag = t
  /\ live' = [s \in Side |-> [k \in 1..Len(live[s]) |->
                 IF live[s][k].tag = t THEN [live[s][k] EXCEPT !.alive = FALSE] ELSE live[s][k]]]
  /\ hist' = Append(hist, [op |-> "dropboth", id |-> 0, side |-> "AB", k |-> t])
  /\ UNCHANGED <<connected, nextTag>>

Connect ==
  /\ Bounded /\ ~connected
  /\ LiveOf("A") # {}                    \* the offer needs an application section
  /\ connected' = TRUE
  /\ hist' = Append(hist, [op |-> "connect", id |-> 0, side |-> "AB", k |-> 0])
  /\ UNCHANGED <<live, nextTag>>

Next == (\E id \in Ids : NegBoth(id)) \/ (\E s \in Side : Inband(s)) \/ (\E t \in 1..MaxOps : DropBoth(t)) \/ Connect
Spec == Init /\ [][Next]_vars

UniqueLive == \A s \in Side : \A c, d \in LiveOf(s) : c.id = d.id => c = d
NoSharedStream == \A c \in LiveOf("A") : \A d \in LiveOf("B") : c.id = d.id => c.tag = d.tag
=============================================================================
