SPECIFICATION TraceSpec
INVARIANT Report
POSTCONDITION Consumed
CHECK_DEADLOCK FALSE
