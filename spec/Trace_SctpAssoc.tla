-------------------------- MODULE Trace_SctpAssoc --------------------------
(***************************************************************************)
(* Trace validation for the SCTP association / data channels.              *)
(*                                                                         *)
(* Input (IOEnv.TRACE): ndjson, the events of many recorded scenarios of   *)
(* the mini-stack (hooks of the code under test, the proxy's decrypted     *)
(* wire view, the application's submit / recv events) in global sequence   *)
(* order, normalised by the driver (TSNs relative to the logged initial    *)
(* TSN + 1000, channel indices, tag indices); scenarios are separated by   *)
(* `reset` events.                                                         *)
(*                                                                         *)
(* The log is complete (every handler step of both endpoints is logged),   *)
(* so there is exactly one explanation: the spec is a deterministic        *)
(* monitor that replays the events through the contract's operators        *)
(* (SctpOps: RxData, RxForward, ApplySack) and evaluates the rules of the  *)
(* properties in Props at every step.  A broken rule is recorded in `bad`  *)
(* (property, rule, scenario, event); the replay continues, so one run     *)
(* reports every violation.  Rules beyond the listed properties (the       *)
(* model's prediction of internal state: cumulative ack, deliveries,       *)
(* idempotent set-up) are recorded in `ext` and re-synchronise the model   *)
(* to the logged value.                                                    *)
(***************************************************************************)
EXTENDS SctpOps, Json, IOUtils

CONSTANTS Props

Rec == ndJsonDeserialize(IOEnv.TRACE)
N == Len(Rec)

Side == {"A", "B"}
Peer(s) == IF s = "A" THEN "B" ELSE "A"
Base == 1000                      \* normalised initial TSN
MTU == 1200
MaxNotes == 400
FSE == INSTANCE FiniteSetsExt

VARIABLES
  l,        \* cursor
  sc,       \* current scenario index
  chans,    \* channel specs of the scenario (sequence of records)
  subidx,   \* [Side -> [channel -> trace positions of its submit events]]
  ep,       \* [Side -> endpoint monitor state]
  app,      \* [Side -> application-level history]
  quiet,    \* inside the quiet window
  bad, ext  \* violations of listed properties / drift beyond them

vars == <<l, sc, chans, subidx, ep, app, quiet, bad, ext>>

NCh == Len(chans)
OrdF == [c \in 1..NCh |-> chans[c].ord]

EmptyEp(nch) ==
  [ rx     |-> EmptyRx(nch),
    sq     |-> {},            \* {[tsn, len, acked]}
    nextT  |-> Base,
    rwnd   |-> 0, hasRwnd |-> FALSE,
    since  |-> 0,             \* user bytes of new DATA since the last SACK / T3 was processed
    \* in-flight accounting (rule InFlightWithinWindow): every entry of `sq` carries `fl` - sent or retransmitted
    \* and neither covered by a processed SACK nor taken out of flight by a T3 expiry since; `infl` is the sum
    \* of their user bytes.  `rwndN` is the a_rwnd of the last SACK that was not overtaken (cumulative TSN not
    \* behind `cumHi`, the highest one processed): the code keeps the newer value when a SACK was overtaken.
    infl   |-> 0, rwndN |-> 0, cumHi |-> 0, hasCum |-> FALSE,
    st     |-> "New",
    expDel |-> <<>>,          \* deliveries the model expects the hooks to report: <<[ch, len]>>
    setupRx |-> FALSE,        \* a set-up chunk was received while Connected (until the next snap)
    snapNext |-> 0, snapCum |-> 0, snapTag |-> 0, hasSnap |-> FALSE,
    fragOpen |-> FALSE, fragCh |-> 0, fragSsn |-> 0,   \* the message whose fragments are being given TSNs
    closedCh |-> {},          \* channels whose Close this side has announced: their data is discarded
    closingCh |-> {},         \* channels this side is closing (close call started): whether a message in flight is
                              \* still delivered depends on a race, so they are left out of the EXT comparison
    slackQ |-> 0, slackU |-> 0,   \* differences to the logged queue sizes already reported
    tag    |-> 0 ]            \* own initiate tag (index), 0 = not announced yet
\* Submitted messages are not copied: `subidx` (given by the reset event) lists, per side and
\* channel, the trace positions of the submit events in submission order; message j of (side, channel)
\* is Rec[subidx[side][ch][j]] and counts as submitted once the cursor has passed it.  What has been
\* delivered is kept as the length `np` of the in-order prefix 1..np plus the other indices `extra`
\* (constant work per event on the common path, also for 65 536+ messages on a channel).
EmptyApp(nch) ==
  [ nsub   |-> [c \in 1..nch |-> 0],        \* number of messages submitted so far
    np     |-> [c \in 1..nch |-> 0],
    extra  |-> [c \in 1..nch |-> <<>>],
    opens  |-> [c \in 1..nch |-> 0],
    closes |-> [c \in 1..nch |-> 0],
    announced |-> [c \in 1..nch |-> 0] ]

Note(b, prop, rule, d) ==
  IF Len(b) >= MaxNotes THEN b
  ELSE Append(b, [prop |-> prop, rule |-> rule, sc |-> sc, i |-> Rec[l].i, d |-> d])
\* record a violation of `rule` of property `prop` unless `ok`
Chk(b, ok, prop, rule, d) == IF prop \in Props /\ ~ok THEN Note(b, prop, rule, d) ELSE b
ChkX(x, ok, rule, d) == IF ~ok THEN Note(x, "EXT", rule, d) ELSE x

Init ==
  /\ l = 1 /\ sc = 0 /\ chans = <<>> /\ subidx = [s \in Side |-> <<>>]
  /\ ep = [s \in Side |-> EmptyEp(0)]
  /\ app = [s \in Side |-> EmptyApp(0)]
  /\ quiet = FALSE
  /\ bad = <<>> /\ ext = <<>>

Ev == Rec[l]
Adv == l' = l + 1
IsSide(s) == s \in Side

---------------------------------------------------------------------------
Reset ==
  /\ Ev.e = "reset"
  /\ sc' = Ev.sc /\ chans' = Ev.chans
  /\ subidx' = [s \in Side |-> Ev.subidx[s]]
  /\ ep' = [s \in Side |-> EmptyEp(Len(Ev.chans))]
  /\ app' = [s \in Side |-> EmptyApp(Len(Ev.chans))]
  /\ quiet' = FALSE
  /\ UNCHANGED <<bad, ext>> /\ Adv

---------------------------------------------------------------------------
(* Application level: the properties C01 and C12 speak about these events  *)
Submit ==
  /\ Ev.e = "submit"
  /\ app' = [app EXCEPT ![Ev.s].nsub[Ev.ch] = @ + 1]
  /\ UNCHANGED <<sc, chans, subidx, ep, quiet, bad, ext>> /\ Adv

RelOrd(c) == chans[c].ord /\ chans[c].rel
SeqMax(q) == LET RECURSIVE F(_)
                 F(k) == IF k = 0 THEN 0 ELSE LET m == F(k - 1) IN (IF q[k] > m THEN q[k] ELSE m)
             IN F(Len(q))
InSeq(x, q) == \E k \in 1..Len(q) : q[k] = x

RecvMsg ==
  /\ Ev.e = "recv" /\ Ev.kind = "msg"
  /\ LET s == Ev.s  c == Ev.ch  p == Peer(s)
         n == app[p].nsub[c]                       \* submitted so far by the peer on this channel
         Sub(j) == Rec[subidx[p][c][j]]
         same(j) == Sub(j).len = Ev.len /\ Sub(j).h = Ev.h
         np == app[s].np[c]
         extra == app[s].extra[c]
         k == np + Len(extra) + 1                  \* this is the k-th arrival
         \* common path: everything so far was the in-order prefix and this is the next message
         next == extra = <<>> /\ np + 1 <= n /\ same(np + 1)
         delivered(j) == j <= np \/ InSeq(j, extra)
         cands == {j \in 1..n : same(j)}
         fresh == {j \in cands : ~delivered(j)}
         last == IF SeqMax(extra) > np THEN SeqMax(extra) ELSE np
         after == {j \in fresh : j > last}
         pick == IF next THEN np + 1
                 ELSE IF after # {} THEN CHOOSE j \in after : \A i \in after : j <= i
                 ELSE IF fresh # {} THEN CHOOSE j \in fresh : \A i \in fresh : j <= i
                 ELSE 0
         b1 == Chk(bad, ~RelOrd(c) \/ next, "C01", "PrefixDelivery",
                   [side |-> s, ch |-> c, pos |-> k, len |-> Ev.len])
         b2 == Chk(b1, next \/ cands # {}, "C12", "DeliveredIsSubmitted", [side |-> s, ch |-> c, len |-> Ev.len])
         b3 == Chk(b2, next \/ cands = {} \/ fresh # {}, "C12", "NoDuplicate", [side |-> s, ch |-> c, len |-> Ev.len])
         b4 == Chk(b3, next \/ ~chans[c].ord \/ fresh = {} \/ after # {}, "C12", "OrderedInOrder",
                   [side |-> s, ch |-> c, len |-> Ev.len])
         b5 == Chk(b4, app[s].opens[c] >= 1, "C12", "OpenBeforeMessage", [side |-> s, ch |-> c])
     IN /\ bad' = b5
        \* beyond the statement: nothing is delivered on a channel after its Close was announced
        /\ ext' = ChkX(ext, app[s].closes[c] = 0, "NoMessageAfterClose", [side |-> s, ch |-> c, len |-> Ev.len])
        /\ app' = IF pick = 0 THEN app
                  ELSE IF pick = np + 1 /\ extra = <<>> THEN [app EXCEPT ![s].np[c] = pick]
                  ELSE [app EXCEPT ![s].extra[c] = Append(@, pick)]
  /\ UNCHANGED <<sc, chans, subidx, ep, quiet>> /\ Adv

RecvOpen ==
  /\ Ev.e = "recv" /\ Ev.kind = "open"
  /\ bad' = Chk(bad, app[Ev.s].opens[Ev.ch] = 0, "C12", "OpenOnce", [side |-> Ev.s, ch |-> Ev.ch])
  /\ app' = [app EXCEPT ![Ev.s].opens[Ev.ch] = @ + 1]
  /\ UNCHANGED <<sc, chans, subidx, ep, quiet, ext>> /\ Adv

RecvClose ==
  /\ Ev.e = "recv" /\ Ev.kind = "close"
  /\ bad' = Chk(bad, app[Ev.s].closes[Ev.ch] = 0, "C12", "CloseAtMostOnce", [side |-> Ev.s, ch |-> Ev.ch])
  /\ app' = [app EXCEPT ![Ev.s].closes[Ev.ch] = @ + 1]
  /\ UNCHANGED <<sc, chans, subidx, ep, quiet, ext>> /\ Adv

\* a channel announced in-band appears with the parameters it was created with
NewChan ==
  /\ Ev.e = "newchan"
  /\ LET c == Ev.ch
         ok == /\ c # 0
               /\ ~chans[c].neg /\ chans[c].creator = Peer(Ev.s)
               /\ Ev.label = chans[c].label /\ Ev.proto = chans[c].proto
               /\ Ev.ord = chans[c].ord /\ Ev.mr = chans[c].mr /\ Ev.life = chans[c].life
     IN /\ bad' = Chk(Chk(bad, ok, "C12", "DcepParams", [side |-> Ev.s, ch |-> c]),
                      c = 0 \/ app[Ev.s].announced[c] = 0, "C12", "AnnouncedOnce", [side |-> Ev.s, ch |-> c])
        /\ app' = IF c = 0 THEN app ELSE [app EXCEPT ![Ev.s].announced[c] = @ + 1]
  /\ UNCHANGED <<sc, chans, subidx, ep, quiet, ext>> /\ Adv

---------------------------------------------------------------------------
(* Sender side: tx events of the run loop (C13)                            *)
OnlyControl(types) == \A k \in 1..Len(types) : types[k] \in {3, 4, 5}   \* SACK, HEARTBEAT, HEARTBEAT-ACK

InFl(q) == FSE!MapThenSumSet(LAMBDA x : x.len, {x \in q : x.fl /\ ~x.acked})
WinBound(e) == IF e.rwndN > e.rwnd THEN e.rwndN ELSE e.rwnd
RECURSIVE TxChunks(_, _, _, _)
\* fold the chunks of one outbound packet into (endpoint state, notes)
TxChunks(e, b, cs, k) ==
  IF k > Len(cs) THEN [e |-> e, b |-> b]
  ELSE LET c == cs[k] IN
    IF c.t # 0 THEN TxChunks(e, b, cs, k + 1)
    ELSE IF c.tsn = e.nextT
      THEN \* first transmission with the expected TSN
           LET isB == (c.f \div 2) % 2 = 1
               isE == c.f % 2 = 1
               \* the fragments of one message occupy consecutive TSNs (send_data_raw enqueues them under
               \* one lock): a first fragment only when no message is open, any other fragment only as the
               \* continuation of the open message
               contig == IF isB THEN ~e.fragOpen ELSE (e.fragOpen /\ e.fragCh = c.ch /\ e.fragSsn = c.ssn)
               e2 == [e EXCEPT !.sq = @ \cup {[tsn |-> c.tsn, len |-> c.ulen, ch |-> c.ch, acked |-> FALSE, fl |-> TRUE]},
                               !.nextT = @ + 1, !.since = @ + c.ulen, !.infl = @ + c.ulen,
                               !.fragOpen = ~isE, !.fragCh = c.ch, !.fragSsn = c.ssn]
               b1 == Chk(b, ~e.hasRwnd \/ e2.since <= e.rwnd + MTU, "C13", "NewDataWithinWindow",
                         [tsn |-> c.tsn, since |-> e2.since, rwnd |-> e.rwnd])
               \* the window is exhausted when what is in flight (sent or retransmitted, not acknowledged, not
               \* taken out of flight by a T3 expiry) fills the advertised window: new data may exceed it by
               \* one packet at most - also right after a T3 expiry, whose retransmissions are back in flight
               \* before any new chunk of the same transmit() leaves
               b2 == Chk(b1, ~e.hasRwnd \/ e2.infl <= WinBound(e) + MTU, "C13", "InFlightWithinWindow",
                         [tsn |-> c.tsn, inflight |-> e2.infl, rwnd |-> WinBound(e)])
               b3 == Chk(b2, contig, "C12", "FragmentsContiguous",
                         [tsn |-> c.tsn, ch |-> c.ch, ssn |-> c.ssn, flags |-> c.f, open |-> e.fragOpen, openCh |-> e.fragCh])
           IN TxChunks(e2, b3, cs, k + 1)
    ELSE IF TsnGT(e.nextT, c.tsn)
      THEN \* retransmission: the chunk must still be unacknowledged by every SACK processed so far
           LET live == \E x \in e.sq : x.tsn = c.tsn /\ ~x.acked
               back == {x \in e.sq : x.tsn = c.tsn /\ ~x.acked /\ ~x.fl}    \* back in flight
               e2 == IF back = {} THEN e
                     ELSE [e EXCEPT !.sq = {IF x \in back THEN [x EXCEPT !.fl = TRUE] ELSE x : x \in @},
                                    !.infl = @ + FSE!MapThenSumSet(LAMBDA x : x.len, back)]
           IN TxChunks(e2, Chk(b, live, "C13", "NoRtxAfterAck", [tsn |-> c.tsn]), cs, k + 1)
    ELSE \* a TSN was skipped
           LET e2 == [e EXCEPT !.sq = @ \cup {[tsn |-> c.tsn, len |-> c.ulen, ch |-> c.ch, acked |-> FALSE, fl |-> TRUE]},
                               !.nextT = c.tsn + 1, !.since = @ + c.ulen, !.infl = @ + c.ulen]
           IN TxChunks(e2, Chk(b, FALSE, "C13", "ConsecutiveTsn", [tsn |-> c.tsn, expected |-> e.nextT]), cs, k + 1)

Tx ==
  /\ Ev.e = "tx"
  /\ LET s == Ev.s
         r == TxChunks(ep[s], bad, Ev.chunks, 1)
         types == [k \in 1..Len(Ev.chunks) |-> Ev.chunks[k].t]
         b2 == Chk(r.b, ~quiet \/ OnlyControl(types), "C13", "Quiescent", [side |-> s, types |-> types])
         b3 == Chk(b2, Ev.len <= MTU, "C13", "PacketFitsMtu", [side |-> s, len |-> Ev.len])
     IN /\ ep' = [ep EXCEPT ![s] = r.e]
        /\ bad' = b3
  /\ UNCHANGED <<sc, chans, subidx, app, quiet, ext>> /\ Adv

---------------------------------------------------------------------------
(* Receive side: rx events, one per chunk, before the handler runs         *)
GapSetOf(cum, gaps) == UNION {{cum + k : k \in gaps[j][1]..gaps[j][2]} : j \in 1..Len(gaps)}
StreamSet(st) == {[ch |-> st[j][1], ssn |-> st[j][2]] : j \in {k \in 1..Len(st) : st[k][1] # 0}}

OutToDel(out) == [k \in 1..Len(out) |-> [ch |-> out[k].ch, len |-> MsgLen(out[k].msg)]]
RECURSIVE Without(_, _)
Without(q, cs) == IF q = <<>> THEN <<>>
                  ELSE IF Head(q).ch \in cs THEN Without(Tail(q), cs) ELSE <<Head(q)>> \o Without(Tail(q), cs)

Rx ==
  /\ Ev.e = "rx"
  /\ LET s == Ev.s  e == ep[s]  t == Ev.t IN
     /\ (IF t = 0 THEN  \* DATA
           LET f == [ch |-> IF Ev.ch \in e.closedCh THEN 0 ELSE Ev.ch, ssn |-> Ev.ssn, u |-> Ev.u, b |-> Ev.b, e |-> Ev.en, m |-> 0, i |-> 0,
                     len |-> Ev.ulen, d |-> (Ev.ppid = 50)]
               r == RxData(e.rx, Ev.tsn, f, OrdF)
           IN ep' = [ep EXCEPT ![s].rx = [r EXCEPT !.out = <<>>],
                               ![s].expDel = @ \o Without(OutToDel(r.out), e.closingCh \cup e.closedCh)]
         ELSE IF t = 3 THEN  \* SACK
           LET q2 == ApplySack(e.sq, Ev.cum, GapSetOf(Ev.cum, Ev.gaps))
               overtaken == e.hasCum /\ TsnGT(e.cumHi, Ev.cum)
           IN ep' = [ep EXCEPT ![s].sq = q2, ![s].infl = InFl(q2),
                               ![s].rwnd = Ev.rwnd, ![s].hasRwnd = TRUE, ![s].since = 0,
                               ![s].rwndN = IF overtaken THEN @ ELSE Ev.rwnd,
                               ![s].cumHi = IF overtaken THEN @ ELSE Ev.cum, ![s].hasCum = TRUE]
         ELSE IF t = 192 THEN  \* FORWARD-TSN: move the point, then deliver what became contiguous
           LET r == Drain(RxForward(e.rx, Ev.cum, StreamSet(Ev.streams)), OrdF)
           IN ep' = [ep EXCEPT ![s].rx = [r EXCEPT !.out = <<>>],
                               ![s].expDel = @ \o Without(OutToDel(r.out), e.closingCh \cup e.closedCh)]
         ELSE IF t \in {1, 2} THEN  \* INIT / INIT-ACK: the peer's initial TSN and window
           ep' = [ep EXCEPT ![s].rx = IF e.rx.has THEN @ ELSE [@ EXCEPT !.cum = Ev.tsn - 1, !.has = TRUE],
                            ![s].rwnd = IF e.hasRwnd THEN @ ELSE Ev.rwnd,
                            ![s].rwndN = IF e.hasRwnd THEN @ ELSE Ev.rwnd,
                            ![s].hasRwnd = TRUE,
                            ![s].setupRx = (e.st = "Connected")]
         ELSE IF t \in {10, 11} THEN
           ep' = [ep EXCEPT ![s].setupRx = (e.st = "Connected")]
         ELSE UNCHANGED ep)
  /\ UNCHANGED <<sc, chans, subidx, app, quiet, bad, ext>> /\ Adv

\* internal delivery hook: must be what the model's receive path produced (beyond the listed properties)
DeliverHook ==
  /\ Ev.e = "deliver"
  /\ LET s == Ev.s  q == ep[s].expDel
         ok == Ev.ch \in (ep[s].closingCh \cup ep[s].closedCh) \/ (q # <<>> /\ q[1].ch = Ev.ch /\ q[1].len = Ev.len)
     IN /\ ext' = ChkX(ext, ok, "DeliverMatchesModel", [side |-> s, ch |-> Ev.ch, len |-> Ev.len])
        /\ ep' = [ep EXCEPT ![s].expDel = IF Ev.ch \in (ep[s].closingCh \cup ep[s].closedCh) THEN q ELSE IF ok THEN Tail(q) ELSE <<>>]
  /\ UNCHANGED <<sc, chans, subidx, app, quiet, bad>> /\ Adv

\* what one SACK did to the implementation's retransmission queue (hook sackfx, logged right after the
\* rx event of that SACK, which has already taken the monitor's queue through ApplySack): every chunk it
\* removed must be gone from the monitor's queue too (at or below the cumulative TSN of a processed SACK),
\* every chunk it marked gap-acked must be marked there too (inside a gap block of a processed SACK taken
\* relative to that SACK's own cumulative TSN).  Exact, per TSN, with or without partially reliable channels.
InSet(t, q) == \E k \in 1..Len(q) : q[k] = t
SackFx ==
  /\ Ev.e = "sackfx"
  /\ LET s == Ev.s  e == ep[s]
         badRem == {x \in e.sq : InSet(x.tsn, Ev.removed)}
         badAck == {x \in e.sq : InSet(x.tsn, Ev.acked) /\ ~x.acked}
     IN /\ bad' = Chk(bad, badRem = {} /\ badAck = {}, "C01", "AckedOnlyIfCovered",
                      [side |-> s, removed_uncovered |-> {x.tsn : x \in badRem},
                       gapacked_uncovered |-> {x.tsn : x \in badAck}])
        /\ ep' = IF badRem = {} /\ badAck = {} THEN ep
                 ELSE LET q2 == {IF x \in badAck THEN [x EXCEPT !.acked = TRUE] ELSE x : x \in (e.sq \ badRem)}
                      IN [ep EXCEPT ![s].sq = q2, ![s].infl = InFl(q2)]
  /\ UNCHANGED <<sc, chans, subidx, app, quiet, ext>> /\ Adv

\* chunks given up by abandonment (hook advfx): only chunks of partially reliable channels (or chunks the
\* peer has already acknowledged) may leave the queue this way
AdvFx ==
  /\ Ev.e = "advfx"
  /\ LET s == Ev.s  e == ep[s]
         gone == {x \in e.sq : InSet(x.tsn, Ev.removed)}
         wrong == {x \in gone : ~x.acked /\ (x.ch = 0 \/ chans[x.ch].rel)}
     IN /\ bad' = Chk(bad, wrong = {}, "C01", "AbandonOnlyPartiallyReliable", [side |-> s, tsns |-> {x.tsn : x \in wrong}])
        /\ ep' = [ep EXCEPT ![s].sq = e.sq \ gone, ![s].infl = InFl(e.sq \ gone)]
  /\ UNCHANGED <<sc, chans, subidx, app, quiet, ext>> /\ Adv

ChanHook ==
  /\ Ev.e = "chan"
  /\ ep' = IF Ev.what = "close" /\ Ev.ch # 0 THEN [ep EXCEPT ![Ev.s].closedCh = @ \cup {Ev.ch}]
           ELSE IF Ev.what = "closing" /\ Ev.ch # 0 THEN [ep EXCEPT ![Ev.s].closingCh = @ \cup {Ev.ch}]
           ELSE ep
  /\ UNCHANGED <<sc, chans, subidx, app, quiet, bad, ext>> /\ Adv

T3 ==
  /\ Ev.e = "timer"
  \* a T3 expiry takes every outstanding chunk out of flight (they come back as they are retransmitted)
  /\ ep' = IF Ev.what = "t3" THEN [ep EXCEPT ![Ev.s].since = 0, ![Ev.s].infl = 0,
                                             ![Ev.s].sq = {[x EXCEPT !.fl = FALSE] : x \in @}]
           ELSE ep
  /\ UNCHANGED <<sc, chans, subidx, app, quiet, bad, ext>> /\ Adv

\* state projection logged at the end of each handler: the model's prediction is compared (EXT) and
\* the model adopts the logged value
Snap ==
  /\ Ev.e = "snap"
  /\ LET s == Ev.s  e == ep[s]
         cumOk == ~e.rx.has \/ Ev.at # "rx" \/ e.rx.cum = Ev.cum
         idem == ~(e.setupRx /\ e.hasSnap /\ Ev.at = "rx") \/
                   (Ev.next = e.snapNext /\ Ev.cum = e.snapCum /\ Ev.mytag = e.snapTag)
         x1 == ChkX(ext, cumOk, "CumMatchesModel", [side |-> s, model |-> e.rx.cum, logged |-> Ev.cum])
         x2 == ChkX(x1, idem, "SetupIdempotent", [side |-> s, next |-> Ev.next, was |-> e.snapNext,
                                                  cum |-> Ev.cum, wascum |-> e.snapCum])
         \* (a channel may have been closed by the application between the rx event and the delivery)
         x3 == ChkX(x2, Ev.at # "rx" \/ Without(e.expDel, e.closingCh \cup e.closedCh) = <<>>, "DeliverMatchesModel",
                    [side |-> s, missing |-> Len(e.expDel)])
         \* The sender may stop keeping (or stop retransmitting) a chunk only if a SACK it processed covers
         \* it: at or below that SACK's cumulative TSN, or inside one of its gap blocks taken relative to
         \* that SACK's own cumulative TSN.  The monitor's queue `sq` is the logged tx events minus exactly
         \* that coverage (ApplySack), so the implementation's queue may be larger (it may ignore a stale
         \* SACK) but never smaller.  Without this the property cannot hold for every fault history: a
         \* chunk dropped from the queue unacknowledged is lost for good if its copies in flight are lost.
         \* (Associations with partially reliable channels drop chunks by abandonment as well: skipped.)
         allRel == \A c \in 1..NCh : chans[c].rel
         mQueued == Cardinality(e.sq)
         mUnacked == Cardinality({y \in e.sq : ~y.acked})
         covered == ~allRel \/ (Ev.sentq + e.slackQ >= mQueued /\ Ev.unacked + e.slackU >= mUnacked)
         Gap(a, b) == IF a > b THEN a - b ELSE 0
         r2 == IF e.rx.has /\ Ev.at = "rx" /\ e.rx.cum # Ev.cum
               THEN [e.rx EXCEPT !.cum = Ev.cum, !.rcvd = {x \in @ : TsnGT(x.tsn, Ev.cum)}]
               ELSE e.rx
     IN /\ ext' = x3
        /\ bad' = Chk(bad, covered, "C01", "AckedOnlyIfCovered",
                      [side |-> s, at |-> Ev.at, queued |-> Ev.sentq, unacked |-> Ev.unacked,
                       justified_queued |-> mQueued, justified_unacked |-> mUnacked])
        \* one wrong step is reported once: the difference it left behind is tolerated from then on
        /\ ep' = [ep EXCEPT ![s].rx = r2, ![s].st = Ev.st,
                            ![s].slackQ = IF covered THEN @ ELSE Gap(mQueued, Ev.sentq),
                            ![s].slackU = IF covered THEN @ ELSE Gap(mUnacked, Ev.unacked),
                            ![s].setupRx = IF Ev.at = "rx" THEN FALSE ELSE @,
                            ![s].expDel = IF Ev.at = "rx" THEN <<>> ELSE @,
                            ![s].snapNext = Ev.next, ![s].snapCum = Ev.cum, ![s].snapTag = Ev.mytag,
                            ![s].hasSnap = TRUE]
  /\ UNCHANGED <<sc, chans, subidx, app, quiet>> /\ Adv

---------------------------------------------------------------------------
(* The proxy's view of the wire: every SCTP packet a sender emitted (C13)  *)
Net ==
  /\ Ev.e = "net"
  /\ LET from == Ev.dir  to == Peer(from)
         orig == Ev.act \in {"fwd", "drop", "dup", "hold", "duplate"}     \* not the proxy's own copies
         tagOk == IF Ev.hasinit THEN Ev.vtag = 0
                  ELSE ep[to].tag = 0 \/ Ev.vtag = ep[to].tag
         b1 == Chk(bad, ~orig \/ Ev.len <= MTU, "C13", "PacketFitsMtu", [dir |-> from, len |-> Ev.len])
         b2 == Chk(b1, ~orig \/ (Ev.crc /\ Ev.wf), "C13", "ChecksumCorrect", [dir |-> from])
         b3 == Chk(b2, ~orig \/ tagOk, "C13", "PeerVerificationTag", [dir |-> from, vtag |-> Ev.vtag, want |-> ep[to].tag])
         b4 == Chk(b3, ~orig \/ ~quiet \/ OnlyControl(Ev.types), "C13", "Quiescent", [dir |-> from, types |-> Ev.types])
         \* A SACK acknowledges only what its sender has received (or was told to skip by FORWARD-TSN):
         \* cumulative TSN at most the receiver's in-order point, every gap-acked TSN received.  The monitor's
         \* receiver state can only be ahead of the moment the SACK was built, and "received" only grows,
         \* so correct code never trips this; acknowledging data that did not arrive lets the peer discard
         \* it, which no later retransmission can repair (C01).
         r == ep[from].rx
         sackOk(k) == LET sk == Ev.sacks[k]
                          gs == GapSetOf(sk.cum, sk.gaps)
                      IN /\ (sk.cum = r.cum \/ ~TsnGT(sk.cum, r.cum))
                         /\ \A t \in gs : t = r.cum \/ ~TsnGT(t, r.cum) \/ (\E x \in r.rcvd : x.tsn = t)
         hasSacks == "sacks" \in DOMAIN Ev
         b5 == Chk(b4, ~orig \/ ~r.has \/ ~hasSacks \/ (\A k \in 1..Len(Ev.sacks) : sackOk(k)), "C01", "AcksOnlyReceived",
                   [dir |-> from, have |-> r.cum])
     IN /\ bad' = b5
        \* the initiate tag a side announces is the tag its peer must use from then on
        /\ ep' = IF Ev.itag # 0 /\ ep[from].tag = 0 THEN [ep EXCEPT ![from].tag = Ev.itag] ELSE ep
  /\ UNCHANGED <<sc, chans, subidx, app, quiet, ext>> /\ Adv

---------------------------------------------------------------------------
Mark ==
  /\ Ev.e = "mark"
  /\ quiet' = IF Ev.what = "quiet_begin" THEN TRUE ELSE IF Ev.what = "quiet_end" THEN FALSE ELSE quiet
  /\ UNCHANGED <<sc, chans, subidx, ep, app, bad, ext>> /\ Adv

\* end of scenario: the harness reports whether everything submitted on reliable channels arrived
\* within the deadline after the last fault (C01 liveness clause; confirmed by re-runs in the driver)
End ==
  /\ Ev.e = "end"
  /\ bad' = Chk(bad, Ev.complete \/ Ev.closed, "C01", "EventuallyDelivered", [complete |-> Ev.complete])
  /\ UNCHANGED <<sc, chans, subidx, ep, app, quiet, ext>> /\ Adv

Other ==
  /\ Ev.e \notin {"reset", "submit", "recv", "newchan", "tx", "rx", "deliver", "timer", "snap", "net", "mark", "end",
                 "sackfx", "advfx", "chan"}
  /\ UNCHANGED <<sc, chans, subidx, ep, app, quiet, bad, ext>> /\ Adv

Next ==
  /\ l <= N
  /\ \/ Reset \/ Submit \/ RecvMsg \/ RecvOpen \/ RecvClose \/ NewChan \/ Tx \/ Rx \/ DeliverHook
     \/ SackFx \/ AdvFx \/ ChanHook \/ T3 \/ Snap \/ Net \/ Mark \/ End \/ Other

Spec == Init /\ [][Next]_vars

\* printed once, in the final state; the driver reads these lines
Report ==
  (l = N + 1) =>
     /\ PrintT(<<"BAD", ToJson([bad |-> bad])>>)
     /\ PrintT(<<"EXT", ToJson([ext |-> ext])>>)
     /\ PrintT(<<"CURSOR", ToJson([l |-> l, n |-> N])>>)
=============================================================================
