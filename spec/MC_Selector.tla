----------------------------- MODULE MC_Selector -----------------------------
(* every complete behaviour of Selector.tla, printed as a thread schedule with the label each step must reach *)
EXTENDS Selector, Json
EmitDone == Done => PrintT(<<"SCHED", ToJson([steps |-> hist, got |-> got, stuck |-> (pcC = "c_sleep" /\ asleep)])>>)
=============================================================================
