------------------------- MODULE Trace_LifecyclePair -------------------------
(***************************************************************************)
(* Validation of recorded pc-pair start-ups (one per configuration of the  *)
(* C10 lattice) against LifecyclePair.  The log holds, for BOTH endpoints, *)
(* the H5 hook events (signaling commits, transport start with the DTLS    *)
(* role, DTLS connected, hash of the SRTP keying material per direction,   *)
(* transport loops, Connected publication), the application's view (data   *)
(* channel open / message, RTP received) and the harness's delivery        *)
(* verdicts.  Each event is the step of LifecyclePair it belongs to: the   *)
(* layering guards of that step are structural ("EXT"), the C10 clauses    *)
(* are rules over logged quantities.  Rules are soft (see Trace_Lifecycle).*)
(***************************************************************************)
EXTENDS LifecyclePair, Json, IOUtils

CONSTANTS Props

Rec == ndJsonDeserialize(IOEnv.TRACE)

VARIABLES l, viol, tr

tvars == <<vars, l, viol, tr>>

Ev == Rec[l]
Is(t) == l <= Len(Rec) /\ Rec[l].t = t

Broken(S) == {<<p[1], Ev.t, Ev.inst, Ev.site>> : p \in {q \in S : q[1] \in Props /\ ~q[2]}}
Judge(S) == viol' = viol \cup Broken(S)

\* key hashes are logged as strings; "" = none
FreshTr == [id |-> 0, ktx |-> [s \in Sides |-> ""], krx |-> [s \in Sides |-> ""], started |-> {}, rtpSeen |-> {}]

DefaultCfg == [mode |-> "WebRtc", media |-> {"dc"}, bundle |-> "balanced", muxA |-> "require", muxB |-> "require",
               ice |-> "full", latchingA |-> FALSE, latchingB |-> FALSE, compatA |-> "Standard",
               compatB |-> "Standard", offerer |-> "A", sched |-> "plain", reneg |-> "none"]

Blank(c) ==
    /\ cfg' = c
    /\ sig' = [s \in Sides |-> "Stable"]
    /\ ldesc' = [s \in Sides |-> FALSE] /\ rdesc' = [s \in Sides |-> FALSE]
    /\ ice' = [s \in Sides |-> "New"]
    /\ role' = [s \in Sides |-> "none"]
    /\ dtls' = [s \in Sides |-> "none"]
    /\ keys' = [s \in Sides |-> [tx |-> 0, rx |-> 0]]
    /\ sctp' = [s \in Sides |-> "none"]
    /\ chan' = [s \in Sides |-> "none"]
    /\ peer' = [s \in Sides |-> "New"]
    /\ dcGot' = [s \in Sides |-> FALSE] /\ rtpGot' = [s \in Sides |-> FALSE]
    /\ round' = 1

TraceInit ==
    /\ cfg = DefaultCfg
    /\ sig = [s \in Sides |-> "Stable"]
    /\ ldesc = [s \in Sides |-> FALSE] /\ rdesc = [s \in Sides |-> FALSE]
    /\ ice = [s \in Sides |-> "New"]
    /\ role = [s \in Sides |-> "none"]
    /\ dtls = [s \in Sides |-> "none"]
    /\ keys = [s \in Sides |-> [tx |-> 0, rx |-> 0]]
    /\ sctp = [s \in Sides |-> "none"]
    /\ chan = [s \in Sides |-> "none"]
    /\ peer = [s \in Sides |-> "New"]
    /\ dcGot = [s \in Sides |-> FALSE] /\ rtpGot = [s \in Sides |-> FALSE]
    /\ round = 1
    /\ l = 1 /\ viol = {} /\ tr = FreshTr
    /\ TLCSet(1, 1)

Consume == l' = l + 1

MediaOf(r) == (IF r.b1 THEN {"dc"} ELSE {}) \cup (IF r.b2 THEN {"audio"} ELSE {}) \cup (IF r.b3 THEN {"video"} ELSE {})

\* reset: the configuration record of this run (the lattice point)
TReset ==
    /\ Is("reset")
    \* evs = <<reneg, muxA, muxB, compatA, compatB, latchingA, latchingB>>
    /\ LET c == [mode |-> Ev.site, media |-> MediaOf(Ev), bundle |-> Ev.x, muxA |-> Ev.evs[2], muxB |-> Ev.evs[3],
                 ice |-> Ev.peer, latchingA |-> (Ev.evs[6] = "T"), latchingB |-> (Ev.evs[7] = "T"),
                 compatA |-> Ev.evs[4], compatB |-> Ev.evs[5], offerer |-> Ev.inst,
                 sched |-> IF Ev.m = 1 THEN "slowSetRemote" ELSE "plain", reneg |-> Ev.evs[1]]
       IN /\ Blank(c)
          /\ viol' = Broken({<<"C10.Lattice", Compatible(c)>>})
    /\ tr' = [FreshTr EXCEPT !.id = Ev.n]
    /\ Consume

\* signaling commits, in JSEP order (LifecyclePair's four actions)
TSig ==
    /\ Is("sig")
    /\ \/ Ev.site = "local.offer" /\ Ev.inst = Off /\ SetLocalOffer
       \/ Ev.site = "remote.offer" /\ Ev.inst = Ans /\ SetRemoteOffer
       \/ Ev.site = "local.answer" /\ Ev.inst = Ans /\ SetLocalAnswer
       \/ Ev.site = "remote.answer" /\ Ev.inst = Off /\ SetRemoteAnswer
       \* second round (renegotiation): the same four commits, started by either side
       \/ Ev.site = "local.offer" /\ Ev.inst = RSide /\ RenegLocalOffer
       \/ Ev.site = "remote.offer" /\ Ev.inst = OSide /\ RenegRemoteOffer
       \/ Ev.site = "local.answer" /\ Ev.inst = OSide /\ RenegLocalAnswer
       \/ Ev.site = "remote.answer" /\ Ev.inst = RSide /\ RenegRemoteAnswer
    /\ Judge({<<"EXT", sig'[Ev.inst] = Ev.sig>>})
    /\ UNCHANGED tr /\ Consume

\* transport start as the connected-state handler logs it: DTLS role, or "nodtls" in the direct modes
TStartTransport ==
    /\ Is("start_transport")
    /\ LET s == Ev.inst
           r == IF Ev.site = "nodtls" THEN "none" ELSE Ev.site
       IN /\ role' = [role EXCEPT ![s] = r]
          /\ ice' = [ice EXCEPT ![s] = "Connected"]
          /\ dtls' = [dtls EXCEPT ![s] = IF IsWeb THEN "handshaking" ELSE @]
          /\ sctp' = [sctp EXCEPT ![s] = IF HasDc THEN "connecting" ELSE @]
          /\ Judge({<<"C10.Roles", (IsWeb /\ role[Other(s)] # "none") => r # role[Other(s)]>>,
                    <<"C10.Roles", IsWeb <=> r \in {"client", "server"}>>,
                    <<"EXT", rdesc[s] \/ cfg.sched = "slowSetRemote">>})
    /\ tr' = [tr EXCEPT !.started = @ \cup {Ev.inst}]
    /\ UNCHANGED <<cfg, sig, ldesc, rdesc, keys, chan, peer, dcGot, rtpGot, round>>
    /\ Consume

TDtlsConnected ==
    /\ Is("dtls_connected")
    /\ dtls' = [dtls EXCEPT ![Ev.inst] = "connected"]
    /\ Judge({<<"EXT", IsWeb /\ dtls[Ev.inst] = "handshaking">>})
    /\ UNCHANGED <<cfg, sig, ldesc, rdesc, ice, role, keys, sctp, chan, peer, dcGot, rtpGot, round>>
    /\ UNCHANGED tr /\ Consume

\* keying material installed: x = hash of the send key, reason = hash of the receive key
TKeys ==
    /\ Is("srtp_keys")
    /\ LET s == Ev.inst
           o == Other(Ev.inst)
       IN /\ tr' = [tr EXCEPT !.ktx[s] = Ev.x, !.krx[s] = Ev.reason]
          /\ keys' = [keys EXCEPT ![s] = [tx |-> 1, rx |-> 1]]
          /\ Judge({<<"C10.Keys", Ev.x # Ev.reason>>,
                    <<"C10.Keys", tr.ktx[o] # "" => (tr.ktx[o] = Ev.reason /\ tr.krx[o] = Ev.x)>>,
                    <<"C10.Keys", cfg.mode # "Rtp">>,
                    <<"EXT", IsWeb => dtls[s] = "connected">>,
                    <<"EXT", (cfg.mode = "Srtp") => (ldesc[s] /\ rdesc[s])>>})
    /\ UNCHANGED <<cfg, sig, ldesc, rdesc, ice, role, dtls, sctp, chan, peer, dcGot, rtpGot, round>>
    /\ Consume

\* Connected publication of one side
TPubConnected ==
    /\ Is("pub") /\ Ev.site = "conn.connected"
    /\ peer' = [peer EXCEPT ![Ev.inst] = "Connected"]
    /\ Judge({<<"EXT", Ev.inst \in tr.started>>,
              <<"EXT", IsWeb => dtls[Ev.inst] = "connected">>,
              <<"C10.Keys", (cfg.mode # "Rtp") => tr.ktx[Ev.inst] # "">>})
    /\ UNCHANGED <<cfg, sig, ldesc, rdesc, ice, role, dtls, keys, sctp, chan, dcGot, rtpGot, round>>
    /\ UNCHANGED tr /\ Consume

TPubOther ==
    /\ Is("pub") /\ Ev.site # "conn.connected"
    /\ peer' = [peer EXCEPT ![Ev.inst] = IF Ev.peer = "Failed" THEN "Failed" ELSE @]
    /\ Judge({<<"C10.Connected", Ev.peer \notin {"Failed", "Disconnected"}>>})
    /\ UNCHANGED <<cfg, sig, ldesc, rdesc, ice, role, dtls, keys, sctp, chan, dcGot, rtpGot, round>>
    /\ UNCHANGED tr /\ Consume

TDcOpen ==
    /\ Is("dc_open")
    /\ chan' = [chan EXCEPT ![Ev.inst] = "open"]
    /\ sctp' = [sctp EXCEPT ![Ev.inst] = "established"]
    /\ Judge({<<"EXT", HasDc /\ (IsWeb => dtls[Ev.inst] = "connected")>>})
    /\ UNCHANGED <<cfg, sig, ldesc, rdesc, ice, role, dtls, keys, peer, dcGot, rtpGot, round>>
    /\ UNCHANGED tr /\ Consume

\* delivery verdicts of the harness: b1 = arrived, b2 = byte-identical to what was sent
TDcDelivery ==
    /\ Is("dc_delivery")
    /\ dcGot' = [dcGot EXCEPT ![Ev.inst] = Ev.b1]
    /\ Judge({<<"C10.DcDelivery", Ev.b1>>, <<"EXT", Ev.b1 => chan[Ev.inst] = "open">>,
              <<"EXT", (Ev.n = 2) <=> (round = 5)>>})
    /\ UNCHANGED <<cfg, sig, ldesc, rdesc, ice, role, dtls, keys, sctp, chan, peer, rtpGot, round>>
    /\ UNCHANGED tr /\ Consume

TRtpDelivery ==
    /\ Is("rtp_delivery")
    /\ rtpGot' = [rtpGot EXCEPT ![Ev.inst] = (Ev.b1 /\ Ev.b2) /\ (Ev.inst \in tr.rtpSeen => @)]
    /\ Judge({<<"C10.RtpDelivery", Ev.b1>>, <<"C10.RtpIntact", Ev.b1 => Ev.b2>>,
              <<"EXT", Ev.b1 => peer[Ev.inst] = "Connected">>,
              <<"EXT", (Ev.n = 2) <=> (round = 5)>>})
    /\ UNCHANGED <<cfg, sig, ldesc, rdesc, ice, role, dtls, keys, sctp, chan, peer, dcGot, round>>
    /\ tr' = [tr EXCEPT !.rtpSeen = @ \cup {Ev.inst}] /\ Consume

\* the harness's verdict on the second offer/answer round: b1 = all six calls succeeded, b2 = both sides still Connected
TReneg ==
    /\ Is("reneg")
    /\ Judge({<<"C10.Reneg", Ev.b1>>, <<"C10.Reneg", Ev.b2>>, <<"C10.Reneg", StaysConnected>>,
              <<"EXT", Ev.b1 => round = 5>>})
    /\ tr' = [tr EXCEPT !.rtpSeen = {}]
    /\ UNCHANGED vars /\ Consume

\* end: b1 = signalling succeeded, b2 = both sides Connected within the bound, b3 = resources released
TEnd ==
    /\ Is("end")
    /\ LET v == viol \cup Broken({<<"C10.Signaling", Ev.b1>>,
                                   <<"C10.Connected", Ev.b2>>,
                                   <<"C10.Connected", Ev.b2 => \A s \in Sides : peer[s] = "Connected">>,
                                   <<"C10.Roles", Ev.b2 => RolesComplementary>>,
                                   <<"C10.DcDelivery", (Ev.b2 /\ HasDc) => \A s \in Sides : dcGot[s]>>,
                                   <<"C10.RtpDelivery", (Ev.b2 /\ HasMedia) => \A s \in Sides : rtpGot[s]>>,
                                   <<"C10.Reneg", (Ev.b2 /\ cfg.reneg # "none") => round = 5>>,
                                   <<"EXT", Ev.b3>>})
       IN /\ viol' = v
          /\ PrintT(<<"VERDICT", ToJson([id |-> tr.id, viol |-> v])>>)
    /\ UNCHANGED vars /\ UNCHANGED tr /\ Consume

TraceNext ==
    \/ TReset \/ TSig \/ TStartTransport \/ TDtlsConnected \/ TKeys \/ TPubConnected \/ TPubOther
    \/ TDcOpen \/ TDcDelivery \/ TRtpDelivery \/ TReneg \/ TEnd

TraceSpec == TraceInit /\ [][TraceNext]_tvars

Furthest == IF l > TLCGet(1) THEN TLCSet(1, l) ELSE TRUE
Accepted == TLCGet(1) = Len(Rec) + 1
Post ==
    IF Accepted THEN PrintT(<<"TRACE", "accepted", Len(Rec)>>)
    ELSE PrintT(<<"TRACE", "rejected", TLCGet(1), ToJson(Rec[TLCGet(1)])>>)
=============================================================================
