SPECIFICATION Spec
CONSTANTS
  Pres = {"fresh", "offerer", "answerer"}
  Modes = {"WebRtc", "Srtp", "Rtp"}
  LocalClasses = {"fresh", "changed", "unchanged"}
  RemoteClasses = {"fresh", "changed", "unchanged", "nofp", "badalg", "mid65535"}
  MaxLen = 3
  Deviations = {}
VIEW progView
INVARIANTS TypeOK SlotsConsistent EmitProgram
PROPERTIES TableConformance FailureAtomic ClosedIsTerminal
ACTION_CONSTRAINT NoEmit
CHECK_DEADLOCK FALSE
