-------------------------------- MODULE Ring --------------------------------
(***************************************************************************)
(* Track sample queue of rustrtc (property C20):                           *)
(*   src/media/spsc.rs   lock-free single-producer/single-consumer ring    *)
(*   src/media/track.rs  SampleStreamSource (send / try_send / send_many / *)
(*                       Clone / Drop), SampleStreamTrack (recv / stop)    *)
(*                                                                         *)
(* One action per atomic step of the code.  The value of pc[p] is exactly  *)
(* the label of the `crate::verif::sched(label)` point at which the real   *)
(* thread is parked (hooks H1), or one of the harness-level labels         *)
(*   "call"      between two API calls of the thread's program             *)
(*   "h_release" about to give up the thread's source handle               *)
(*   "c_sleep"   the consumer's recv() future returned Pending             *)
(*   "done"                                                                *)
(* so that a behaviour of this specification is a thread schedule that the *)
(* baton scheduler of harness/src/bin/ring.rs executes step by step on the *)
(* real objects, comparing label, queue indices, flags, lock states, wake  *)
(* state, live payload buffers and call results after every step.          *)
(*                                                                         *)
(* Local computation (full? / empty? tests, kind checks) is merged into    *)
(* the preceding shared-memory access.  The memory model is sequential     *)
(* consistency: weak-memory reorderings are outside this specification.    *)
(*                                                                         *)
(* tokio::sync::Notify (1.53) as used by track.rs:                         *)
(*   notify_one      wakes the registered waiter, or stores ONE permit     *)
(*   notify_waiters  wakes the waiters registered now, bumps a generation  *)
(*                   counter, stores NO permit                             *)
(*   notified()      remembers the generation at creation; its first poll  *)
(*                   completes if the generation moved since, else if a    *)
(*                   permit can be consumed, else registers and sleeps     *)
(*                                                                         *)
(* Deviations (CONSTANT) name what the pinned tree did differently:        *)
(*   "UnserialisedProducers"  no producer-side lock around the push path   *)
(*   "NotifiedAfterCheck"     recv() creates notified() only after it has  *)
(*                            looked at the queue and the closed flag      *)
(*   "ClosedCheckAfterPop"    recv() reads source_closed after pop() found *)
(*                            the queue empty (a push + close in between   *)
(*                            is then reported as end-of-stream)           *)
(* With Deviations = {} every property below holds.                        *)
(***************************************************************************)
EXTENDS Naturals, Integers, Sequences, FiniteSets, TLC

CONSTANTS
  Cap,         \* ring capacity (>= 1)
  Prog,        \* [producer id (1..N) -> sequence of ops]; op \in {"send","try","many","clone"}
  Shared,      \* TRUE: all producers push through ONE handle held in an Arc; FALSE: one clone each
  NoDrop,      \* producers that keep their handle alive until teardown
  UseStop,     \* TRUE: a stopper thread calls SampleStreamTrack::stop()
  Variant,     \* "track": SampleStreamSource / SampleStreamTrack (track.rs)
               \* "chan":  SampleQueueSender / SampleQueueReceiver (pipeline.rs) -- same ring, same Notify; one sender
               \*          shared through an Arc (Shared = TRUE, no clone op, no sender count), no ended flag / stop(),
               \*          recv() = lock, pop, closed? | notified(), is_empty && !closed ? await; Receiver::drop closes
  CMax,        \* "chan": the consumer drops the receiver after CMax recv() calls (0 = it goes on until end-of-stream)
  NCons,       \* 1 or 2 consumer threads calling recv() on the same track (recv takes &self; "chan": &mut self, so 1)
  CCancel,     \* how often a consumer may drop its pending recv() future (only possible at the await) and call again
  Deviations

VARIABLES
  head, tail, slot,            \* ring indices; slot[i]: 0 uninit, s > 0 holds sample s, -s moved-out copy of s
  plock, poplock,              \* owner of the producer lock / pop lock (0 = free)
  closed, ended, active, arc,  \* source_closed, track ended, active_senders, Arc strong count of the shared handle
  permit, gen, waiting, cgen,  \* Notify: stored permit, notify_waiters generation, registered waiters (oldest first), generation seen by
  wby,                         \* each consumer's notified(); how a sleeping consumer was woken ("one" / "all"): a Notified dropped after
                               \* notify_one reached it passes the notification on (next waiter, else a permit)
  pc, loc,                     \* per thread: label, locals
  created, freed, dropped,     \* ghost: payload buffers allocated / freed; samples legitimately discarded (overflow, rejected)
  received, cres,              \* ghost: samples returned by recv() in order; last recv() result
  err, torn, stopped,          \* ghost: memory errors; teardown done; stop() has started
  who                          \* last thread that stepped (bookkeeping, not part of the state identity)

C == 100                       \* (first) consumer thread
S == 200                       \* stopper thread
Prods == DOMAIN Prog
Cons  == IF NCons = 2 THEN {C, C + 1} ELSE {C}
Procs == Prods \cup Cons \cup (IF UseStop THEN {S} ELSE {})

ringv  == <<head, tail, slot>>
lockv  == <<plock, poplock>>
srcv   == <<closed, ended, active, arc>>
notv   == <<permit, gen, waiting, cgen, wby>>
ghostv == <<created, freed, dropped, received, cres, err, torn, stopped>>
vars   == <<ringv, lockv, srcv, notv, pc, loc, ghostv, who>>
view   == <<ringv, lockv, srcv, notv, pc, loc, ghostv>>

Chan        == Variant = "chan"
Locked      == "UnserialisedProducers" \notin Deviations
NotifBefore == Chan \/ "NotifiedAfterCheck" \notin Deviations      \* pipeline.rs always had this right
ClosedFirst == "ClosedCheckAfterPop" \notin Deviations

Loc0 == [lt |-> 0, lh |-> 0, ph |-> 0, pt |-> 0, got |-> 0, cur |-> 0, phase |-> 0, mleft |-> 0,
         opi |-> 1, k |-> 0, hmode |-> "own", fin |-> FALSE, res |-> "", eos |-> FALSE, cl |-> FALSE]

Sid(p, k) == p * 10 + k                     \* sample k of producer p
ProdOf(s) == s \div 10

Init ==
  /\ head = 0 /\ tail = 0 /\ slot = [i \in 0..Cap-1 |-> 0]
  /\ plock = 0 /\ poplock = 0
  /\ closed = FALSE /\ ended = FALSE
  /\ active = (IF Shared THEN 1 ELSE Cardinality(Prods))
  /\ arc = (IF Shared THEN Cardinality(Prods) ELSE 0)
  /\ permit = FALSE /\ gen = 0 /\ waiting = <<>> /\ cgen = [c \in Cons |-> 0] /\ wby = [c \in Cons |-> ""]
  /\ pc = [p \in Procs |-> IF p \in Prods /\ Len(Prog[p]) = 0
                           THEN (IF p \in NoDrop THEN "done" ELSE "h_release") ELSE "call"]
  /\ loc = [p \in Procs |-> [Loc0 EXCEPT !.hmode = IF Shared THEN "arc" ELSE "own",
                                         !.fin = (p \in Prods /\ Len(Prog[p]) = 0)]]
  /\ created = {} /\ freed = {} /\ dropped = {} /\ received = <<>> /\ cres = [c \in Cons |-> "none"]
  /\ err = {} /\ torn = FALSE /\ stopped = FALSE
  /\ who = 0

---------------------------------------------------------------------------
(* helpers *)

Goto(p, l)    == pc' = [pc EXCEPT ![p] = l]
SetLoc(p, r)  == loc' = [loc EXCEPT ![p] = r]
L(p)          == loc[p]
Op(p)         == Prog[p][L(p).opi]

\* free a set of payload buffers (id 0 = nothing)
Free(X) ==
  LET Y == X \ {0} IN
  /\ freed' = freed \cup Y
  /\ err' = err \cup (IF Y \cap freed # {} THEN {"double_free"} ELSE {})
FreeAnd(X, E) ==
  LET Y == X \ {0} IN
  /\ freed' = freed \cup Y
  /\ err' = err \cup E \cup (IF Y \cap freed # {} THEN {"double_free"} ELSE {})

InSeq(x, q) == \E i \in 1..Len(q) : q[i] = x
Without(q, x) == SelectSeq(q, LAMBDA y : y # x)
Asleep(c) == InSeq(c, waiting)                 \* registered and not yet notified

\* wake the oldest registered waiter, or store one permit
NotifyOneFrom(q) ==
  IF q # <<>> THEN waiting' = Tail(q) /\ wby' = [wby EXCEPT ![Head(q)] = "one"] /\ UNCHANGED <<permit, gen, cgen>>
  ELSE waiting' = q /\ permit' = TRUE /\ UNCHANGED <<gen, cgen, wby>>
NotifyOne == NotifyOneFrom(waiting)
NotifyWaiters ==
  /\ waiting' = <<>> /\ gen' = gen + 1
  /\ wby' = [c \in Cons |-> IF Asleep(c) THEN "all" ELSE wby[c]]
  /\ UNCHANGED <<permit, cgen>>

\* where a producer goes when the current API call returns with result r (locals record lr)
\* send_many keeps iterating inside the same call while samples are left.
NextOpPc(p, opi) ==
  IF opi > Len(Prog[p]) THEN (IF p \in NoDrop THEN "done" ELSE "h_release") ELSE "call"

Return(p, lr, r) ==
  IF lr.mleft > 0 /\ r = "Ok"
  THEN /\ SetLoc(p, [lr EXCEPT !.mleft = @ - 1, !.cur = Sid(p, lr.k - lr.mleft + 1), !.phase = 0, !.res = r])
       /\ Goto(p, "src_closed")
  ELSE /\ SetLoc(p, [lr EXCEPT !.opi = @ + 1, !.res = r, !.phase = 0, !.mleft = 0,
                               !.fin = (lr.opi + 1 > Len(Prog[p]))])
       /\ Goto(p, NextOpPc(p, lr.opi + 1))

\* after the push section: release the producer lock if there is one, else the call returns
AfterPush(p, lr, r) ==
  IF Locked THEN SetLoc(p, [lr EXCEPT !.res = r]) /\ Goto(p, "src_unlock")
  ELSE Return(p, lr, r)

\* samples still owned by a send_many iterator
Rest(p, lr) == {Sid(p, lr.k - j) : j \in 0..(lr.mleft - 1)}

---------------------------------------------------------------------------
(* producer: API call entry *)

Call(p) ==
  /\ p \in Prods /\ pc[p] = "call"
  /\ LET op == Op(p) IN
     \/ /\ op \in {"send", "try"}
        /\ SetLoc(p, [L(p) EXCEPT !.k = @ + 1, !.cur = Sid(p, L(p).k + 1), !.phase = 0, !.mleft = 0, !.res = ""])
        /\ created' = created \cup {Sid(p, L(p).k + 1)}
        /\ Goto(p, "src_closed")
     \/ /\ op = "many"
        /\ SetLoc(p, [L(p) EXCEPT !.k = @ + 2, !.cur = Sid(p, L(p).k + 1), !.phase = 0, !.mleft = 1, !.res = ""])
        /\ created' = created \cup {Sid(p, L(p).k + 1), Sid(p, L(p).k + 2)}
        /\ Goto(p, "src_closed")
     \/ /\ op = "clone"
        /\ SetLoc(p, [L(p) EXCEPT !.res = ""])
        /\ Goto(p, "clone_add")
        /\ UNCHANGED created
  /\ UNCHANGED <<ringv, lockv, srcv, notv, freed, dropped, received, cres, err, torn, stopped>>

\* if self.source_closed.load() { return Err(Closed) }
SrcClosed(p) ==
  /\ p \in Prods /\ pc[p] = "src_closed"
  /\ IF closed
     THEN /\ Free({L(p).cur} \cup Rest(p, L(p)))
          /\ dropped' = dropped \cup {L(p).cur} \cup Rest(p, L(p))
          /\ Return(p, [L(p) EXCEPT !.cur = 0, !.mleft = 0], "Closed")
     ELSE /\ Goto(p, IF Locked THEN "src_lock" ELSE "push_lt")
          /\ UNCHANGED <<loc, freed, err, dropped>>
  /\ UNCHANGED <<ringv, lockv, srcv, notv, created, received, cres, torn, stopped>>

\* let _push_guard = self.push_lock.lock();
SrcLock(p) ==
  /\ p \in Prods /\ pc[p] = "src_lock" /\ plock = 0
  /\ plock' = p /\ Goto(p, "push_lt")
  /\ UNCHANGED <<ringv, poplock, srcv, notv, loc, ghostv>>

---------------------------------------------------------------------------
(* SpscRing::push *)

PushLt(p) ==
  /\ p \in Prods /\ pc[p] = "push_lt"
  /\ SetLoc(p, [L(p) EXCEPT !.lt = tail]) /\ Goto(p, "push_lh")
  /\ UNCHANGED <<ringv, lockv, srcv, notv, ghostv>>

\* let head = head.load(); if tail.wrapping_sub(head) >= capacity { return Err(value) }
PushLh(p) ==
  /\ p \in Prods /\ pc[p] = "push_lh"
  /\ LET full == (L(p).lt < head) \/ (L(p).lt - head >= Cap)      \* wrapping_sub of a smaller tail is huge
         lr   == [L(p) EXCEPT !.lh = head] IN
     IF ~full
     THEN /\ SetLoc(p, lr) /\ Goto(p, "push_w") /\ UNCHANGED <<freed, err, dropped>>
     ELSE IF Op(p) = "try" /\ Chan /\ Locked
     THEN \* SampleQueueSender::try_send hands the sample back (Err(sample)): it is still alive while the guard drops
          /\ AfterPush(p, lr, "WouldBlock") /\ UNCHANGED <<freed, err, dropped>>
     ELSE IF Op(p) = "try"
     THEN /\ Free({lr.cur}) /\ dropped' = dropped \cup {lr.cur}
          /\ AfterPush(p, [lr EXCEPT !.cur = 0], "WouldBlock")
     ELSE IF lr.phase = 0
     THEN /\ SetLoc(p, lr) /\ Goto(p, "src_trylock") /\ UNCHANGED <<freed, err, dropped>>
     ELSE /\ Free({lr.cur}) /\ dropped' = dropped \cup {lr.cur}               \* second push failed too
          /\ SetLoc(p, [lr EXCEPT !.cur = 0, !.res = "Ok"]) /\ Goto(p, "src_popunlock")
  /\ UNCHANGED <<ringv, lockv, srcv, notv, created, received, cres, torn, stopped>>

\* (*buffer[idx].get()).write(value)   -- does not drop what the slot held
PushW(p) ==
  /\ p \in Prods /\ pc[p] = "push_w"
  /\ LET i == L(p).lt % Cap IN
     /\ slot' = [slot EXCEPT ![i] = L(p).cur]
     /\ err' = err \cup (IF slot[i] > 0 THEN {"overwrite_leak"} ELSE {})
  /\ SetLoc(p, [L(p) EXCEPT !.cur = 0]) /\ Goto(p, "push_st")
  /\ UNCHANGED <<head, tail, lockv, srcv, notv, created, freed, dropped, received, cres, torn, stopped>>

PushSt(p) ==
  /\ p \in Prods /\ pc[p] = "push_st"
  /\ tail' = L(p).lt + 1
  /\ Goto(p, "src_notify")
  /\ UNCHANGED <<head, slot, lockv, srcv, notv, loc, ghostv>>

\* self.notify.notify_one()
SrcNotify(p) ==
  /\ p \in Prods /\ pc[p] = "src_notify"
  /\ NotifyOne
  /\ IF L(p).phase = 1
     THEN SetLoc(p, [L(p) EXCEPT !.res = "Ok"]) /\ Goto(p, "src_popunlock")
     ELSE AfterPush(p, L(p), "Ok")
  /\ UNCHANGED <<ringv, lockv, srcv, ghostv>>

---------------------------------------------------------------------------
(* drop-oldest path of try_send_drop_oldest *)

\* match self.pop_lock.try_lock() { Some(g) => g, None => return Ok(()) }
SrcTrylock(p) ==
  /\ p \in Prods /\ pc[p] = "src_trylock"
  /\ IF poplock = 0
     THEN /\ poplock' = p /\ Goto(p, "pop_lh") /\ UNCHANGED <<loc, freed, err, dropped>>
     ELSE /\ Free({L(p).cur}) /\ dropped' = dropped \cup {L(p).cur}
          /\ AfterPush(p, [L(p) EXCEPT !.cur = 0], "Ok")
          /\ UNCHANGED poplock
  /\ UNCHANGED <<ringv, plock, srcv, notv, created, received, cres, torn, stopped>>

\* drop of the pop guard
SrcPopunlock(p) ==
  /\ p \in Prods /\ pc[p] = "src_popunlock"
  /\ poplock' = 0
  /\ AfterPush(p, L(p), "Ok")
  /\ UNCHANGED <<ringv, plock, srcv, notv, ghostv>>

\* drop of the producer guard; the call returns
SrcUnlock(p) ==
  /\ p \in Prods /\ pc[p] = "src_unlock"
  /\ plock' = 0
  /\ Free({L(p).cur}) /\ dropped' = dropped \cup ({L(p).cur} \ {0})        \* a sample handed back to the caller
  /\ Return(p, [L(p) EXCEPT !.cur = 0], L(p).res)
  /\ UNCHANGED <<ringv, poplock, srcv, notv, created, received, cres, torn, stopped>>

---------------------------------------------------------------------------
(* SpscRing::pop -- by the consumer (inside recv) or by a producer (drop-oldest) *)

PopLh(p) ==
  /\ pc[p] = "pop_lh"
  /\ SetLoc(p, [L(p) EXCEPT !.ph = head]) /\ Goto(p, "pop_lt")
  /\ UNCHANGED <<ringv, lockv, srcv, notv, ghostv>>

\* let tail = tail.load(); if head == tail { return None }
PopLt(p) ==
  /\ pc[p] = "pop_lt"
  /\ IF L(p).ph = tail
     THEN IF p \in Cons THEN /\ SetLoc(p, [L(p) EXCEPT !.pt = tail, !.eos = (Chan /\ ClosedFirst /\ L(p).cl)])
                        /\ Goto(p, IF ~ClosedFirst THEN "r_closed"
                                   ELSE IF L(p).cl /\ ~Chan THEN "r_setended" ELSE "r_unlock")
                   ELSE SetLoc(p, [L(p) EXCEPT !.pt = tail, !.phase = 1]) /\ Goto(p, "push_lt")
     ELSE SetLoc(p, [L(p) EXCEPT !.pt = tail]) /\ Goto(p, "pop_r")
  /\ UNCHANGED <<ringv, lockv, srcv, notv, ghostv>>

\* assume_init_read(): a bitwise move out of the slot
PopR(p) ==
  /\ pc[p] = "pop_r"
  /\ LET i == L(p).ph % Cap
         v == slot[i] IN
     /\ slot' = [slot EXCEPT ![i] = IF v > 0 THEN -v ELSE v]
     /\ err' = err \cup (IF v = 0 THEN {"uninit_read"} ELSE IF v < 0 THEN {"moved_read"} ELSE {})
     /\ SetLoc(p, [L(p) EXCEPT !.got = IF v > 0 THEN v ELSE -v])
  /\ Goto(p, "pop_sh")
  /\ UNCHANGED <<head, tail, lockv, srcv, notv, created, freed, dropped, received, cres, torn, stopped>>

PopSh(p) ==
  /\ pc[p] = "pop_sh"
  /\ head' = L(p).ph + 1
  /\ IF p \in Cons
     THEN /\ Goto(p, "r_unlock") /\ UNCHANGED <<loc, freed, err, dropped>>
     ELSE /\ Free({L(p).got}) /\ dropped' = dropped \cup {L(p).got}      \* let _ = self.queue.pop();
          /\ SetLoc(p, [L(p) EXCEPT !.got = 0, !.phase = 1]) /\ Goto(p, "push_lt")
  /\ UNCHANGED <<tail, slot, lockv, srcv, notv, created, received, cres, torn, stopped>>

---------------------------------------------------------------------------
(* Clone / Drop of a SampleStreamSource handle *)

CloneAdd(p) ==
  /\ p \in Prods /\ pc[p] = "clone_add"
  /\ active' = active + 1
  /\ SetLoc(p, [L(p) EXCEPT !.opi = @ + 1, !.res = "Ok"])
  /\ Goto(p, "h_release")                                   \* the old handle is given up next
  /\ UNCHANGED <<ringv, lockv, closed, ended, arc, notv, ghostv>>

AfterDropPc(p, lr) == IF lr.fin THEN "done" ELSE
                      IF lr.opi > Len(Prog[p]) THEN (IF p \in NoDrop THEN "done" ELSE "h_release") ELSE "call"
AfterDrop(p, lr) ==
  /\ Goto(p, AfterDropPc(p, lr))
  /\ SetLoc(p, [lr EXCEPT !.fin = (lr.fin \/ lr.opi > Len(Prog[p]))])

\* drop(handle): an Arc reference (the last one runs Drop) or an owned clone (runs Drop)
HRelease(p) ==
  /\ p \in Prods /\ pc[p] = "h_release"
  /\ LET lr == [L(p) EXCEPT !.hmode = "own"] IN
     IF L(p).hmode = "arc"
     THEN /\ arc' = arc - 1
          /\ IF arc = 1 THEN Goto(p, IF Chan THEN "drop_close" ELSE "drop_sub") /\ SetLoc(p, lr) ELSE AfterDrop(p, lr)
     ELSE /\ Goto(p, "drop_sub") /\ SetLoc(p, lr) /\ UNCHANGED arc
  /\ UNCHANGED <<ringv, lockv, closed, ended, active, notv, ghostv>>

\* if active_senders.fetch_sub(1) == 1 {
DropSub(p) ==
  /\ p \in Prods /\ pc[p] = "drop_sub"
  /\ active' = active - 1
  /\ IF active = 1 THEN Goto(p, "drop_close") /\ UNCHANGED loc ELSE AfterDrop(p, L(p))
  /\ UNCHANGED <<ringv, lockv, closed, ended, arc, notv, ghostv>>

DropClose(p) ==
  /\ p \in Prods /\ pc[p] = "drop_close"
  /\ closed' = TRUE /\ Goto(p, "drop_notify")
  /\ UNCHANGED <<ringv, lockv, ended, active, arc, notv, loc, ghostv>>

DropNotify(p) ==
  /\ p \in Prods /\ pc[p] = "drop_notify"
  /\ NotifyWaiters
  /\ AfterDrop(p, L(p))
  /\ UNCHANGED <<ringv, lockv, srcv, ghostv>>

---------------------------------------------------------------------------
(* consumer c: SampleStreamTrack::recv *)

LoopTop == IF Chan THEN "r_lock" ELSE IF NotifBefore THEN "r_create" ELSE "r_ended"

CRet(c, r) ==
  /\ cres' = [cres EXCEPT ![c] = r]
  /\ Goto(c, IF r = "eos" THEN "done" ELSE "call")

\* L(c).k counts the recv() calls made so far, L(c).phase the futures dropped
CCall(c) ==
  /\ pc[c] = "call"
  /\ IF Chan /\ CMax > 0 /\ L(c).k = CMax
     THEN Goto(c, "rdrop_close") /\ UNCHANGED loc                         \* drop(receiver)
     ELSE Goto(c, LoopTop) /\ SetLoc(c, [L(c) EXCEPT !.got = 0, !.eos = FALSE, !.cl = FALSE, !.k = @ + 1])
  /\ UNCHANGED <<ringv, lockv, srcv, notv, ghostv>>

\* Drop for SampleQueueReceiver
RDropClose(c) ==
  /\ pc[c] = "rdrop_close"
  /\ closed' = TRUE /\ Goto(c, "rdrop_notify")
  /\ UNCHANGED <<ringv, lockv, ended, active, arc, notv, loc, ghostv>>

RDropNotify(c) ==
  /\ pc[c] = "rdrop_notify"
  /\ NotifyWaiters /\ Goto(c, "done")
  /\ UNCHANGED <<ringv, lockv, srcv, loc, ghostv>>

\* let notified = self.notify.notified();
RCreate(c) ==
  /\ pc[c] = "r_create"
  /\ cgen' = [cgen EXCEPT ![c] = gen] /\ Goto(c, IF Chan THEN "empty" ELSE "r_ended")
  /\ UNCHANGED <<ringv, lockv, srcv, permit, gen, waiting, wby, loc, ghostv>>

REnded(c) ==
  /\ pc[c] = "r_ended"
  /\ IF ended THEN CRet(c, "eos") ELSE Goto(c, "r_lock") /\ UNCHANGED cres
  /\ UNCHANGED <<ringv, lockv, srcv, notv, loc, created, freed, dropped, received, err, torn, stopped>>

RLock(c) ==
  /\ pc[c] = "r_lock" /\ poplock = 0
  /\ poplock' = c /\ Goto(c, IF ClosedFirst THEN "r_closed" ELSE "pop_lh")
  /\ UNCHANGED <<ringv, plock, srcv, notv, loc, ghostv>>

\* self.source_closed.load(): before pop() (every push happens before the close, so "closed, then
\* empty" means drained), or -- pinned tree -- after pop() returned None
RClosed(c) ==
  /\ pc[c] = "r_closed"
  /\ IF ClosedFirst
     THEN Goto(c, "pop_lh") /\ SetLoc(c, [L(c) EXCEPT !.cl = closed])
     ELSE /\ Goto(c, IF closed /\ ~Chan THEN "r_setended" ELSE "r_unlock")
          /\ SetLoc(c, [L(c) EXCEPT !.eos = (Chan /\ closed)])               \* "chan": return None
  /\ UNCHANGED <<ringv, lockv, srcv, notv, ghostv>>

RSetEnded(c) ==
  /\ pc[c] = "r_setended"
  /\ ended' = TRUE
  /\ IF poplock = c
     THEN Goto(c, "r_unlock") /\ SetLoc(c, [L(c) EXCEPT !.eos = TRUE]) /\ UNCHANGED cres
     ELSE CRet(c, "eos") /\ UNCHANGED loc
  /\ UNCHANGED <<ringv, lockv, closed, active, arc, notv, created, freed, dropped, received, err, torn, stopped>>

\* the pop guard goes out of scope: with a sample (return Ok), after setting ended (return EOS), or to wait
RUnlock(c) ==
  /\ pc[c] = "r_unlock"
  /\ poplock' = 0
  /\ IF L(c).got # 0
     THEN /\ received' = Append(received, L(c).got)
          /\ Free({L(c).got})                                 \* the harness checks and drops the sample
          /\ SetLoc(c, [L(c) EXCEPT !.got = 0])
          /\ CRet(c, "ok")
     ELSE IF L(c).eos
     THEN CRet(c, "eos") /\ UNCHANGED <<loc, received, freed, err>>
     ELSE Goto(c, IF Chan THEN "r_create" ELSE "r_await") /\ UNCHANGED <<loc, received, freed, err, cres>>
  /\ UNCHANGED <<ringv, plock, srcv, notv, created, dropped, torn, stopped>>

AfterAwait == IF Chan THEN "r_lock" ELSE "r_recheck"

\* notified.await -- first poll (the pinned code also creates the future here)
RAwait(c) ==
  /\ pc[c] = "r_await"
  /\ IF NotifBefore /\ gen # cgen[c]
     THEN Goto(c, AfterAwait) /\ UNCHANGED notv
     ELSE IF permit
     THEN Goto(c, AfterAwait) /\ permit' = FALSE /\ cgen' = [cgen EXCEPT ![c] = gen] /\ UNCHANGED <<gen, waiting, wby>>
     ELSE /\ Goto(c, "c_sleep") /\ waiting' = Append(waiting, c) /\ cgen' = [cgen EXCEPT ![c] = gen]
          /\ wby' = [wby EXCEPT ![c] = ""] /\ UNCHANGED <<permit, gen>>
  /\ UNCHANGED <<ringv, lockv, srcv, loc, ghostv>>

\* the waker fired; the future is polled again and completes
CSleep(c) ==
  /\ pc[c] = "c_sleep" /\ ~Asleep(c)
  /\ Goto(c, AfterAwait)
  /\ wby' = [wby EXCEPT ![c] = ""]
  /\ UNCHANGED <<ringv, lockv, srcv, permit, gen, waiting, cgen, loc, ghostv>>

\* The caller drops the pending recv() future (select!, timeout): possible only at the await. Dropping a Notified that
\* is still registered removes it; dropping one that notify_one already reached passes the notification on.
Cancel(c) ==
  /\ pc[c] = "c_sleep" /\ L(c).phase < CCancel
  /\ IF Asleep(c)
     THEN waiting' = Without(waiting, c) /\ UNCHANGED <<permit, gen, cgen, wby>>
     ELSE IF wby[c] = "one"
     THEN IF waiting # <<>>
          THEN waiting' = Tail(waiting) /\ wby' = [wby EXCEPT ![Head(waiting)] = "one", ![c] = ""] /\ UNCHANGED <<permit, gen, cgen>>
          ELSE permit' = TRUE /\ wby' = [wby EXCEPT ![c] = ""] /\ UNCHANGED <<waiting, gen, cgen>>
     ELSE wby' = [wby EXCEPT ![c] = ""] /\ UNCHANGED <<permit, gen, waiting, cgen>>
  /\ Goto(c, "call") /\ SetLoc(c, [L(c) EXCEPT !.phase = @ + 1])
  /\ UNCHANGED <<ringv, lockv, srcv, ghostv>>

\* if self.source_closed.load() && self.queue.is_empty() {
RRecheck(c) ==
  /\ pc[c] = "r_recheck"
  /\ Goto(c, IF closed THEN "empty" ELSE LoopTop)
  /\ UNCHANGED <<ringv, lockv, srcv, notv, loc, ghostv>>

\* track: `closed && is_empty()`; chan: `is_empty() && !closed.load()` then await (one step, see the header)
Empty(c) ==
  /\ pc[c] = "empty"
  /\ Goto(c, IF Chan THEN (IF head = tail /\ ~closed THEN "r_await" ELSE LoopTop)
             ELSE IF head = tail THEN "r_setended" ELSE LoopTop)
  /\ UNCHANGED <<ringv, lockv, srcv, notv, loc, ghostv>>

---------------------------------------------------------------------------
(* stopper: SampleStreamTrack::stop *)

SCall ==
  /\ UseStop /\ pc[S] = "call"
  /\ Goto(S, "stop_store") /\ stopped' = TRUE
  /\ UNCHANGED <<ringv, lockv, srcv, notv, loc, created, freed, dropped, received, cres, err, torn>>

StopStore ==
  /\ UseStop /\ pc[S] = "stop_store"
  /\ ended' = TRUE /\ Goto(S, "stop_notify")
  /\ UNCHANGED <<ringv, lockv, closed, active, arc, notv, loc, ghostv>>

StopNotify ==
  /\ UseStop /\ pc[S] = "stop_notify"
  /\ NotifyWaiters /\ Goto(S, "done")
  /\ UNCHANGED <<ringv, lockv, srcv, loc, ghostv>>

---------------------------------------------------------------------------
(* teardown: every thread is finished (or the consumer sleeps for good); the harness cancels the  *)
(* pending recv(), drops the remaining handles and the track; SpscRing::drop frees what is queued *)

OthersDone == \A p \in Procs \ Cons : pc[p] = "done"
Quiescent  == OthersDone /\ \A c \in Cons : pc[c] = "done" \/ (pc[c] = "c_sleep" /\ Asleep(c))

Teardown ==
  /\ Quiescent /\ ~torn
  /\ torn' = TRUE
  /\ LET idxs == IF head <= tail THEN head..(tail - 1) ELSE {}
         vals == {slot[i % Cap] : i \in idxs} IN
     FreeAnd({v \in vals : v > 0},
             (IF head > tail \/ tail - head > Cap THEN {"ring_drop_corrupt"} ELSE {}) \cup
             (IF \E v \in vals : v = 0 THEN {"uninit_read"} ELSE {}) \cup
             (IF \E v \in vals : v < 0 THEN {"moved_read"} ELSE {}))
  /\ UNCHANGED <<ringv, lockv, srcv, notv, pc, loc, created, dropped, received, cres, stopped>>

---------------------------------------------------------------------------

ProdStep(p) ==
  \/ Call(p) \/ SrcClosed(p) \/ SrcLock(p) \/ PushLt(p) \/ PushLh(p) \/ PushW(p) \/ PushSt(p)
  \/ SrcNotify(p) \/ SrcTrylock(p) \/ SrcPopunlock(p) \/ SrcUnlock(p)
  \/ (p \in Prods /\ (PopLh(p) \/ PopLt(p) \/ PopR(p) \/ PopSh(p)))
  \/ CloneAdd(p) \/ HRelease(p) \/ DropSub(p) \/ DropClose(p) \/ DropNotify(p)

ConsStep(c) ==
  \/ CCall(c) \/ RCreate(c) \/ REnded(c) \/ RLock(c) \/ PopLh(c) \/ PopLt(c) \/ PopR(c) \/ PopSh(c)
  \/ RClosed(c) \/ RSetEnded(c) \/ RUnlock(c) \/ RAwait(c) \/ CSleep(c) \/ RRecheck(c) \/ Empty(c)
  \/ RDropClose(c) \/ RDropNotify(c)

StopStep == SCall \/ StopStore \/ StopNotify

PStep(p) == ProdStep(p) /\ who' = p
CStep(c) == ConsStep(c) /\ who' = c
XStep(c) == Cancel(c) /\ who' = c + 1000          \* the caller's decision, not a step of recv(): no fairness
SStep    == UseStop /\ StopStep /\ who' = S
TStep    == Teardown /\ who' = 0

Next == (\E p \in Prods : PStep(p)) \/ (\E c \in Cons : CStep(c) \/ XStep(c)) \/ SStep \/ TStep

Spec == Init /\ [][Next]_vars
        /\ \A p \in Prods : WF_vars(PStep(p))
        /\ (\A c \in Cons : WF_vars(CStep(c))) /\ WF_vars(SStep) /\ WF_vars(TStep)

---------------------------------------------------------------------------
(* Properties of C20 *)

Samples == UNION {{Sid(p, k) : k \in 1..(2 * Len(Prog[p]))} : p \in Prods}

TypeOK ==
  /\ head \in Nat /\ tail \in Nat
  /\ \A i \in 0..Cap-1 : slot[i] \in Int
  /\ plock \in Prods \cup {0} /\ poplock \in Procs \cup {0}
  /\ closed \in BOOLEAN /\ ended \in BOOLEAN /\ active \in Nat /\ arc \in Nat
  /\ permit \in BOOLEAN /\ gen \in Nat /\ \A c \in Cons : cgen[c] \in Nat
  /\ \A i \in 1..Len(waiting) : waiting[i] \in Cons
  /\ created \subseteq Samples /\ freed \subseteq Samples /\ dropped \subseteq Samples

\* Slot ownership windows: between the decision "not full" / "not empty" and the publishing store
WWin(p) == pc[p] \in {"push_w", "push_st"}
RWin(p) == pc[p] \in {"pop_r", "pop_sh"}
WSlot(p) == loc[p].lt % Cap
RSlot(p) == loc[p].ph % Cap

\* the sequentially consistent image of a data race on a slot: a writer's window overlaps another window
NoSlotRace ==
  \A p, q \in Procs : p # q /\ WWin(p) =>
     /\ ~(WWin(q) /\ WSlot(q) = WSlot(p))
     /\ ~(RWin(q) /\ RSlot(q) = WSlot(p))
\* two threads moving the same slot out
NoDoubleTake ==
  \A p, q \in Procs : p # q /\ RWin(p) /\ RWin(q) => RSlot(p) # RSlot(q)

\* no read of an uninitialised / moved-out slot, no double free, no overwritten live sample, sane ring at drop
MemSafe == err = {}

RecvIdx == 1..Len(received)
ReceivedIsPushed == \A i \in RecvIdx : received[i] \in created
NoDuplicate      == \A i, j \in RecvIdx : i # j => received[i] # received[j]
PerProducerFifo  == \A i, j \in RecvIdx : i < j /\ ProdOf(received[i]) = ProdOf(received[j])
                                            => received[i] < received[j]
RecvSet == {received[i] : i \in RecvIdx}

\* end-of-stream without stop(): the source is closed, the queue is drained and every pushed sample was
\* either received or discarded by the documented overflow / rejection paths
\* (a second consumer may still be holding the sample it has just popped)
InHand == {loc[c].got : c \in Cons} \ {0}
DrainThenEos ==
  ((\E c \in Cons : cres[c] = "eos") /\ ~stopped) =>
     /\ closed /\ head = tail
     /\ created = RecvSet \cup dropped \cup InHand
     /\ RecvSet \cap dropped = {}

\* payload buffers: never freed twice; all freed once everything (incl. the ring) is dropped
NoLeakNoDoubleFree ==
  /\ "double_free" \notin err
  /\ torn => freed = created

\* lost wake-up, as a state predicate: nobody is left who could wake the sleeping consumer
NoLostWakeup     == \A c \in Cons : (OthersDone /\ closed /\ pc[c] = "c_sleep") => ~Asleep(c)
NoLostWakeupStop == \A c \in Cons : (OthersDone /\ ended  /\ pc[c] = "c_sleep") => ~Asleep(c)      \* EXT: stop()

\* ... and as liveness under weak fairness
\* (a consumer that keeps dropping its future is bounded by CCancel, so it calls recv() again in the end)
CloseLeadsToEos == \A c \in Cons : closed ~> (cres[c] = "eos")
StopLeadsToEos  == \A c \in Cons : ended ~> (cres[c] = "eos")                          \* EXT: stop()
Terminates      == <>torn

\* locks are held by whoever is inside the section
LockDiscipline ==
  /\ \A p \in Prods : (pc[p] \in {"push_lt", "push_lh", "push_w", "push_st", "src_notify", "src_trylock",
                                   "src_popunlock", "src_unlock"} /\ Locked) => plock = p
  /\ \A p \in Procs : pc[p] \in {"pop_lh", "pop_lt", "pop_r", "pop_sh"} => poplock = p
=============================================================================
