-------------------------------- MODULE Relay --------------------------------
(***************************************************************************)
(* EXT engine of C20: MediaRelay (src/media/track.rs) on top of a sample   *)
(* track -- fan-out of one SampleStreamTrack to subscribers through a      *)
(* tokio broadcast channel, with a relay task that is started by the first *)
(* subscribe(), shuts itself down when a sample finds no subscriber, and   *)
(* is meant to be restarted by the next subscribe().                       *)
(*                                                                         *)
(* Granularity: API calls are atomic and the relay task runs to its next   *)
(* blocking point in one step (`Settle`) -- exactly what a current-thread  *)
(* runtime does, which is how harness/src/bin/relay.rs drives the real     *)
(* objects.  (The subscribe / shut-down race inside the lifecycle lock is  *)
(* not explored at this granularity.)                                      *)
(*                                                                         *)
(* Every rule here goes beyond the listed property C20: rule tag EXT.      *)
(* Deviation "FeedbackRxNotRestored" = the pinned tree: the task owns the  *)
(* feedback receiver and takes it to the grave when it shuts down, so the  *)
(* restart in ensure_started() unwraps a None.                             *)
(***************************************************************************)
EXTENDS Naturals, Integers, Sequences, FiniteSets, TLC

CONSTANTS Subs,        \* subscriber slots, e.g. {1, 2}
          MaxSend,     \* samples the source sends at most
          SrcCap,      \* capacity of the source track's queue (drop-oldest)
          RCap,        \* capacity of the broadcast channel (a power of two)
          MaxLen,      \* bound on the number of operations
          Deviations

VARIABLES srcq,        \* samples queued in the source track
          nsent,       \* samples sent so far (sample ids 1..nsent)
          srcOpen,     \* the source handle is alive
          started,     \* RelayInner.started
          task,        \* "none" | "running"
          fbrx,        \* where the feedback receiver is: "slot" (RelayInner.feedback_rx) | "task" | "gone"
          bseq,        \* everything broadcast so far (0 = End)
          pos,         \* per subscriber slot: -1 = not subscribed, else number of broadcast items already passed
          sended,      \* per subscriber: its `ended` flag
          rended,      \* RelayInner.ended
          dead,        \* a subscribe() panicked (ghost)
          hist

vars == <<srcq, nsent, srcOpen, started, task, fbrx, bseq, pos, sended, rended, dead, hist>>
view == <<srcq, nsent, srcOpen, started, task, fbrx, bseq, pos, sended, rended, dead>>

Restores == "FeedbackRxNotRestored" \notin Deviations
Live == {i \in Subs : pos[i] >= 0}

Init ==
  /\ srcq = <<>> /\ nsent = 0 /\ srcOpen = TRUE /\ started = FALSE /\ task = "none" /\ fbrx = "slot"
  /\ bseq = <<>> /\ pos = [i \in Subs |-> -1] /\ sended = [i \in Subs |-> FALSE] /\ rended = FALSE /\ dead = FALSE
  /\ hist = <<>>

Step(op, i, res) ==
  /\ Len(hist) < MaxLen
  /\ hist' = Append(hist, <<op, i, res>>)

\* MediaRelay::subscribe(): broadcast subscribe, then ensure_started()
Subscribe(i) ==
  /\ pos[i] < 0
  /\ IF started
     THEN /\ pos' = [pos EXCEPT ![i] = Len(bseq)] /\ sended' = [sended EXCEPT ![i] = rended]
          /\ Step("sub", i, "ok") /\ UNCHANGED <<started, task, fbrx, dead>>
     ELSE IF fbrx = "slot"
     THEN /\ pos' = [pos EXCEPT ![i] = Len(bseq)] /\ sended' = [sended EXCEPT ![i] = rended]
          /\ started' = TRUE /\ task' = "running" /\ fbrx' = "task"
          /\ Step("sub", i, "ok") /\ UNCHANGED dead
     ELSE \* compare_exchange already set started; feedback_rx.take().unwrap() panics; the new receiver is dropped
          /\ started' = TRUE /\ dead' = TRUE
          /\ Step("sub", i, "panic") /\ UNCHANGED <<pos, sended, task, fbrx>>
  /\ UNCHANGED <<srcq, nsent, srcOpen, bseq, rended>>

Unsubscribe(i) ==
  /\ pos[i] >= 0
  /\ pos' = [pos EXCEPT ![i] = -1] /\ sended' = [sended EXCEPT ![i] = FALSE]
  /\ Step("unsub", i, "ok")
  /\ UNCHANGED <<srcq, nsent, srcOpen, started, task, fbrx, bseq, rended, dead>>

\* SampleStreamSource::send (drop-oldest when the source queue is full)
Send ==
  /\ srcOpen /\ nsent < MaxSend
  /\ nsent' = nsent + 1
  /\ srcq' = IF Len(srcq) < SrcCap THEN Append(srcq, nsent + 1) ELSE Append(Tail(srcq), nsent + 1)
  /\ Step("send", nsent + 1, "Ok")
  /\ UNCHANGED <<srcOpen, started, task, fbrx, bseq, pos, sended, rended, dead>>

Close ==
  /\ srcOpen /\ srcOpen' = FALSE
  /\ Step("close", 0, "ok")
  /\ UNCHANGED <<srcq, nsent, started, task, fbrx, bseq, pos, sended, rended, dead>>

\* The relay task runs until it blocks: forwards queued samples while somebody listens; a sample that finds no
\* subscriber is lost and shuts the task down; end of the source is broadcast as End.
RECURSIVE Drain(_, _)
Drain(q, b) ==            \* -> <<queue left, broadcast seq, shut down?>>
  IF q = <<>> THEN <<q, b, FALSE>>
  ELSE IF Live = {} THEN <<Tail(q), b, TRUE>>
  ELSE Drain(Tail(q), Append(b, Head(q)))

Settle ==
  /\ IF task = "running"
     THEN LET d == Drain(srcq, bseq) IN
          IF d[3]
          THEN /\ srcq' = d[1] /\ bseq' = d[2] /\ task' = "none" /\ started' = FALSE
               /\ fbrx' = (IF Restores THEN "slot" ELSE "gone") /\ UNCHANGED rended
          ELSE IF ~srcOpen
          THEN /\ srcq' = d[1] /\ bseq' = (IF Live # {} THEN Append(d[2], 0) ELSE d[2])
               /\ rended' = TRUE /\ task' = "none" /\ fbrx' = "gone" /\ UNCHANGED started
          ELSE /\ srcq' = d[1] /\ bseq' = d[2] /\ UNCHANGED <<task, started, fbrx, rended>>
     ELSE UNCHANGED <<srcq, bseq, task, started, fbrx, rended>>
  /\ Step("settle", 0, "ok")
  /\ UNCHANGED <<nsent, srcOpen, pos, sended, dead>>

\* RelayStreamTrack::recv polled once
Recv(i) ==
  /\ pos[i] >= 0
  /\ LET oldest == IF Len(bseq) > RCap THEN Len(bseq) - RCap ELSE 0 IN
     IF sended[i] THEN Step("recv", i, "eos") /\ UNCHANGED <<pos, sended>>
     ELSE IF pos[i] < oldest
     THEN Step("recv", i, "lagged") /\ pos' = [pos EXCEPT ![i] = oldest] /\ UNCHANGED sended
     ELSE IF pos[i] < Len(bseq)
     THEN LET x == bseq[pos[i] + 1] IN
          /\ pos' = [pos EXCEPT ![i] = @ + 1]
          /\ IF x = 0 THEN Step("recv", i, "eos") /\ sended' = [sended EXCEPT ![i] = TRUE]
                      ELSE Step("recv", i, ToString(x)) /\ UNCHANGED sended
     ELSE Step("recv", i, "empty") /\ UNCHANGED <<pos, sended>>
  /\ UNCHANGED <<srcq, nsent, srcOpen, started, task, fbrx, bseq, rended, dead>>

Next == (\E i \in Subs : Subscribe(i) \/ Unsubscribe(i) \/ Recv(i)) \/ Send \/ Close \/ Settle

Spec == Init /\ [][Next]_vars

---------------------------------------------------------------------------
(* EXT rules *)

NoPanic == ~dead
\* subscribers that are waiting for samples are served by a task (or the relay has ended)
RelayAlive == (Live # {} /\ ~rended) => task = "running"
\* what a subscriber gets is, in order, what was broadcast after it subscribed
Ordered == \A i \in Live : pos[i] <= Len(bseq)
=============================================================================
