SPECIFICATION TraceSpec
CONSTANTS
  Modes = {"WebRtc", "Srtp", "Rtp"}
  MediaSets = {{"dc"}, {"audio"}, {"video"}, {"dc", "audio"}, {"dc", "video"}, {"audio", "video"}, {"dc", "audio", "video"}}
  Bundles = {"balanced", "maxcompat"}
  Muxes = {"require", "negotiate"}
  Ices = {"full", "liteA", "liteB", "tcp", "tcpActive+tcp", "udpmuxA", "udpmuxB", "udpmuxAB", "liteA+udpmuxB", "liteB+udpmuxA"}
  Latchings = {TRUE, FALSE}
  Compats = {"Standard", "LegacySip"}
  Offerers = {"A", "B"}
  Scheds = {"plain", "slowSetRemote"}
  Renegs = {"none", "offerer", "answerer", "moved"}
  Deviations = {}
  Props = {"EXT", "C10.Lattice", "C10.Signaling", "C10.Roles", "C10.Keys", "C10.Connected", "C10.DcDelivery", "C10.RtpDelivery", "C10.RtpIntact", "C10.Reneg"}
CONSTRAINT Furthest
POSTCONDITION Post
CHECK_DEADLOCK FALSE
