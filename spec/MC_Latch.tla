----------------------------- MODULE MC_Latch -----------------------------
(* Bounded model + replay generator for Latch.tla.                         *)
(* EmitEdge is an ACTION_CONSTRAINT with a print side effect: one JSON     *)
(* line per (state, action) pair TLC generates, carrying a history that    *)
(* reaches the pre-state, the action, the expected post-state and, per     *)
(* observable field, the rule of C18 that governs it in this transition.   *)
EXTENDS Latch, Json

CandJson(c) == [addr |-> c.addr, first |-> c.first, last |-> c.lastseq, cnt |-> c.cnt,
                cons |-> c.cons, marker |-> c.marker]

\* which rule governs the RTP destination in this transition, and the values it allows
RemoteRule ==
  IF ~IsPacket(last') THEN "Control"
  ELSE IF last'.kind = "rtp-commit" THEN (IF last'.ambiguous THEN "EXT" ELSE "CommitRule")
  ELSE IF remote = "Unset" THEN "EXT"                    \* AdoptWhenUnset
  ELSE IF latchOn /\ rtpLatched THEN "Sticky"
  ELSE "Legit"
RemoteAllowed ==
  IF IsPacket(last') /\ last'.kind = "rtp-probation" /\ remote # "Unset"
  THEN {remote} \cup legit'                               \* provisional moves are free among legit sources
  ELSE {remote'}
LatchedRule ==
  IF ~IsPacket(last') THEN "Control"
  ELSE IF latchOn /\ rtpLatched THEN "Sticky"
  ELSE IF last'.kind = "rtp-commit" /\ last'.ambiguous THEN "CommitRule"
  ELSE "CommitRule"
RtcpRule == IF IsPacket(last') THEN "RtcpOnce" ELSE "Control"

EdgeRec ==
  [ cfg  |-> [maxPk |-> maxPk, init |-> initRemote],
    pre  |-> hist,
    act  |-> hist'[Len(hist')],
    kind |-> last'.kind,
    by   |-> IF last'.kind = "rtp-commit" THEN last'.by ELSE "",
    exp  |-> [ remote      |-> [allowed |-> RemoteAllowed, rule |-> RemoteRule],
               rtpLatched  |-> [allowed |-> {rtpLatched'}, rule |-> LatchedRule],
               rtcpRemote  |-> [allowed |-> {rtcpRemote'}, rule |-> RtcpRule],
               rtcpLatched |-> [allowed |-> {rtcpLatched'}, rule |-> RtcpRule],
               latchOn     |-> [allowed |-> {latchOn'}, rule |-> "Control"] ],
    ext  |-> [ remote |-> remote',
               probOn |-> prob'.on, total |-> prob'.total,
               cands |-> [i \in 1..Len(prob'.cands) |-> CandJson(prob'.cands[i])] ] ]

EmitEdge == PrintT(<<"EDGE", ToJson(EdgeRec)>>)
NoEmit   == TRUE
=============================================================================
