---------------------------- MODULE MC_NackLoop ----------------------------
(* Bounded model + replay generator for NackLoop.tla (EXT04).               *)
EXTENDS NackLoop, Json

EdgeRec ==
  [ cfg |-> cfg, pre |-> hist, act |-> hist'[Len(hist')], out |-> out', cnt |-> cnt',
    buffered |-> Len(sbuf'), sent |-> k' ]
EmitEdge == PrintT(<<"EDGE", ToJson(EdgeRec)>>)
NoEmit   == TRUE
StateRec ==
  [ cfg |-> cfg, pre |-> SubSeq(hist, 1, Len(hist) - 1), act |-> hist[Len(hist)], out |-> out, cnt |-> cnt,
    buffered |-> Len(sbuf), sent |-> k ]
W_Restores == Restores \/ (PrintT(<<"EDGE", ToJson(StateRec)>>) /\ FALSE)
=============================================================================
