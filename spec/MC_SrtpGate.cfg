SPECIFICATION Spec
CONSTANTS
  ReqX = {TRUE, FALSE}
  ReqY = {TRUE, FALSE}
  MaxLen = 4
  MaxGen = 2
  Ops = {"KX", "KY", "S", "SR", "SC", "BYE", "CL", "RcR", "RcC", "RvR", "RfR", "RvC", "RfC", "BX", "BY", "BV", "B0"}
  Reps = {1}
  Deviations = {}
INVARIANTS TypeOK NoClearEgress NothingBeforeKeys NoClearIngress AllowedSound NoReplay
PROPERTIES StepInside
CHECK_DEADLOCK FALSE
