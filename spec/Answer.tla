------------------------------- MODULE Answer -------------------------------
(***************************************************************************)
(* Offer/answer validity (RFC 3264, JSEP) as a RELATION over abstract      *)
(* session descriptions.  Property C08.                                    *)
(*                                                                         *)
(* An abstract description is                                              *)
(*   [ secs   : Seq(section), bundle : Seq(mid) ]                          *)
(* and a section is                                                        *)
(*   [ kind  : "audio"|"video"|"application"|"image",                      *)
(*     mid   : STRING ("" = no a=mid line),                                *)
(*     pts   : Seq(<<pt, codec>>)   payload types with their codec identity*)
(*                                  ("opus/48000/2", "rtx/90000", ...),    *)
(*     rtx   : Seq(<<rtxPt, apt>>)  a=fmtp:<rtxPt> apt=<apt> associations, *)
(*     ext   : Seq(<<id, uri>>)     a=extmap lines, in order,              *)
(*     dir   : "sendrecv"|"sendonly"|"recvonly"|"inactive",                *)
(*     mux   : BOOLEAN              a=rtcp-mux present,                    *)
(*     setup : "actpass"|"active"|"passive"|"holdconn"|"none",             *)
(*     port0 : BOOLEAN,             m-line port 0 (section rejected)       *)
(*     sim   : BOOLEAN,             a=simulcast present                     *)
(*     fmts  : Seq(STRING) ]        m-line formats of a non-RTP section     *)
(*                                  ("webrtc-datachannel", "t38"); <<>> for *)
(*                                  audio/video (their formats are pts)     *)
(*                                                                         *)
(* The specification does not say which answer is produced, only which     *)
(* answers are valid: ValidAnswer(offer, mode, answer) is the conjunction  *)
(* of the named rules below, one per clause of the property statement.     *)
(***************************************************************************)
EXTENDS Naturals, Sequences, FiniteSets, TLC

Range(s) == {s[i] : i \in DOMAIN s}

RtpKinds == {"audio", "video"}

(* setup values the offerer can accept in the answer (RFC 5763 / 4145) *)
Accepts(s) ==
  CASE s = "actpass"  -> {"active", "passive"}
    [] s = "active"   -> {"passive"}
    [] s = "passive"  -> {"active"}
    [] s = "holdconn" -> {"holdconn"}
    [] OTHER          -> {"actpass", "active", "passive", "holdconn", "none"}

(* directions an answer may carry for an offered direction (RFC 3264 section 6.1) *)
DirAnswers(d) ==
  CASE d = "sendrecv" -> {"sendrecv", "sendonly", "recvonly", "inactive"}
    [] d = "sendonly" -> {"recvonly", "inactive"}
    [] d = "recvonly" -> {"sendonly", "inactive"}
    [] OTHER          -> {"inactive"}

PtNums(sec) == {p[1] : p \in Range(sec.pts)}

(* ---- the rules; each is a predicate over (offer o, answer a) ---- *)
(* same number, order, media kinds and mids of media sections *)
SameCount(o, a) == Len(a.secs) = Len(o.secs)
SameKinds(o, a) == \A i \in DOMAIN o.secs : i \in DOMAIN a.secs => a.secs[i].kind = o.secs[i].kind
SameMids(o, a)  == \A i \in DOMAIN o.secs : i \in DOMAIN a.secs => a.secs[i].mid  = o.secs[i].mid

(* the per-section rules speak about answered sections: present in both and not rejected (port 0) *)
Both(o, a) == {i \in DOMAIN o.secs : i \in DOMAIN a.secs /\ ~a.secs[i].port0}

(* only payload types the offer proposed for that section, with the codec the offer bound them to *)
PtSubset(o, a) ==
  \A i \in Both(o, a) : Range(a.secs[i].pts) \subseteq Range(o.secs[i].pts)

(* RTX associations are offered ones, and both ends of an association are answered payload types *)
RtxEcho(o, a) ==
  \A i \in Both(o, a) :
    /\ Range(a.secs[i].rtx) \subseteq Range(o.secs[i].rtx)
    /\ \A r \in Range(a.secs[i].rtx) : r[1] \in PtNums(a.secs[i]) /\ r[2] \in PtNums(a.secs[i])

(* header-extension ids: the id the offer used for that URI *)
ExtSubset(o, a) ==
  \A i \in Both(o, a) : Range(a.secs[i].ext) \subseteq Range(o.secs[i].ext)

(* no duplicate extension ids within a section *)
ExtInjective(a) ==
  \A i \in DOMAIN a.secs :
    \A j, k \in DOMAIN a.secs[i].ext : j # k => a.secs[i].ext[j][1] # a.secs[i].ext[k][1]

DirCompatible(o, a) ==
  \A i \in Both(o, a) : a.secs[i].dir \in DirAnswers(o.secs[i].dir)

MuxOffered(o, a) ==
  \A i \in Both(o, a) : a.secs[i].mux => o.secs[i].mux

BundleOffered(o, a) ==
  Range(a.bundle) \subseteq Range(o.bundle)

(* the DTLS role only exists where DTLS does *)
SetupAcceptable(o, mode, a) ==
  mode = "WebRtc" =>
    \A i \in Both(o, a) : a.secs[i].setup \in Accepts(o.secs[i].setup)

(* EXT (beyond the listed property, which speaks about payload types): the formats of a data / fax  *)
(* section are ones the offer listed                                                               *)
FmtSubset(o, a) ==
  \A i \in Both(o, a) : a.secs[i].kind \notin RtpKinds => Range(a.secs[i].fmts) \subseteq Range(o.secs[i].fmts)

(* EXT: a section the offer rejected (port 0) stays rejected; simulcast is only answered when offered *)
RejectedStays(o, a) ==
  \A i \in DOMAIN o.secs : (i \in DOMAIN a.secs /\ o.secs[i].port0) => a.secs[i].port0
SimulcastOffered(o, a) ==
  \A i \in Both(o, a) : a.secs[i].sim => o.secs[i].sim
ExtFailed(o, a) ==
  (IF FmtSubset(o, a) THEN {} ELSE {"FmtSubset"}) \cup
  (IF RejectedStays(o, a) THEN {} ELSE {"RejectedStays"}) \cup
  (IF SimulcastOffered(o, a) THEN {} ELSE {"SimulcastOffered"})

RuleNames == {"SameCount", "SameKinds", "SameMids", "PtSubset", "RtxEcho", "ExtSubset", "ExtInjective", "DirCompatible",
              "MuxOffered", "BundleOffered", "SetupAcceptable"}

Holds(rule, o, mode, a) ==
  CASE rule = "SameCount"       -> SameCount(o, a)
    [] rule = "SameKinds"       -> SameKinds(o, a)
    [] rule = "SameMids"        -> SameMids(o, a)
    [] rule = "PtSubset"        -> PtSubset(o, a)
    [] rule = "RtxEcho"         -> RtxEcho(o, a)
    [] rule = "ExtSubset"       -> ExtSubset(o, a)
    [] rule = "ExtInjective"    -> ExtInjective(a)
    [] rule = "DirCompatible"   -> DirCompatible(o, a)
    [] rule = "MuxOffered"      -> MuxOffered(o, a)
    [] rule = "BundleOffered"   -> BundleOffered(o, a)
    [] rule = "SetupAcceptable" -> SetupAcceptable(o, mode, a)

Failed(o, mode, a) == {r \in RuleNames : ~Holds(r, o, mode, a)}

ValidAnswer(o, mode, a) == Failed(o, mode, a) = {}

-----------------------------------------------------------------------------
(* local codec lists of the capability profiles the harness configures (codec identity), per kind *)
LocalCodecs(caps) ==
  CASE caps = "pcmu"   -> {"pcmu/8000/1", "vp8/90000"}
    [] caps = "custom" -> {"opus/48000/2", "pcmu/8000/1", "pcma/8000/1", "telephone-event/8000/1", "vp8/90000", "h264/90000"}
    [] OTHER           -> {"opus/48000/2", "vp8/90000"}

(* Two reference answerers, used only to show that the relation is satisfiable      *)
(* for every offer the generator produces and agrees with the textbook algorithm.   *)

(* reject everything: same shape, every section port 0, nothing else *)
RejectAll(o) ==
  [ secs   |-> [i \in DOMAIN o.secs |->
                  [kind |-> o.secs[i].kind, mid |-> o.secs[i].mid, pts |-> <<>>, rtx |-> <<>>, ext |-> <<>>,
                   dir |-> "inactive", mux |-> FALSE,
                   setup |-> (IF o.secs[i].setup = "none" THEN "none"
                              ELSE IF o.secs[i].setup = "passive" THEN "active" ELSE "passive"),
                   port0 |-> TRUE, sim |-> FALSE, fmts |-> o.secs[i].fmts]],
    bundle |-> <<>> ]

Reverse(d) == CASE d = "sendonly" -> "recvonly" [] d = "recvonly" -> "sendonly" [] OTHER -> d

(* plain intersection with a local codec / extension list *)
Intersect(o, codecs, uris) ==
  [ secs |-> [i \in DOMAIN o.secs |->
      LET s    == o.secs[i]
          prim == SelectSeq(s.pts, LAMBDA p : p[2] \in codecs)
          pn   == {p[1] : p \in Range(prim)}
          rtx  == SelectSeq(s.rtx, LAMBDA r : r[2] \in pn /\ r[1] \in PtNums(s))
          rn   == {r[1] : r \in Range(rtx)}
          rpts == SelectSeq(s.pts, LAMBDA p : p[1] \in rn /\ p[1] \notin pn)
      IN [kind |-> s.kind, mid |-> s.mid,
          pts |-> prim \o rpts, rtx |-> rtx,
          ext |-> SelectSeq(s.ext, LAMBDA e : e[2] \in uris),
          dir |-> Reverse(s.dir), mux |-> s.mux,
          setup |-> (IF s.setup = "none" THEN "none" ELSE IF s.setup = "passive" THEN "active" ELSE "passive"),
          port0 |-> (s.port0 \/ (s.kind \in RtpKinds /\ prim = <<>>)), sim |-> FALSE, fmts |-> s.fmts]],
    bundle |-> o.bundle ]
=============================================================================
