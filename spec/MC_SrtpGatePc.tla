---------------------------- MODULE MC_SrtpGatePc ----------------------------
(* Scenario generator for SrtpGatePc.tla: one JSON line per (state, action)   *)
(* edge with a history that reaches the state (G-edge; in simulation mode the  *)
(* real, unmerged history).                                                    *)
EXTENDS SrtpGatePc, Json

EdgeRec == [ mode |-> mode, role |-> role, crypto |-> crypto, pre |-> hist, act |-> last'.op,
             exp |-> << last'.w, last'.d, last'.aw, last'.ad, last'.dx >> ]
EmitEdge == PrintT(<<"EDGE", ToJson(EdgeRec)>>)
NoEmit == TRUE
=============================================================================
