----------------------------- MODULE MC_Demux -----------------------------
(* Bounded model + replay generator for Demux.tla (property C19, demux).   *)
(*                                                                         *)
(* EmitPkt is an ACTION_CONSTRAINT with a print side effect. It prints     *)
(*  (1) one EDGE line per (registry state, packet) pair TLC generates:     *)
(*      a shortest history reaching the state, the packet, the outcomes    *)
(*      the statement allows (rule-tagged) and the exact outcome of the    *)
(*      code-shaped model (tag EXT);                                       *)
(*  (2) for every DESTRUCTIVE transition (one that overwrites or removes   *)
(*      a registry entry: clear_listeners, removal of a closed listener,   *)
(*      pruning, re-registration, list replacement, re-binding) one EDGE   *)
(*      line per probe packet with the history *through* that transition.  *)
(*      Such a transition usually leads to a registry state that a shorter *)
(*      history reaches too, so (1) alone would assume - not test - that   *)
(*      the implementation really forgot what the model forgot.            *)
EXTENDS Demux, Json

CONSTANTS ProbeMaxLen,    \* destructive transitions whose history (including the transition) is at most this
                          \* long get probe edges
          PktProbeMaxLen  \* the same bound for packet transitions

ExtBoth == {<<TRUE, TRUE>>}
ExtAll  == {<<TRUE, TRUE>>, <<TRUE, FALSE>>, <<FALSE, TRUE>>, <<FALSE, FALSE>>}

\* the packet's MID was registered earlier and a clear_listeners came after that registration
StaleMidIn(h, mid) ==
  /\ mid # 0
  /\ \E i \in 1..Len(h) : /\ h[i].op = "mid"
                          /\ h[i].m = mid
                          /\ \E j \in (i+1)..Len(h) : h[j].op = "clear"

RuleOf(l, h, mid, closedNow) ==
  IF l.ridmid = {} /\ StaleMidIn(h, mid) THEN "OnlyRegistered"
  ELSE IF ~l.identified /\ Cardinality(l.holders) >= 2 THEN "AmbiguousPtDropped"
  ELSE IF l.failed # 0 \/ (\E x \in closedNow : x \in UNION l.allowed) THEN "NeverToClosed"
  ELSE "ChainRespected"

ClsOf(l, after, fullNow) ==
  [ by |-> l.by, closedHit |-> (l.failed # 0), holders |-> Cardinality(l.holders),
    provs |-> Cardinality(l.provs), identified |-> l.identified, unreg |-> l.unreg, after |-> after,
    fullHit |-> (l.sel \in fullNow) ]

EdgeRec ==
  [ cfg |-> [rid |-> cfg0.rid, mid |-> cfg0.mid],
    pre |-> hist,
    act |-> hist'[Len(hist')],
    exp |-> [ delivered |-> [allowed |-> last'.allowed,
                             rule |-> RuleOf(last', hist, hist'[Len(hist')].mid, closed)] ],
    ext |-> [ delivered |-> last'.delivered,
              bound |-> [s \in Ssrcs |-> bySsrc'[s] # 0],
              fwd |-> IF last'.fwd THEN 1 ELSE 0 ],      \* datagrams arriving at the bridge target
    cls |-> ClsOf(last', "", full) ]

\* the transition overwrote or removed something the registry knew
Destructive ==
  \/ \E s \in Ssrcs : bySsrc[s] # 0 /\ bySsrc'[s] # bySsrc[s]
  \/ \E r \in Rids : byRid[r] # 0 /\ byRid'[r] # byRid[r]
  \/ \E m \in Mids : byMid[m] # 0 /\ byMid'[m] # byMid[m]
  \/ \E l \in Ls : route[l].on /\ (~route'[l].on \/ ~(route[l].pts \subseteq route'[l].pts))
  \/ bridged' # bridged        \* a bridge installed / cleared: the demux must stop / resume with the registry intact

\* the transition is a packet that some branch of the chain took: the model says the only thing it may
\* have changed is the SSRC binding - probe that nothing else (and nothing more) was remembered
TookPacket == last'.kind = "pkt" /\ last'.by # "none"

\* a probe packet evaluated in the state AFTER the transition, as a compact tuple:
\*   <<s, pt, rid, mid, allowed outcomes, rule, model outcome, model bound-vector, by, closedHit, holders,
\*     provs, identified, unreg, fullHit, fwd>>
ProbeTuple(s, pt, rid, mid) ==
  LET e == PktEffect(s, pt, rid, mid)' IN
  << s, pt, rid, mid, e.last.allowed, RuleOf(e.last, hist', mid, closed'), e.last.delivered,
     [x \in Ssrcs |-> e.bySsrc[x] # 0], e.last.by, e.last.failed # 0, Cardinality(e.last.holders),
     Cardinality(e.last.provs), e.last.identified, e.last.unreg, e.last.sel \in full',
     IF e.last.fwd THEN 1 ELSE 0 >>

ProbeLine ==
  [ cfg    |-> [rid |-> cfg0.rid, mid |-> cfg0.mid],
    pre    |-> hist',
    after  |-> hist'[Len(hist')].op,
    probes |-> { ProbeTuple(s, pt, rid, mid) :
                   s \in Ssrcs, pt \in Pts, rid \in Rids \cup {0}, mid \in Mids \cup {0} } ]

EmitPkt ==
  /\ (IF last'.kind = "pkt" THEN PrintT(<<"EDGE", ToJson(EdgeRec)>>) ELSE TRUE)
  /\ (IF \/ (Destructive /\ Len(hist') <= ProbeMaxLen)
         \/ (TookPacket /\ Len(hist') <= PktProbeMaxLen)
      THEN PrintT(<<"EDGE", ToJson(ProbeLine)>>) ELSE TRUE)
NoEmit   == TRUE
=============================================================================
