----------------------------- MODULE MC_Demux -----------------------------
(* Bounded model + replay generator for Demux.tla (property C19, demux).   *)
(*                                                                         *)
(* EmitPkt is an ACTION_CONSTRAINT with a print side effect. It prints     *)
(*  (1) one EDGE line per (registry state, packet) pair TLC generates:     *)
(*      a shortest history reaching the state, the packet, the outcomes    *)
(*      the statement allows (rule-tagged) and the exact outcome of the    *)
(*      code-shaped model (tag EXT);                                       *)
(*  (2) for every DESTRUCTIVE transition (one that overwrites or removes   *)
(*      a registry entry: clear_listeners, removal of a closed listener,   *)
(*      pruning, re-registration, list replacement, re-binding) one EDGE   *)
(*      line per probe packet with the history *through* that transition.  *)
(*      Such a transition usually leads to a registry state that a shorter *)
(*      history reaches too, so (1) alone would assume - not test - that   *)
(*      the implementation really forgot what the model forgot.            *)
EXTENDS Demux, Json

CONSTANT ProbeMaxLen   \* destructive transitions whose history (including the transition) is at most this long
                       \* get probe edges

ExtBoth == {<<TRUE, TRUE>>}
ExtAll  == {<<TRUE, TRUE>>, <<TRUE, FALSE>>, <<FALSE, TRUE>>, <<FALSE, FALSE>>}

\* the packet's MID was registered earlier and a clear_listeners came after that registration
StaleMidIn(h, mid) ==
  /\ mid # 0
  /\ \E i \in 1..Len(h) : /\ h[i].op = "mid"
                          /\ h[i].m = mid
                          /\ \E j \in (i+1)..Len(h) : h[j].op = "clear"

RuleOf(l, h, mid, closedNow) ==
  IF l.ridmid = {} /\ StaleMidIn(h, mid) THEN "OnlyRegistered"
  ELSE IF ~l.identified /\ Cardinality(l.holders) >= 2 THEN "AmbiguousPtDropped"
  ELSE IF l.failed # 0 \/ (\E x \in closedNow : x \in UNION l.allowed) THEN "NeverToClosed"
  ELSE "ChainRespected"

ClsOf(l, after) ==
  [ by |-> l.by, closedHit |-> (l.failed # 0), holders |-> Cardinality(l.holders),
    provs |-> Cardinality(l.provs), identified |-> l.identified, unreg |-> l.unreg, after |-> after ]

EdgeRec ==
  [ cfg |-> [rid |-> cfg.rid, mid |-> cfg.mid],
    pre |-> hist,
    act |-> hist'[Len(hist')],
    exp |-> [ delivered |-> [allowed |-> last'.allowed,
                             rule |-> RuleOf(last', hist, hist'[Len(hist')].mid, closed)] ],
    ext |-> [ delivered |-> last'.delivered,
              bound |-> [s \in Ssrcs |-> bySsrc'[s] # 0] ],
    cls |-> ClsOf(last', "") ]

\* the transition overwrote or removed something the registry knew
Destructive ==
  \/ \E s \in Ssrcs : bySsrc[s] # 0 /\ bySsrc'[s] # bySsrc[s]
  \/ \E r \in Rids : byRid[r] # 0 /\ byRid'[r] # byRid[r]
  \/ \E m \in Mids : byMid[m] # 0 /\ byMid'[m] # byMid[m]
  \/ \E l \in Ls : route[l].on /\ (~route'[l].on \/ ~(route[l].pts \subseteq route'[l].pts))

\* a probe packet evaluated in the state AFTER the transition
ProbeRec(s, pt, rid, mid) ==
  LET e == PktEffect(s, pt, rid, mid)' IN
  [ cfg |-> [rid |-> cfg.rid, mid |-> cfg.mid],
    pre |-> hist',
    act |-> [op |-> "pkt", s |-> s, pt |-> pt, rid |-> rid, mid |-> mid],
    exp |-> [ delivered |-> [allowed |-> e.last.allowed, rule |-> RuleOf(e.last, hist', mid, closed')] ],
    ext |-> [ delivered |-> e.last.delivered,
              bound |-> [x \in Ssrcs |-> e.bySsrc[x] # 0] ],
    cls |-> ClsOf(e.last, hist'[Len(hist')].op) ]

EmitProbes ==
  \A s \in Ssrcs, pt \in Pts, rid \in Rids \cup {0}, mid \in Mids \cup {0} :
     PrintT(<<"EDGE", ToJson(ProbeRec(s, pt, rid, mid))>>)

EmitPkt ==
  /\ (IF last'.kind = "pkt" THEN PrintT(<<"EDGE", ToJson(EdgeRec)>>) ELSE TRUE)
  /\ (IF Destructive /\ Len(hist') <= ProbeMaxLen THEN EmitProbes ELSE TRUE)
NoEmit   == TRUE
=============================================================================
