----------------------------- MODULE MC_Demux -----------------------------
(* Bounded model + replay generator for Demux.tla (property C19, demux).   *)
(* EmitEdge is an ACTION_CONSTRAINT with a print side effect: one JSON     *)
(* line per (state, action) pair TLC generates, carrying a history that    *)
(* reaches the pre-state, the action, the outcomes the statement allows    *)
(* for it (rule-tagged) and the exact outcome of the code-shaped model     *)
(* (tag EXT).                                                              *)
EXTENDS Demux, Json

ExtBoth == {<<TRUE, TRUE>>}
ExtAll  == {<<TRUE, TRUE>>, <<TRUE, FALSE>>, <<FALSE, TRUE>>, <<FALSE, FALSE>>}

DeliveredRule ==
  IF last'.kind # "pkt" THEN "AtMostOne"
  ELSE IF ~last'.identified /\ Cardinality(last'.holders) >= 2 THEN "AmbiguousPtDropped"
  ELSE IF last'.failed # 0 \/ (\E l \in closed : l \in UNION last'.allowed) THEN "NeverToClosed"
  ELSE "ChainRespected"

EdgeRec ==
  [ cfg |-> [rid |-> cfg.rid, mid |-> cfg.mid],
    pre |-> hist,
    act |-> hist'[Len(hist')],
    exp |-> [ delivered |-> [allowed |-> last'.allowed, rule |-> DeliveredRule] ],
    ext |-> [ delivered |-> last'.delivered,
              bound |-> [s \in Ssrcs |-> bySsrc'[s] # 0] ],
    cls |-> [ by |-> last'.by, closedHit |-> (last'.failed # 0),
              holders |-> Cardinality(last'.holders), provs |-> Cardinality(last'.provs),
              identified |-> last'.identified, unreg |-> last'.unreg ] ]

EmitEdge == PrintT(<<"EDGE", ToJson(EdgeRec)>>)
\* packets only: registrations have no observable outcome of their own; every registry state they
\* produce is still probed by all packets
EmitPkt  == IF last'.kind = "pkt" THEN PrintT(<<"EDGE", ToJson(EdgeRec)>>) ELSE TRUE
NoEmit   == TRUE
=============================================================================
