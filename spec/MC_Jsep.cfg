SPECIFICATION Spec
CONSTANTS
  Pres = {"fresh", "offerer", "answerer"}
  Modes = {"WebRtc", "Srtp", "Rtp"}
  Medias = {"av"}
  MediaOps = {"add_transceiver", "create_data_channel", "add_track"}
  Envs = {"ok"}
  LocalClasses = {"fresh", "changed", "unchanged"}
  RemoteClasses = {"fresh", "changed", "unchanged", "nofp", "badalg", "mid65535"}
  MaxLen = 6
  Deviations = {}
VIEW view
INVARIANTS TypeOK SlotsConsistent
PROPERTIES TableConformance FailureAtomic ClosedIsTerminal
ACTION_CONSTRAINT NoEmit
CHECK_DEADLOCK FALSE
