--------------------------- MODULE MC_RingStress ---------------------------
(* The configuration space of the free-running stress runs of C20 (binding *)
(* T), enumerated by TLC: one initial state per configuration, printed as  *)
(* a SCEN line.  harness/src/bin/ring.rs (mode `stress`) concretises each  *)
(* configuration (operation sequences, timing jitter) from VERIF_SEED and  *)
(* logs call start / end; spec/Trace_Ring.tla validates the log.           *)
EXTENDS Naturals, TLC, Json

CONSTANTS Caps,      \* queue capacities
          NProds,    \* numbers of producer threads
          Mixes,     \* operation mixes: "send" "try" "many" "mixed" "clone"
          Ops        \* API calls per producer thread

VARIABLE cfg

\* variant "chan" = pipeline.rs SampleQueueSender / ChannelMediaSource: one sender shared through an Arc, no clone,
\* and `stop` means "the consumer drops the receiver part-way" instead of SampleStreamTrack::stop()
Init == /\ cfg \in [cap : Caps, nprod : NProds, shared : BOOLEAN, stop : BOOLEAN, keep : BOOLEAN, mix : Mixes, ops : {Ops},
                    variant : {"track", "chan"}]
        /\ cfg.variant = "chan" => (cfg.shared /\ cfg.mix # "clone")
Next == UNCHANGED cfg
Spec == Init /\ [][Next]_cfg

Emit == PrintT(<<"SCEN", ToJson(cfg)>>)
=============================================================================
