------------------------- MODULE MC_DtlsHandshake -------------------------
(***************************************************************************)
(* Bounded model for DtlsHandshake.tla: two endpoints, a FIFO datagram     *)
(* network and the record-aware proxy of harness/src/dtlsproxy.rs.         *)
(*                                                                         *)
(* The proxy sees every datagram once (outbox), computes its content       *)
(* address (direction, label, ordinal) and either forwards it or - while   *)
(* budget remains - applies one operation to it:                           *)
(*   network faults (C11): drop, dup, hold-k, split-n                      *)
(*   adversary ops  (C02): rewrites of plaintext handshake fields, omit    *)
(*                         (drop + renumber), injection of plaintext       *)
(*                         records                                         *)
(* The sequence of applied operations `ops` is the content-addressed       *)
(* schedule that the harness replays between two real DtlsTransports; TLC  *)
(* prints each one (SCHED) and, for settled states, the outcome (OUT).     *)
(***************************************************************************)
EXTENDS DtlsHandshake, Json

CONSTANTS NetKinds,     \* subset of {"drop","dup","hold1","hold2","split2","split3","splitov"}
          NetBudget,    \* number of network faults per behaviour
          AdvKinds,     \* subset of the adversary operations below
          AdvBudget,
          MaxOrd,       \* operations address ordinals 1..MaxOrd of a (direction, label)
          FpCs, FpSs,   \* expected-fingerprint modes explored: subsets of {"none","match","mismatch"}
          KindSs,       \* key type of the genuine server's certificate: subset of {"ec", "nonec"} (see NonEcCerts)
          IdCs, IdSs,   \* certificate actually held by the client / server endpoint: "certC"/"certS" or "certM"
          TickQuiet,    \* TRUE: retransmission ticks fire only when the network is quiet (tick >> transit time);
                        \* FALSE: also while at most TickSlack datagrams of the ticking side are still in flight
          TickSlack,
          UseDeadline,  \* TRUE: the handshake deadline may fire (safety runs)
          SendAppData   \* TRUE: one application record each way once both are Connected

VARIABLES ep, outbox, net, held, cnt, shift, nb, ab, ops, cfg, appSent, mDone

vars == <<ep, outbox, net, held, cnt, shift, nb, ab, ops, cfg, appSent, mDone>>

Dir == {"C>S", "S>C"}
DirOf(e) == IF e = "C" THEN "C>S" ELSE "S>C"
RecvOf(d) == IF d = "C>S" THEN "S" ELSE "C"

Lab(m) == IF m.nfrag > 1 THEN m.t \o "#" \o ToString(m.frag) ELSE m.t

\* expected fingerprint as configured by signaling: none / the genuine peer's / somebody else's
ExpFp(mode, e, k) == IF mode = "none" THEN "none"
                     ELSE IF mode = "match" THEN GenuineK(Peer(e), k)
                     ELSE "certX"

Init ==
  /\ cfg \in [fpC : FpCs, fpS : FpSs, idC : IdCs, idS : IdSs, kS : KindSs]
  /\ ep = [e \in E |->
             IF e = "C" THEN InitEp("C", CertOfId(cfg.idC, "C"), AlsoOfId(cfg.idC, "C"), KeyOfId(cfg.idC, "C"), IF cfg.idC = "certC" THEN "dhC" ELSE "dhMc", "rC", ExpFp(cfg.fpC, "C", cfg.kS))
                        ELSE InitEp("S", CertOfIdK(cfg.idS, "S", cfg.kS), AlsoOfIdK(cfg.idS, "S", cfg.kS), KeyOfIdK(cfg.idS, "S", cfg.kS), IF cfg.idS = "certS" THEN "dhS" ELSE "dhMs", "rS", ExpFp(cfg.fpS, "S", cfg.kS))]
  /\ outbox = <<>>
  /\ net = [d \in Dir |-> <<>>]
  /\ held = [d \in Dir |-> <<>>]
  /\ cnt = [d \in Dir |-> <<>>]          \* sequence of [lab, n] pairs (small association list)
  /\ shift = [d \in Dir |-> <<>>]       \* renumbering rules [from, delta]: message_seq >= from moves by delta
  /\ mDone = FALSE
  /\ nb = NetBudget /\ ab = AdvBudget
  /\ ops = <<>>
  /\ appSent = [e \in E |-> FALSE]

Quiescent == outbox = <<>> /\ \A d \in Dir : net[d] = <<>>

Flatten(e, out) ==
  LET RECURSIVE F(_)
      F(i) == IF i > Len(out) THEN <<>>
              ELSE [j \in 1..Len(out[i].msgs) |-> [dir |-> DirOf(e), m |-> out[i].msgs[j]]] \o F(i + 1)
  IN F(1)

Apply(e, r) ==
  /\ ep' = [ep EXCEPT ![e] = r.s]
  /\ outbox' = outbox \o Flatten(e, r.out)

---------------------------------------------------------------------------
(* Endpoint actions                                                         *)

Start(e) ==
  /\ ~ep[e].started /\ outbox = <<>>
  /\ Apply(e, StartOf(ep[e]))
  /\ UNCHANGED <<net, held, cnt, shift, nb, ab, ops, cfg, appSent, mDone>>

Deliver(d) ==
  /\ outbox = <<>> /\ net[d] # <<>>
  /\ ep[RecvOf(d)].started
  /\ \E r \in RecvResults(ep[RecvOf(d)], Head(net[d])) :
       /\ ep' = [ep EXCEPT ![RecvOf(d)] = r.s]
       /\ outbox' = Flatten(RecvOf(d), r.out)
  /\ net' = [net EXCEPT ![d] = Tail(@)]
  /\ UNCHANGED <<held, cnt, shift, nb, ab, ops, cfg, appSent, mDone>>

\* The retransmission timer is long compared with the transit time: it fires when the network is quiet.
TickMay(e) == IF TickQuiet THEN Quiescent
              ELSE outbox = <<>> /\ Len(net[DirOf(e)]) <= TickSlack /\ Len(net[DirOf(Peer(e))]) <= TickSlack
Tick(e) ==
  /\ TickMay(e) /\ ep[e].started
  /\ ep[e].st = "Handshaking" /\ TickOf(ep[e]).out # <<>>
  /\ Apply(e, TickOf(ep[e]))
  /\ UNCHANGED <<net, held, cnt, shift, nb, ab, ops, cfg, appSent, mDone>>

Deadline(e) ==
  /\ UseDeadline /\ Quiescent /\ ep[e].started
  /\ ep[e].st = "Handshaking"
  /\ Apply(e, DeadlineOf(ep[e]))
  /\ UNCHANGED <<net, held, cnt, shift, nb, ab, ops, cfg, appSent, mDone>>

SendApp(e) ==
  /\ SendAppData /\ Quiescent /\ ~appSent[e]
  /\ ep["C"].st = "Connected" /\ ep["S"].st = "Connected"
  /\ appSent' = [appSent EXCEPT ![e] = TRUE]
  /\ outbox' = <<[dir |-> DirOf(e), m |-> AppOf(ep[e])]>>
  /\ UNCHANGED <<ep, net, held, cnt, shift, nb, ab, ops, cfg, mDone>>

---------------------------------------------------------------------------
(* The proxy                                                                *)

CntOf(d, lab) == LET S == {i \in 1..Len(cnt[d]) : cnt[d][i].lab = lab}
                 IN IF S = {} THEN 0 ELSE cnt[d][CHOOSE i \in S : TRUE].n
CntSet(d, lab, n) ==
  LET S == {i \in 1..Len(cnt[d]) : cnt[d][i].lab = lab}
  IN IF S = {} THEN [cnt EXCEPT ![d] = Append(@, [lab |-> lab, n |-> n])]
     ELSE [cnt EXCEPT ![d][CHOOSE i \in S : TRUE].n = n]

RECURSIVE Delta(_, _)
Delta(rules, ms) == IF rules = <<>> THEN 0
                    ELSE (IF ms >= Head(rules).from THEN Head(rules).delta ELSE 0) + Delta(Tail(rules), ms)
Shifted(d, m) == IF Plain(m.t) THEN [m EXCEPT !.ms = m.ms + Delta(shift[d], m.ms)] ELSE m

\* Put `ms` (a sequence of datagrams) on the wire in direction d; each one overtakes the held datagrams.
RECURSIVE Release(_, _)
Release(h, n) ==   \* h: held list, n: number of datagrams that overtook; returns [keep, out]
  IF n = 0 \/ h = <<>> THEN [keep |-> h, out |-> <<>>]
  ELSE LET dec == [i \in 1..Len(h) |-> [k |-> h[i].k - 1, m |-> h[i].m]]
           outs == SelectSeq(dec, LAMBDA x : x.k <= 0)
           keep == SelectSeq(dec, LAMBDA x : x.k > 0)
           rest == Release(keep, n - 1)
       IN [keep |-> rest.keep, out |-> [i \in 1..Len(outs) |-> outs[i].m] \o rest.out]

Wire(d, m, copies) ==
  LET r == Release(held[d], 1)
      ms == IF copies = 2 THEN <<m, m>> ELSE <<m>>
  IN /\ net' = [net EXCEPT ![d] = @ \o ms \o r.out]
     /\ held' = [held EXCEPT ![d] = r.keep]

OpRec(d, lab, o, kind, k) == [dir |-> d, msg |-> lab, ord |-> o, kind |-> kind, k |-> k]

Fragments(m, n) == [i \in 1..n |-> [m EXCEPT !.frag = i, !.nfrag = n,
                                                 !.lo = ((i - 1) * Units) \div n, !.hi = (i * Units) \div n]]

Inj2Kinds == {"inj_sh2", "inj_cert2", "inj_ske2"}
Inj2(kind, ms) ==
  CASE kind = "inj_sh2"   -> [Msg("SH", ms) EXCEPT !.rnd = "rM", !.prof = "1"]
    [] kind = "inj_cert2" -> [Msg("CERT", ms) EXCEPT !.cert = "certM"]
    [] kind = "inj_ske2"  -> [Msg("SKE", ms) EXCEPT !.dh = "dhM", !.sigDh = "dhM", !.sigBy = "certM", !.sigN = "M",
                                                   !.sigCr = "*", !.sigSr = "*"]

AdvApplicable(kind, m) ==
  \/ RewriteApplies(kind, m)
  \/ kind \in Inj2Kinds /\ m.t = "SHD"
  \/ kind = "omit" /\ (Plain(m.t) \/ m.t = "CCS")
  \/ kind \in {"inj_app0", "inj_fin0"}

ProxyStep ==
  /\ outbox # <<>>
  /\ LET x   == Head(outbox)
         d   == x.dir
         m   == x.m
         lab == Lab(m)
         c   == CntOf(d, lab)
         o   == IF c >= MaxOrd THEN MaxOrd + 1 ELSE c + 1
         fwd == Shifted(d, m)
     IN
     /\ cnt' = CntSet(d, lab, o)
     /\ \/ \* forwarded untouched
           /\ Wire(d, fwd, 1)
           /\ outbox' = Tail(outbox)
           /\ UNCHANGED <<nb, ab, ops, shift>>
        \/ \* a network fault
           /\ nb > 0 /\ o <= MaxOrd /\ m.t # "APP"
           /\ \E kind \in NetKinds :
                \/ /\ kind = "drop"
                   /\ outbox' = Tail(outbox) /\ UNCHANGED <<net, held>>
                   /\ ops' = Append(ops, OpRec(d, lab, o, "drop", 0))
                \/ /\ kind = "dup"
                   /\ Wire(d, fwd, 2) /\ outbox' = Tail(outbox)
                   /\ ops' = Append(ops, OpRec(d, lab, o, "dup", 0))
                \/ /\ kind \in {"hold1", "hold2"}
                   /\ LET k == IF kind = "hold1" THEN 1 ELSE 2 IN
                      /\ held' = [held EXCEPT ![d] = Append(@, [k |-> k, m |-> fwd])]
                      /\ ops' = Append(ops, OpRec(d, lab, o, "hold", k))
                   /\ outbox' = Tail(outbox) /\ UNCHANGED net
                \/ \* legal re-packing: this record and the n-1 that follow it travel as ONE record holding all their
                   \* handshake messages (merge) or as one datagram holding the records (coalesce); content unchanged
                   /\ kind \in {"merge2", "merge3", "merge4", "coal2", "coal3", "coal4"}
                   /\ LET n == IF kind \in {"merge2", "coal2"} THEN 2 ELSE IF kind \in {"merge3", "coal3"} THEN 3 ELSE 4 IN
                      /\ Len(outbox) >= n
                      /\ \A i \in 1..n : outbox[i].dir = d /\ Plain(outbox[i].m.t)
                      /\ net' = [net EXCEPT ![d] = @ \o [i \in 1..n |-> Shifted(d, outbox[i].m)]]
                      /\ outbox' = SubSeq(outbox, n + 1, Len(outbox))
                      /\ ops' = Append(ops, OpRec(d, lab, o, IF kind \in {"merge2", "merge3", "merge4"} THEN "merge" ELSE "coalesce", n))
                   /\ UNCHANGED held
                \/ /\ kind = "splitov"              \* two overlapping fragments: [0, 2/3) and [1/3, 1)
                   /\ Plain(m.t) /\ m.nfrag = 1 /\ m.t # "SHD" /\ m.t # "CR"
                   /\ LET fr == <<[m EXCEPT !.frag = 1, !.nfrag = 2, !.lo = 0, !.hi = 4],
                                   [m EXCEPT !.frag = 2, !.nfrag = 2, !.lo = 2, !.hi = Units]>> IN
                      /\ outbox' = [i \in 1..2 |-> [dir |-> d, m |-> fr[i]]] \o Tail(outbox)
                      /\ ops' = Append(ops, OpRec(d, lab, o, "split", 20))
                   /\ UNCHANGED <<net, held>>
                \/ /\ kind \in {"split2", "split3"}
                   /\ Plain(m.t) /\ m.nfrag = 1 /\ m.t # "SHD" /\ m.t # "CR"     \* needs a body to cut
                   /\ LET n == IF kind = "split2" THEN 2 ELSE 3
                          fr == Fragments(m, n) IN
                      /\ outbox' = [i \in 1..n |-> [dir |-> d, m |-> fr[i]]] \o Tail(outbox)
                      /\ ops' = Append(ops, OpRec(d, lab, o, "split", n))
                   /\ UNCHANGED <<net, held>>
           /\ nb' = nb - 1
           /\ UNCHANGED <<ab, shift>>
        \/ \* an adversary operation
           /\ ab > 0 /\ o <= MaxOrd /\ m.nfrag = 1
           /\ \E kind \in AdvKinds :
                /\ AdvApplicable(kind, m)
                /\ ops' = Append(ops, OpRec(d, lab, o, kind, 0))
                /\ \/ /\ kind = "omit"
                      /\ shift' = [shift EXCEPT ![d] = IF Plain(m.t) THEN Append(@, [from |-> m.ms, delta |-> -1]) ELSE @]
                      /\ outbox' = Tail(outbox) /\ UNCHANGED <<net, held>>
                   \/ /\ kind = "inj_app0"                          \* plaintext ApplicationData ahead of m
                      /\ net' = [net EXCEPT ![d] = @ \o <<Msg("APP", 0), fwd>>]
                      /\ outbox' = Tail(outbox) /\ UNCHANGED <<held, shift>>
                   \/ /\ kind = "inj_fin0"                          \* plaintext Finished (garbage) ahead of m
                      /\ net' = [net EXCEPT ![d] = @ \o <<[Msg("FIN", fwd.ms) EXCEPT !.bad = TRUE], fwd>>]
                      /\ outbox' = Tail(outbox) /\ UNCHANGED <<held, shift>>
                   \/ /\ kind \in Inj2Kinds       \* a second ServerHello / Certificate / ServerKeyExchange of M's
                      /\ net' = [net EXCEPT ![d] = @ \o <<Inj2(kind, fwd.ms), [fwd EXCEPT !.ms = fwd.ms + 1]>>]   \* making
                      /\ shift' = [shift EXCEPT ![d] = Append(@, [from |-> m.ms, delta |-> 1])]
                      /\ outbox' = Tail(outbox) /\ UNCHANGED held
                   \/ /\ kind \notin {"omit", "inj_app0", "inj_fin0"} \cup Inj2Kinds
                      /\ Wire(d, Shifted(d, Rewrite(kind, m)), 1)
                      /\ outbox' = Tail(outbox) /\ UNCHANGED shift
           /\ ab' = ab - 1
           /\ UNCHANGED nb
  /\ UNCHANGED <<ep, cfg, appSent, mDone>>

\* M holds the secret of dhM: once the client has derived its keys from that share, M can compute the same master
\* secret (everything else it needs travelled in clear) and finish the handshake in the server's place: ChangeCipherSpec,
\* a correct Finished, application data.
MTakeover ==
  /\ AdvBudget > 0 /\ ~mDone /\ outbox = <<>>
  /\ ep["C"].st = "Handshaking" /\ ep["C"].keys # NoMaster /\ "dhM" \in ep["C"].keys.pre
  /\ mDone' = TRUE
  /\ net' = [net EXCEPT !["S>C"] = @ \o <<Msg("CCS", 0),
                 [Msg("FIN", ep["C"].recvSeq) EXCEPT !.fin = Fin("S", ep["C"].keys, ep["C"].tr), !.enc = ep["C"].keys],
                 [Msg("APP", 0) EXCEPT !.enc = ep["C"].keys]>>]
  /\ UNCHANGED <<ep, outbox, held, cnt, shift, nb, ab, ops, cfg, appSent>>

Forward ==   \* ProxyStep without an operation (for fairness)
  /\ outbox # <<>>
  /\ ProxyStep /\ ops' = ops

Next ==
  \/ ProxyStep
  \/ MTakeover
  \/ \E e \in E : Start(e) \/ Tick(e) \/ Deadline(e) \/ SendApp(e)
  \/ \E d \in Dir : Deliver(d)

Spec == Init /\ [][Next]_vars

FairSpec == Spec /\ WF_vars(Forward)
                 /\ \A e \in E : WF_vars(Start(e)) /\ SF_vars(Tick(e)) /\ SF_vars(SendApp(e))
                 /\ \A d \in Dir : WF_vars(Deliver(d))

---------------------------------------------------------------------------
(* Properties                                                               *)

\* C11 safety
KeyAgree    == KeyAgreement(ep["C"], ep["S"])
AppReadable == \A e \in E : ep[e].appBad = 0
\* C11 liveness: finitely many faults => both Connected (the deadline is later than that)
Converge    == <>[](ep["C"].st = "Connected" /\ ep["S"].st = "Connected")
\* Against the reference server, which never sends its final flight a second time (its handshake loop ends
\* when it has finished): convergence unless the schedule loses that one flight.
RefFinalLost == \E i \in 1..Len(ops) : ops[i].dir = "S>C" /\ ops[i].msg = "FIN" /\ ops[i].kind \in {"drop", "hold"}
ConvergeRefS == <>[]((ep["C"].st = "Connected" /\ ep["S"].st = "Connected") \/ RefFinalLost)

\* C02
DhOf(cert) == CASE cert \in {"certS", "certSn"} -> "dhS" [] cert = "certC" -> "dhC" [] cert = "certM" -> "dhM" [] OTHER -> "dhX"
Auth       == \A e \in E : AuthOf(ep[e])
AuthClient == AuthOf(ep["C"])
AuthKey    == \A e \in E : (ep[e].st = "Connected" /\ ep[e].expFp # "none") => ep[e].peerDh = DhOf(ep[e].expFp)
AuthKeyClient == (ep["C"].st = "Connected" /\ ep["C"].expFp # "none") => ep["C"].peerDh = DhOf(ep["C"].expFp)
FailClosed == \A e \in E : FailClosedOf(ep[e])
\* no possession proof can be verified with a non-EC certificate key: whoever presents such a certificate - its
\* owner included - is never connected to, keys are never derived from its handshake
NonEcNeverConnects == \A e \in E : (ep[e].peerCert \in NonEcCerts) => (ep[e].st # "Connected" /\ ep[e].keys = NoMaster)
NonEcClientFails   == (cfg.kS = "nonec" /\ cfg.fpC = "match") => ep["C"].st # "Connected"

---------------------------------------------------------------------------
(* Emission                                                                 *)

Settled == Quiescent /\ \A e \in E : ep[e].started /\ ep[e].st # "Handshaking"

OutRec == [ops |-> ops, cfg |-> cfg,
           final |-> [e \in E |-> ep[e].st],
           keysEq |-> (ep["C"].keys = ep["S"].keys),
           auth |-> [e \in E |-> AuthOf(ep[e]) /\ ((ep[e].st = "Connected" /\ ep[e].expFp # "none" /\ e = "C")
                                                      => ep[e].peerDh = DhOf(ep[e].expFp))],
           appGot |-> [e \in E |-> ep[e].appGot]]

EmitSched   == (ops' # ops) => PrintT(<<"SCHED", ToJson([ops |-> ops', cfg |-> cfg])>>)
EmitOutcome == Settled => PrintT(<<"OUT", ToJson(OutRec)>>)
NoEmit      == TRUE
=============================================================================
