------------------------- MODULE Trace_DtlsRecord -------------------------
(* Validation of wire traces recorded from real DtlsTransport senders      *)
(* against the sender rules of DtlsRecord.tla (property C03, second        *)
(* sentence).  One event per record captured on the peer socket:           *)
(*   {ev:"rec", ct, epoch, seq, nonce, enc, ptlen, clear, dup, intact,..}  *)
(*   {ev:"msg", task, msg, n, covered, complete}  one per submitted payload*)
(*   {ev:"reset", scenario, limit}                a new connection (keys)  *)
(* Everything the rules speak about is logged, so the explanation of a     *)
(* trace is unique: each event is consumed and the rules it breaks are     *)
(* collected in `bad` (reported at the end), instead of blocking.          *)
EXTENDS Naturals, Integers, Sequences, FiniteSets, TLC, Json, IOUtils

Rec == ndJsonDeserialize(IOEnv.TRACE)

VARIABLES l,        \* cursor
          used,     \* <<epoch, seq>> pairs already used under the current keys
          nonces,   \* explicit nonces already used under the current keys
          limit,    \* path limit of the current scenario
          lossy,    \* the capture of the current scenario is known to be incomplete
          bad       \* set of <<event index, rule>>
vars == <<l, used, nonces, limit, lossy, bad>>

Broken(e) ==
  IF e.ev = "rec" /\ ~e.dup
  THEN    (IF <<e.epoch, e.seq>> \in used \/ e.nonce \in nonces THEN {"NonceUnique"} ELSE {})
     \cup (IF e.epoch < 1 THEN {"EpochProtected"} ELSE {})
     \cup (IF ~e.enc \/ e.clear THEN {"Encrypted"} ELSE {})
     \cup (IF e.ct = 23 /\ e.ptlen > limit THEN {"RecordLimit"} ELSE {})
     \cup (IF ~e.intact THEN {"PayloadCarried"} ELSE {})
  ELSE IF e.ev = "msg" /\ ~e.complete /\ ~lossy THEN {"PayloadCarried"}
  ELSE IF e.ev = "junk" THEN {"WellFormed"}
  ELSE {}

TraceInit ==
  /\ l = 1 /\ used = {} /\ nonces = {} /\ limit = 0 /\ lossy = FALSE /\ bad = {}
  /\ TLCSet(1, 1)

Step ==
  /\ l <= Len(Rec)
  /\ LET e == Rec[l] IN
     /\ bad' = bad \cup {<<l, r>> : r \in Broken(e)}
     /\ IF e.ev = "reset"
        THEN used' = {} /\ nonces' = {} /\ limit' = e.limit /\ lossy' = e.lossy
        ELSE IF e.ev = "rec" /\ ~e.dup
        THEN used' = used \cup {<<e.epoch, e.seq>>} /\ nonces' = nonces \cup {e.nonce} /\ UNCHANGED <<limit, lossy>>
        ELSE UNCHANGED <<used, nonces, limit, lossy>>
  /\ l' = l + 1
  /\ TLCSet(1, l')

TraceSpec == TraceInit /\ [][Step]_vars

\* evaluated in every state; prints the verdict once, in the final state
Report == (l = Len(Rec) + 1) => PrintT(<<"BAD", ToJson([n |-> Len(Rec), bad |-> bad])>>)
Consumed == TLCGet(1) = Len(Rec) + 1
=============================================================================
