SPECIFICATION TraceSpec
CONSTRAINT Furthest
POSTCONDITION Accepted
CHECK_DEADLOCK FALSE
