-------------------------- MODULE MC_DtlsRecord --------------------------
(* Bounded model + generators for DtlsRecord.tla.                          *)
(*  rx: EmitEdge prints one JSON line per (receiver state, record) pair    *)
(*      TLC generates: the record to inject, the phase it is injected in,  *)
(*      and per observable the values the design allows and the rule.      *)
(*  tx: EmitScen prints one line per initial configuration (payload plan,  *)
(*      early callers, close at the end) - the scenarios the harness runs  *)
(*      with real concurrency.                                             *)
EXTENDS DtlsRecord, Json

\* the cfg language has no records: FlipBits <- MCFlipBits
CONSTANTS FbApp, FbAlert, FbHs, FbCcs
MCFlipBits == [AppData |-> FbApp, AlertClose |-> FbAlert, AlertOther |-> FbAlert, Handshake |-> FbHs, CCS |-> FbCcs]

StateName(ph) == IF ph \in {"NoKeys", "KeysPending"} THEN "Handshaking" ELSE ph

EdgeRec ==
  LET rec == last'.rec
      e   == Effects(role, phase, rec) IN
  [ role  |-> role, phase |-> phase, pre |-> hist,
    act   |-> [ct |-> rec.ct, cls |-> rec.cls, src |-> rec.src, pos |-> rec.pos, how |-> rec.how, rep |-> rec.rep,
               bits |-> IF rec.cls = "e1-flip" THEN FlipBits[rec.ct] ELSE 0],
    region |-> Region(rec), authentic |-> Authentic(rec), keys |-> KeysExist(phase),
    exp   |-> [ delivered |-> [allowed |-> e.delta, rule |-> e.drule],
                \* before keys exist the replayer can only observe the state after it has let the
                \* handshake run on, so nothing is expected of it
                state     |-> [allowed |-> IF KeysExist(phase) THEN {StateName(n) : n \in e.next}
                                           ELSE {"Handshaking", "Connected", "Closed", "Failed"},
                               rule |-> e.srule] ] ]

EmitEdge == (Part = "rx" /\ last'.kind = "recv") => PrintT(<<"EDGE", ToJson(EdgeRec)>>)
NoEmit   == TRUE

EmitScen == (Part = "tx" /\ hs = "fin" /\ wire = {}) =>
              PrintT(<<"SCEN", ToJson([sizes |-> plan, early |-> early, close |-> withClose])>>)
\* scenario generation only: do not explore beyond the initial configurations
ScenOnly == hs = "fin" /\ wire = {}
=============================================================================
