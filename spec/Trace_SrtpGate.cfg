SPECIFICATION TraceSpec
CONSTANTS
  Rules = {"NothingBeforeKeys", "NoClearEgress", "NoClearIngress", "Explained"}
CONSTRAINT Furthest
POSTCONDITION Accepted
CHECK_DEADLOCK FALSE
