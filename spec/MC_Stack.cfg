SPECIFICATION Spec
CONSTANTS
  Mode = "WebRtc"
  Deviations = {}
PROPERTIES KeysAfterDtls SctpAfterDtls OpenAfterSctp ConnectedAfterAll DtlsAfterStart
CHECK_DEADLOCK FALSE
