------------------------------ MODULE MC_Ring ------------------------------
(* Bounded model + schedule generator for Ring.tla.                        *)
(* EmitEdge is an ACTION_CONSTRAINT with a print side effect: one JSON     *)
(* line per (state, thread-step) pair TLC generates: identifiers of the    *)
(* two states, the thread that stepped and what the real objects must show *)
(* after the step.  checks/C20.py turns the edge set into complete thread  *)
(* schedules (init -> teardown) that cover every edge.                     *)
EXTENDS Ring, Json, SequencesExt

CONSTANTS Prog1, Prog2, Prog3        \* programs of producers 1..3 as decimal numbers (a cfg file cannot hold a tuple):
                                     \* one digit per op, first op first; 1 = send, 2 = try_send, 3 = send_many (two
                                     \* samples), 4 = clone; 0 = producer absent (producer 1: just drops its handle)
OpOf(d) == CASE d = 1 -> "send" [] d = 2 -> "try" [] d = 3 -> "many" [] d = 4 -> "clone"
RECURSIVE Digits(_)
Digits(n) == IF n = 0 THEN <<>> ELSE Append(Digits(n \div 10), n % 10)
ProgOf(n) == [i \in 1..Len(Digits(n)) |-> OpOf(Digits(n)[i])]
MCProg == LET all == (1 :> ProgOf(Prog1)) @@ (2 :> ProgOf(Prog2)) @@ (3 :> ProgOf(Prog3))
          IN  [p \in {q \in 1..3 : Len(all[q]) > 0 \/ q = 1} |-> all[p]]

\* Compact state identifier (a JSON array): every variable of the view, flattened to integers.
B(b) == IF b THEN 1 ELSE 0
Labels == <<"call", "h_release", "c_sleep", "done", "src_closed", "src_lock", "push_lt", "push_lh", "push_w",
            "push_st", "src_notify", "src_trylock", "src_popunlock", "src_unlock", "pop_lh", "pop_lt", "pop_r",
            "pop_sh", "clone_add", "drop_sub", "drop_close", "drop_notify", "r_create", "r_ended", "r_lock",
            "r_closed", "r_setended", "r_unlock", "r_await", "r_recheck", "empty", "stop_store", "stop_notify",
            "rdrop_close", "rdrop_notify">>
LabelMap == [l \in {Labels[i] : i \in 1..Len(Labels)} |-> CHOOSE i \in 1..Len(Labels) : Labels[i] = l]
LabelIdx(l) == LabelMap[l]
Results == <<"", "Ok", "WouldBlock", "Closed", "none", "ok", "eos">>
ResMap == [r \in {Results[i] : i \in 1..Len(Results)} |-> CHOOSE i \in 1..Len(Results) : Results[i] = r]
ResIdx(r) == ResMap[r]
ProcSeq == SetToSeq(Procs)
SetToSortedSeq(X) == SetToSeq(X)          \* TLC enumerates a set of integers / strings in its normalised order
LocTuple(r) == <<r.lt, r.lh, r.ph, r.pt, r.got, r.cur, r.phase, r.mleft, r.opi, r.k,
                 B(r.hmode = "arc"), B(r.fin), ResIdx(r.res), B(r.eos), B(r.cl)>>
WbyIdx(w) == IF w = "" THEN 0 ELSE IF w = "one" THEN 1 ELSE 2
ConsSeq == SetToSeq(Cons)
StateId(h, t, sl, pl, ql, cl, en, ac, ar, pe, ge, wa, cg, wb, pcs, lo, cr, fr, dr, re, cre, er, to, st) ==
  << h, t, [i \in 1..Cap |-> sl[i - 1]], pl, ql, B(cl), B(en), ac, ar, B(pe), ge, wa,
     [i \in 1..Len(ConsSeq) |-> <<ConsSeq[i], cg[ConsSeq[i]], WbyIdx(wb[ConsSeq[i]])>>],
     [i \in 1..Len(ProcSeq) |-> <<ProcSeq[i], LabelIdx(pcs[ProcSeq[i]])>> \o LocTuple(lo[ProcSeq[i]])],
     SetToSortedSeq(cr), SetToSortedSeq(fr), SetToSortedSeq(dr), re,
     [i \in 1..Len(ConsSeq) |-> <<ConsSeq[i], ResIdx(cre[ConsSeq[i]])>>], SetToSortedSeq(er), B(to), B(st) >>
SidNow  == StateId(head, tail, slot, plock, poplock, closed, ended, active, arc, permit, gen, waiting, cgen, wby, pc, loc,
               created, freed, dropped, received, cres, err, torn, stopped)
SidNext == StateId(head', tail', slot', plock', poplock', closed', ended', active', arc', permit', gen', waiting', cgen',
               wby', pc', loc', created', freed', dropped', received', cres', err', torn', stopped')

EdgeRec == [f |-> SidNow, t |-> SidNext, p |-> who']

\* Non-vacuity probes: each NV_x is the negation of a situation the rules talk about; the selftest checks that TLC
\* reports it violated (= the situation is reachable) in one of the bounded configurations.
NV_DropOldest      == \A p \in Prods : pc[p] # "src_popunlock"
NV_TrylockFails    == \A p \in Prods : ~(pc[p] = "src_trylock" /\ poplock # 0)
NV_WouldBlock      == \A p \in Prods : loc[p].res # "WouldBlock"
NV_PopFindsEmpty   == \A p \in Prods : ~(pc[p] = "pop_lt" /\ loc[p].ph = tail)
NV_Sleeps          == pc[C] # "c_sleep"
NV_WakeupAnte      == ~(OthersDone /\ closed /\ pc[C] = "c_sleep")
NV_DrainAnte       == ~(cres[C] = "eos" /\ ~stopped /\ Len(received) > 0)
NV_EosByStopEarly  == ~(cres[C] = "eos" /\ stopped /\ head # tail)
NV_PermitPath      == ~(pc[C] = "r_await" /\ permit /\ gen = cgen[C])
NV_GenerationPath  == ~(pc[C] = "r_await" /\ gen # cgen[C])
NV_CancelForwards  == \A c \in Cons : ~(pc[c] = "c_sleep" /\ ~Asleep(c) /\ wby[c] = "one" /\ loc[c].phase < CCancel)
NV_CancelRegistered == \A c \in Cons : ~(pc[c] = "c_sleep" /\ Asleep(c) /\ loc[c].phase < CCancel)
NV_PartialMany     == \A p \in Prods : ~(loc[p].mleft > 0 /\ \E i \in 1..Len(received) : ProdOf(received[i]) = p)
NV_TwoWaiters      == Len(waiting) < 2
NV_OtherTookIt     == \A c \in Cons : ~(pc[c] = "pop_lt" /\ loc[c].ph = tail /\ Len(received) > 0 /\ ~closed)
NV_RecheckNonEmpty == ~(pc[C] = "empty" /\ head # tail)
NV_RingDropFrees   == ~(torn /\ head # tail)
NV_DropNotLast     == \A p \in Prods : ~(pc[p] = "drop_sub" /\ active > 1)
NV_ArcNotLast      == \A p \in Prods : ~(pc[p] = "h_release" /\ loc[p].hmode = "arc" /\ arc > 1)
NV_LockContended   == \A p \in Prods : ~(pc[p] = "src_lock" /\ plock # 0)
NV_ConsumerBlocked == ~(pc[C] = "r_lock" /\ poplock # 0)
\* expected to HOLD (dead branches of the code, reported in the design note)
Dead_SecondPushFull == \A p \in Prods : ~(pc[p] = "push_lh" /\ loc[p].phase = 1 /\ loc[p].lt - head >= Cap)
Dead_SenderSeesClosed == \A p \in Prods : ~(pc[p] = "src_closed" /\ closed)

EmitEdge == PrintT(<<"EDGE", ToJson(EdgeRec)>>)
NoEmit   == TRUE
=============================================================================
