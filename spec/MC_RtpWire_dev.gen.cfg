SPECIFICATION Spec
CONSTANTS
  Mode = "compound"
  Deviations = {}
  CsrcCounts = {0, 1, 15, 16}
  PadLens = {0, 1, 255}
  PayLens = {0, 1, 3, 4, 1200}
  ExtIds1 = {1, 7, 14}
  ExtLens1 = {1, 2, 3, 4, 16}
  ExtIds2 = {1, 15, 255}
  ExtLens2 = {0, 1, 3, 255}
  MaxEls = 3
  ReportCounts = {0, 1, 31, 32}
  LostVals = {-8388609, -8388608, -1, 0, 1, 8388607, 8388608}
  TextLens = {0, 1, 255, 256}
  MaxCompound = 3
  ExtDepth = 3
  NackBits = 6
  MaxNackSet = 3
  BufCaps = {1, 2, 3}
  BufSeqs = {65534, 65535, 0, 1}
  BufDepth = 4
  GapDeltas = {0, 1, 2, 3, 129, 130, 32767, 32768, 32769, 65535}
  GapDepth = 3
INVARIANTS Laws Emit
CHECK_DEADLOCK FALSE
