SPECIFICATION Spec
CONSTANTS
  M = 16
  S = 8
  Chans <- Chans1
  Msgs <- MsgsA12
  InitTsnA = {0, 14}
  InitTsnB = {0, 14}
  MaxRtx = 2
  MaxT1 = 2
  Win = 2
  Initiators = {"A"}
  RtxBurst = 9
  Rwnd = 9
  DelaySack = FALSE
  Deviations = {}
  NetMode = "set"
  Budget = 0
  Props = {"C01", "C12", "C13"}
INVARIANTS TypeOK PrefixDelivery OneToOne OpenOnce OpenBeforeMessage ConsecutiveTsn WindowRespected NewDataWithinWindow
PROPERTIES SetupIdempotent
CHECK_DEADLOCK FALSE
