----------------------------- MODULE SrtpGatePc -----------------------------
(***************************************************************************)
(* C14 at the level of a whole PeerConnection: the srtp_required flag is    *)
(* derived from the transport mode (peer_connection.rs, start_dtls) and the *)
(* session is installed by setup_srtp (DTLS-SRTP exporter) or setup_sdes    *)
(* (a=crypto).  Endpoint A is observed from the network side:               *)
(*   WebRtc : A and a second connection B, joined by a UDP relay that holds *)
(*            DTLS datagrams until `Keys` (so "before keys" is a causal     *)
(*            fact about the run, not a time);                              *)
(*   Srtp   : A is the SDP offerer, the remote is a raw socket holding the  *)
(*            a=crypto keys; `Keys` = the answer is applied;                *)
(*   Rtp    : same rig, no protection negotiated (control: C14 is silent).   *)
(* phase: "up" (signalled as far as possible without keys) -> "keyed" ->    *)
(* "closed".                                                                *)
(***************************************************************************)
EXTENDS Naturals, Sequences, FiniteSets, TLC

CONSTANTS Modes, MaxLen, Ops, Deviations

VARIABLES mode, phase, hist, last

vars == <<mode, phase, hist, last>>
view == <<mode, phase>>

AllOps == {"Push", "Raw", "InClearRtp", "InClearRtcp", "InForged", "InValid", "Keys", "Close",
           "InValidNack", "Gap", "KeyFrame", "Report"}
Required == mode # "Rtp"

Init ==
  /\ mode \in Modes
  /\ phase = "up"
  /\ hist = <<>>
  /\ last = [op |-> "", w |-> "", d |-> "", aw |-> 0, ad |-> 0, dx |-> 1]

\* what C14 allows A to put on the wire in this state: 0 nothing, 1 protected only, 2 anything
AllowW == IF ~Required THEN 2 ELSE IF phase = "up" /\ "FlagFromMode" \notin Deviations THEN 0 ELSE 1
\* may an inbound packet of this class reach a track / observer / feedback channel of A?
AllowD(auth) == IF ~Required THEN 1 ELSE IF auth = "valid" /\ phase # "up" THEN 1 ELSE 0

\* the contract's own outcome (exact: EXT).  "p" protected, "c" clear, "" nothing.
Egress == IF phase # "keyed" THEN (IF "FlagFromMode" \in Deviations /\ phase = "up" /\ mode = "WebRtc" THEN "c" ELSE "")
          ELSE IF Required THEN "p" ELSE "c"
Deliver(auth) == IF phase # "keyed" THEN (IF "FlagFromMode" \in Deviations /\ phase = "up" /\ mode = "WebRtc" /\ auth = "clear"
                                           THEN 1 ELSE 0)
                 ELSE IF Required THEN (IF auth = "valid" THEN 1 ELSE 0)
                 ELSE (IF auth = "forged" THEN 0 ELSE 1)

Step(op, w, d, auth, exact) ==
  /\ last' = [op |-> op, w |-> w, d |-> d, aw |-> AllowW,
              ad |-> IF auth = "none" THEN 0 ELSE AllowD(auth), dx |-> exact]
  /\ hist' = Append(hist, op)

Send(op) == Step(op, Egress, 0, "none", 1) /\ UNCHANGED <<mode, phase>>
\* (a media sample pushed before keys may be queued and leave, protected, once keys exist: not exact)
Push == Step("Push", Egress, 0, "none", IF phase = "up" THEN 0 ELSE 1) /\ UNCHANGED <<mode, phase>>
In(op, auth) ==
  /\ Step(op, "", Deliver(auth), auth,
          \* a valid packet sent before keys is queued at the peer; garbage in the unprotected mode parses or not
          IF (auth = "valid" /\ phase = "up") \/ (auth = "forged" /\ ~Required) THEN 0 ELSE 1)
  /\ UNCHANGED <<mode, phase>>
\* (whether accepted feedback becomes visible - key-frame request, retransmission - depends on the media: not exact)
InRtcp == Step("InClearRtcp", "", Deliver("clear"), "clear", 0) /\ UNCHANGED <<mode, phase>>
\* Egress sources above the transport (the statement lists them): retransmission answering an authenticated NACK,
\* the receiver's NACK for a hole in valid media, a key-frame request of the application (PLI/FIR), the periodic
\* sender report. Whether and when they fire depends on media state, so the expectation is not exact; what they put
\* on the wire is judged like any other datagram.
Source(op, auth) == Step(op, Egress, IF auth = "valid" THEN Deliver("valid") ELSE 0, auth, 0) /\ UNCHANGED <<mode, phase>>
Keys == phase = "up" /\ phase' = "keyed" /\ Step("Keys", "", 0, "none", 0) /\ UNCHANGED mode
Close == phase # "closed" /\ phase' = "closed" /\ Step("Close", Egress, 0, "none", 1) /\ UNCHANGED mode

Do(op) ==
  CASE op = "Push" -> Push
    [] op = "Raw" -> Send("Raw")
    [] op = "InClearRtp" -> In(op, "clear")
    [] op = "InClearRtcp" -> InRtcp
    [] op = "InForged" -> In(op, "forged")
    [] op = "InValid" -> In(op, "valid")
    [] op = "InValidNack" -> Source(op, "valid")
    [] op = "Gap" -> Source(op, "valid")
    [] op = "KeyFrame" -> Source(op, "none")
    [] op = "Report" -> Source(op, "none")
    [] op = "Keys" -> Keys
    [] op = "Close" -> Close

Next == Len(hist) < MaxLen /\ \E op \in Ops : Do(op)
Spec == Init /\ [][Next]_vars

\* C14 for the contract's own steps (action properties: `last` is outside the VIEW)
EgressOK == [][ Required => (last'.w = "" \/ (last'.w = "p" /\ phase # "up")) ]_vars
IngressOK == [][ (Required /\ last'.d = 1) => last'.ad = 1 ]_vars
AllowedInside == [][ /\ (last'.w = "p" => last'.aw >= 1) /\ (last'.w = "c" => last'.aw = 2)
                     /\ (Required => last'.aw <= 1) /\ ((Required /\ phase = "up") => last'.aw = 0) ]_vars
TypeOK == mode \in {"WebRtc", "Srtp", "Rtp"} /\ phase \in {"up", "keyed", "closed"}
=============================================================================
