----------------------------- MODULE SrtpGatePc -----------------------------
(***************************************************************************)
(* C14 at the level of a whole PeerConnection: the srtp_required flag is    *)
(* derived from the transport mode (peer_connection.rs, start_dtls) and the *)
(* session is installed by setup_srtp (DTLS-SRTP exporter) or setup_sdes    *)
(* (a=crypto).  Endpoint A is observed from the network side:               *)
(*   WebRtc : A and a second connection B, joined by a UDP relay that holds *)
(*            DTLS datagrams until `Keys` (so "before keys" is a causal     *)
(*            fact about the run, not a time);                              *)
(*   Srtp   : the remote is a raw socket holding the a=crypto keys.         *)
(*            role offerer : A offers; `Keys` = the remote answer is applied *)
(*            role answerer: the remote offer is applied in the set-up and  *)
(*              A's answer is created but not yet set; `Keys` = A sets its  *)
(*              answer (traffic that reaches A's socket before that is      *)
(*              buffered by the direct transport and handed over when the   *)
(*              media transport starts);                                    *)
(*            crypto: the remote description's a=crypto is usable ("ok") or  *)
(*              not ("none": absent, RTP/AVP downgrade; "suite": unknown    *)
(*              suite; "key": truncated key) - then no session can ever be   *)
(*              derived, the connection fails, and must stay shut;          *)
(*   Rtp    : same rig, no protection negotiated (control: C14 is silent).   *)
(* phase: "up" (signalled as far as possible without keys) -> "keyed" or    *)
(* "failed" -> "closed".                                                    *)
(***************************************************************************)
EXTENDS Naturals, Sequences, FiniteSets, TLC

CONSTANTS Modes, Roles, Cryptos, MaxLen, Ops, Deviations

VARIABLES mode, role, crypto,
          phase,
          haskeys,   \* a session has been derived
          early,     \* what unauthenticated traffic reached A's socket before `Keys`: "" | "rtp" | "rtcp"
                     \* (implementation state - buffered datagrams - the abstract phase does not determine)
          hist, last

vars == <<mode, role, crypto, phase, haskeys, early, hist, last>>
view == <<mode, role, crypto, phase, haskeys, early>>

AllOps == {"Push", "Raw", "InClearRtp", "InClearRtcp", "InForged", "InValid", "Keys", "Close",
           "InValidNack", "Gap", "KeyFrame", "Report"}
Required == mode # "Rtp"

Init ==
  /\ mode \in Modes
  /\ role \in (IF mode = "Srtp" THEN Roles ELSE {"offerer"})
  /\ crypto \in (IF mode = "Srtp" THEN Cryptos ELSE {"ok"})
  /\ phase = "up" /\ haskeys = FALSE /\ early = ""
  /\ hist = <<>>
  /\ last = [op |-> "", w |-> "", d |-> 0, aw |-> 0, ad |-> 0, dx |-> 1]

\* what C14 allows A to put on the wire in this state: 0 nothing, 1 protected only, 2 anything
AllowW == IF ~Required THEN 2 ELSE IF ~haskeys /\ "FlagFromMode" \notin Deviations THEN 0 ELSE 1
\* may an inbound packet of this class reach a track / observer / feedback channel of A?
AllowD(auth) == IF ~Required THEN 1 ELSE IF auth = "valid" /\ haskeys THEN 1 ELSE 0

\* the contract's own outcome (exact: EXT).  "p" protected, "c" clear, "" nothing.
FallsOpen == "FlagFromMode" \in Deviations /\ ~haskeys /\ Required /\ phase # "closed"
Egress == IF phase = "keyed" THEN (IF Required THEN "p" ELSE "c")
          ELSE IF FallsOpen /\ (mode = "WebRtc" \/ phase = "failed") THEN "c" ELSE ""
Deliver(auth) == IF phase = "keyed" THEN (IF Required THEN (IF auth = "valid" THEN 1 ELSE 0)
                                          ELSE (IF auth = "forged" THEN 0 ELSE 1))
                 ELSE IF FallsOpen /\ auth = "clear" /\ (mode = "WebRtc" \/ phase = "failed") THEN 1 ELSE 0

Step(op, w, d, auth, exact) ==
  /\ last' = [op |-> op, w |-> w, d |-> d, aw |-> AllowW,
              ad |-> IF auth = "none" THEN 0 ELSE AllowD(auth), dx |-> exact]
  /\ hist' = Append(hist, op)

Same == UNCHANGED <<mode, role, crypto, phase, haskeys>>

Send(op) == Step(op, Egress, 0, "none", 1) /\ Same /\ UNCHANGED early
\* (a media sample pushed before keys may be queued and leave, protected, once keys exist: not exact)
Push == Step("Push", Egress, 0, "none", IF phase = "up" THEN 0 ELSE 1) /\ Same /\ UNCHANGED early
In(op, auth, kind) ==
  /\ Step(op, "", Deliver(auth), auth,
          \* a valid packet sent before keys is queued at the peer; garbage in the unprotected mode parses or not
          IF (auth = "valid" /\ phase = "up") \/ (auth = "forged" /\ ~Required) THEN 0 ELSE 1)
  /\ early' = IF phase = "up" /\ auth # "valid" THEN kind ELSE early
  /\ Same
\* (whether accepted feedback becomes visible - key-frame request, retransmission - depends on the media: not exact)
InRtcp ==
  /\ Step("InClearRtcp", "", Deliver("clear"), "clear", 0)
  /\ early' = IF phase = "up" THEN "rtcp" ELSE early
  /\ Same
\* Egress sources above the transport (the statement lists them): retransmission answering an authenticated NACK,
\* the receiver's NACK for a hole in valid media, a key-frame request of the application (PLI/FIR), the periodic
\* sender report. Whether and when they fire depends on media state, so the expectation is not exact; what they put
\* on the wire is judged like any other datagram.
Source(op, auth) == Step(op, Egress, IF auth = "valid" THEN Deliver("valid") ELSE 0, auth, 0) /\ Same /\ UNCHANGED early
\* Keys: the step after which a session exists - or, with an unusable a=crypto, can never exist. What was buffered
\* before is handed to the new transport in this step: it must not come out at any sink.
Keys ==
  /\ phase = "up"
  /\ phase' = IF crypto = "ok" THEN "keyed" ELSE "failed"
  /\ haskeys' = (crypto = "ok")
  /\ Step("Keys", "", 0, IF early = "" THEN "none" ELSE "clear", 0)
  /\ early' = ""                       \* handed over (and, by the contract, dropped)
  /\ UNCHANGED <<mode, role, crypto>>
Close ==
  /\ phase # "closed" /\ phase' = "closed"
  /\ Step("Close", Egress, 0, "none", 1)
  /\ early' = ""
  /\ UNCHANGED <<mode, role, crypto, haskeys>>

Do(op) ==
  CASE op = "Push" -> Push
    [] op = "Raw" -> Send("Raw")
    [] op = "InClearRtp" -> In(op, "clear", "rtp")
    [] op = "InClearRtcp" -> InRtcp
    [] op = "InForged" -> In(op, "forged", "rtp")
    [] op = "InValid" -> In(op, "valid", "rtp")
    [] op = "InValidNack" -> Source(op, "valid")
    [] op = "Gap" -> Source(op, "valid")
    [] op = "KeyFrame" -> Source(op, "none")
    [] op = "Report" -> Source(op, "none")
    [] op = "Keys" -> Keys
    [] op = "Close" -> Close

Next == Len(hist) < MaxLen /\ \E op \in Ops : Do(op)
Spec == Init /\ [][Next]_vars

\* C14 for the contract's own steps (action properties: `last` is outside the VIEW)
EgressOK == [][ Required => (last'.w = "" \/ (last'.w = "p" /\ haskeys)) ]_vars
IngressOK == [][ (Required /\ last'.d = 1) => last'.ad = 1 ]_vars
AllowedInside == [][ /\ (last'.w = "p" => last'.aw >= 1) /\ (last'.w = "c" => last'.aw = 2)
                     /\ (Required => last'.aw <= 1) /\ ((Required /\ ~haskeys) => last'.aw = 0) ]_vars
TypeOK == /\ mode \in {"WebRtc", "Srtp", "Rtp"} /\ phase \in {"up", "keyed", "failed", "closed"}
          /\ (haskeys => crypto = "ok") /\ (phase = "keyed" => haskeys) /\ (phase = "failed" => ~haskeys)
=============================================================================
