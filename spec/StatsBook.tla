----------------------------- MODULE StatsBook -----------------------------
(***************************************************************************)
(* EXT06 - RTCP reception bookkeeping of StatsCollector                    *)
(* (src/stats_collector.rs): per-SSRC extended highest sequence number,    *)
(* cumulative and fractional loss (RFC 3550 A.1 / A.3), LSR / DLSR of the  *)
(* report blocks it builds, the opportunistic Receiver Report, round-trip  *)
(* time from LSR / DLSR of incoming reports, mirrored remote statistics.   *)
(* Beyond the listed properties: rules are EXT, findings are DRIFT only.   *)
(*                                                                         *)
(* Actions = public calls:                                                 *)
(*   Recv(s, d)    on_packet_received: a packet of source s whose sequence *)
(*                 number is d after the highest seen (real 16-bit numbers,*)
(*                 first packet 65534)                                     *)
(*   Burst(s, n)   n in-order packets (reaches the 50-packet threshold of  *)
(*                 the first opportunistic Receiver Report)                *)
(*   Report        build_report_blocks (what an outgoing SR / RR carries)  *)
(*   SrIn(s, j)    process_rtcp(SenderReport from s with NTP stamp j)      *)
(*   SrOut(j)      on_sr_sent: we sent an SR with NTP stamp j              *)
(*   RrIn(j, e)    process_rtcp(ReceiverReport about our stream whose LSR  *)
(*                 echoes our SR j the way e says)                         *)
(*                                                                         *)
(* Contract = RFC 3550: 6.4.1 "LSR: the middle 32 bits out of 64 in the    *)
(* NTP timestamp received as part of the most recent RTCP sender report",  *)
(* A.1 (extended highest sequence number), A.3 (expected, lost, fraction). *)
(* Departure of the pinned code (Deviations):                              *)
(*   LsrIsNtpLeast  LSR is taken to be the low 32 bits (ntp_least) of the  *)
(*                  NTP stamp, both when building report blocks and when   *)
(*                  matching an incoming LSR against the SRs we sent: a    *)
(*                  conformant peer computes a wrong RTT from our reports  *)
(*                  and we never compute one from its reports              *)
(***************************************************************************)
EXTENDS Naturals, Integers, Sequences, FiniteSets, TLC

CONSTANTS Sources, Deltas, MaxLen, Deviations
AllDeviations == {"LsrIsNtpLeast"}
ASSUME Deviations \subseteq AllDeviations
Dev(d) == d \in Deviations

VARIABLES
  rx,       \* per source: [init, base, max (extended), cycles, recv, expPrior, recvPrior]
  lastSr,   \* per source: NTP stamp index of the last SR received (0 = none)
  sentSr,   \* NTP stamp indices of the SRs we sent
  rtt,      \* a round-trip time has been computed for our stream
  nSince,   \* packets since the last opportunistic RR
  rrSent,   \* an opportunistic RR has been emitted
  out,      \* observable result of the last action
  hist

vars == <<rx, lastSr, sentSr, rtt, nSince, rrSent, out, hist>>
view == <<rx, lastSr, sentSr, rtt, IF nSince > 50 THEN 50 ELSE nSince, rrSent, out>>

Mod16(x) == ((x % 65536) + 65536) % 65536
Fresh == [init |-> FALSE, base |-> 0, max |-> 0, cycles |-> 0, recv |-> 0, expPrior |-> 0, recvPrior |-> 0]

\* NTP stamps are opaque; what a report carries as LSR for stamp j: "m" = middle 32 bits, "l" = low 32 bits
LsrOf(j) == IF j = 0 THEN [j |-> 0, part |-> "zero"]
            ELSE [j |-> j, part |-> IF Dev("LsrIsNtpLeast") THEN "l" ELSE "m"]

Init ==
  /\ rx = [s \in Sources |-> Fresh] /\ lastSr = [s \in Sources |-> 0] /\ sentSr = {} /\ rtt = FALSE
  /\ nSince = 0 /\ rrSent = FALSE /\ out = [kind |-> "none", blocks |-> <<>>] /\ hist = <<>>

\* RFC 3550 A.1 without probation, as the code has it
Update(r, q) ==
  IF ~r.init THEN [r EXCEPT !.init = TRUE, !.base = q, !.max = q, !.cycles = 0, !.recv = 1]
  ELSE LET low == r.max % 65536
           ud  == Mod16(q - low) IN
       IF ud < 32768
       THEN LET c == IF q < low THEN r.cycles + 1 ELSE r.cycles IN
            [r EXCEPT !.cycles = c, !.max = c * 65536 + q, !.recv = @ + 1]
       ELSE [r EXCEPT !.recv = @ + 1]                   \* late / duplicate far behind: counted, not extending

Expected(r) == IF r.init THEN r.max - r.base + 1 ELSE 0
\* RFC 3550 A.3
Block(s, r) ==
  LET e  == Expected(r)
      ei == e - r.expPrior
      ri == r.recv - r.recvPrior
      li == ei - ri
  IN [ssrc |-> s, fraction |-> IF ei = 0 \/ li <= 0 THEN 0 ELSE ((li * 256) \div ei) % 256,
      lost |-> e - r.recv, highest |-> r.max, lsr |-> LsrOf(lastSr[s])]

RECURSIVE SortedSrc(_)
SortedSrc(S) == IF S = {} THEN <<>> ELSE LET m == CHOOSE x \in S : \A y \in S : x <= y IN <<m>> \o SortedSrc(S \ {m})
Reporting(x) == {s \in Sources : x[s].init /\ x[s].recv > 0}
Blocks(x) == LET ss == SortedSrc(Reporting(x)) IN [i \in 1..Len(ss) |-> Block(ss[i], x[ss[i]])]
Advance(x) == [s \in Sources |-> IF s \in Reporting(x)
                                  THEN [x[s] EXCEPT !.expPrior = Expected(x[s]), !.recvPrior = x[s].recv] ELSE x[s]]

\* the receive path: bookkeeping, then the opportunistic Receiver Report (first one after 50 packets;
\* later ones need 3 s of real time and are outside a replay)
AfterRecv(x1, n) ==
  IF ~rrSent /\ n >= 50 /\ Reporting(x1) # {}
  THEN /\ out' = [kind |-> "rr", blocks |-> Blocks(x1)] /\ rx' = Advance(x1) /\ rrSent' = TRUE /\ nSince' = 0
  ELSE /\ out' = [kind |-> "recv", blocks |-> <<>>] /\ rx' = x1 /\ rrSent' = rrSent /\ nSince' = n

Recv(s, d) ==
  /\ Len(hist) < MaxLen
  /\ LET q == IF rx[s].init THEN Mod16((rx[s].max % 65536) + d) ELSE 65534 IN
     /\ hist' = Append(hist, [op |-> "recv", s |-> s, seq |-> q, n |-> 1, j |-> 0, e |-> ""])
     /\ AfterRecv([rx EXCEPT ![s] = Update(@, q)], nSince + 1)
  /\ UNCHANGED <<lastSr, sentSr, rtt>>

RECURSIVE UpdateN(_, _, _)
UpdateN(r, q, n) == IF n = 0 THEN r ELSE UpdateN(Update(r, q), Mod16(q + 1), n - 1)
\* n in-order packets; the opportunistic report can only fire on the last of them in this model (n <= 49)
Burst(s, n) ==
  /\ Len(hist) < MaxLen /\ ~rrSent /\ nSince + n <= 50
  /\ LET q == IF rx[s].init THEN Mod16((rx[s].max % 65536) + 1) ELSE 65534 IN
     /\ hist' = Append(hist, [op |-> "burst", s |-> s, seq |-> q, n |-> n, j |-> 0, e |-> ""])
     /\ AfterRecv([rx EXCEPT ![s] = UpdateN(@, q, n)], nSince + n)
  /\ UNCHANGED <<lastSr, sentSr, rtt>>

Report ==
  /\ Len(hist) < MaxLen
  /\ hist' = Append(hist, [op |-> "report", s |-> 0, seq |-> 0, n |-> 0, j |-> 0, e |-> ""])
  /\ out' = [kind |-> "report", blocks |-> Blocks(rx)]
  /\ rx' = Advance(rx)
  /\ UNCHANGED <<lastSr, sentSr, rtt, nSince, rrSent>>

SrIn(s, j) ==
  /\ Len(hist) < MaxLen
  /\ hist' = Append(hist, [op |-> "srin", s |-> s, seq |-> 0, n |-> 0, j |-> j, e |-> ""])
  /\ lastSr' = [lastSr EXCEPT ![s] = j]
  /\ out' = [kind |-> "srin", blocks |-> <<>>]
  /\ UNCHANGED <<rx, sentSr, rtt, nSince, rrSent>>

SrOut(j) ==
  /\ Len(hist) < MaxLen /\ j \notin sentSr
  /\ hist' = Append(hist, [op |-> "srout", s |-> 0, seq |-> 0, n |-> 0, j |-> j, e |-> ""])
  /\ sentSr' = sentSr \cup {j}
  /\ out' = [kind |-> "srout", blocks |-> <<>>]
  /\ UNCHANGED <<rx, lastSr, rtt, nSince, rrSent>>

\* e: how the peer filled LSR: "m" middle 32 bits of our SR j (conformant), "l" its low 32 bits, "zero", "other"
RrIn(j, e) ==
  /\ Len(hist) < MaxLen
  /\ hist' = Append(hist, [op |-> "rrin", s |-> 0, seq |-> 0, n |-> 0, j |-> j, e |-> e])
  /\ rtt' = (rtt \/ (j \in sentSr /\ e = (IF Dev("LsrIsNtpLeast") THEN "l" ELSE "m")))
  /\ out' = [kind |-> "rrin", blocks |-> <<>>]
  /\ UNCHANGED <<rx, lastSr, sentSr, nSince, rrSent>>

Next ==
  \/ \E s \in Sources, d \in Deltas : Recv(s, d)
  \/ \E s \in Sources, n \in {3, 45} : Burst(s, n)
  \/ Report
  \/ \E s \in Sources, j \in {1, 2} : SrIn(s, j)
  \/ \E j \in {1, 2} : SrOut(j)
  \/ \E j \in {1, 2}, e \in {"m", "l", "zero", "other"} : RrIn(j, e)

Spec == Init /\ [][Next]_vars

---------------------------------------------------------------------------
(* the contract, recounted from the history (independent of the operational bookkeeping above) *)
Bounded == Len(hist) <= MaxLen
\* all sequence numbers of source s in arrival order, bursts expanded
RECURSIVE Arrivals(_, _)
Arrivals(s, i) ==
  IF i > Len(hist) THEN <<>>
  ELSE LET h == hist[i] IN
       (IF h.op \in {"recv", "burst"} /\ h.s = s THEN [m \in 1..h.n |-> Mod16(h.seq + m - 1)] ELSE <<>>)
       \o Arrivals(s, i + 1)
\* unwrapped position of every arrival relative to the first one, following RFC 3550 A.1: a number within
\* 2^15 ahead of the highest so far extends it, anything else does not
RECURSIVE HighestExt(_, _, _)
HighestExt(a, i, hi) ==       \* hi = unwrapped highest so far (first arrival = its own number)
  IF i > Len(a) THEN hi
  ELSE LET ud == Mod16(a[i] - (hi % 65536)) IN
       HighestExt(a, i + 1, IF ud < 32768 THEN hi + ud ELSE hi)
ExtendedOk ==
  \A s \in Sources : LET a == Arrivals(s, 1) IN
     Len(a) > 0 => /\ rx[s].max = HighestExt(a, 2, a[1])
                   /\ rx[s].recv = Len(a)
                   /\ Expected(rx[s]) = HighestExt(a, 2, a[1]) - a[1] + 1
\* LSR of a report block names the middle 32 bits of the last SR received from that source
LsrMiddle == \A i \in 1..Len(out.blocks) : out.blocks[i].lsr.part \in {"m", "zero"}
\* a conformant echo of an SR we sent yields a round-trip time; nothing else does
RttRule == rtt <=> (\E i \in 1..Len(hist) : hist[i].op = "rrin" /\ hist[i].e = "m" /\
                       \E m \in 1..(i - 1) : hist[m].op = "srout" /\ hist[m].j = hist[i].j)
=============================================================================
