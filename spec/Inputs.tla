------------------------------- MODULE Inputs -------------------------------
(***************************************************************************)
(* C07 - no bytes from the network or signaling peer can crash, hang or     *)
(* bloat the stack; operations on parsed packets are total.                 *)
(*                                                                         *)
(* TLC cannot quantify over byte strings.  What this specification holds   *)
(* is                                                                      *)
(*  (a) the wire grammar of every network-facing entry point as data       *)
(*      (InputsGrammar.tla): fields with width and kind, length-of /        *)
(*      count-of relations, nesting;                                        *)
(*  (b) the connection-state dimension of each live endpoint               *)
(*      (pre-handshake, mid-handshake, established, closing, and the        *)
(*      terminal states failed / closed);                                   *)
(*  (c) the totality contract: in every state, for every input class       *)
(*      (template x field x mutation) the step is enabled, returns a value  *)
(*      or an error, and leaves the endpoint in a modelled state.           *)
(*                                                                         *)
(* One action per thing the harness can do to an endpoint: Progress (the    *)
(* genuine peer advances the connection one phase), Feed (one mutated       *)
(* input is delivered), Close (local close).  TLC enumerates                *)
(* entry x phase x template x field x mutation completely; every such edge  *)
(* is concretised by the harness from a genuine message and executed on     *)
(* the real decoder / endpoint.                                             *)
(*                                                                         *)
(* Where the pinned code deviates (a class of input that panics), the       *)
(* deviation is a named switch in CONSTANT Deviations: with Deviations = {} *)
(* the contract holds on the model.                                         *)
(***************************************************************************)
EXTENDS InputsGrammar, TLC

CONSTANTS Entries,     \* names of the entry points explored in this run
          Muts,        \* mutations explored
          MaxFeeds,    \* inputs fed per behaviour
          Deviations   \* subset of DeviationNames

VARIABLES ent,         \* entry point under test (never changes)
          phase,       \* connection state of the endpoint
          nfeeds,      \* inputs fed so far
          last,        \* the last step (class of the input, abstract result)
          hist         \* steps taken so far

vars == <<ent, phase, nfeeds, last, hist>>
view == <<ent, phase, nfeeds>>       \* last/hist are bookkeeping

---------------------------------------------------------------------------
(* Entry points                                                             *)

Pure == <<"none">>
Conn == <<"pre", "mid", "est", "closing">>

E(name, kind, phases, tpls) == [name |-> name, kind |-> kind, phases |-> phases, tpls |-> tpls]

RtpTpls  == {"rtp.plain", "rtp.ext1", "rtp.ext2", "rtp.pad", "rtp.stapa", "rtp.fua", "rtp.rtx"}
RtcpTpls == {"rtcp.sr", "rtcp.rr", "rtcp.sdes", "rtcp.bye", "rtcp.nack", "rtcp.twcc", "rtcp.pli", "rtcp.fir",
             "rtcp.remb", "rtcp.compound", "rtcp.padded", "rtcp.compound_padlast", "rtcp.compound_padmid"}
StunTpls == {"stun.binding_req", "stun.binding_ok4", "stun.binding_ok6", "stun.alloc_ok", "stun.error401",
             "stun.data_ind"}
DgTpls   == {"dg.clienthello", "dg.serverhello", "dg.hvr", "dg.cert", "dg.ske", "dg.shd", "dg.cke", "dg.frag", "dg.opaque"}
SctpTpls == {"sctp.init", "sctp.init_ack", "sctp.cookie_echo", "sctp.cookie_ack", "sctp.data", "sctp.dcep_open",
             "sctp.sack", "sctp.heartbeat", "sctp.forward_tsn", "sctp.reconfig", "sctp.abort", "sctp.shutdown",
             "sctp.bundle"}
SdpTpls  == {"sdp.webrtc", "sdp.simulcast", "sdp.sdes", "sdp.t38"}

AllEntries == <<
  \* pure decoders and operations on what they return
  E("rtp", "decoder", Pure, RtpTpls),
  E("rtcp", "decoder", Pure, RtcpTpls),
  E("stun", "decoder", Pure, StunTpls),
  E("dtls_record", "decoder", Pure, {"dtls.record2"}),
  E("dtls_hsmsg", "decoder", Pure, {"dtls.hsmsg"}),
  E("dtls_clienthello", "decoder", Pure, {"dtls.clienthello"}),
  E("dtls_serverhello", "decoder", Pure, {"dtls.serverhello"}),
  E("dtls_hvr", "decoder", Pure, {"dtls.hvr"}),
  E("dtls_ske", "decoder", Pure, {"dtls.ske"}),
  E("dtls_cert", "decoder", Pure, {"dtls.cert"}),
  E("dtls_cke", "decoder", Pure, {"dtls.cke"}),
  E("dtls_finished", "decoder", Pure, {"dtls.finished"}),
  E("dcep", "decoder", Pure, {"dcep.open", "dcep.ack"}),
  E("sdp", "decoder", Pure, SdpTpls),
  E("candidate", "decoder", Pure, {"sdp.candidate"}),
  \* live endpoints
  E("ice_udp", "endpoint", Conn, StunTpls \cup {"turn.channeldata", "rtp.plain", "rtcp.rr", "dg.opaque"}),
  E("turn_udp", "endpoint", <<"pre", "est", "closing">>, {"stun.alloc_ok", "stun.error401", "stun.data_ind", "turn.channeldata"}),
  \* RFC 5766 framing: STUN and ChannelData messages follow each other on the stream, delimited by their own length fields
  E("turn_tcp", "endpoint", <<"pre", "est", "closing">>, {"stun.alloc_ok", "stun.error401", "stun.data_ind", "turn.channeldata", "stun.binding_req"}),
  E("ice_tcp", "endpoint", <<"pre", "est">>, {"tcp.stun_binding_req"}),
  E("dtls_server", "endpoint", Conn, DgTpls),
  E("dtls_client", "endpoint", Conn, DgTpls),
  E("sctp", "endpoint", Conn, SctpTpls),
  E("rtp_transport", "endpoint", <<"pre", "est", "closing">>, RtpTpls \cup RtcpTpls),
  E("pc_sdp", "endpoint", Conn, SdpTpls \ {"sdp.t38"}),
  E("pc_candidate", "endpoint", Conn, {"sdp.candidate"}),
  E("udptl", "endpoint", <<"est">>, {"udptl.packet"}),
  \* a PeerConnection in plain RTP mode: the whole media receive pipeline behind its RTP port
  \* two PeerConnections over loopback (ICE + DTLS + SCTP + media); inputs from a third party to the victim's socket
  E("pc_webrtc", "endpoint", Conn, {"stun.binding_req", "stun.binding_ok4", "stun.error401", "turn.channeldata",
                                     "dg.clienthello", "dg.serverhello", "dg.cke", "dg.frag", "dg.opaque",
                                     "rtp.plain", "rtp.ext1", "rtcp.rr", "rtcp.nack"}),
  E("pc_rtp", "endpoint", <<"pre", "est", "closing">>, RtpTpls \cup RtcpTpls \cup {"stun.binding_req"})
>>

EntryNames == {AllEntries[i].name : i \in 1..Len(AllEntries)}
Entry(e)   == AllEntries[CHOOSE i \in 1..Len(AllEntries) : AllEntries[i].name = e]
TplsOf(e)  == Entry(e).tpls
PhasesOf(e) == {Entry(e).phases[i] : i \in 1..Len(Entry(e).phases)}
FirstPhase(e) == Entry(e).phases[1]
NextPhase(e, p) ==
  LET ps == Entry(e).phases
      i  == CHOOSE j \in 1..Len(ps) : ps[j] = p
  IN IF i < Len(ps) THEN ps[i + 1] ELSE p

\* the phases at or after p: an accepted input may carry the connection forward (one ICE check can connect), never back
AtOrAfter(e, p) ==
  IF p \in {"failed", "closed"} THEN {p}          \* terminal states are kept
  ELSE LET ps == Entry(e).phases
           i  == CHOOSE j \in 1..Len(ps) : ps[j] = p
       IN {ps[j] : j \in i..Len(ps)}

Terminal   == {"failed", "closed"}
\* every state an endpoint may be observed in
Modelled(e) == PhasesOf(e) \cup (IF Entry(e).kind = "endpoint" THEN Terminal ELSE {})

---------------------------------------------------------------------------
(* Mutations and their applicability to a leaf                              *)

\* a count that is measured backwards from the end of its group (tail leaf: the RTP / RTCP pad count) set relative to
\* the lengths around it: rel_g_* = length of its own group (what the count may at most consume: RTCP body, RTP payload
\* + padding) - 4 .. + 4; rel_e_* = length of the group around that one (the RTCP packet with its header; the whole
\* message when there is none) - 4 .. + 1.  Between the two lies the window "more than the body, less than the packet".
RelMuts == {"rel_g_m4", "rel_g_m3", "rel_g_m2", "rel_g_m1", "rel_g_0", "rel_g_p1", "rel_g_p2", "rel_g_p3", "rel_g_p4",
            "rel_e_m4", "rel_e_m3", "rel_e_m2", "rel_e_m1", "rel_e_0", "rel_e_p1"}

FlagRelMuts == {"rel_g_m1", "rel_g_0", "rel_g_p1", "rel_g_p2", "rel_g_p3", "rel_g_p4"}

AllMuts == {"trunc_before", "trunc_before_fix", "trunc_inside", "trunc_inside_fix",
            "len_0", "len_m1", "len_p1", "len_max",
            "count_0", "count_p1", "count_max",
            "tag_unknown", "val_0", "val_max", "dup", "dup_fill", "dup_fill_empty", "empty",
            "list_plus1", "list_minus1", "swap", "nest",
            "seq_m1", "seq_p1", "seq_p2", "seq_p32768", "seq_half",
            "lst_empty_mid", "lst_lead", "lst_trail", "lst_only_sep", "lst_multibyte", "lst_multibyte_first",
            "lst_prefix_only", "lst_many", "lst_long"} \cup RelMuts

Applicable(l, m) ==
  IF l.k \in TextKinds
  THEN CASE m \in {"trunc_before", "trunc_inside"} -> l.k # "line"          \* cut the description at / inside the token
         [] m \in {"len_0", "len_m1", "len_p1", "len_max", "count_max"} -> l.k = "num"
                      \* 0, value-1, value+1, 2^bits - 1, 2^bits (just past the integer type)
         [] m = "tag_unknown" -> l.k = "word"
         [] m \in {"dup", "dup_fill", "swap"} -> l.k = "line"
         [] m = "empty" -> l.k \in {"text", "num", "word"}                   \* empty token
         \* separator-structured values: an empty element (doubled / leading / trailing separator, the separator
         \* alone), an element that is one multi-byte character or starts with one, an element that is only the
         \* prefix character, ten thousand elements, one very long element
         [] m \in {"lst_empty_mid", "lst_lead", "lst_trail", "lst_only_sep", "lst_multibyte", "lst_multibyte_first",
                   "lst_many", "lst_long"} -> l.ls # ""
         [] m = "lst_prefix_only" -> l.ls # "" /\ l.px # ""
         [] OTHER -> FALSE
  ELSE CASE m \in {"trunc_before", "trunc_before_fix"} -> ~l.ov /\ ~l.tail
         [] m \in {"trunc_inside", "trunc_inside_fix"} -> ~l.ov /\ ~l.tail /\ (l.w >= 2 \/ l.k \in {"var", "rest"})
         [] m \in {"len_0", "len_m1", "len_p1", "len_max"} -> l.k = "len"
         [] m \in {"count_0", "count_p1", "count_max"} -> l.k = "count"
         [] m = "tag_unknown" -> l.k = "tag"
         [] m \in {"val_0", "val_max"} -> l.k = "fixed" /\ ~l.ov /\ l.w <= 8     \* boundary values of a plain field
         [] m \in {"dup", "dup_fill", "dup_fill_empty"} -> l.el
         [] m = "empty" -> l.k \in {"var", "rest"}
         \* a list of fixed-width elements whose byte length is not a multiple of the element width (one byte more /
         \* one byte less, every enclosing length repaired so that the list walker is reached)
         [] m \in {"list_plus1", "list_minus1"} -> l.ew > 1
         \* the element exchanged with its successor; the element nested in its own value several levels deep
         [] m \in {"swap", "nest"} -> l.el
         \* sequence numbers relative to the endpoint's current value of that sequence space: one behind, the next,
         \* one gap, 2^15 ahead, and the farthest value serial arithmetic still calls "ahead" (2^(bits-1) - 1)
         [] m \in {"seq_m1", "seq_p1", "seq_p2", "seq_p32768", "seq_half"} -> l.sq # ""
         \* a backwards count at the end of a group: values relative to the enclosing lengths
         \* ... and on the flag that announces such a count where the genuine message has none (the P bit set on an
         \* unpadded packet: the last octet of whatever is there becomes the count): the flag set and that octet at
         \* the length of the group it counts in - 1 .. + 4
         [] m \in RelMuts -> \/ l.tail /\ l.k \in {"len", "count"}
                             \/ l.pf # "" /\ m \in FlagRelMuts
         [] OTHER -> FALSE

MaxLeaves == 100

\* quantitative side of "promptly" and "not disproportionate" (the harness measures against these)
CpuBoundMs  == 50          \* CPU time of one step
AllocFactor == 64          \* peak allocation <= AllocFactor * input bytes + AllocSlack
AllocSlack  == 1048576

\* input classes of an entry point
Classes(e) == {c \in [tpl : TplsOf(e), idx : 1..MaxLeaves, mut : Muts] :
                 c.idx <= Len(Leaves(c.tpl)) /\ Applicable(Leaves(c.tpl)[c.idx], c.mut)}

---------------------------------------------------------------------------
(* Known deviations of the pinned tree (each one found by this check and    *)
(* reproduced on the real code; see KNOWN_FINDINGS.json).  A deviation       *)
(* says: inputs of this class break the contract (the step panics, or it     *)
(* returns after allocating / computing out of proportion).                 *)

\* repaired on the tree: HelloEndsAfterRandom, SetExtensionSlicesPast, EmptyTurnData, TurnTcpFrameLength,
\* MidPlusOneOverflows, PostHvrSeqOverflows (state dependent: client, after a HelloVerifyRequest).  Still open (the step returns, but allocates far beyond AllocFactor):
\* StapAAmplifies, MediaSectionsUnbounded.
DeviationNames == {"HelloEndsAfterRandom", "SetExtensionSlicesPast", "EmptyTurnData", "TurnTcpFrameLength",
                   "MidPlusOneOverflows", "PostHvrSeqOverflows", "StapAAmplifies", "MediaSectionsUnbounded"}

Crashes(e, t, l, m) ==
  \/ /\ "HelloEndsAfterRandom" \in Deviations
     /\ t \in {"dtls.clienthello", "dtls.serverhello", "dg.clienthello", "dg.serverhello"}
     /\ l.n = "sidlen" /\ m \in {"trunc_before", "trunc_before_fix"}
  \/ /\ "SetExtensionSlicesPast" \in Deviations
     /\ t = "rtp.ext1" /\ l.n \in {"l1", "l2"} /\ m \in {"len_p1", "len_max"}
  \/ /\ "EmptyTurnData" \in Deviations
     /\ e \in {"turn_udp", "turn_tcp"} /\ l.n \in {"data.v", "data"} /\ m = "empty"
  \/ /\ "TurnTcpFrameLength" \in Deviations
     /\ e = "turn_tcp" /\ l.n = "length" /\ m \in {"len_max"}      \* the length that delimits the message on the stream
  \/ /\ "MidPlusOneOverflows" \in Deviations
     /\ e = "pc_sdp" /\ l.n = "mid" /\ m = "len_max"
  \/ /\ "PostHvrSeqOverflows" \in Deviations
     /\ e = "dtls_client" /\ t = "dg.serverhello" /\ l.n = "sh.mseq" /\ m = "val_max"
  \/ /\ "StapAAmplifies" \in Deviations
     /\ e \in {"rtp", "rtp_transport"} /\ t = "rtp.stapa" /\ m = "dup_fill_empty"
  \/ /\ "MediaSectionsUnbounded" \in Deviations
     /\ e = "pc_sdp" /\ l.n \in {"m.line", "mapp.line"} /\ m = "dup_fill"

---------------------------------------------------------------------------
(* Behaviour                                                                *)

NoStep == [kind |-> "init", tpl |-> "", field |-> "", idx |-> 0, mut |-> "", res |-> "", from |-> ""]

Init ==
  /\ ent \in Entries
  /\ phase = FirstPhase(ent)
  /\ nfeeds = 0
  /\ last = NoStep
  /\ hist = <<>>

Live == phase \notin Terminal \cup {"crashed"}

\* the genuine peer (or the local application) moves the connection one phase on
Progress ==
  /\ Entry(ent).kind = "endpoint" /\ Live
  /\ NextPhase(ent, phase) # phase
  /\ phase' = NextPhase(ent, phase)
  /\ last' = [NoStep EXCEPT !.kind = "progress", !.from = phase]
  /\ hist' = Append(hist, [op |-> "progress", to |-> phase'])
  /\ UNCHANGED <<ent, nfeeds>>

\* one mutated input is delivered.  The contract: the step is enabled whatever the state,
\* it returns ("total" abstracts value-or-error), and the endpoint is afterwards in a modelled
\* state: where it was, further on (the mutation may have produced an acceptable message), or a
\* terminal state - never an earlier phase.
Feed(c) ==
  LET l == Leaves(c.tpl)[c.idx] IN
  /\ nfeeds < MaxFeeds
  /\ phase # "crashed"
  /\ c \in Classes(ent)
  /\ nfeeds' = nfeeds + 1
  /\ IF Crashes(ent, c.tpl, l, c.mut)
     THEN /\ phase' = "crashed"
          /\ last' = [kind |-> "feed", tpl |-> c.tpl, field |-> l.n, idx |-> c.idx, mut |-> c.mut, res |-> "panic", from |-> phase]
     ELSE /\ phase' \in (AtOrAfter(ent, phase) \cup
                         (IF Entry(ent).kind = "endpoint" THEN Terminal ELSE {}))
          /\ last' = [kind |-> "feed", tpl |-> c.tpl, field |-> l.n, idx |-> c.idx, mut |-> c.mut, res |-> "total", from |-> phase]
  /\ hist' = Append(hist, [op |-> "feed", tpl |-> c.tpl, field |-> l.n, mut |-> c.mut])
  /\ UNCHANGED ent

Next == Progress \/ \E c \in Classes(ent) : Feed(c)

Spec == Init /\ [][Next]_vars

---------------------------------------------------------------------------
(* Property C07 on the model                                                *)

TypeOK ==
  /\ ent \in EntryNames
  /\ phase \in Modelled(ent) \cup {"crashed"}
  /\ nfeeds \in 0..MaxFeeds

\* no input class takes the endpoint out of the modelled states
NoCrash == phase # "crashed"

\* every step that delivers an input returns and leaves a modelled state
TotalStep == [][ last'.kind = "feed" => (last'.res = "total" /\ phase' \in Modelled(ent)) ]_vars

\* input-enabledness: in every reachable state every input class of the entry point can be delivered
InputEnabled == (nfeeds < MaxFeeds /\ phase # "crashed") => \A c \in Classes(ent) : ENABLED Feed(c)

\* the tables themselves
GrammarOK == \A i \in 1..Len(AllTemplates) : WellFormed(AllTemplates[i].leaves)
EntriesOK == /\ Entries \subseteq EntryNames
             /\ \A e \in EntryNames : TplsOf(e) \subseteq TemplateNames
             /\ Muts \subseteq AllMuts
             /\ Deviations \subseteq DeviationNames
             /\ \A i \in 1..Len(AllTemplates) : Len(AllTemplates[i].leaves) <= MaxLeaves
ASSUME GrammarOK
ASSUME EntriesOK
=============================================================================
