SPECIFICATION Spec
CONSTANTS
  ReqX = {TRUE, FALSE}
  ReqY = {TRUE, FALSE}
  MaxGen = 2
  NSnd = 1
  NRcv = 1
  NCtl = 2
  SndOps = {"S", "SR", "SC", "BYE"}
  RcvOps = {"RcR", "RcC", "RvR", "RfR", "RvC", "RfC"}
  CtlOps = {"KX", "KY", "BX", "BY", "B0", "CL"}
  Deviations = {}
VIEW view
INVARIANTS TypeOK
PROPERTIES EgressOK IngressOK AllowedInside
ACTION_CONSTRAINT NoEmit
CHECK_DEADLOCK FALSE
