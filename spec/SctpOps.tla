------------------------------ MODULE SctpOps ------------------------------
(***************************************************************************)
(* Pure operators shared by the bounded model (SctpAssoc.tla) and the      *)
(* trace monitor (Trace_SctpAssoc.tla): serial-number arithmetic exactly   *)
(* as the code's tsn_gt / ssn_gt, the receive path of handle_data /        *)
(* process_data_payload / InboundStream (dedup against the cumulative ack, *)
(* TSN-ordered drain, B/E reassembly per channel, SSN resequencing),       *)
(* handle_forward_tsn, and apply_sack_to_sent_queue.                       *)
(***************************************************************************)
EXTENDS Naturals, Integers, Sequences, FiniteSets, TLC

CONSTANTS
  M,           \* TSN modulus (power of two)
  S,           \* SSN modulus (power of two)
  Deviations   \* named deviations of the pinned code from the intended design

---------------------------------------------------------------------------
(* Serial arithmetic: the code's tsn_gt / ssn_gt, parametrised by modulus  *)
SGT(a, b, mod) == LET d == (a + mod - b) % mod IN d # 0 /\ d < (mod \div 2)
Inc(a, mod) == (a + 1) % mod
Dec(a, mod) == (a + mod - 1) % mod
TsnGT(a, b) == SGT(a, b, M)
SsnGT(a, b) == SGT(a, b, S)

---------------------------------------------------------------------------
(* Fragments and messages                                                  *)
(* frag: [ch, ssn, u (unordered), b, e, m (message id), i (index), len,     *)
(*        d (DCEP control message: consumes a TSN, is not user data)]       *)
NoFrag == [ch |-> 0, ssn |-> 0, u |-> FALSE, b |-> FALSE, e |-> FALSE, m |-> 0, i |-> 0, len |-> 0, d |-> FALSE]

\* a delivered message is the sequence of fragments that were glued together
MsgId(msg)  == msg[1].m
Intact(msg, n) == /\ Len(msg) = n
                  /\ \A j \in 1..Len(msg) : msg[j].m = msg[1].m /\ msg[j].i = j
MsgLen(msg) == LET RECURSIVE Sum(_)
                   Sum(k) == IF k = 0 THEN 0 ELSE msg[k].len + Sum(k - 1)
               IN Sum(Len(msg))

---------------------------------------------------------------------------
(* Receiver.  r = [cum, has (cum valid), rcvd (set of [tsn, fr]),           *)
(*                 reasm (ch -> Seq(frag)), ssnIn (ch -> ssn),             *)
(*                 pend (ch -> set of [ssn, msg]), out (Seq of [ch, msg])]  *)
(* `out` accumulates messages handed to the application by this step.      *)
EmptyRx(nch) == [cum |-> 0, has |-> FALSE, rcvd |-> {},
                 reasm |-> [c \in 1..nch |-> <<>>],
                 ssnIn |-> [c \in 1..nch |-> 0],
                 pend  |-> [c \in 1..nch |-> {}],
                 out   |-> <<>>]

RECURSIVE DrainPend(_, _)
DrainPend(r, c) ==
  IF \E x \in r.pend[c] : x.ssn = r.ssnIn[c]
  THEN LET x == CHOOSE x \in r.pend[c] : x.ssn = r.ssnIn[c]
       IN DrainPend([r EXCEPT !.pend[c]  = @ \ {x},
                              !.ssnIn[c] = Inc(@, S),
                              !.out      = Append(@, [ch |-> c, msg |-> x.msg])], c)
  ELSE r

\* process_data_payload for a user-data fragment, in TSN order.
\* ordf[c] says whether channel c delivers in SSN order.
ProcFrag(r, f, ordf) ==
  IF f.d \/ f.ch = 0 THEN r        \* DCEP, or data for a stream nobody listens on: dropped
  ELSE
  LET c   == f.ch
      buf == IF f.b THEN <<f>> ELSE Append(r.reasm[c], f)
  IN IF ~f.e THEN [r EXCEPT !.reasm[c] = buf]
     ELSE IF f.u \/ ~ordf[c]
          THEN [r EXCEPT !.reasm[c] = <<>>, !.out = Append(@, [ch |-> c, msg |-> buf])]
          ELSE DrainPend([r EXCEPT !.reasm[c] = <<>>,
                                   \* BTreeMap insert: a later message with the same SSN replaces
                                   !.pend[c] = {x \in @ : x.ssn # f.ssn} \cup {[ssn |-> f.ssn, msg |-> buf]}], c)

RECURSIVE Drain(_, _)
Drain(r, ordf) ==
  IF \E x \in r.rcvd : x.tsn = Inc(r.cum, M)
  THEN LET x == CHOOSE x \in r.rcvd : x.tsn = Inc(r.cum, M)
       IN Drain(ProcFrag([r EXCEPT !.cum = Inc(@, M), !.rcvd = @ \ {x}], x.fr, ordf), ordf)
  ELSE r

IsDupTsn(r, tsn) == tsn = r.cum \/ ~TsnGT(tsn, r.cum) \/ (\E x \in r.rcvd : x.tsn = tsn)

\* handle_data: dedup against the cumulative ack and the buffer, insert, drain in TSN order
RxData(r, tsn, f, ordf) ==
  IF IsDupTsn(r, tsn) THEN r
  ELSE Drain([r EXCEPT !.rcvd = @ \cup {[tsn |-> tsn, fr |-> f]}], ordf)

\* handle_forward_tsn: serial comparison; skipped SSNs are passed over; buffered data at or
\* below the new point is discarded.  streams = set of [ch, ssn].
AdvanceSsn(r, c, ssn) ==
  IF SsnGT(Inc(ssn, S), r.ssnIn[c])
  THEN DrainPend([r EXCEPT !.ssnIn[c] = Inc(ssn, S),
                           !.pend[c]  = {x \in @ : SsnGT(x.ssn, ssn)}], c)
  ELSE r
RECURSIVE AdvanceAll(_, _)
AdvanceAll(r, streams) ==
  IF streams = {} THEN r
  ELSE LET x == CHOOSE x \in streams : TRUE
       IN AdvanceAll(AdvanceSsn(r, x.ch, x.ssn), streams \ {x})
FwdGT(a, b) == IF "FwdPlainCompare" \in Deviations THEN a > b ELSE TsnGT(a, b)
RxForward(r, newCum, streams) ==
  IF ~FwdGT(newCum, r.cum) THEN r
  ELSE AdvanceAll([r EXCEPT !.cum = newCum,
                            !.rcvd = {x \in @ : FwdGT(x.tsn, newCum)}], streams)

GapSet(r) == {x.tsn : x \in r.rcvd}

---------------------------------------------------------------------------
(* Sender.  sentQ = set of [tsn, fr, n (transmissions), acked (gap-acked), ab (abandoned)] *)
ApplySack(q, cum, gaps) ==
  {[x EXCEPT !.acked = x.acked \/ (x.tsn \in gaps)] : x \in {y \in q : TsnGT(y.tsn, cum)}}
Outstanding(q) == {x \in q : ~x.acked /\ ~x.ab}

=============================================================================
