----------------------------- MODULE DemuxConc -----------------------------
(***************************************************************************)
(* RtpTransport::receive racing with the registry API (property C19 under  *)
(* concurrency). receive() is not one critical section:                    *)
(*                                                                         *)
(*   P1  lock(listeners): run the demux chain, learn the SSRC binding      *)
(*       -- sched point "rtp.demux.selected" --                            *)
(*   P2  try_send to the selected channel (no lock)                        *)
(*       -- sched point "rtp.demux.closed" (only if the channel is closed) *)
(*   P3  lock(listeners): forget the closed listener                       *)
(*                                                                         *)
(* register_*, clear_listeners, set_*_extension_id (each one critical      *)
(* section) and the drop of a receiver can run between these steps. This   *)
(* module splits Packet of Demux.tla into Begin / Send / Remove and lets   *)
(* up to MaxInner control actions run at each of the two windows.          *)
(*                                                                         *)
(* Contract (linearizable reading of the statement): the packet takes      *)
(* effect at P1; it reaches at most one receiver, one the chain identified *)
(* in the registry at P1 (a receiver closed or full at P2 gets nothing),   *)
(* and forgetting a closed listener never removes what a live receiver     *)
(* has registered - otherwise later packets are no longer delivered to the *)
(* receiver "identified by SSRC".                                          *)
(*                                                                         *)
(* Deviation "RemoveSsrcUnconditional": P3 removes the packet's SSRC       *)
(* binding whoever owns it by then (pinned code: by_ssrc.remove(&ssrc)).   *)
(***************************************************************************)
EXTENDS Demux

CONSTANT MaxInner     \* control actions allowed inside each window of one packet

VARIABLE pend         \* the packet in flight

cvars == <<bySsrc, byRid, byMid, route, closed, full, cfg, cfg0, bridged, reg, hist, last, pend>>
cview == <<bySsrc, byRid, byMid, route, closed, full, cfg, cfg0, bridged, reg, pend>>

Idle == [stage |-> "idle", s |-> 0, sel |-> 0, by |-> "", cands |-> {}, mayDrop |-> TRUE, n |-> 0,
         holders |-> 0, identified |-> FALSE]

CInit == Init /\ pend = Idle

\* the receivers the statement identifies for this packet in the registry at P1
Cands(s, pt, rid, mid) ==
  LET rm == {RidSel(rid), MidSel(mid)} \ {0}
      b  == bySsrc[s]
      u  == TheOne(PtHolders(pt))
      v  == TheOne(Provs)
  IN IF rm # {} THEN [c |-> rm, drop |-> FALSE]
     ELSE IF b # 0 THEN [c |-> {b}, drop |-> FALSE]
     ELSE IF u # 0 THEN [c |-> {u}, drop |-> FALSE]
     ELSE IF v # 0 /\ PtHolders(pt) = {} THEN [c |-> {v}, drop |-> TRUE]
     ELSE [c |-> {}, drop |-> TRUE]

CLast(kind, delivered, allowed, failed) ==
  [NoLast EXCEPT !.kind = kind, !.delivered = delivered, !.allowed = allowed, !.failed = failed]

PktBegin(s, pt, rid, mid) ==
  LET sel == Select(s, pt, rid, mid)
      cd  == Cands(s, pt, rid, mid)
  IN
  /\ pend.stage = "idle"
  /\ bySsrc' = IF sel.bind THEN [DropClosed(bySsrc) EXCEPT ![s] = sel.l] ELSE bySsrc
  /\ pend' = [stage |-> "selected", s |-> s, sel |-> sel.l, by |-> sel.by, cands |-> cd.c, mayDrop |-> cd.drop,
              n |-> 0, holders |-> Cardinality(PtHolders(pt)),
              identified |-> ({RidSel(rid), MidSel(mid)} \ {0} # {} \/ bySsrc[s] # 0)]
  /\ last' = CLast("begin", {}, {{}}, 0)
  /\ Log([op |-> "begin", s |-> s, pt |-> pt, rid |-> rid, mid |-> mid])
  /\ UNCHANGED <<byRid, byMid, route, closed, full, cfg, cfg0, bridged, reg>>

PktSend ==
  LET x == pend.sel
      allowed == {Out(c) : c \in pend.cands} \cup (IF pend.mayDrop \/ pend.cands = {} THEN {{}} ELSE {})
  IN
  /\ pend.stage = "selected"
  /\ IF x # 0 /\ x \in closed
     THEN /\ pend' = [pend EXCEPT !.stage = "closing", !.n = 0]
          /\ last' = CLast("send", {}, allowed, x)
     ELSE /\ pend' = Idle
          /\ last' = CLast("send", Out(x), allowed, 0)
  /\ Log([op |-> "send"])
  /\ UNCHANGED <<bySsrc, byRid, byMid, route, closed, full, cfg, cfg0, bridged, reg>>

PktRemove ==
  LET x == pend.sel IN
  /\ pend.stage = "closing"
  /\ bySsrc' = IF "RemoveSsrcUnconditional" \in Deviations
               THEN DropL([bySsrc EXCEPT ![pend.s] = 0], x)      \* by_ssrc.remove(&ssrc); remove_sender(&tx)
               ELSE DropL(bySsrc, x)                              \* remove_sender(&tx)
  /\ byRid' = DropL(byRid, x)
  /\ byMid' = DropL(byMid, x)
  /\ route' = [route EXCEPT ![x] = NoRoute]
  /\ reg' = reg \ {x}
  /\ pend' = Idle
  /\ last' = CLast("remove", {}, {{}}, x)
  /\ Log([op |-> "remove"])
  /\ UNCHANGED <<closed, full, cfg, cfg0, bridged>>

Control == \/ Register \/ (\E l \in Ls : Close(l)) \/ Clear
           \/ (\E l \in Ls : Fill(l) \/ Drain(l))
           \/ (\E k \in {"rid", "mid"}, on \in BOOLEAN : SetExt(k, on))

CNext ==
  /\ Len(hist) < MaxLen
  /\ \/ (pend.stage = "idle" /\ Control /\ UNCHANGED pend)
     \/ (pend.stage # "idle" /\ pend.n < MaxInner /\ Control /\ pend' = [pend EXCEPT !.n = @ + 1])
     \/ (\E s \in Ssrcs, pt \in Pts, rid \in Rids \cup {0}, mid \in Mids \cup {0} : PktBegin(s, pt, rid, mid))
     \/ PktSend
     \/ PktRemove

CSpec == CInit /\ [][CNext]_cvars

---------------------------------------------------------------------------
ConcAtMostOne == [][ Cardinality(last'.delivered) <= 1 ]_cvars

\* delivered to a receiver the chain identified at the linearization point, or dropped where the
\* statement allows a drop (nobody identified / the receiver is closed or full by the time of the send)
ConcChain == [][ last'.kind = "send" => last'.delivered \in last'.allowed ]_cvars

ConcNeverToClosed == [][ last'.delivered \cap closed' = {} ]_cvars

\* forgetting a closed listener leaves every registration of a live receiver alone
LiveRegistrationKept ==
  [][ last'.kind = "remove" =>
        /\ \A s \in Ssrcs : (bySsrc[s] # 0 /\ bySsrc[s] \notin closed) => bySsrc'[s] = bySsrc[s]
        /\ \A r \in Rids : (byRid[r] # 0 /\ byRid[r] \notin closed) => byRid'[r] = byRid[r]
        /\ \A m \in Mids : (byMid[m] # 0 /\ byMid[m] \notin closed) => byMid'[m] = byMid[m]
        /\ \A l \in Ls : l \notin closed => route'[l] = route[l] ]_cvars

\* ... and the closed one is gone
ConcClosedRemoved ==
  [][ last'.kind = "remove" =>
        /\ last'.failed \notin (Ran(bySsrc') \cup Ran(byRid') \cup Ran(byMid'))
        /\ ~route'[last'.failed].on ]_cvars

CTypeOK == TypeOK /\ pend.stage \in {"idle", "selected", "closing"}
=============================================================================
