------------------------------- MODULE Selector -------------------------------
(***************************************************************************)
(* EXT engine of C20: SelectorTrack (src/media/track.rs).  recv() reads    *)
(* the current track, then waits on `track.recv()` or a switch             *)
(* notification; switch_to() replaces the current track and calls          *)
(* notify_waiters().  One label per step = the sched points of the code.   *)
(* Track A never produces anything; a sample is sent to track B.           *)
(* Deviation "SwitchNotifiedAfterRead" = the pinned tree: the Notified     *)
(* future is created (inside select!) after the current track was read,    *)
(* so a switch in between is missed and the selector stays on the old      *)
(* track.  Rule tag EXT.                                                   *)
(***************************************************************************)
EXTENDS Naturals, Sequences, TLC

CONSTANTS Deviations
VARIABLES cur, gen, cgen, ctrack, asleep, bHas, got, pcC, pcW, pcP, hist

vars == <<cur, gen, cgen, ctrack, asleep, bHas, got, pcC, pcW, pcP, hist>>
view == <<cur, gen, cgen, ctrack, asleep, bHas, got, pcC, pcW, pcP>>

Early == "SwitchNotifiedAfterRead" \notin Deviations
Top   == IF Early THEN "sel_create" ELSE "sel_read"

Init == /\ cur = "A" /\ gen = 0 /\ cgen = 0 /\ ctrack = "A" /\ asleep = FALSE /\ bHas = FALSE /\ got = FALSE
        /\ pcC = "call" /\ pcW = "call" /\ pcP = "call" /\ hist = <<>>

H(who, lbl) == hist' = Append(hist, <<who, lbl>>)

CCall   == pcC = "call" /\ pcC' = Top /\ H("C", Top) /\ UNCHANGED <<cur, gen, cgen, ctrack, asleep, bHas, got, pcW, pcP>>
CCreate == pcC = "sel_create" /\ cgen' = gen /\ pcC' = "sel_read" /\ H("C", "sel_read")
           /\ UNCHANGED <<cur, gen, ctrack, asleep, bHas, got, pcW, pcP>>
CRead   == pcC = "sel_read" /\ ctrack' = cur /\ pcC' = "sel_wait" /\ H("C", "sel_wait")
           /\ UNCHANGED <<cur, gen, cgen, asleep, bHas, got, pcW, pcP>>
\* select!: (pinned: the Notified future is created here) poll both branches; when both are ready tokio picks one at
\* random: the step is recorded as "either" (the replayer accepts both labels and stops comparing there)
Both(g) == gen # g /\ ctrack = "B" /\ bHas
CWait ==
  /\ pcC = "sel_wait"
  /\ LET g == IF Early THEN cgen ELSE gen IN
     /\ cgen' = g
     /\ IF Both(g) THEN pcC' = "done" /\ got' = TRUE /\ H("C", "either") /\ UNCHANGED asleep
        ELSE IF gen # g THEN pcC' = Top /\ H("C", Top) /\ UNCHANGED <<asleep, got>>
        ELSE IF ctrack = "B" /\ bHas THEN pcC' = "done" /\ got' = TRUE /\ H("C", "done") /\ UNCHANGED asleep
        ELSE pcC' = "c_sleep" /\ asleep' = TRUE /\ H("C", "c_sleep") /\ UNCHANGED got
  /\ UNCHANGED <<cur, gen, ctrack, bHas, pcW, pcP>>
CWake ==
  /\ pcC = "c_sleep" /\ ~asleep
  /\ IF Both(cgen) THEN pcC' = "done" /\ got' = TRUE /\ H("C", "either")
     ELSE IF gen # cgen THEN pcC' = Top /\ H("C", Top) /\ UNCHANGED got
     ELSE pcC' = "done" /\ got' = TRUE /\ H("C", "done")
  /\ UNCHANGED <<cur, gen, cgen, ctrack, asleep, bHas, pcW, pcP>>

WCall    == pcW = "call" /\ pcW' = "sw_replace" /\ H("W", "sw_replace")
            /\ UNCHANGED <<cur, gen, cgen, ctrack, asleep, bHas, got, pcC, pcP>>
WReplace == pcW = "sw_replace" /\ cur' = "B" /\ pcW' = "sw_notify" /\ H("W", "sw_notify")
            /\ UNCHANGED <<gen, cgen, ctrack, asleep, bHas, got, pcC, pcP>>
WNotify  == pcW = "sw_notify" /\ gen' = gen + 1 /\ asleep' = FALSE /\ pcW' = "done" /\ H("W", "done")
            /\ UNCHANGED <<cur, cgen, ctrack, bHas, got, pcC, pcP>>

\* a sample for track B (its notify_one wakes a recv() that is parked on B)
PSend == /\ pcP = "call" /\ pcP' = "done" /\ bHas' = TRUE /\ H("P", "done")
         /\ asleep' = (IF ctrack = "B" THEN FALSE ELSE asleep)
         /\ UNCHANGED <<cur, gen, cgen, ctrack, got, pcC, pcW>>

CStep == CCall \/ CCreate \/ CRead \/ CWait \/ CWake
WStep == WCall \/ WReplace \/ WNotify
Next == CStep \/ WStep \/ PSend
Spec == Init /\ [][Next]_vars /\ WF_vars(CStep) /\ WF_vars(WStep) /\ WF_vars(PSend)

\* after the switch the selector is never left parked on the old track with nothing to wake it
FollowsSwitch == ~(pcW = "done" /\ pcC = "c_sleep" /\ asleep /\ ctrack = "A")
Delivers == <>got
Done == pcW = "done" /\ pcP = "done" /\ (pcC = "done" \/ (pcC = "c_sleep" /\ asleep))
=============================================================================
