SPECIFICATION Spec
CONSTANTS
  Ssrcs = {1, 2}
  ForgedSsrcs = {8, 9}
  SeqBits = 4
  SeqAlpha = {0,1,2,3,4,5,6,7,8,9,10,11,12,13,14,15}
  MaxRoc = 2
  StartIdx = {15, 24}
  StartFresh = TRUE
  StepsFwd = {1, 2, 7}
  StepsBack = {1, 7}
  MaxLen = 5
  MaxSent = 4
  Watermark = 2
  WithRtcp = TRUE
  WithTick = TRUE
  RtpForgeKinds = {"flip_hdr", "flip_csrc_ext", "flip_payload", "flip_tag", "truncate", "extend", "reseq", "wrongkey", "newssrc"}
  RtcpForgeKinds = {"flip_hdr", "flip_payload", "flip_tag", "flip_ebit", "truncate", "extend", "reindex", "wrongkey", "newssrc"}
  ForgeOffsets = {1, 7, 8, 9, 15}
  Deviations = {}
  Props = {"C04", "C05", "EXT"}
VIEW view
INVARIANTS TypeOK SenderAgreement IndexAgreement NoPhantomIndex Rejected RtcpAccepted
PROPERTIES ForgeUnchanged AcceptanceStable RejectIsNoop IndexMonotone
ACTION_CONSTRAINT NoEmit
CHECK_DEADLOCK FALSE
