--------------------------- MODULE Trace_SrtpGate ---------------------------
(***************************************************************************)
(* Trace validation for property C14 (binding T) of free-running stress    *)
(* runs: harness/src/bin/gate.rs (mode `stress`) lets three tasks race key *)
(* installation, traffic in both directions, bridge install / clear and    *)
(* the close path on real RtpTransports, with no scheduler in the way. The *)
(* log has one process-wide sequence counter and contains                  *)
(*   reset        a new scenario: srtp_required of the two transports      *)
(*   inject       (before the race) every inbound packet the scenario will *)
(*                feed, with its authenticity class                        *)
(*   keys_begin   the harness is about to call start_srtp(inst)            *)
(*   gate         (hook H7, src/transports/rtp.rs) one event per decision   *)
(*                of an SRTP gate: op, required, has_session, outcome, id  *)
(*   wire         (after the race) every datagram captured on a wire, with *)
(*                the class an independent receiver context gave it        *)
(*   deliver      (after the race) everything that reached a listener, the *)
(*                RTCP listener or an observer                             *)
(* A log is accepted iff every event is a step the contract allows. The    *)
(* rules are guards over logged quantities (a log that breaks one cannot   *)
(* be consumed further), never invariants:                                 *)
(*   NothingBeforeKeys  a gate saw a session only after its installation   *)
(*                      had begun                                          *)
(*   NoClearEgress      a mandatory transport never decides "clear", never *)
(*                      "protected" without a session; a datagram on its   *)
(*                      wire is protected                                  *)
(*   NoClearIngress     a mandatory transport accepts a packet only with a *)
(*                      session and only if the packet was injected as a   *)
(*                      valid one; what reaches a sink was valid           *)
(*   Explained (EXT)    every wire datagram / delivery has the gate event  *)
(*                      that let it through (the hooks are complete)       *)
(* `Rules` selects which of them are enforced, so that the driver can name *)
(* the rule a rejected log breaks.                                         *)
(***************************************************************************)
EXTENDS Naturals, Sequences, FiniteSets, TLC, Json, IOUtils

CONSTANT Rules      \* subset of {"NothingBeforeKeys", "NoClearEgress", "NoClearIngress", "Explained"}

Rec == ndJsonDeserialize(IOEnv.TRACE)
N == Len(Rec)

VARIABLES l,        \* cursor
          req,      \* [X |-> BOOLEAN, Y |-> BOOLEAN]
          begun,    \* transports whose key installation has begun
          inj,      \* id -> class of the packets injected in this scenario (as a set of <<id, cls>>)
          passed,   \* <<inst, id, "p" | "c">>: egress gate decisions that put a datagram on inst's wire
          accepted  \* ids an ingress gate accepted

vars == <<l, req, begun, inj, passed, accepted>>

Ev == Rec[l]
IsEv(e) == l <= N /\ Rec[l].ev = e
Consume == l' = l + 1
On(r) == r \in Rules

TraceInit ==
  /\ l = 1 /\ req = [X |-> FALSE, Y |-> FALSE] /\ begun = {} /\ inj = {} /\ passed = {} /\ accepted = {}
  /\ TLCSet(1, 1)

Reset ==
  /\ IsEv("reset") /\ Consume
  /\ req' = [X |-> Ev.rx, Y |-> Ev.ry]
  /\ begun' = {} /\ inj' = {} /\ passed' = {} /\ accepted' = {}

Inject ==
  /\ IsEv("inject") /\ Consume
  /\ inj' = inj \cup {<<Ev.id, Ev.cls>>}
  /\ UNCHANGED <<req, begun, passed, accepted>>

KeysBegin ==
  /\ IsEv("keys_begin") /\ Consume
  /\ begun' = begun \cup {Ev.inst}
  /\ UNCHANGED <<req, inj, passed, accepted>>

Egress == {"send", "send_rtp", "send_rtcp", "send_rtcp_sync", "bridge"}

GateEgress ==
  /\ IsEv("gate") /\ Ev.op \in Egress /\ Consume
  /\ Ev.req = req[Ev.inst]                                             \* (the flag is immutable)
  /\ (On("NothingBeforeKeys") => (Ev.has => Ev.inst \in begun))
  /\ (On("NoClearEgress") =>
        /\ (Ev.out = "clear" => ~Ev.req)
        /\ (Ev.out = "protected" => Ev.has)
        /\ ((Ev.req /\ ~Ev.has) => Ev.out = "dropped"))
  /\ passed' = IF Ev.out = "protected" THEN passed \cup {<<Ev.inst, Ev.id, "p">>}
               ELSE IF Ev.out = "clear" THEN passed \cup {<<Ev.inst, Ev.id, "c">>} ELSE passed
  /\ UNCHANGED <<req, begun, inj, accepted>>

GateIngress ==
  /\ IsEv("gate") /\ Ev.op \in {"recv_rtp", "recv_rtcp"} /\ Consume
  /\ Ev.req = req[Ev.inst]
  /\ (On("NothingBeforeKeys") => (Ev.has => Ev.inst \in begun))
  /\ (On("NoClearIngress") =>
        ((Ev.out = "accepted" /\ Ev.req) => (Ev.has /\ <<Ev.id, "valid">> \in inj)))
  /\ accepted' = IF Ev.out = "accepted" THEN accepted \cup {Ev.id} ELSE accepted
  /\ UNCHANGED <<req, begun, inj, passed>>

Wire ==
  /\ IsEv("wire") /\ Consume
  /\ (On("NoClearEgress") => (req[Ev.inst] => Ev.cls = "p"))
  /\ (On("Explained") => <<Ev.inst, Ev.id, Ev.cls>> \in passed)
  /\ UNCHANGED <<req, begun, inj, passed, accepted>>

Deliver ==
  /\ IsEv("deliver") /\ Consume
  /\ (On("NoClearIngress") => (req["X"] => <<Ev.id, "valid">> \in inj))
  /\ (On("Explained") => Ev.id \in accepted)
  /\ UNCHANGED <<req, begun, inj, passed, accepted>>

TraceNext == Reset \/ Inject \/ KeysBegin \/ GateEgress \/ GateIngress \/ Wire \/ Deliver
TraceSpec == TraceInit /\ [][TraceNext]_vars

Furthest == TLCSet(1, IF l > TLCGet(1) THEN l ELSE TLCGet(1))
Accepted ==
  \/ TLCGet(1) = N + 1
  \/ PrintT(<<"REJECTED", ToJson([at |-> TLCGet(1), of |-> N])>>) /\ FALSE
=============================================================================
