--------------------------- MODULE MC_DemuxConc ---------------------------
(* Bounded model + schedule generator for DemuxConc.tla.                   *)
(* EmitConc (ACTION_CONSTRAINT with a print side effect) prints            *)
(*  (1) one EDGE line per Send transition: the history (Begin, the control *)
(*      actions that ran in the window, ...) and the outcomes allowed;     *)
(*  (2) one probe line whenever a packet that had company in one of its    *)
(*      windows - or that forgot a closed listener - is complete: all      *)
(*      packets are probed sequentially on the resulting registry.         *)
(* The harness executes a history on ONE thread: the control actions of a  *)
(* window run inside the scheduling-point callback of that window, i.e.    *)
(* exactly where another thread could have run them.                       *)
EXTENDS DemuxConc, Json

ExtBoth == {<<TRUE, TRUE>>}

StaleMidIn(h, mid) ==
  /\ mid # 0
  /\ \E i \in 1..Len(h) : /\ h[i].op = "mid"
                          /\ h[i].m = mid
                          /\ \E j \in (i+1)..Len(h) : h[j].op = "clear"

RuleOf(l, h, mid, closedNow) ==
  IF l.ridmid = {} /\ StaleMidIn(h, mid) THEN "OnlyRegistered"
  ELSE IF ~l.identified /\ Cardinality(l.holders) >= 2 THEN "AmbiguousPtDropped"
  ELSE IF l.failed # 0 \/ (\E x \in closedNow : x \in UNION l.allowed) THEN "NeverToClosed"
  ELSE "ChainRespected"

SendRec ==
  [ cfg |-> [rid |-> cfg0.rid, mid |-> cfg0.mid],
    pre |-> hist,
    act |-> [op |-> "send"],
    exp |-> [ delivered |-> [allowed |-> last'.allowed, rule |-> "ConcChain"] ],
    \* the harness looks at the binding table when receive() has returned, i.e. after an uncontended Remove
    ext |-> [ delivered |-> last'.delivered,
              bound |-> [s \in Ssrcs |->
                           IF last'.failed = 0 THEN bySsrc[s] # 0
                           ELSE (bySsrc[s] \notin {0, last'.failed}
                                 /\ ~("RemoveSsrcUnconditional" \in Deviations /\ s = pend.s))] ],
    cls |-> [ by |-> pend.by, closedHit |-> (last'.failed # 0), holders |-> pend.holders, provs |-> 0,
              identified |-> pend.identified, unreg |-> FALSE, fullHit |-> (pend.sel \in full),
              after |-> "window", inner |-> pend.n ] ]

ProbeTuple(s, pt, rid, mid) ==
  LET e == PktEffect(s, pt, rid, mid)' IN
  << s, pt, rid, mid, e.last.allowed,
     IF last'.kind = "remove" THEN "LiveRegistrationKept" ELSE RuleOf(e.last, hist', mid, closed'),
     e.last.delivered, [x \in Ssrcs |-> e.bySsrc[x] # 0], e.last.by, e.last.failed # 0,
     Cardinality(e.last.holders), Cardinality(e.last.provs), e.last.identified, e.last.unreg, e.last.sel \in full',
     0 >>

ProbeLine ==
  [ cfg    |-> [rid |-> cfg0.rid, mid |-> cfg0.mid],
    pre    |-> hist',
    after  |-> hist'[Len(hist')].op,
    probes |-> { ProbeTuple(s, pt, rid, mid) :
                   s \in Ssrcs, pt \in Pts, rid \in Rids \cup {0}, mid \in Mids \cup {0} } ]

\* did this packet have company? (the history since its Begin contains a control action)
LastBegin(h) == CHOOSE i \in 1..Len(h) : h[i].op = "begin" /\ \A j \in (i+1)..Len(h) : h[j].op # "begin"
HadCompany(h) == \E j \in (LastBegin(h)+1)..Len(h) : h[j].op \notin {"send", "remove"}

EmitConc ==
  /\ (IF last'.kind = "send" THEN PrintT(<<"EDGE", ToJson(SendRec)>>) ELSE TRUE)
  /\ (IF /\ last'.kind \in {"send", "remove"}
         /\ pend'.stage = "idle"
         /\ (last'.kind = "remove" \/ HadCompany(hist'))
      THEN PrintT(<<"EDGE", ToJson(ProbeLine)>>) ELSE TRUE)
NoEmit == TRUE
=============================================================================
