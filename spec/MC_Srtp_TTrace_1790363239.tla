---- MODULE MC_Srtp_TTrace_1790363239 ----
EXTENDS Sequences, MC_Srtp, TLCExt, Toolbox, Naturals, TLC

_expression ==
    LET MC_Srtp_TEExpression == INSTANCE MC_Srtp_TEExpression
    IN MC_Srtp_TEExpression!expression
----

_trace ==
    LET MC_Srtp_TETrace == INSTANCE MC_Srtp_TETrace
    IN MC_Srtp_TETrace!trace
----

_inv ==
    ~(
        TLCGet("level") = Len(_TETrace)
        /\
        hist = (<<<<"protect", "rtp", 1, 22, "", -1, 0, 0, 0>>>>)
        /\
        sHi = (<<22>>)
        /\
        rx = (<<[on |-> TRUE, roc |-> 0, last |-> 15, rtcp |-> 0, idle |-> FALSE]>>)
        /\
        start = (<<15>>)
        /\
        sRtcp = (<<0>>)
        /\
        step = ([ssrc |-> 1, proto |-> "rtp", idx |-> 22, est |-> 6, x |-> -1, op |-> "protect", kind |-> "", forged |-> FALSE, acc |-> FALSE, must |-> FALSE, replay |-> FALSE])
        /\
        got = ({[ssrc |-> 1, proto |-> "rtp", idx |-> 15]})
        /\
        sent = ({[ssrc |-> 1, proto |-> "rtp", idx |-> 6], [ssrc |-> 1, proto |-> "rtp", idx |-> 15]})
    )
----

_init ==
    /\ sHi = _TETrace[1].sHi
    /\ step = _TETrace[1].step
    /\ sRtcp = _TETrace[1].sRtcp
    /\ got = _TETrace[1].got
    /\ rx = _TETrace[1].rx
    /\ start = _TETrace[1].start
    /\ hist = _TETrace[1].hist
    /\ sent = _TETrace[1].sent
----

_next ==
    /\ \E i,j \in DOMAIN _TETrace:
        /\ \/ /\ j = i + 1
              /\ i = TLCGet("level")
        /\ sHi  = _TETrace[i].sHi
        /\ sHi' = _TETrace[j].sHi
        /\ step  = _TETrace[i].step
        /\ step' = _TETrace[j].step
        /\ sRtcp  = _TETrace[i].sRtcp
        /\ sRtcp' = _TETrace[j].sRtcp
        /\ got  = _TETrace[i].got
        /\ got' = _TETrace[j].got
        /\ rx  = _TETrace[i].rx
        /\ rx' = _TETrace[j].rx
        /\ start  = _TETrace[i].start
        /\ start' = _TETrace[j].start
        /\ hist  = _TETrace[i].hist
        /\ hist' = _TETrace[j].hist
        /\ sent  = _TETrace[i].sent
        /\ sent' = _TETrace[j].sent

\* Uncomment the ASSUME below to write the states of the error trace
\* to the given file in Json format. Note that you can pass any tuple
\* to `JsonSerialize`. For example, a sub-sequence of _TETrace.
    \* ASSUME
    \*     LET J == INSTANCE Json
    \*         IN J!JsonSerialize("MC_Srtp_TTrace_1790363239.json", _TETrace)

=============================================================================

 Note that you can extract this module `MC_Srtp_TEExpression`
  to a dedicated file to reuse `expression` (the module in the 
  dedicated `MC_Srtp_TEExpression.tla` file takes precedence 
  over the module `MC_Srtp_TEExpression` below).

---- MODULE MC_Srtp_TEExpression ----
EXTENDS Sequences, MC_Srtp, TLCExt, Toolbox, Naturals, TLC

expression == 
    [
        \* To hide variables of the `MC_Srtp` spec from the error trace,
        \* remove the variables below.  The trace will be written in the order
        \* of the fields of this record.
        sHi |-> sHi
        ,step |-> step
        ,sRtcp |-> sRtcp
        ,got |-> got
        ,rx |-> rx
        ,start |-> start
        ,hist |-> hist
        ,sent |-> sent
        
        \* Put additional constant-, state-, and action-level expressions here:
        \* ,_stateNumber |-> _TEPosition
        \* ,_sHiUnchanged |-> sHi = sHi'
        
        \* Format the `sHi` variable as Json value.
        \* ,_sHiJson |->
        \*     LET J == INSTANCE Json
        \*     IN J!ToJson(sHi)
        
        \* Lastly, you may build expressions over arbitrary sets of states by
        \* leveraging the _TETrace operator.  For example, this is how to
        \* count the number of times a spec variable changed up to the current
        \* state in the trace.
        \* ,_sHiModCount |->
        \*     LET F[s \in DOMAIN _TETrace] ==
        \*         IF s = 1 THEN 0
        \*         ELSE IF _TETrace[s].sHi # _TETrace[s-1].sHi
        \*             THEN 1 + F[s-1] ELSE F[s-1]
        \*     IN F[_TEPosition - 1]
    ]

=============================================================================



Parsing and semantic processing can take forever if the trace below is long.
 In this case, it is advised to uncomment the module below to deserialize the
 trace from a generated binary file.

\*
\*---- MODULE MC_Srtp_TETrace ----
\*EXTENDS IOUtils, MC_Srtp, TLC
\*
\*trace == IODeserialize("MC_Srtp_TTrace_1790363239.bin", TRUE)
\*
\*=============================================================================
\*

---- MODULE MC_Srtp_TETrace ----
EXTENDS MC_Srtp, TLC

trace == 
    <<
    ([hist |-> <<>>,sHi |-> <<15>>,rx |-> <<[on |-> TRUE, roc |-> 0, last |-> 15, rtcp |-> 0, idle |-> FALSE]>>,start |-> <<15>>,sRtcp |-> <<0>>,step |-> [ssrc |-> 0, proto |-> "", idx |-> -1, est |-> -1, x |-> -1, op |-> "init", kind |-> "", forged |-> FALSE, acc |-> FALSE, must |-> FALSE, replay |-> FALSE],got |-> {[ssrc |-> 1, proto |-> "rtp", idx |-> 15]},sent |-> {[ssrc |-> 1, proto |-> "rtp", idx |-> 15]}]),
    ([hist |-> <<<<"protect", "rtp", 1, 22, "", -1, 0, 0, 0>>>>,sHi |-> <<22>>,rx |-> <<[on |-> TRUE, roc |-> 0, last |-> 15, rtcp |-> 0, idle |-> FALSE]>>,start |-> <<15>>,sRtcp |-> <<0>>,step |-> [ssrc |-> 1, proto |-> "rtp", idx |-> 22, est |-> 6, x |-> -1, op |-> "protect", kind |-> "", forged |-> FALSE, acc |-> FALSE, must |-> FALSE, replay |-> FALSE],got |-> {[ssrc |-> 1, proto |-> "rtp", idx |-> 15]},sent |-> {[ssrc |-> 1, proto |-> "rtp", idx |-> 6], [ssrc |-> 1, proto |-> "rtp", idx |-> 15]}])
    >>
----


=============================================================================

---- CONFIG MC_Srtp_TTrace_1790363239 ----
CONSTANTS
    Ssrcs = { 1 }
    ForgedSsrcs = { }
    SeqBits = 4
    SeqAlpha = { 0 , 1 , 2 , 3 , 4 , 5 , 6 , 7 , 8 , 9 , 10 , 11 , 12 , 13 , 14 , 15 }
    MaxRoc = 2
    StartIdx = { 15 , 24 }
    StartFresh = TRUE
    Steps = { }
    MaxLen = 5
    MaxSent = 4
    Watermark = 2
    WithRtcp = FALSE
    WithTick = FALSE
    RtpForgeKinds = { }
    RtcpForgeKinds = { }
    ForgeOffsets = { }
    Deviations = { "EstimateSlack" }
    Props = { "C04" , "C05" , "EXT" }

INVARIANT
    _inv

CHECK_DEADLOCK
    \* CHECK_DEADLOCK off because of PROPERTY or INVARIANT above.
    FALSE

INIT
    _init

NEXT
    _next

CONSTANT
    _TETrace <- _trace

ALIAS
    _expression
=============================================================================
\* Generated on Fri Sep 25 19:07:21 UTC 2026