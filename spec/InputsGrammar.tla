--------------------------- MODULE InputsGrammar ---------------------------
(***************************************************************************)
(* Wire grammars of the network-facing entry points of rustrtc, as data.   *)
(*                                                                         *)
(* A template is the grammar of ONE genuine message of an entry point      *)
(* (built by the harness with the real encoders, or captured from a real   *)
(* peer): a sequence of leaves in wire order.  Each leaf has               *)
(*   n     name (unique in the template)                                   *)
(*   k     kind: fixed | tag | len | count | pad | var | rest              *)
(*   w     width in bytes (0 = variable: governed by a len/count leaf      *)
(*         naming it, computed (pad), or the rest of the enclosing group)  *)
(*   ov    overlay: a bit field of the preceding byte-consuming leaf       *)
(*   mask  bit mask inside the w-byte big-endian integer (0 = all bits)    *)
(*   of    for len/count: the leaf or group it governs                     *)
(*   unit, bias   governed bytes = value * unit + bias                     *)
(*   g     nesting: path of group names, outermost first                   *)
(*   unk   for tag: a value outside the known set                          *)
(*   el    this leaf starts a repeatable element (its innermost group)     *)
(*   free  bytes neither the grammar nor the session constrains            *)
(*         (VERIF_SEED noise); fields the code matches against session     *)
(*         state - epoch, message_seq, transaction id - are not free       *)
(*   tail  fixed leaf located at the end of its group (RTP/RTCP pad count) *)
(*         Its value counts octets BACKWARDS from the end of the group, so  *)
(*         its interesting values are relative to the length of that group  *)
(*         and of the group around it (Inputs.tla, RelMuts)                 *)
(*   pf    the leaf is a flag that, when set, turns the LAST octet of the     *)
(*         group named here into a backwards count (the RTP / RTCP P bit)    *)
(*   sq    the field is a sequence number: name of its sequence space. Its   *)
(*         interesting values are relative to the endpoint's CURRENT state   *)
(*         (the cumulative TSN, the next expected message_seq ...), so the   *)
(*         harness asks the live endpoint for the current value of the space *)
(*   ls    (text) the token is a separator-structured list: the separator;   *)
(*         px = a prefix character elements may carry                        *)
(*   ew    for a variable leaf that is a list of fixed-width elements: the  *)
(*         element width (its byte length should be a multiple of it)       *)
(*                                                                         *)
(* The harness interprets these tables generically: it locates every leaf  *)
(* in the genuine message (and rejects the run if the real encoder's       *)
(* output does not conform to the table), and derives each mutation from   *)
(* the located leaf and the len/count relations.  Text protocols (SDP,     *)
(* candidate lines) use the same leaf record with k = lit | num | word |   *)
(* text; see the TEXT section.                                             *)
(***************************************************************************)
EXTENDS Naturals, Integers, Sequences, FiniteSets

L0 == [n |-> "", k |-> "fixed", w |-> 0, ov |-> FALSE, mask |-> 0, of |-> "", unit |-> 1, bias |-> 0,
       g |-> <<>>, unk |-> 0, el |-> FALSE, free |-> FALSE, tail |-> FALSE, s |-> "", ew |-> 0, sq |-> "", ls |-> "", px |-> "", pf |-> ""]

Fx(g, n, w)      == [L0 EXCEPT !.g = g, !.n = n, !.w = w]                       \* constrained fixed field
Fr(g, n, w)      == [L0 EXCEPT !.g = g, !.n = n, !.w = w, !.free = TRUE]       \* unconstrained fixed field
Tg(g, n, w, u)   == [L0 EXCEPT !.g = g, !.n = n, !.w = w, !.k = "tag", !.unk = u]
Ln(g, n, w, of, unit, bias) ==
                    [L0 EXCEPT !.g = g, !.n = n, !.w = w, !.k = "len", !.of = of, !.unit = unit, !.bias = bias]
Ct(g, n, w, of, unit) ==
                    [L0 EXCEPT !.g = g, !.n = n, !.w = w, !.k = "count", !.of = of, !.unit = unit]
Vr(g, n)         == [L0 EXCEPT !.g = g, !.n = n, !.k = "var", !.free = TRUE]
Vc(g, n)         == [L0 EXCEPT !.g = g, !.n = n, !.k = "var"]                   \* variable, content constrained
Rs(g, n)         == [L0 EXCEPT !.g = g, !.n = n, !.k = "rest", !.free = TRUE]
Rc(g, n)         == [L0 EXCEPT !.g = g, !.n = n, !.k = "rest"]
Pd(g, n, unit)   == [L0 EXCEPT !.g = g, !.n = n, !.k = "pad", !.unit = unit]
Mk(l, m)         == [l EXCEPT !.mask = m]
Ov(l, m)         == [l EXCEPT !.ov = TRUE, !.mask = m]
El(l)            == [l EXCEPT !.el = TRUE]
Tl(l)            == [l EXCEPT !.tail = TRUE]
Pf(l, grp)       == [l EXCEPT !.pf = grp]        \* flag announcing a backwards count in the last octet of group grp
Lw(l, w)         == [l EXCEPT !.ew = w]          \* a list of fixed-width elements, w bytes each
Sq(l, space)     == [l EXCEPT !.sq = space]      \* a sequence number of the named space (serial arithmetic)

---------------------------------------------------------------------------
(* RTP  (src/rtp.rs RtpHeader::parse / RtpPacket::parse)                    *)

RtpFixed(g, x, cc, p) ==
  << Fx(g, "b0", 1),
     Ov(Tg(g, "version", 1, 1), 192),
     Pf(Ov(Ct(g, "p", 1, "", 0), 32), g[Len(g)]),
     Ov(Ct(g, "x", 1, "", 0), 16),
     Ov(Ct(g, "cc", 1, "csrc", 4), 15),
     Fr(g, "mpt", 1), Sq(Fr(g, "seq", 2), "rtp_seq"), Fr(g, "ts", 4), Fr(g, "ssrc", 4),
     Lw(Vr(g, "csrc"), 4) >>

R == <<"rtp">>
RtpPlain == RtpFixed(R, 0, 2, 0) \o << Rs(R, "payload") >>

\* one-byte header extension (0xBEDE), two elements and alignment padding
RX == <<"rtp", "ext">>   RXD == <<"rtp", "ext", "extdata">>
RtpExt1 ==
  RtpFixed(R, 1, 0, 0) \o
  << Tg(RX, "profile", 2, 4660), Ln(RX, "extlen", 2, "extdata", 4, 0),
     El(Mk(Tg(RXD \o <<"e1">>, "id1", 1, 15), 240)), Ov(Ln(RXD \o <<"e1">>, "l1", 1, "d1", 1, 1), 15), Vr(RXD \o <<"e1">>, "d1"),
     El(Mk(Tg(RXD \o <<"e2">>, "id2", 1, 15), 240)), Ov(Ln(RXD \o <<"e2">>, "l2", 1, "d2", 1, 1), 15), Vr(RXD \o <<"e2">>, "d2"),
     Pd(RXD, "extpad", 4),
     Rs(R, "payload") >>

\* two-byte header extension (0x1000)
RtpExt2 ==
  RtpFixed(R, 1, 1, 0) \o
  << Tg(RX, "profile", 2, 4660), Ln(RX, "extlen", 2, "extdata", 4, 0),
     El(Tg(RXD \o <<"e1">>, "id1", 1, 0)), Ln(RXD \o <<"e1">>, "l1", 1, "d1", 1, 0), Vr(RXD \o <<"e1">>, "d1"),
     El(Tg(RXD \o <<"e2">>, "id2", 1, 0)), Ln(RXD \o <<"e2">>, "l2", 1, "d2", 1, 0), Vr(RXD \o <<"e2">>, "d2"),
     Pd(RXD, "extpad", 4),
     Rs(R, "payload") >>

\* padding bit set: the last byte counts the padding bytes (itself included)
\* (payload and padding are a group of their own: the count is measured against what follows the header)
RB == <<"rtp", "body">>
RtpPad == RtpFixed(R, 0, 0, 1) \o << Rs(RB, "payload"), Tl(Ln(RB, "padcount", 1, "", 1, 0)) >>

\* H.264 STAP-A payload (media/depacketizer.rs): NAL header 24, then (len16, NAL)*
RP == <<"rtp", "stap">>
RtpStapA ==
  RtpFixed(R, 0, 0, 0) \o
  << Mk(Tg(RP, "naltype", 1, 30), 31),
     El(Ln(RP \o <<"n1">>, "n1len", 2, "n1", 1, 0)), Vr(RP \o <<"n1">>, "n1"),
     El(Ln(RP \o <<"n2">>, "n2len", 2, "n2", 1, 0)), Vr(RP \o <<"n2">>, "n2") >>

\* H.264 FU-A continuation/end fragment (the depacketizer holds a started frame)
RtpFuA ==
  RtpFixed(R, 0, 0, 0) \o
  << Mk(Tg(R, "naltype", 1, 30), 31), Fx(R, "fuhdr", 1), Ov(Ct(R, "fu_s", 1, "", 0), 128), Ov(Ct(R, "fu_e", 1, "", 0), 64),
     Rs(R, "frag") >>

\* RFC 4588 retransmission payload (rtx.rs): OSN then the original payload
RtpRtx == RtpFixed(R, 0, 0, 0) \o << Fr(R, "osn", 2), Rs(R, "payload") >>

---------------------------------------------------------------------------
(* RTCP  (src/rtp.rs parse_rtcp_packets and the per-type body parsers)      *)

\* header of one RTCP packet inside group g; cnt governs `cof` (unit cunit), body group name `b`
RtcpHdr(g, cof, cunit, unkcnt, b) ==
  << El(Fx(g, "b0", 1)),
     Ov(Tg(g, "version", 1, 1), 192),
     Pf(Ov(Ct(g, "p", 1, "", 0), 32), b),
     IF unkcnt >= 0 THEN Ov(Tg(g, "fmt", 1, unkcnt), 31) ELSE Ov(Ct(g, "rc", 1, cof, cunit), 31),
     Tg(g, "pt", 1, 210),
     Ln(g, "length", 2, b, 4, 0) >>

RtcpSr ==
  LET g == <<"sr">> b == <<"sr", "srbody">> IN
  RtcpHdr(g, "blocks", 24, -1, "srbody") \o
  << Fr(b, "ssrc", 4), Fr(b, "ntp", 8), Fr(b, "rtpts", 4), Fr(b, "pcount", 4), Fr(b, "ocount", 4), Lw(Vr(b, "blocks"), 24) >>

RtcpRr ==
  LET g == <<"rr">> b == <<"rr", "rrbody">> IN
  RtcpHdr(g, "blocks", 24, -1, "rrbody") \o << Fr(b, "ssrc", 4), Lw(Vr(b, "blocks"), 24) >>

RtcpSdes ==
  LET g == <<"sdes">> b == <<"sdes", "sdesbody">> c == <<"sdes", "sdesbody", "chunk1">> IN
  RtcpHdr(g, "", 0, -1, "sdesbody") \o
  << El(Fr(c, "ssrc", 4)),
     Tg(c \o <<"i1">>, "itype", 1, 200), Ln(c \o <<"i1">>, "ilen", 1, "itext", 1, 0), Vr(c \o <<"i1">>, "itext"),
     Fx(c, "end", 1), Pd(c, "cpad", 4) >>

RtcpBye ==
  LET g == <<"bye">> b == <<"bye", "byebody">> IN
  RtcpHdr(g, "srcs", 4, -1, "byebody") \o
  << Lw(Vr(b, "srcs"), 4), Ln(b, "rlen", 1, "reason", 1, 0), Vr(b, "reason"), Pd(b, "bpad", 4) >>

RtcpNack ==
  LET g == <<"nack">> b == <<"nack", "nackbody">> IN
  RtcpHdr(g, "", 0, 31, "nackbody") \o
  << Fr(b, "sender", 4), Fr(b, "media", 4),
     El(Sq(Fr(b \o <<"f1">>, "pid1", 2), "rtp_seq_out")), Fr(b \o <<"f1">>, "blp1", 2),
     El(Fr(b \o <<"f2">>, "pid2", 2)), Fr(b \o <<"f2">>, "blp2", 2) >>

RtcpTwcc ==
  LET g == <<"twcc">> b == <<"twcc", "twccbody">> IN
  RtcpHdr(g, "", 0, 31, "twccbody") \o
  << Fr(b, "sender", 4), Fr(b, "media", 4), Fr(b, "baseseq", 2), Ct(b, "pscount", 2, "", 0), Fr(b, "reftime", 3),
     Fr(b, "fbcount", 1), Rs(b, "chunks") >>

RtcpPli ==
  LET g == <<"pli">> b == <<"pli", "plibody">> IN
  RtcpHdr(g, "", 0, 31, "plibody") \o << Fr(b, "sender", 4), Fr(b, "media", 4) >>

RtcpFir ==
  LET g == <<"fir">> b == <<"fir", "firbody">> IN
  RtcpHdr(g, "", 0, 31, "firbody") \o
  << Fr(b, "sender", 4), Fr(b, "media", 4),
     El(Fr(b \o <<"r1">>, "fssrc1", 4)), Fr(b \o <<"r1">>, "fseq1", 1), Fr(b \o <<"r1">>, "frsv1", 3) >>

RtcpRemb ==
  LET g == <<"remb">> b == <<"remb", "rembbody">> IN
  RtcpHdr(g, "", 0, 31, "rembbody") \o
  << Fr(b, "sender", 4), Fr(b, "media", 4), Tg(b, "remb", 4, 1482184792), Ct(b, "numssrc", 1, "ssrcs", 4),
     Fr(b, "brate", 3), Lw(Vr(b, "ssrcs"), 4) >>

\* one packet of a compound: its leaves inside group p, names prefixed
RtcpIn(p, leaves) == [i \in 1..Len(leaves) |->
                        [leaves[i] EXCEPT !.g = <<p>> \o leaves[i].g, !.n = p \o "." \o leaves[i].n,
                                          !.of = IF \E j \in 1..Len(leaves) : leaves[j].n = leaves[i].of
                                                 THEN p \o "." \o leaves[i].of ELSE leaves[i].of]]

\* compound SR + SDES + BYE: three packets (each a repeatable element)
RtcpCompound == RtcpIn("c1", RtcpSr) \o RtcpIn("c2", RtcpSdes) \o RtcpIn("c3", RtcpBye)

\* RR with the padding bit: last byte counts the padding
RtcpPadded ==
  LET g == <<"rr">> b == <<"rr", "rrbody">> IN
  RtcpHdr(g, "blocks", 24, -1, "rrbody") \o
  << Fr(b, "ssrc", 4), Lw(Vr(b, "blocks"), 24), Rc(b, "padding"), Tl(Ln(b, "padcount", 1, "", 1, 0)) >>

\* PLI with the padding bit
RtcpPliPadded ==
  LET g == <<"pli">> b == <<"pli", "plibody">> IN
  RtcpHdr(g, "", 0, 31, "plibody") \o
  << Fr(b, "sender", 4), Fr(b, "media", 4), Rc(b, "padding"), Tl(Ln(b, "padcount", 1, "", 1, 0)) >>

\* padding inside a compound: on the last packet (RR + padded PLI: RFC 3550 6.4.1), and on a packet that is not the
\* last (padded RR + PLI: the parser strips padding packet by packet, so the count of a middle packet is measured
\* against that packet and not against the datagram)
RtcpCompoundPadLast == RtcpIn("c1", RtcpRr) \o RtcpIn("c2", RtcpPliPadded)
RtcpCompoundPadMid  == RtcpIn("c1", RtcpPadded) \o RtcpIn("c2", RtcpPli)

---------------------------------------------------------------------------
(* STUN / TURN  (src/transports/ice/stun.rs decode_stun_message; ice/mod.rs *)
(* handle_packet / handle_turn_packet; turn.rs recv)                        *)

StunHdr == << Tg(<<"stun">>, "type", 2, 2), Ln(<<"stun">>, "length", 2, "attrs", 1, 0),
              Tg(<<"stun">>, "cookie", 4, 0), Fx(<<"stun">>, "txid", 12) >>
SA == <<"stun", "attrs">>
\* an attribute with opaque value
Attr(a, unk)  == << El(Tg(SA \o <<a>>, a \o ".t", 2, unk)), Ln(SA \o <<a>>, a \o ".l", 2, a \o ".v", 1, 0),
                    Vr(SA \o <<a>>, a \o ".v"), Pd(SA \o <<a>>, a \o ".p", 4) >>
\* an attribute whose value is a (XOR-)address: reserved, family, port, address
AddrAttr(a, unk) ==
  << El(Tg(SA \o <<a>>, a \o ".t", 2, unk)), Ln(SA \o <<a>>, a \o ".l", 2, a \o ".v", 1, 0),
     Fx(SA \o <<a, a \o ".v">>, a \o ".rsv", 1), Tg(SA \o <<a, a \o ".v">>, a \o ".fam", 1, 3),
     Fr(SA \o <<a, a \o ".v">>, a \o ".port", 2), Rs(SA \o <<a, a \o ".v">>, a \o ".ip"),
     Pd(SA \o <<a>>, a \o ".p", 4) >>

StunBindingReq  == StunHdr \o Attr("software", 32767) \o Attr("username", 32767) \o Attr("priority", 32767) \o
                   Attr("controlling", 32767) \o Attr("usecand", 32767) \o Attr("mi", 32767) \o Attr("fp", 32767)
StunBindingOk4  == StunHdr \o AddrAttr("xma", 32767)
StunBindingOk6  == StunHdr \o AddrAttr("xma", 32767)
StunAllocOk     == StunHdr \o AddrAttr("xra", 32767) \o Attr("lifetime", 32767) \o AddrAttr("xma", 32767)
StunError401    == StunHdr \o Attr("errcode", 32767) \o Attr("realm", 32767) \o Attr("nonce", 32767)
StunDataInd     == StunHdr \o AddrAttr("xpa", 32767) \o Attr("data", 32767)

\* TURN ChannelData: channel number 0x4000..0x7FFF, length, data
TurnChannelData == << Tg(<<"cd">>, "channel", 2, 32768), Ln(<<"cd">>, "length", 2, "data", 1, 0), Vr(<<"cd">>, "data"),
                      Pd(<<"cd">>, "cdpad", 4) >>

\* RFC 4571 framing used on ICE-TCP: 16-bit length then one message
TcpFrame(inner) ==
  << Ln(<<"frame">>, "framelen", 2, "framebody", 1, 0) >> \o
  [i \in 1..Len(inner) |-> [inner[i] EXCEPT !.g = <<"frame", "framebody">> \o inner[i].g]]

---------------------------------------------------------------------------
(* DTLS  (dtls/record.rs, dtls/handshake.rs, dtls/mod.rs reassembly)        *)

DtlsRec(r) ==
  << El(Tg(<<r>>, r \o ".ctype", 1, 99)), Fx(<<r>>, r \o ".ver", 2), Fx(<<r>>, r \o ".epoch", 2), Sq(Fr(<<r>>, r \o ".seq", 6), "dtls_rseq"),
     Ln(<<r>>, r \o ".length", 2, r \o ".frag", 1, 0) >>
\* one handshake message header inside record r (body group name hb)
DtlsHsHdr(r, h) ==
  LET g == <<r, r \o ".frag", h>> IN
  << El(Tg(g, h \o ".type", 1, 99)), Ln(g, h \o ".length", 3, h \o ".body", 1, 0), Sq(Fx(g, h \o ".mseq", 2), "dtls_mseq"),
     Fx(g, h \o ".foff", 3), Ln(g, h \o ".flen", 3, h \o ".body", 1, 0) >>

\* one extension with opaque value / the use_srtp extension (profile list, MKI length)
Ext(g, x) ==
  << El(Tg(g \o <<"exts", x>>, x \o ".t", 2, 65000)), Ln(g \o <<"exts", x>>, x \o ".l", 2, x \o ".v", 1, 0),
     Vr(g \o <<"exts", x>>, x \o ".v") >>
SrtpExt(g, x) ==
  << El(Tg(g \o <<"exts", x>>, x \o ".t", 2, 65000)), Ln(g \o <<"exts", x>>, x \o ".l", 2, x \o ".v", 1, 0),
     Ln(g \o <<"exts", x, x \o ".v">>, "srtp.plen", 2, "srtp.profiles", 1, 0), Lw(Vr(g \o <<"exts", x, x \o ".v">>, "srtp.profiles"), 2),
     Ln(g \o <<"exts", x, x \o ".v">>, "srtp.mkilen", 1, "srtp.mki", 1, 0), Vr(g \o <<"exts", x, x \o ".v">>, "srtp.mki") >>
\* what the real client sends: EMS, use_srtp, supported_groups, ec_point_formats, signature_algorithms
ChExts(g) == << Ln(g, "extlen", 2, "exts", 1, 0) >> \o Ext(g, "ems") \o SrtpExt(g, "usesrtp") \o Ext(g, "groups") \o
             Ext(g, "ecpf") \o Ext(g, "sigalgs")
\* what the real server sends: ec_point_formats, renegotiation_info, EMS, use_srtp
ShExts(g) == << Ln(g, "extlen", 2, "exts", 1, 0) >> \o Ext(g, "ecpf") \o Ext(g, "reneg") \o Ext(g, "ems") \o SrtpExt(g, "usesrtp")

ClientHelloBody(g) ==
  << Fx(g, "ver", 2), Fr(g, "random", 32),
     Ln(g, "sidlen", 1, "sid", 1, 0), Vr(g, "sid"),
     Ln(g, "cookielen", 1, "cookie", 1, 0), Vr(g, "cookie"),
     Ln(g, "cslen", 2, "suites", 1, 0), Lw(Vr(g, "suites"), 2),
     Ln(g, "cmlen", 1, "compr", 1, 0), Vr(g, "compr") >> \o ChExts(g)

ServerHelloBody(g) ==
  << Fx(g, "ver", 2), Fr(g, "random", 32),
     Ln(g, "sidlen", 1, "sid", 1, 0), Vr(g, "sid"),
     Tg(g, "suite", 2, 65000), Tg(g, "compr", 1, 99) >> \o ShExts(g)

HvrBody(g)  == << Fx(g, "ver", 2), Ln(g, "cookielen", 1, "cookie", 1, 0), Vr(g, "cookie") >>
SkeBody(g)  == << Tg(g, "curvetype", 1, 99), Tg(g, "curve", 2, 65000), Ln(g, "pklen", 1, "pk", 1, 0), Vr(g, "pk"),
                  Tg(g, "hashalg", 1, 99), Tg(g, "sigalg", 1, 99), Ln(g, "siglen", 2, "sig", 1, 0), Vr(g, "sig") >>
CertBody(g) == << Ln(g, "totlen", 3, "certs", 1, 0),
                  El(Ln(g \o <<"certs", "c1">>, "c1len", 3, "c1", 1, 0)), Vr(g \o <<"certs", "c1">>, "c1") >>
CkeBody(g)  == << Ln(g, "pklen", 1, "pk", 1, 0), Vr(g, "pk") >>
FinBody(g)  == << Rs(g, "verify") >>
NoBody(g)   == << Rc(g, "none") >>

\* pure decoders: the body alone
DtlsClientHello == ClientHelloBody(<<"ch">>)
DtlsServerHello == ServerHelloBody(<<"sh">>)
DtlsHvr         == HvrBody(<<"hvr">>)
DtlsSke         == SkeBody(<<"ske">>)
DtlsCert        == CertBody(<<"cert">>)
DtlsCke         == CkeBody(<<"cke">>)
DtlsFinished    == FinBody(<<"fin">>)
\* handshake message header + opaque body (HandshakeMessage::decode)
DtlsHsMsg       == << Tg(<<"hs">>, "type", 1, 99), Ln(<<"hs">>, "length", 3, "body", 1, 0), Fr(<<"hs">>, "mseq", 2),
                      Fx(<<"hs">>, "foff", 3), Ln(<<"hs">>, "flen", 3, "body", 1, 0), Vr(<<"hs">>, "body") >>
\* record header + opaque fragment, two records in one datagram (DtlsRecord::decode)
DtlsRecord2     == DtlsRec("r1") \o << Vr(<<"r1">>, "r1.frag") >> \o DtlsRec("r2") \o << Vr(<<"r2">>, "r2.frag") >>

\* full datagrams for the live endpoint: record(handshake(body))
DtlsFlight(h, body(_)) ==
  DtlsRec("r1") \o DtlsHsHdr("r1", h) \o body(<<"r1", "r1.frag", h, h \o ".body">>)
DgClientHello == DtlsFlight("ch", ClientHelloBody)
DgServerHello == DtlsFlight("sh", ServerHelloBody)
DgHvr         == DtlsFlight("hvr", HvrBody)
DgCert        == DtlsFlight("cert", CertBody)
DgSke         == DtlsFlight("ske", SkeBody)
DgShd         == DtlsFlight("shd", NoBody)
DgCke         == DtlsFlight("cke", CkeBody)
\* a handshake fragment (fragment_offset > 0) of a message whose first part the endpoint already holds: total length
\* and offset are length-like fields that govern the reassembly buffer, not bytes of this datagram
DgFrag ==
  LET g == <<"r1", "r1.frag", "fr">> IN
  DtlsRec("r1") \o
  << El(Tg(g, "fr.type", 1, 99)), Ln(g, "fr.length", 3, "", 1, 0), Sq(Fx(g, "fr.mseq", 2), "dtls_mseq"),
     Ln(g, "fr.foff", 3, "", 1, 0), Ln(g, "fr.flen", 3, "fr.body", 1, 0), Vr(g, "fr.body") >>
\* ChangeCipherSpec / encrypted records: header + opaque
DgOpaque      == DtlsRec("r1") \o << Vr(<<"r1">>, "r1.frag") >>

---------------------------------------------------------------------------
(* SCTP + DCEP  (transports/sctp.rs handle_packet and chunk handlers;       *)
(* transports/datachannel.rs)                                               *)

SctpHdr == << Fr(<<"sctp">>, "sport", 2), Fr(<<"sctp">>, "dport", 2), Tg(<<"sctp">>, "vtag", 4, 0),
              Fx(<<"sctp">>, "checksum", 4) >>
SC == <<"sctp">>
ChunkHdr(c) == << El(Tg(SC \o <<c>>, c \o ".type", 1, 63)), Fr(SC \o <<c>>, c \o ".flags", 1),
                  Ln(SC \o <<c>>, c \o ".len", 2, c \o ".val", 1, -4) >>
Param(g, p, unk) == << El(Tg(g \o <<p>>, p \o ".t", 2, unk)), Ln(g \o <<p>>, p \o ".l", 2, p \o ".v", 1, -4),
                       Vr(g \o <<p>>, p \o ".v"), Pd(g \o <<p>>, p \o ".p", 4) >>

InitBody(c) ==
  LET g == SC \o <<c, c \o ".val">> IN
  << Tg(g, "itag", 4, 0), Fr(g, "arwnd", 4), Fr(g, "os", 2), Fr(g, "is", 2), Fr(g, "itsn", 4) >>

SctpInit ==
  SctpHdr \o ChunkHdr("init") \o InitBody("init") \o
  Param(SC \o <<"init", "init.val">>, "fwd", 32767) \o Param(SC \o <<"init", "init.val">>, "ext", 32767) \o
  Param(SC \o <<"init", "init.val">>, "addr", 32767) \o << Pd(SC \o <<"init">>, "init.pad", 4) >>

SctpInitAck ==
  SctpHdr \o ChunkHdr("iack") \o InitBody("iack") \o
  Param(SC \o <<"iack", "iack.val">>, "fwd", 32767) \o Param(SC \o <<"iack", "iack.val">>, "ext", 32767) \o
  Param(SC \o <<"iack", "iack.val">>, "cookie", 32767) \o << Pd(SC \o <<"iack">>, "iack.pad", 4) >>

SctpCookieEcho == SctpHdr \o ChunkHdr("ce") \o << Vr(SC \o <<"ce">>, "ce.val"), Pd(SC \o <<"ce">>, "ce.pad", 4) >>
SctpCookieAck  == SctpHdr \o ChunkHdr("ca") \o << Vr(SC \o <<"ca">>, "ca.val"), Pd(SC \o <<"ca">>, "ca.pad", 4) >>

DataBody(c) ==
  LET g == SC \o <<c, c \o ".val">> IN
  << Sq(Fr(g, c \o ".tsn", 4), "tsn_in"), Fr(g, c \o ".sid", 2), Sq(Fr(g, c \o ".ssn", 2), "ssn"), Tg(g, c \o ".ppid", 4, 99), Rs(g, c \o ".user") >>
SctpData == SctpHdr \o ChunkHdr("data") \o DataBody("data") \o << Pd(SC \o <<"data">>, "data.pad", 4) >>

\* DATA carrying a DCEP DATA_CHANNEL_OPEN
DcepOpenLeaves(g) ==
  << Tg(g, "mtype", 1, 255), Tg(g, "ctype", 1, 127), Fr(g, "prio", 2), Fr(g, "relparam", 4),
     Ln(g, "llen", 2, "label", 1, 0), Ln(g, "plen", 2, "proto", 1, 0), Vr(g, "label"), Vr(g, "proto") >>
SctpDcepOpen ==
  LET g == SC \o <<"data", "data.val">> IN
  SctpHdr \o ChunkHdr("data") \o
  << Sq(Fr(g, "data.tsn", 4), "tsn_in"), Fr(g, "data.sid", 2), Sq(Fr(g, "data.ssn", 2), "ssn"), Tg(g, "data.ppid", 4, 99) >> \o
  DcepOpenLeaves(g \o <<"dcep">>) \o << Pd(SC \o <<"data">>, "data.pad", 4) >>

SctpSack ==
  LET g == SC \o <<"sack", "sack.val">> IN
  SctpHdr \o ChunkHdr("sack") \o
  << Sq(Fr(g, "cumtsn", 4), "tsn_out"), Fr(g, "arwnd", 4), Ct(g, "ngaps", 2, "gaps", 4), Ct(g, "ndups", 2, "dups", 4),
     Lw(Vr(g, "gaps"), 4), Lw(Vr(g, "dups"), 4) >> \o << Pd(SC \o <<"sack">>, "sack.pad", 4) >>

SctpHeartbeat == SctpHdr \o ChunkHdr("hb") \o Param(SC \o <<"hb", "hb.val">>, "hbinfo", 32767) \o
                 << Pd(SC \o <<"hb">>, "hb.pad", 4) >>

SctpForwardTsn ==
  LET g == SC \o <<"fwd", "fwd.val">> IN
  SctpHdr \o ChunkHdr("fwd") \o
  << Sq(Fr(g, "newcum", 4), "tsn_in"), El(Fr(g \o <<"s1">>, "fsid1", 2)), Sq(Fr(g \o <<"s1">>, "fssn1", 2), "ssn") >> \o
  << Pd(SC \o <<"fwd">>, "fwd.pad", 4) >>

SctpReconfig ==
  LET g == SC \o <<"rc", "rc.val">> IN
  SctpHdr \o ChunkHdr("rc") \o
  << El(Tg(g \o <<"rp">>, "rp.t", 2, 32767)), Ln(g \o <<"rp">>, "rp.l", 2, "rp.v", 1, -4),
     Sq(Fr(g \o <<"rp", "rp.v">>, "rqsn", 4), "reconfig_sn"), Fr(g \o <<"rp", "rp.v">>, "rssn", 4), Sq(Fr(g \o <<"rp", "rp.v">>, "lasttsn", 4), "tsn_in"),
     Lw(Rs(g \o <<"rp", "rp.v">>, "streams"), 2), Pd(g \o <<"rp">>, "rp.p", 4) >> \o << Pd(SC \o <<"rc">>, "rc.pad", 4) >>

SctpAbort    == SctpHdr \o ChunkHdr("abort") \o << Vr(SC \o <<"abort">>, "abort.val"), Pd(SC \o <<"abort">>, "abort.pad", 4) >>
SctpShutdown == SctpHdr \o ChunkHdr("sd") \o << Vr(SC \o <<"sd">>, "sd.val"), Pd(SC \o <<"sd">>, "sd.pad", 4) >>

\* two chunks bundled: SACK + DATA
SctpBundle ==
  LET g == SC \o <<"sack", "sack.val">> IN
  SctpHdr \o ChunkHdr("sack") \o
  << Sq(Fr(g, "cumtsn", 4), "tsn_out"), Fr(g, "arwnd", 4), Ct(g, "ngaps", 2, "gaps", 4), Ct(g, "ndups", 2, "dups", 4),
     Lw(Vr(g, "gaps"), 4), Lw(Vr(g, "dups"), 4) >> \o << Pd(SC \o <<"sack">>, "sack.pad", 4) >> \o
  ChunkHdr("data") \o DataBody("data") \o << Pd(SC \o <<"data">>, "data.pad", 4) >>

\* DCEP messages alone (DataChannelOpen::unmarshal, DataChannelAck::unmarshal)
DcepOpen == DcepOpenLeaves(<<"dcep">>)
DcepAck  == << Tg(<<"dcep">>, "mtype", 1, 255) >>

---------------------------------------------------------------------------
(* UDPTL  (transports/udptl.rs recv)                                        *)

Udptl == << Sq(Fr(<<"udptl">>, "seq", 2), "udptl_seq"), Ln(<<"udptl">>, "plen", 2, "primary", 1, 0), Vr(<<"udptl">>, "primary"),
            El(Ln(<<"udptl", "r1">>, "r1len", 2, "r1", 1, 0)), Vr(<<"udptl", "r1">>, "r1"),
            El(Ln(<<"udptl", "r2">>, "r2len", 2, "r2", 1, 0)), Vr(<<"udptl", "r2">>, "r2") >>

---------------------------------------------------------------------------
(* TEXT: SDP and candidate lines  (src/sdp.rs, ice/mod.rs from_sdp,         *)
(* peer_connection.rs set_remote_description)                               *)
(*                                                                         *)
(* A text leaf addresses one token of one line of a genuine description:   *)
(*   s    the line prefix that selects the line ("a=rtpmap:", "m=", ...)   *)
(*   n    name; w = index of the token in the rest of the line, tokens     *)
(*        separated by blanks (and '/' for a=rtpmap), or by the characters  *)
(*        given in `of`                                                     *)
(*   k    num (w-independent; `unit` = bit width of the integer the code   *)
(*        parses it into), word (enumerated keyword, unknown = "zz"),       *)
(*        text (free text), line (the whole line: the repeatable element)  *)
(***************************************************************************)

TNum(s, n, idx, bits) == [L0 EXCEPT !.s = s, !.n = n, !.k = "num", !.w = idx, !.unit = bits, !.g = <<"sdp">>]
TWord(s, n, idx)      == [L0 EXCEPT !.s = s, !.n = n, !.k = "word", !.w = idx, !.g = <<"sdp">>]
TText(s, n, idx)      == [L0 EXCEPT !.s = s, !.n = n, !.k = "text", !.w = idx, !.free = TRUE, !.g = <<"sdp">>]
TLine(s, n)           == [L0 EXCEPT !.s = s, !.n = n, !.k = "line", !.el = TRUE, !.g = <<"sdp">>]
\* tokens separated by the characters in `seps` instead of blanks (parameter lists: "a=fmtp:111 minptime=10;useinbandfec=1")
Seps(l, seps)         == [l EXCEPT !.of = seps]
\* the token is itself a list: elements separated by the character `sep`; `px` = a prefix character an element may
\* carry (RFC 8853 '~').  Whole(...) = the whole rest of the line as one token (no token separator occurs in it)
Lst(l, sep, px)       == [l EXCEPT !.ls = sep, !.px = px]
Whole(s, n)           == [L0 EXCEPT !.s = s, !.n = n, !.k = "text", !.w = 0, !.free = TRUE, !.g = <<"sdp">>, !.of = "@"]

SdpSessionCore ==
  << TLine("v=", "v.line"), TNum("v=", "version", 0, 32),
     TLine("o=", "o.line"), TText("o=", "o.user", 0), TNum("o=", "o.sessid", 1, 64), TNum("o=", "o.sessver", 2, 64),
       TWord("o=", "o.nettype", 3), TWord("o=", "o.addrtype", 4), TText("o=", "o.addr", 5),
     TLine("s=", "s.line"),
     TLine("t=", "t.line"), TNum("t=", "t.start", 0, 64), TNum("t=", "t.stop", 1, 64) >>
SdpBundle ==
  << TLine("a=group:", "group.line"), TWord("a=group:", "group.sem", 0), TText("a=group:", "group.mid", 1) >>

\* what every RTP media section has
SdpMediaCore ==
  << TLine("m=", "m.line"), TWord("m=", "m.kind", 0), TNum("m=", "m.port", 1, 16), TWord("m=", "m.proto", 2),
       TNum("m=", "m.fmt", 3, 8),
     TLine("c=", "c.line"), TWord("c=", "c.nettype", 0), TWord("c=", "c.addrtype", 1), TText("c=", "c.addr", 2),
     TLine("a=mid:", "mid.line"), TNum("a=mid:", "mid", 0, 16),
     TLine("a=rtpmap:", "rtpmap.line"), TNum("a=rtpmap:", "rtpmap.pt", 0, 8), TText("a=rtpmap:", "rtpmap.enc", 1),
       TNum("a=rtpmap:", "rtpmap.rate", 2, 32),
     TLine("a=fmtp:", "fmtp.line"), TNum("a=fmtp:", "fmtp.pt", 0, 8), Lst(TText("a=fmtp:", "fmtp.params", 1), ";", ""),
     TLine("a=sendrecv", "dir.line") >>
\* what a WebRTC (ICE + DTLS) media section adds
SdpMediaIce ==
  << TLine("a=rtcp-fb:", "rtcpfb.line"), TNum("a=rtcp-fb:", "rtcpfb.pt", 0, 8), TWord("a=rtcp-fb:", "rtcpfb.kind", 1),
     TLine("a=extmap:", "extmap.line"), TNum("a=extmap:", "extmap.id", 0, 8), TText("a=extmap:", "extmap.uri", 1),
     TLine("a=ssrc:", "ssrc.line"), TNum("a=ssrc:", "ssrc.id", 0, 32), TText("a=ssrc:", "ssrc.attr", 1),
     TLine("a=ice-ufrag:", "ufrag.line"), TText("a=ice-ufrag:", "ufrag", 0),
     TLine("a=ice-pwd:", "pwd.line"), TText("a=ice-pwd:", "pwd", 0),
     TLine("a=fingerprint:", "fp.line"), TWord("a=fingerprint:", "fp.alg", 0), TText("a=fingerprint:", "fp.hex", 1),
     TLine("a=setup:", "setup.line"), TWord("a=setup:", "setup", 0),
     TLine("a=rtcp-mux", "mux.line"),
     TLine("a=candidate:", "cand.line"), TText("a=candidate:", "cand.foundation", 0), TNum("a=candidate:", "cand.component", 1, 16),
       TWord("a=candidate:", "cand.transport", 2), TNum("a=candidate:", "cand.priority", 3, 32), TText("a=candidate:", "cand.ip", 4),
       TNum("a=candidate:", "cand.port", 5, 16), TWord("a=candidate:", "cand.typkw", 6), TWord("a=candidate:", "cand.typ", 7) >>

SdpApplication ==
  << TLine("m=application ", "mapp.line"), TNum("m=application ", "mapp.port", 0, 16), TWord("m=application ", "mapp.proto", 1),
       TText("m=application ", "mapp.fmt", 2),
     TLine("a=sctp-port:", "sctpport.line"), TNum("a=sctp-port:", "sctpport", 0, 16),
     TLine("a=max-message-size:", "maxmsg.line"), TNum("a=max-message-size:", "maxmsg", 0, 32) >>

\* sub-tokens of parameter lists in the browser-style offer (numeric parameters are parsed into integers by the
\* capability extraction and the RTX association)
SdpParams ==
  << Seps(TNum("a=fmtp:", "opus.minptime", 2, 32), " ;="), Seps(TNum("a=fmtp:", "opus.fec", 4, 8), " ;="),
     Seps(TNum("a=fmtp:96 ", "h264.asym", 1, 8), " ;="), Seps(TNum("a=fmtp:96 ", "h264.pmode", 3, 8), " ;="),
       Seps(TText("a=fmtp:96 ", "h264.plid", 5), " ;="),
     TLine("a=fmtp:97 ", "rtxfmtp.line"), Seps(TNum("a=fmtp:97 ", "rtx.apt", 1, 8), " ;="),
     TLine("a=rtcp:", "rtcp.line"), TNum("a=rtcp:", "rtcp.port", 0, 16),
     Seps(TText("a=ssrc:", "ssrc.cname", 2), " :"),
     TLine("a=msid-semantic:", "msid.line"),
     TLine("a=rtpmap:97 ", "rtxmap.line"), Seps(TNum("a=rtpmap:97 ", "rtx.rate", 1, 32), " /"),
     \* list-valued attributes: the whole value as a separator-structured list
     Lst(Whole("a=group:", "group.list"), " ", ""),
     Lst(Whole("a=fmtp:96 ", "h264.params"), ";", ""),
     Lst(Whole("a=rtcp-fb:96 nack ", "rtcpfb.sub"), " ", ""), Lst(Whole("a=rtcp-fb:", "rtcpfb.value"), " ", ""),
     TLine("a=ssrc-group:", "ssrcgroup.line"), Lst(Whole("a=ssrc-group:", "ssrcgroup.list"), " ", ""),
     TLine("a=extmap:2", "extmap2.line"), Lst(TText("a=extmap:2", "extmap2.dir", 0), "/", ""),
     Lst(Whole("a=candidate:", "cand.pairs"), " ", ""),
     Lst(Seps(TText("a=fingerprint:", "fp.bytes", 1), " "), ":", ""),
     Lst(Whole("a=msid-semantic:", "msid.value"), " ", "") >>

\* T.38 fax re-INVITE (image section; to_image_capabilities parses the numeric attributes)
SdpT38Leaves ==
  << TLine("m=image ", "mimg.line"), TNum("m=image ", "mimg.port", 0, 16), TWord("m=image ", "mimg.proto", 1),
       TWord("m=image ", "mimg.fmt", 2),
     TLine("a=T38FaxVersion:", "t38ver.line"), TNum("a=T38FaxVersion:", "t38.version", 0, 8),
     TLine("a=T38MaxBitRate:", "t38rate.line"), TNum("a=T38MaxBitRate:", "t38.maxbitrate", 0, 32),
     TLine("a=T38FaxRateManagement:", "t38rm.line"), TWord("a=T38FaxRateManagement:", "t38.ratemgmt", 0),
     TLine("a=T38FaxMaxBuffer:", "t38buf.line"), TNum("a=T38FaxMaxBuffer:", "t38.maxbuffer", 0, 16),
     TLine("a=T38FaxMaxDatagram:", "t38dg.line"), TNum("a=T38FaxMaxDatagram:", "t38.maxdatagram", 0, 16),
     TLine("a=T38FaxUdpEC:", "t38ec.line"), TWord("a=T38FaxUdpEC:", "t38.udpec", 0) >>

SdpSimulcast ==
  << TLine("a=rid:", "rid.line"), TText("a=rid:", "rid.id", 0), TWord("a=rid:", "rid.dir", 1), Lst(TText("a=rid:", "rid.params", 2), ";", ""),
     TLine("a=simulcast:", "sim.line"), TWord("a=simulcast:", "sim.dir", 0), Lst(TText("a=simulcast:", "sim.list", 1), ";", "~"),
     \* the same token as a list of alternatives, and the whole value (direction / list pairs)
     Lst(TText("a=simulcast:", "sim.alts", 1), ",", "~"), Lst(Whole("a=simulcast:", "sim.value"), " ", "") >>

SdpCrypto ==
  << TLine("a=crypto:", "crypto.line"), TNum("a=crypto:", "crypto.tag", 0, 16), TWord("a=crypto:", "crypto.suite", 1),
       Lst(TText("a=crypto:", "crypto.key", 2), "|", ""), Lst(Whole("a=crypto:", "crypto.value"), " ", "") >>

\* genuine descriptions: browser-style WebRTC offer (audio+video+application), simulcast offer, SDES (RTP/SAVP) offer
SdpWebrtc    == SdpSessionCore \o SdpBundle \o SdpMediaCore \o SdpMediaIce \o SdpApplication \o SdpParams
SdpSim       == SdpSessionCore \o SdpBundle \o SdpMediaCore \o SdpMediaIce \o SdpSimulcast
SdpSdes      == SdpSessionCore \o SdpMediaCore \o SdpCrypto
SdpT38       == SdpSessionCore \o SdpT38Leaves
\* a candidate string alone (IceCandidate::from_sdp, add_ice_candidate)
CandidateLine ==
  << TLine("candidate:", "cand.line"), TText("candidate:", "cand.foundation", 0), TNum("candidate:", "cand.component", 1, 16),
     TWord("candidate:", "cand.transport", 2), TNum("candidate:", "cand.priority", 3, 32), TText("candidate:", "cand.ip", 4),
     TNum("candidate:", "cand.port", 5, 16), TWord("candidate:", "cand.typkw", 6), TWord("candidate:", "cand.typ", 7),
     TWord("candidate:", "cand.tcptypekw", 8), TWord("candidate:", "cand.tcptype", 9) >>

---------------------------------------------------------------------------
(* Template registry                                                        *)

T(name, leaves) == [name |-> name, leaves |-> leaves]

AllTemplates == <<
  T("rtp.plain", RtpPlain), T("rtp.ext1", RtpExt1), T("rtp.ext2", RtpExt2), T("rtp.pad", RtpPad),
  T("rtp.stapa", RtpStapA), T("rtp.fua", RtpFuA), T("rtp.rtx", RtpRtx),
  T("rtcp.sr", RtcpSr), T("rtcp.rr", RtcpRr), T("rtcp.sdes", RtcpSdes), T("rtcp.bye", RtcpBye), T("rtcp.nack", RtcpNack),
  T("rtcp.twcc", RtcpTwcc), T("rtcp.pli", RtcpPli), T("rtcp.fir", RtcpFir), T("rtcp.remb", RtcpRemb),
  T("rtcp.compound", RtcpCompound), T("rtcp.padded", RtcpPadded),
  T("rtcp.compound_padlast", RtcpCompoundPadLast), T("rtcp.compound_padmid", RtcpCompoundPadMid),
  T("stun.binding_req", StunBindingReq), T("stun.binding_ok4", StunBindingOk4), T("stun.binding_ok6", StunBindingOk6),
  T("stun.alloc_ok", StunAllocOk), T("stun.error401", StunError401), T("stun.data_ind", StunDataInd),
  T("turn.channeldata", TurnChannelData),
  T("tcp.stun_binding_req", TcpFrame(StunBindingReq)),
  T("dtls.record2", DtlsRecord2), T("dtls.hsmsg", DtlsHsMsg), T("dtls.clienthello", DtlsClientHello),
  T("dtls.serverhello", DtlsServerHello), T("dtls.hvr", DtlsHvr), T("dtls.ske", DtlsSke), T("dtls.cert", DtlsCert),
  T("dtls.cke", DtlsCke), T("dtls.finished", DtlsFinished),
  T("dg.clienthello", DgClientHello), T("dg.serverhello", DgServerHello), T("dg.hvr", DgHvr), T("dg.cert", DgCert),
  T("dg.ske", DgSke), T("dg.shd", DgShd), T("dg.cke", DgCke), T("dg.frag", DgFrag), T("dg.opaque", DgOpaque),
  T("sctp.init", SctpInit), T("sctp.init_ack", SctpInitAck), T("sctp.cookie_echo", SctpCookieEcho),
  T("sctp.cookie_ack", SctpCookieAck), T("sctp.data", SctpData), T("sctp.dcep_open", SctpDcepOpen), T("sctp.sack", SctpSack),
  T("sctp.heartbeat", SctpHeartbeat), T("sctp.forward_tsn", SctpForwardTsn), T("sctp.reconfig", SctpReconfig),
  T("sctp.abort", SctpAbort), T("sctp.shutdown", SctpShutdown), T("sctp.bundle", SctpBundle),
  T("dcep.open", DcepOpen), T("dcep.ack", DcepAck),
  T("udptl.packet", Udptl),
  T("sdp.webrtc", SdpWebrtc), T("sdp.simulcast", SdpSim), T("sdp.sdes", SdpSdes), T("sdp.t38", SdpT38), T("sdp.candidate", CandidateLine)
>>

TemplateNames == {AllTemplates[i].name : i \in 1..Len(AllTemplates)}
Template(name) == AllTemplates[CHOOSE i \in 1..Len(AllTemplates) : AllTemplates[i].name = name]
Leaves(name)   == Template(name).leaves

---------------------------------------------------------------------------
(* Well-formedness of a template (checked by TLC as an ASSUME in Inputs)    *)

BinKinds  == {"fixed", "tag", "len", "count", "pad", "var", "rest"}
TextKinds == {"num", "word", "text", "line"}

IsPrefix(p, q) == Len(p) <= Len(q) /\ SubSeq(q, 1, Len(p)) = p

\* names a len/count may govern: leaf names and group names
GroupNames(ls) == UNION {{ls[i].g[j] : j \in 1..Len(ls[i].g)} : i \in 1..Len(ls)}
LeafNames(ls)  == {ls[i].n : i \in 1..Len(ls)}

WellFormed(ls) ==
  /\ \A i, j \in 1..Len(ls) : i # j => ls[i].n # ls[j].n                      \* unique names
  /\ \A i \in 1..Len(ls) :
       LET l == ls[i] IN
       /\ l.k \in BinKinds \cup TextKinds
       /\ l.n # ""
       /\ (l.k \in BinKinds) =>
            /\ Len(l.g) >= 1
            /\ (l.ov => i > 1 /\ l.mask > 0)                                   \* overlays sit on a previous leaf
            /\ (l.k \in {"fixed", "tag"} => l.w > 0)
            /\ (l.k \in {"len", "count"} => l.w > 0 /\
                  (l.of = "" \/ \E j \in (i+1)..Len(ls) : ls[j].n = l.of \/ \E m \in 1..Len(ls[j].g) : ls[j].g[m] = l.of))
            /\ (l.k \in {"var", "rest", "pad"} => l.w = 0 /\ ~l.ov)
            /\ (l.k = "var" =>                                                 \* a var leaf has a governor before it
                  \E j \in 1..(i-1) : ls[j].k \in {"len", "count"} /\ ls[j].of = l.n)
            /\ (l.k = "pad" => l.unit > 0)
            /\ (l.tail => l.w > 0 /\ ~l.ov)
            /\ (l.pf # "" => l.ov /\ l.pf \in GroupNames(ls))
       /\ (l.k \in TextKinds) => l.s # ""
=============================================================================
