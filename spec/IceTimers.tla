------------------------------ MODULE IceTimers ------------------------------
(***************************************************************************)
(* Check-list, nomination and liveness behaviour of the ICE agent           *)
(* (src/transports/ice/mod.rs: perform_connectivity_checks_async,           *)
(* perform_binding_check, handle_stun_request, run_keepalive_tick) - spec   *)
(* growth beyond the listed properties, every rule is EXT.                  *)
(*                                                                         *)
(* As-built and deterministic, like Turn.tla: the harness predicts what the *)
(* real agent does; steps on which the as-built behaviour departs from      *)
(* RFC 8445 / 7675 carry a flag.  Timers are actions (CheckTimeout,         *)
(* NominationTimeout, Silence) that stand for "the armed timer fires"; the  *)
(* harness gives them real durations through the public configuration.     *)
(*                                                                         *)
(* One peer P (signalled host candidate, knows the credentials) and a       *)
(* stranger X that only ever sends noise.                                   *)
(***************************************************************************)
EXTENDS Naturals, Sequences, FiniteSets, TLC

CONSTANTS Roles,        \* subset of {"controlling", "controlled"}
          MaxSteps,     \* steps after Start
          MaxSlow       \* steps that wait for a timer, per behaviour

VARIABLES role, st,     \* "New" | "Checking" | "Connected" | "Disconnected" | "Failed"
          chk,          \* the agent's check towards P: "none" | "out" | "ok" | "failed"
          nomst,        \* controlling: nomination check: "none" | "out" | "ok" | "failed"
          sel, nom,     \* selected remote ("none" | "P"), nomination_complete ("none" | "true" | "false")
          quiet,        \* silence units since the last received packet (1 unit > disconnect threshold, 2 units > connection timeout)
          slow, hist

vars == <<role, st, chk, nomst, sel, nom, quiet, slow, hist>>
view == <<role, st, chk, nomst, sel, nom, quiet, slow>>

Init ==
  /\ role \in Roles /\ st = "New" /\ chk = "none" /\ nomst = "none" /\ sel = "none" /\ nom = "none"
  /\ quiet = 0 /\ slow = 0 /\ hist = <<>>

Snap(s, c, n, se, no) == [state |-> s, sel |-> se, nom |-> no, role |-> role]
Log(a, f) == hist' = Append(hist, [a |-> a, flags |-> f, st |-> Snap(st', chk', nomst', sel', nom')])
Alive == st \in {"Checking", "Connected", "Disconnected"}
Room == TRUE

Start ==
  /\ st = "New"
  /\ st' = "Checking" /\ chk' = "out" /\ quiet' = 0
  /\ UNCHANGED <<role, nomst, sel, nom, slow>>
  /\ Log([op |-> "start"], {})

(* the peer answers the agent's connectivity check *)
AnswerCheck(class) ==
  /\ Alive /\ Room /\ chk = "out"
  /\ quiet' = 0
  /\ (IF class = "success"
      THEN /\ chk' = "ok"
           /\ (IF role = "controlled"
               THEN /\ (IF nom = "none" THEN sel' = "P" /\ st' = "Connected" ELSE UNCHANGED <<sel, st>>)
                    /\ UNCHANGED nomst
               ELSE st' = "Connected" /\ nomst' = "out" /\ UNCHANGED sel)
           /\ UNCHANGED nom
      ELSE \* an error answer - a 487 Role Conflict included - just fails the check: no role switch, no retry
           /\ chk' = "failed" /\ UNCHANGED <<st, nomst, sel, nom>>)
  /\ UNCHANGED <<role, slow>>
  /\ Log([op |-> "answer_check", class |-> class],
         IF class = "e487" THEN {"RoleConflict487"} ELSE {})

(* nobody answers the check: it times out (stun_timeout) *)
CheckTimeout ==
  /\ Alive /\ Room /\ chk = "out" /\ slow < MaxSlow
  /\ chk' = "failed" /\ slow' = slow + 1
  /\ UNCHANGED <<role, st, nomst, sel, nom, quiet>>
  /\ Log([op |-> "check_timeout"], {})

AnswerNomination(class) ==
  /\ Alive /\ Room /\ nomst = "out"
  /\ quiet' = 0
  /\ (IF class = "success"
      THEN nomst' = "ok" /\ sel' = "P" /\ nom' = "true" /\ UNCHANGED st
      ELSE nomst' = "failed" /\ sel' = "P" /\ nom' = "false" /\ st' = "Failed")
  /\ UNCHANGED <<role, chk, slow>>
  /\ Log([op |-> "answer_nomination", class |-> class],
         IF class # "success" THEN {"NominationFailureIsFatal"} ELSE {})

(* the nomination check times out (nomination_timeout): the best succeeded pair is selected "for best-effort data
   flow" and the transport is declared Failed - which stops its read loops *)
NominationTimeout ==
  /\ Alive /\ Room /\ nomst = "out" /\ slow < MaxSlow
  /\ nomst' = "failed" /\ sel' = "P" /\ nom' = "false" /\ st' = "Failed" /\ slow' = slow + 1
  /\ UNCHANGED <<role, chk, quiet>>
  /\ Log([op |-> "nomination_timeout"], {"NominationFailureIsFatal"})

(* an authenticated Binding request from the peer; `conflict`: it carries the same role attribute as the agent's own
   role (with a tie-breaker that should make the agent switch / answer 487) *)
PeerRequest(uc, conflict) ==
  /\ st # "Failed" /\ Room
  /\ quiet' = 0
  /\ LET useIt == uc /\ role = "controlled" IN
     /\ (IF useIt
         THEN /\ (IF sel = "none" THEN sel' = "P" ELSE UNCHANGED sel)
              /\ st' = "Connected" /\ nom' = "true"
         ELSE UNCHANGED <<sel, st, nom>>)
     /\ UNCHANGED <<role, chk, nomst, slow>>
     /\ Log([op |-> "peer_request", uc |-> uc, conflict |-> conflict],
            (IF conflict THEN {"RoleConflict"} ELSE {})
            \cup (IF useIt /\ chk # "ok" THEN {"NominationNeedsValidPair"} ELSE {})
            \cup (IF chk = "failed" /\ st = "Checking" /\ ~useIt THEN {"TriggeredCheck"} ELSE {}))

(* nothing at all arrives for k silence units (one unit is longer than the disconnect threshold, two units are longer
   than the connection timeout) *)
Silence(k) ==
  /\ Alive /\ Room /\ slow < MaxSlow /\ chk # "out" /\ nomst # "out"
  /\ quiet + k <= 2
  /\ quiet' = quiet + k /\ slow' = slow + 1
  /\ st' = (IF st = "Checking" THEN (IF quiet + k >= 2 THEN "Failed" ELSE "Checking")
            ELSE IF quiet + k >= 2 THEN "Failed" ELSE "Disconnected")
  /\ UNCHANGED <<role, chk, nomst, sel, nom>>
  /\ Log([op |-> "silence", units |-> k], {})

(* the same, but a stranger keeps sending datagrams that are neither authenticated nor STUN: every inbound packet
   refreshes the liveness clock *)
Noise ==
  /\ Alive /\ Room /\ slow < MaxSlow /\ chk # "out" /\ nomst # "out"
  /\ quiet' = 0 /\ slow' = slow + 1
  /\ st' = (IF st = "Disconnected" THEN "Connected" ELSE st)
  /\ UNCHANGED <<role, chk, nomst, sel, nom>>
  /\ Log([op |-> "noise"], {"LivenessByAnyPacket"})

(* one packet from the peer after a silence: a Disconnected transport recovers at the next tick *)
Packet ==
  /\ st \in {"Connected", "Disconnected"} /\ Room /\ quiet > 0
  /\ quiet' = 0 /\ st' = "Connected"
  /\ UNCHANGED <<role, chk, nomst, sel, nom, slow>>
  /\ Log([op |-> "packet"], {})

Next ==
  \/ Start
  \/ \E c \in {"success", "e487", "e400"} : AnswerCheck(c)
  \/ CheckTimeout
  \/ \E c \in {"success", "e400"} : AnswerNomination(c)
  \/ NominationTimeout
  \/ \E uc \in BOOLEAN, cf \in BOOLEAN : PeerRequest(uc, cf)
  \/ (\E k \in {1, 2} : Silence(k)) \/ Noise \/ Packet

Spec == Init /\ [][Next]_vars

\* a behaviour is complete when nothing more may happen within the bounds
Done == st = "Failed" \/ Len(hist) >= MaxSteps + 1

\* design claims that hold as built
TerminalIsStable == [][st = "Failed" => st' = "Failed"]_vars
NominatedKeepsPair == [][(nom = "true" /\ sel = "P") => sel' = "P"]_vars
=============================================================================
