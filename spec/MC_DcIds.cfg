SPECIFICATION Spec
CONSTANTS
  Ids = {0, 1, 2, 3, 4, 5}
  MaxOps = 4
  Deviations = {}
INVARIANTS UniqueLive NoSharedStream EmitProgram
CHECK_DEADLOCK FALSE
