--------------------------- MODULE MC_Lifecycle ---------------------------
(* Bounded model of Lifecycle: every phase x terminating event (x second event) is an initial choice;
   TLC explores all interleavings of the code's loops with the events.  Also the scenario generator
   for the binding: every (phase, ev1 [, ev2 at point]) that is feasible in the model is printed. *)
EXTENDS Lifecycle, Json

\* history-free view: `fired` records only which events fired and where, which is part of the state
view == vars

\* one line per completed firing plan: the scenario the harness runs
EmitScenario ==
    IF fired' # fired
    THEN PrintT(<<"SCEN", ToJson([mode |-> Mode, phase |-> fired'[1].phase, traffic |-> Traffic, dc |-> Dc,
                                   flaps |-> fired'[1].flaps,
                                   evs |-> [i \in 1..Len(fired') |-> fired'[i].ev],
                                   ats |-> [i \in 1..Len(fired') |-> fired'[i].at]])>>)
    ELSE TRUE

NoEmit == TRUE
=============================================================================
