--------------------------- MODULE MC_Lifecycle ---------------------------
(* Bounded model of Lifecycle: every phase x terminating event (x second event) is an initial choice;
   TLC explores all interleavings of the code's loops with the events.  Also the scenario generator
   for the binding: every (phase, ev1 [, ev2 at point]) that is feasible in the model is printed. *)
EXTENDS Lifecycle, Json

CONSTANTS MaxEvents, PhaseSet, Ev1Set, Ev2Set

Seqs1 == {<<e>> : e \in Ev1Set}
Seqs2 == {<<e, f>> : e \in Ev1Set, f \in Ev2Set}
EvSeqs == IF MaxEvents >= 2 THEN Seqs1 \cup Seqs2 ELSE Seqs1

HasDrop(q) == \E i \in 1..Len(q) : q[i] = "Drop"

MCPlans == {[phase |-> p, evs |-> q,
             pendingWfc |-> (~HasDrop(q) /\ p \notin {"created", "gathering", "offerMade"}),
             afterWfc |-> ~HasDrop(q)] : p \in PhaseSet, q \in EvSeqs}

\* history-free view: `fired` records only which events fired and where, which is part of the state
view == vars

\* one line per completed firing plan: the scenario the harness runs
EmitScenario ==
    IF fired' # fired /\ plan'.evs = <<>>
    THEN PrintT(<<"SCEN", ToJson([mode |-> Mode, phase |-> plan.phase, traffic |-> Traffic,
                                   evs |-> [i \in 1..Len(fired') |-> fired'[i].ev],
                                   ats |-> [i \in 1..Len(fired') |-> fired'[i].at]])>>)
    ELSE TRUE

NoEmit == TRUE
=============================================================================
