---------------------------- MODULE Trace_Answer ----------------------------
(* Validation of recorded (offer, configuration, answer) triples against    *)
(* the ValidAnswer relation of Answer.tla (property C08).                   *)
(*                                                                          *)
(* The trace file (ndjson, IOEnv.TRACE) has one record per offer the        *)
(* harness applied to a real PeerConnection:                                *)
(*   {i, offer, cfg, answer, accepted, roundtrip_ok}.                       *)
(* The cursor walks the file; for every record a VERDICT line is printed    *)
(* with the set of rules of the relation the answer breaks (empty = the     *)
(* record is accepted), and for the per-section rules the kinds of the      *)
(* offending sections.  A record the stack did not accept is outside the    *)
(* statement ("every offer the stack accepts").                             *)
EXTENDS Answer, Json, IOUtils

Rec == ndJsonDeserialize(IOEnv.TRACE)

VARIABLE l
vars == <<l>>

(* indices of the answered sections that break a per-section rule *)
BadSecs(rule, o, mode, a) ==
  {i \in Both(o, a) :
     LET oo == [secs |-> <<o.secs[i]>>, bundle |-> <<>>]
         aa == [secs |-> <<a.secs[i]>>, bundle |-> <<>>]
     IN ~Holds(rule, oo, mode, aa)}

SectionRules == RuleNames \ {"SameCount", "SameKinds", "SameMids", "BundleOffered"}

(* structural context of the offer, for classifying a rejected record *)
Context(o, caps) ==
  [ nsec     |-> Len(o.secs),
    midless  |-> \A i \in DOMAIN o.secs : o.secs[i].mid = "",
    bundled  |-> o.bundle # <<>>,
    partial  |-> o.bundle # <<>> /\ Range(o.bundle) # {o.secs[i].mid : i \in DOMAIN o.secs},
    \* kinds of RTP sections that share no codec with the local capability profile
    nocommon |-> {o.secs[i].kind : i \in {j \in DOMAIN o.secs :
                     o.secs[j].kind \in RtpKinds /\ {p[2] : p \in Range(o.secs[j].pts)} \cap LocalCodecs(caps) = {}}} ]

Verdict(r) ==
  IF ~r.accepted
  THEN [i |-> r.i, accepted |-> FALSE, failed |-> {}, ext |-> {}, kinds |-> {}, ctx |-> Context(r.offer, r.cfg.caps)]
  ELSE LET o == r.offer
           a == r.answer
           f == Failed(o, r.cfg.mode, a) \cup (IF r.roundtrip_ok THEN {} ELSE {"RoundTrip"})
       IN [i |-> r.i, accepted |-> TRUE, failed |-> f, ctx |-> Context(o, r.cfg.caps),
           ext |-> ExtFailed(o, a),
           kinds |-> UNION { { <<rule, o.secs[i].kind>> : i \in BadSecs(rule, o, r.cfg.mode, a) } :
                               rule \in f \cap SectionRules }]

TraceInit == l = 1
TraceNext == l <= Len(Rec) /\ l' = l + 1
TraceSpec == TraceInit /\ [][TraceNext]_vars

EmitVerdict == l \in DOMAIN Rec => PrintT(<<"VERDICT", ToJson(Verdict(Rec[l]))>>)
(* the whole file was read *)
AllRead == <>(l = Len(Rec) + 1)
=============================================================================
