---------------------------- MODULE MC_IceAgent ----------------------------
(* Bounded model + edge generator for IceAgent.tla (property C06).         *)
(* One JSON line per (state, input) pair TLC generates: a history that     *)
(* reaches the pre-state, the input, the pre- and post-state and the rule  *)
(* of C06 (or EXT) that governs the comparison.                            *)
EXTENDS IceAgent, Json

PendJson(ps) == {[dst |-> p.dst, uc |-> p.uc] : p \in ps}
StateJson(st, r, s, n, ps, sd) ==
  [state |-> st, rc |-> r, sel |-> s, nom |-> n, pend |-> PendJson(ps), started |-> sd]

EdgeRule ==
  IF last'.kind = "request" /\ ~last'.auth THEN "UnauthInert"
  ELSE IF last'.kind = "response" /\ ~last'.matched THEN "UnmatchedInert"
  ELSE "EXT"

EdgeRec ==
  [ cfg   |-> [role |-> role, sock |-> sock, lite |-> lite],
    pre   |-> hist,
    act   |-> hist'[Len(hist')],
    rule  |-> EdgeRule,
    inert |-> (<<state, rc, sel, nom, pend>> = <<state', rc', sel', nom', pend'>>),
    from  |-> StateJson(state, rc, sel, nom, pend, started),
    to    |-> StateJson(state', rc', sel', nom', pend', started') ]

EmitEdge == PrintT(<<"EDGE", ToJson(EdgeRec)>>)
NoEmit   == TRUE
=============================================================================
