---------------------------- MODULE MC_IceAgent ----------------------------
(* Bounded model + edge generator for IceAgent.tla (property C06).         *)
(* One JSON line per (state, input) pair TLC generates: a history that     *)
(* reaches the pre-state, the input, the pre- and post-state and the rule  *)
(* of C06 (or EXT) that governs the comparison.                            *)
EXTENDS IceAgent, Json


EdgeRule ==
  IF last'.kind = "request" /\ ~last'.auth THEN "UnauthInert"
  ELSE IF last'.kind = "response" /\ ~last'.matched THEN "UnmatchedInert"
  ELSE "EXT"

EdgeRec ==
  [ cfg   |-> [role |-> role, sock |-> sock, lite |-> lite],
    pre   |-> hist,
    act   |-> hist'[Len(hist')].a,
    rule  |-> EdgeRule,
    inert |-> (<<state, rc, sel, nom, pend, phost>> = <<state', rc', sel', nom', pend', phost'>>),
    \* the whole model state is unchanged (shared-socket routing included): the same agent can take another input
    pure  |-> (view' = view),
    delivered |-> last'.delivered,
    first |-> last'.first,          \* first frame of a new connection to the shared ICE-TCP listener
    from  |-> Snap(state, rc, sel, nom, pend, phost),
    to    |-> Snap(state', rc', sel', nom', pend', phost') ]

EmitEdge == PrintT(<<"EDGE", ToJson(EdgeRec)>>)
NoEmit   == TRUE
=============================================================================
