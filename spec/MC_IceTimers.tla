--------------------------- MODULE MC_IceTimers ---------------------------
(* Behaviour generator for IceTimers.tla (check EXT05, part 2).            *)
EXTENDS IceTimers, Json
EmitEdge == PrintT(<<"EDGE", ToJson([role |-> role, pre |-> hist, act |-> hist'[Len(hist')]])>>)
EmitRun == Done => PrintT(<<"RUN", ToJson([role |-> role, steps |-> hist])>>)
NoEmit  == TRUE
=============================================================================
