SPECIFICATION Spec
CONSTANTS
  Transports = {"udp", "tcp"}
  Lifetimes = {600}
  MaxRefresh = 1
  MaxDrops = 0
  Reacts = {"ok", "e401", "e438", "err", "badtx"}
  AllocLen = 3
  RefreshFaults = 1
  Deviations = {}
INVARIANTS BoundedRetries FreshNonce PermissionFirst NoEmit
CHECK_DEADLOCK FALSE
