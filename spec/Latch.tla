------------------------------- MODULE Latch -------------------------------
(***************************************************************************)
(* RTP latching state machine of IceConn (src/transports/ice/conn.rs).     *)
(*                                                                         *)
(* One action per public entry point that can touch the RTP / RTCP send    *)
(* address: an inbound packet (classified RTP matching / RTP other SSRC /   *)
(* RTCP / other), enable_latch_on_rtp, set_expected_ssrc,                  *)
(* set_remote_rtcp_addr, reset_latch, the signaling retarget and the       *)
(* selected-pair update.                                                   *)
(*                                                                         *)
(* The decision rules are the three documented ones, in the documented     *)
(* order (marker start, consecutive run, majority after max_packets).      *)
(* Where the pinned code deviates, the deviation is a named switch in      *)
(* CONSTANT Deviations; with Deviations = {} the spec is the behaviour     *)
(* property C18 relies on.                                                 *)
(***************************************************************************)
EXTENDS Naturals, Integers, Sequences, FiniteSets, TLC

CONSTANTS Addrs,        \* source addresses, e.g. {"A","B","C"}
          SeqAlpha,     \* RTP sequence numbers used by packets
          MaxPks,       \* probation settings explored (0 = immediate latch)
          MaxLen,       \* bound on the number of actions in a behaviour
          InitRemotes,  \* configured initial remote: subset of Addrs \cup {"Unset"}
          InitLatch,    \* subset of BOOLEAN: TRUE = behaviours that start with enable_latch_on_rtp already called
          Deviations    \* subset of {"StaleCompareAtCommit","TimeoutBeforeConsecutive"}

VARIABLES remote,       \* RTP send address: element of Addrs or "Unset"
          rtcpRemote,   \* RTCP send address: element of Addrs or "None"
          latchOn, rtpLatched, rtcpLatched,
          expected,     \* 0 = no expected SSRC, 1 = SSRC S expected
          maxPk,
          prob,         \* [on |-> BOOLEAN, cands |-> Seq(candidate), total |-> Nat]
          initRemote,   \* the address configured at construction (never changes)
          legit,        \* ghost: addresses that sent acceptable RTP since the last reset
          nMatch,       \* ghost: acceptable RTP packets since probation (re)started
          hist,         \* actions taken so far
          last          \* classification of the last step (for the rules)

vars == <<remote, rtcpRemote, latchOn, rtpLatched, rtcpLatched, expected, maxPk,
          prob, initRemote, legit, nMatch, hist, last>>
\* hist and last are bookkeeping: they do not influence any future step
view == <<remote, rtcpRemote, latchOn, rtpLatched, rtcpLatched, expected, maxPk,
          prob, initRemote, legit, nMatch>>

Min(S) == CHOOSE x \in S : \A y \in S : x <= y
Max(S) == CHOOSE x \in S : \A y \in S : x >= y

NoProb    == [on |-> FALSE, cands |-> <<>>, total |-> 0]
EmptyProb == [on |-> TRUE,  cands |-> <<>>, total |-> 0]
FreshProb(on, mp) == IF on /\ mp > 0 THEN EmptyProb ELSE NoProb

Init ==
  /\ remote \in InitRemotes /\ initRemote = remote
  /\ rtcpRemote = "None"
  /\ latchOn \in InitLatch /\ rtpLatched = FALSE /\ rtcpLatched = FALSE
  /\ expected = 0
  /\ maxPk \in MaxPks
  /\ prob = FreshProb(latchOn, maxPk)
  /\ legit = {}
  /\ nMatch = 0
  /\ hist = IF latchOn THEN <<[op |-> "enable"]>> ELSE <<>>
  /\ last = [kind |-> "init"]

---------------------------------------------------------------------------
(* Probation table                                                          *)

IdxOf(cs, a) == IF \E i \in 1..Len(cs) : cs[i].addr = a
                THEN CHOOSE i \in 1..Len(cs) : cs[i].addr = a ELSE 0

Sat(n) == IF n >= 255 THEN 255 ELSE n + 1          \* u8 saturating_add(1)

UpdateCands(cs, a, seq, marker) ==
  LET i == IdxOf(cs, a) IN
  IF i = 0
  THEN Append(cs, [addr |-> a, first |-> seq, lastseq |-> seq, cnt |-> 1, cons |-> 0,
                   marker |-> marker])
  ELSE [cs EXCEPT ![i] =
          [addr    |-> a,
           first   |-> IF seq < cs[i].first THEN seq ELSE cs[i].first,
           lastseq |-> seq,
           cnt     |-> Sat(cs[i].cnt),
           cons    |-> IF seq = (cs[i].lastseq + 1) % 65536 THEN Sat(cs[i].cons) ELSE 0,
           marker  |-> cs[i].marker \/ marker]]

\* Rule 1: marker start -- the marked candidate with the lowest first sequence number
\* (ties: earliest arrival).
MarkerWinner(cs) ==
  LET M == {i \in 1..Len(cs) : cs[i].marker} IN
  IF M = {} THEN "None"
  ELSE LET lo == Min({cs[i].first : i \in M}) IN cs[Min({i \in M : cs[i].first = lo})].addr

\* Rule 2: consecutive run -- a candidate with two consecutive steps once three packets
\* were observed in total (first such candidate in arrival order).
ConsWinner(cs, total) ==
  LET C == {i \in 1..Len(cs) : cs[i].cons >= 2} IN
  IF total >= 3 /\ C # {} THEN cs[Min(C)].addr ELSE "None"

\* Rule 3: majority after max_packets -- most packets, ties by lowest first sequence number.
\* (Remaining ties -- equal count and equal first sequence number -- are not documented;
\*  the model resolves them like the code, last candidate in arrival order, and the
\*  expectation is then reported under the EXT tag only.)
MajoritySet(cs) ==
  LET hi == Max({cs[i].cnt : i \in 1..Len(cs)})
      H  == {i \in 1..Len(cs) : cs[i].cnt = hi}
      lo == Min({cs[i].first : i \in H})
  IN {i \in H : cs[i].first = lo}
MajorityWinner(cs, total, mp) ==
  IF total >= mp /\ Len(cs) > 0 THEN cs[Max(MajoritySet(cs))].addr ELSE "None"
MajorityAmbiguous(cs) == Cardinality(MajoritySet(cs)) > 1

Winner(cs, total, mp) ==
  LET w1 == MarkerWinner(cs)
      w2 == ConsWinner(cs, total)
      w3 == MajorityWinner(cs, total, mp)
  IN IF w1 # "None" THEN w1
     ELSE IF "TimeoutBeforeConsecutive" \in Deviations
          THEN (IF w3 # "None" THEN w3 ELSE w2)
          ELSE (IF w2 # "None" THEN w2 ELSE w3)

\* Which documented rule decided (for reporting)
DecidedBy(cs, total, mp) ==
  IF MarkerWinner(cs) # "None" THEN "marker"
  ELSE IF ConsWinner(cs, total) # "None" /\ "TimeoutBeforeConsecutive" \notin Deviations THEN "consecutive"
  ELSE IF MajorityWinner(cs, total, mp) # "None" THEN "majority"
  ELSE IF ConsWinner(cs, total) # "None" THEN "consecutive"
  ELSE "none"

---------------------------------------------------------------------------
(* Actions                                                                  *)

Log(a) == hist' = Append(hist, a)

\* Every inbound packet adopts its source when no address is configured (port 0).
Adopt(a) == IF remote = "Unset" THEN a ELSE remote

\* An inbound packet that is neither RTP nor RTCP (DTLS, STUN, ...), or a short one.
Other(a) ==
  /\ remote' = Adopt(a)
  /\ last' = [kind |-> "other", src |-> a, adopted |-> (remote = "Unset")]
  /\ Log([op |-> "other", src |-> a])
  /\ UNCHANGED <<rtcpRemote, latchOn, rtpLatched, rtcpLatched, expected, maxPk, prob, initRemote, legit, nMatch>>

Rtcp(a) ==
  /\ remote' = Adopt(a)
  /\ IF latchOn /\ rtcpRemote # "None" /\ a # rtcpRemote /\ ~rtcpLatched
     THEN rtcpRemote' = a /\ rtcpLatched' = TRUE
     ELSE UNCHANGED <<rtcpRemote, rtcpLatched>>
  /\ last' = [kind |-> "rtcp", src |-> a, adopted |-> (remote = "Unset")]
  /\ Log([op |-> "rtcp", src |-> a])
  /\ UNCHANGED <<latchOn, rtpLatched, expected, maxPk, prob, initRemote, legit, nMatch>>

\* RTP from a with SSRC class s (1 = the signalled SSRC S, 2 = some other SSRC).
Rtp(a, s, marker, seq) ==
  LET ok   == (expected = 0) \/ (s = expected)
      live == latchOn /\ ~rtpLatched /\ ok
  IN
  /\ Log([op |-> "rtp", src |-> a, ssrc |-> s, marker |-> marker, seq |-> seq])
  /\ UNCHANGED <<rtcpRemote, rtcpLatched, latchOn, expected, maxPk, initRemote>>
  /\ IF ~live
     THEN /\ remote' = Adopt(a)
          /\ last' = [kind |-> "rtp-inert", src |-> a, adopted |-> (remote = "Unset")]
          /\ UNCHANGED <<rtpLatched, prob, legit, nMatch>>
     ELSE /\ legit' = legit \cup {a}
          /\ nMatch' = nMatch + 1
          /\ IF ~prob.on
             THEN \* immediate latch
                  /\ remote' = a /\ rtpLatched' = TRUE /\ prob' = NoProb
                  /\ last' = [kind |-> "rtp-commit", src |-> a, winner |-> a, by |-> "immediate",
                              ambiguous |-> FALSE, adopted |-> (remote = "Unset")]
             ELSE LET cs == UpdateCands(prob.cands, a, seq, marker)
                      t  == IF prob.total >= 255 THEN 255 ELSE prob.total + 1
                      w  == Winner(cs, t, maxPk)
                  IN IF w = "None"
                     THEN /\ prob' = [on |-> TRUE, cands |-> cs, total |-> t]
                          /\ remote' = a                      \* provisional follow
                          /\ UNCHANGED rtpLatched
                          /\ last' = [kind |-> "rtp-probation", src |-> a, adopted |-> (remote = "Unset")]
                     ELSE /\ prob' = NoProb
                          /\ rtpLatched' = TRUE
                          /\ remote' = IF "StaleCompareAtCommit" \in Deviations /\ w = remote
                                       THEN a        \* code: winner compared with the entry value
                                       ELSE w
                          /\ last' = [kind |-> "rtp-commit", src |-> a, winner |-> w,
                                      by |-> DecidedBy(cs, t, maxPk),
                                      ambiguous |-> (DecidedBy(cs, t, maxPk) = "majority" /\ MajorityAmbiguous(cs)),
                                      adopted |-> (remote = "Unset")]

Enable ==
  /\ latchOn' = TRUE
  /\ prob' = IF maxPk > 0 THEN (IF ~prob.on THEN EmptyProb ELSE prob) ELSE NoProb
  /\ nMatch' = IF ~prob.on THEN 0 ELSE nMatch
  /\ last' = [kind |-> "ctl"]
  /\ Log([op |-> "enable"])
  /\ UNCHANGED <<remote, rtcpRemote, rtpLatched, rtcpLatched, expected, maxPk, initRemote, legit>>

SetExpected(e) ==
  /\ expected' = e
  /\ last' = [kind |-> "ctl"]
  /\ Log([op |-> "expect", ssrc |-> e])
  /\ UNCHANGED <<remote, rtcpRemote, latchOn, rtpLatched, rtcpLatched, maxPk, prob, initRemote, legit, nMatch>>

SetRtcpRemote(a) ==
  /\ rtcpRemote' = a /\ rtcpLatched' = FALSE
  /\ last' = [kind |-> "ctl"]
  /\ Log([op |-> "set_rtcp", addr |-> a])
  /\ UNCHANGED <<remote, latchOn, rtpLatched, expected, maxPk, prob, initRemote, legit, nMatch>>

Reset ==
  /\ rtpLatched' = FALSE /\ rtcpLatched' = FALSE
  /\ prob' = FreshProb(latchOn, maxPk)
  /\ legit' = {} /\ nMatch' = 0
  /\ last' = [kind |-> "reset"]
  /\ Log([op |-> "reset"])
  /\ UNCHANGED <<remote, rtcpRemote, latchOn, expected, maxPk, initRemote>>

Retarget(a) ==   \* signaling: new remote address, latch reset
  /\ rtpLatched' = FALSE /\ rtcpLatched' = FALSE
  /\ prob' = FreshProb(latchOn, maxPk)
  /\ legit' = {} /\ nMatch' = 0
  /\ remote' = a
  /\ last' = [kind |-> "signaling"]
  /\ Log([op |-> "retarget", addr |-> a])
  /\ UNCHANGED <<rtcpRemote, latchOn, expected, maxPk, initRemote>>

SelectedPair(a) ==   \* ICE selected-pair update: must not override a committed latch
  /\ remote' = IF latchOn /\ rtpLatched /\ remote # a THEN remote ELSE a
  /\ last' = [kind |-> "pair", preserved |-> (latchOn /\ rtpLatched /\ remote # a)]
  /\ Log([op |-> "pair", addr |-> a])
  /\ UNCHANGED <<rtcpRemote, latchOn, rtpLatched, rtcpLatched, expected, maxPk, prob, initRemote, legit, nMatch>>

Packet == \E a \in Addrs :
            \/ Other(a) \/ Rtcp(a)
            \/ \E s \in {1, 2}, m \in BOOLEAN, q \in SeqAlpha : Rtp(a, s, m, q)

Control == \/ Enable \/ Reset
           \/ \E e \in {0, 1} : SetExpected(e)
           \/ \E a \in Addrs : SetRtcpRemote(a) \/ Retarget(a) \/ SelectedPair(a)

Next == Len(hist) < MaxLen /\ (Packet \/ Control)

Spec == Init /\ [][Next]_vars

---------------------------------------------------------------------------
(* Property C18 on the model                                                *)

IsPacket(l) == l.kind \in {"other", "rtcp", "rtp-inert", "rtp-probation", "rtp-commit"}

\* The send address moves, because of traffic, only to a legitimate source.
Legit == [][ (IsPacket(last') /\ remote # "Unset" /\ remote' # remote)
               => (latchOn /\ remote' \in legit') ]_vars

\* Commit chooses the documented winner.
CommitRule == [][ last'.kind = "rtp-commit" => (rtpLatched' /\ remote' = last'.winner) ]_vars

\* Once latched, no traffic moves the RTP destination or unlatches.
Sticky == [][ (rtpLatched /\ latchOn /\ IsPacket(last')) => (remote' = remote /\ rtpLatched') ]_vars

\* Commit after at most maxPk acceptable packets.
Bounded == (latchOn /\ maxPk > 0 /\ nMatch >= maxPk) => rtpLatched
BoundedImmediate == (latchOn /\ maxPk = 0 /\ nMatch >= 1) => rtpLatched

\* RTCP can only set the RTCP destination, and only once.
RtcpOnly == [][ last'.kind = "rtcp" =>
                 /\ (remote # "Unset" => remote' = remote)
                 /\ (rtcpLatched => rtcpRemote' = rtcpRemote) ]_vars
NonRtcpKeepsRtcp == [][ (IsPacket(last') /\ last'.kind # "rtcp") => rtcpRemote' = rtcpRemote ]_vars

\* The ICE pair monitor never overrides a committed latch.
PairPreserves == [][ (last'.kind = "pair" /\ latchOn /\ rtpLatched) => remote' = remote ]_vars

TypeOK ==
  /\ remote \in Addrs \cup {"Unset"}
  /\ rtcpRemote \in Addrs \cup {"None"}
  /\ latchOn \in BOOLEAN /\ rtpLatched \in BOOLEAN /\ rtcpLatched \in BOOLEAN
  /\ (prob.on => (latchOn /\ maxPk > 0))
=============================================================================
