------------------------------ MODULE Trace_Ring ------------------------------
(***************************************************************************)
(* Trace validation for the track sample queue (property C20, binding T).  *)
(*                                                                         *)
(* harness/src/bin/ring.rs (mode `stress`) runs producers, the consumer    *)
(* and the stopper as free-running threads on the real objects (no baton)  *)
(* and logs, with one process-wide sequence counter, the START and the END *)
(* of every API call together with its arguments and result.  This module  *)
(* accepts a log iff SOME placement of one linearisation point per call,   *)
(* between its start and its end, explains every logged result by the      *)
(* queue contract below.  The contract is what C20 promises, over logged   *)
(* quantities only:                                                        *)
(*   ReceivedIsPushed / NoDuplicate / PerProducerFifo                      *)
(*        the consumer gets exactly the heads of one bounded FIFO into     *)
(*        which each pushed sample enters once, in per-producer order      *)
(*   overflow  a sample is discarded only by the documented paths: the     *)
(*        queue was found full by that send (then the oldest queued sample *)
(*        or, while a recv() is in progress, the new one is dropped) or    *)
(*        try_send reported WouldBlock                                     *)
(*   DrainThenEos  end-of-stream is returned only when the source is       *)
(*        closed and the queue is empty, or after stop()                   *)
(*   NoLostWakeup  a recv() that is still pending when the run is cut off  *)
(*        is explained only by "queue empty, source open, not stopped"     *)
(*                                                                         *)
(* Existential semantics: the rules are guards of the actions (a candidate *)
(* explanation that breaks one is cut), never invariants.                  *)
(***************************************************************************)
EXTENDS Naturals, Integers, Sequences, FiniteSets, TLC, Json, IOUtils

Rec == ndJsonDeserialize(IOEnv.TRACE)
N   == Len(Rec)

VARIABLES l,        \* cursor into Rec (next event to consume)
          cap,      \* capacity of the queue
          lanes,    \* queued samples, one FIFO lane per producer thread; an item is [id, s, e]: sample id and the
                    \* log positions of the start / end (0 = still running) of the send that queued it.  The order
                    \* BETWEEN lanes is not fixed when a sample is queued; it is resolved when the oldest sample is
                    \* needed (recv, drop-oldest), under the real-time rule: a sample whose send ended before the
                    \* send of another one started is older.  (Fixing the order eagerly is equivalent but makes the
                    \* search exponential in the number of unobserved overlapping sends.)
          anon,     \* queued samples nobody will look at any more (the consumer has finished): only counted
          nsend,    \* live source handles (active_senders)
          arcs,     \* threads still holding the Arc of the shared handle (0 = no shared handle)
          closedA, endedA,
          th,       \* per thread: the call in progress
          cons,     \* the consumer's recv() in progress
          dead      \* the consumer has finished for good (end-of-stream / cut off)

vars == <<l, cap, lanes, anon, nsend, arcs, closedA, endedA, th, cons, dead>>

Threads == 1..8 \cup {100, 200}        \* producers, the consumer (only for Receiver::drop), the stopper
Prod    == 1..8
Idle     == [st |-> "idle", kind |-> "", ids |-> <<>>, wb |-> FALSE, lin |-> FALSE, s |-> 0, open |-> TRUE, cl |-> FALSE]
ConsIdle == [st |-> "idle", id |-> 0, res |-> "", want |-> 0]

Ev == Rec[l]
IsEv(e) == l <= N /\ Rec[l].ev = e
Consume == l' = l + 1

RECURSIVE SumLen(_, _)
SumLen(f, S) == IF S = {} THEN 0 ELSE LET t == CHOOSE x \in S : TRUE IN Len(f[t]) + SumLen(f, S \ {t})
Count == SumLen(lanes, Prod) + anon
NoLanes == [t \in Prod |-> <<>>]

\* lane heads that may be the oldest queued sample: no other lane's head was queued by a send that had already
\* ended when this one's send started
Oldest(t) ==
  /\ lanes[t] # <<>>
  /\ \A r \in Prod \ {t} : lanes[r] # <<>> =>
        ~(Head(lanes[r]).e # 0 /\ Head(lanes[r]).e < Head(lanes[t]).s)

TraceInit ==
  /\ l = 1 /\ cap = 1 /\ lanes = NoLanes /\ anon = 0 /\ nsend = 0 /\ arcs = 0 /\ closedA = FALSE /\ endedA = FALSE
  /\ th = [t \in Threads |-> Idle] /\ cons = ConsIdle /\ dead = FALSE
  /\ TLCSet(1, 1)

\* a new scenario
Reset ==
  /\ IsEv("reset") /\ Consume
  /\ cap' = Ev.cap /\ lanes' = NoLanes /\ anon' = 0 /\ nsend' = Ev.nsend /\ arcs' = Ev.arcs
  /\ closedA' = FALSE /\ endedA' = FALSE
  /\ th' = [t \in Threads |-> Idle] /\ cons' = ConsIdle /\ dead' = FALSE

---------------------------------------------------------------------------
(* producers *)

SendStart ==
  /\ IsEv("send_start") /\ th[Ev.th].st = "idle" /\ Consume
  \* open: the queue was not yet known to be closed when this call started (pipeline.rs: Receiver::drop closes it
  \* under the sender; a call that starts after that drop has returned must be refused)
  /\ th' = [th EXCEPT ![Ev.th] = [st |-> "send", kind |-> Ev.kind, ids |-> Ev.ids, wb |-> FALSE, lin |-> FALSE, s |-> l,
                                   open |-> ~closedA, cl |-> FALSE]]
  /\ UNCHANGED <<cap, lanes, anon, nsend, arcs, closedA, endedA, cons, dead>>

\* queue sample x of thread t (anonymous once the consumer is gone)
Queue(t, x, base, banon) ==
  IF dead THEN lanes' = base /\ anon' = banon + 1
  ELSE lanes' = [base EXCEPT ![t] = Append(@, [id |-> x, s |-> th[t].s, e |-> 0])] /\ anon' = banon

\* linearisation of one push: the head load that decides "full?"
LinPush(t) ==
  /\ th[t].st = "send" /\ th[t].ids # <<>> /\ th[t].open
  /\ LET x == Head(th[t].ids) IN
     IF Count < cap
     THEN /\ Queue(t, x, lanes, anon)
          /\ th' = [th EXCEPT ![t].ids = Tail(@)]
     ELSE IF th[t].kind = "try"
     THEN /\ th' = [th EXCEPT ![t].ids = Tail(@), ![t].wb = TRUE]           \* WouldBlock
          /\ UNCHANGED <<lanes, anon>>
     ELSE /\ th' = [th EXCEPT ![t].st = "ovf"]                              \* overflow path of send / send_many
          /\ UNCHANGED <<lanes, anon>>
  /\ UNCHANGED <<l, cap, nsend, arcs, closedA, endedA, cons, dead>>

\* overflow path: try_lock(pop_lock) fails only while the consumer is inside recv(): the new sample is dropped;
\* otherwise the oldest queued sample (if any is left) is dropped and the new one is queued
LinOverflow(t) ==
  /\ th[t].st = "ovf"
  /\ LET x == Head(th[t].ids) IN
     \/ /\ cons.st # "idle"
        /\ UNCHANGED <<lanes, anon>>
     \/ /\ Count = 0
        /\ Queue(t, x, lanes, anon)
     \/ /\ anon > 0
        /\ Queue(t, x, lanes, anon - 1)
     \/ \E r \in Prod :
          /\ Oldest(r)
          /\ Queue(t, x, [lanes EXCEPT ![r] = Tail(@)], anon)
  /\ th' = [th EXCEPT ![t].st = "send", ![t].ids = Tail(@)]
  /\ UNCHANGED <<l, cap, nsend, arcs, closedA, endedA, cons, dead>>

\* the closed check at the start of send / try_send saw the flag set: nothing is queued
LinRefused(t) ==
  /\ th[t].st = "send" /\ th[t].ids # <<>> /\ closedA /\ nsend > 0            \* closed by the receiver, sender alive
  /\ th' = [th EXCEPT ![t].ids = <<>>, ![t].cl = TRUE]
  /\ UNCHANGED <<l, cap, lanes, anon, nsend, arcs, closedA, endedA, cons, dead>>

SendEnd ==
  /\ IsEv("send_end") /\ Consume
  /\ th[Ev.th].st = "send" /\ th[Ev.th].ids = <<>>
  /\ \/ Ev.res = (IF th[Ev.th].cl THEN "Closed" ELSE IF th[Ev.th].wb THEN "WouldBlock" ELSE "Ok")
     \/ Ev.res = "Rejected" /\ (th[Ev.th].cl \/ th[Ev.th].wb)                  \* SampleQueueSender::try_send: Err(sample)
  /\ th' = [th EXCEPT ![Ev.th] = Idle]
  \* the samples this call queued now carry the position of its end
  /\ lanes' = [lanes EXCEPT ![Ev.th] = [i \in 1..Len(@) |-> IF @[i].e = 0 THEN [@[i] EXCEPT !.e = l] ELSE @[i]]]
  /\ UNCHANGED <<cap, anon, nsend, arcs, closedA, endedA, cons, dead>>

\* Clone of a handle / drop of a handle (owned clone, or one reference of the shared Arc)
CallStart(e, s) ==
  /\ IsEv(e) /\ th[Ev.th].st = "idle" /\ Consume
  /\ th' = [th EXCEPT ![Ev.th] = [Idle EXCEPT !.st = s, !.kind = IF e = "drop_start" THEN Ev.kind ELSE ""]]
  /\ UNCHANGED <<cap, lanes, anon, nsend, arcs, closedA, endedA, cons, dead>>
CallEnd(e, s) ==
  /\ IsEv(e) /\ th[Ev.th].st = s /\ th[Ev.th].lin /\ Consume
  /\ th' = [th EXCEPT ![Ev.th] = Idle]
  /\ UNCHANGED <<cap, lanes, anon, nsend, arcs, closedA, endedA, cons, dead>>

LinClone(t) ==
  /\ th[t].st = "clone" /\ ~th[t].lin
  /\ nsend' = nsend + 1
  /\ th' = [th EXCEPT ![t].lin = TRUE]
  /\ UNCHANGED <<l, cap, lanes, anon, arcs, closedA, endedA, cons, dead>>

LinDrop(t) ==
  /\ th[t].st = "drop" /\ ~th[t].lin
  /\ IF th[t].kind = "arc" /\ arcs > 1
     THEN arcs' = arcs - 1 /\ UNCHANGED <<nsend, closedA>>                  \* not the last reference
     ELSE /\ arcs' = (IF th[t].kind = "arc" THEN 0 ELSE arcs)
          /\ nsend' = nsend - 1
          /\ closedA' = (closedA \/ nsend = 1)
  /\ th' = [th EXCEPT ![t].lin = TRUE]
  /\ UNCHANGED <<l, cap, lanes, anon, endedA, cons, dead>>

\* Drop for SampleQueueReceiver
LinRDrop(t) ==
  /\ th[t].st = "rdrop" /\ ~th[t].lin
  /\ closedA' = TRUE
  /\ th' = [th EXCEPT ![t].lin = TRUE]
  /\ UNCHANGED <<l, cap, lanes, anon, nsend, arcs, endedA, cons, dead>>

LinStop(t) ==
  /\ th[t].st = "stop" /\ ~th[t].lin
  /\ endedA' = TRUE
  /\ th' = [th EXCEPT ![t].lin = TRUE]
  /\ UNCHANGED <<l, cap, lanes, anon, nsend, arcs, closedA, cons, dead>>

---------------------------------------------------------------------------
(* consumer *)

RecvStart ==
  /\ IsEv("recv_start") /\ cons.st = "idle" /\ Consume
  \* the start event is annotated (by the driver, from the matching end event) with the outcome of this call,
  \* so that only the explanation producing that outcome is tried
  /\ cons' = [st |-> "pending", id |-> 0, res |-> Ev.res, want |-> Ev.id]
  /\ UNCHANGED <<cap, lanes, anon, nsend, arcs, closedA, endedA, th, dead>>

LinRecv ==
  /\ cons.st = "pending"
  /\ \/ /\ cons.res = "ok"
        /\ \E r \in Prod : /\ Oldest(r) /\ Head(lanes[r]).id = cons.want        \* ReceivedIsPushed, FIFO
                            /\ lanes' = [lanes EXCEPT ![r] = Tail(@)]
                            /\ cons' = [cons EXCEPT !.st = "got", !.id = cons.want]
     \/ /\ cons.res = "eos" /\ Count = 0 /\ closedA                              \* DrainThenEos
        /\ cons' = [cons EXCEPT !.st = "eos"] /\ UNCHANGED lanes
     \/ /\ cons.res = "eos" /\ endedA                                            \* stop(): may leave samples behind
        /\ cons' = [cons EXCEPT !.st = "eos"] /\ UNCHANGED lanes
  /\ UNCHANGED <<l, cap, anon, nsend, arcs, closedA, endedA, th, dead>>

RecvEnd ==
  /\ IsEv("recv_end") /\ Consume
  /\ \/ Ev.res = "ok"  /\ cons.st = "got" /\ cons.id = Ev.id
     \/ Ev.res = "eos" /\ cons.st = "eos"
     \* the run was cut off with recv() still pending: only an empty, open, unstopped queue explains that (NoLostWakeup)
     \/ Ev.res = "pending" /\ cons.st = "pending" /\ Count = 0 /\ ~closedA /\ ~endedA
  /\ cons' = ConsIdle
  /\ dead' = (Ev.res # "ok")
  /\ IF Ev.res # "ok" THEN lanes' = NoLanes /\ anon' = Count ELSE UNCHANGED <<lanes, anon>>
  /\ UNCHANGED <<cap, nsend, arcs, closedA, endedA, th>>

\* everything is dropped (handles, pending recv(), track, ring): no payload buffer may be left (NoLeakNoDoubleFree)
Teardown ==
  /\ IsEv("teardown") /\ Consume
  /\ Ev.live = 0
  /\ cons.st = "idle" /\ \A t \in Threads : th[t].st = "idle"
  /\ UNCHANGED <<cap, lanes, anon, nsend, arcs, closedA, endedA, th, cons, dead>>

---------------------------------------------------------------------------

NextIsEnd == l <= N /\ Rec[l].ev \in {"send_end", "recv_end", "clone_end", "drop_end", "stop_end", "rdrop_end", "teardown"}

TraceNext ==
  \/ Reset \/ Teardown \/ SendStart \/ SendEnd \/ RecvStart \/ RecvEnd
  \/ CallStart("clone_start", "clone") \/ CallEnd("clone_end", "clone")
  \/ CallStart("drop_start", "drop")   \/ CallEnd("drop_end", "drop")
  \/ CallStart("stop_start", "stop")   \/ CallEnd("stop_end", "stop")
  \/ CallStart("rdrop_start", "rdrop") \/ CallEnd("rdrop_end", "rdrop")
  \* Linearisation points are placed lazily, in a block right before the next END event: moving one later across
  \* START events of other calls changes nothing (a start only needs its own thread to be idle), so every
  \* explanation has an equivalent one of this shape and the search stays small.
  \/ /\ NextIsEnd
     /\ \/ LinRecv
        \/ \E t \in Threads : LinPush(t) \/ LinOverflow(t) \/ LinRefused(t) \/ LinClone(t) \/ LinDrop(t) \/ LinStop(t)
                              \/ LinRDrop(t)

TraceSpec == TraceInit /\ [][TraceNext]_vars

\* remember the furthest event some explanation reached
Furthest == TLCSet(1, IF l > TLCGet(1) THEN l ELSE TLCGet(1))

Accepted ==
  \/ TLCGet(1) = N + 1
  \/ PrintT(<<"REJECTED", ToJson([at |-> TLCGet(1), of |-> N,
                                  event |-> IF TLCGet(1) <= N THEN ToString(Rec[TLCGet(1)]) ELSE "end"])>>) /\ FALSE
=============================================================================
