------------------------------ MODULE NackLoop ------------------------------
(***************************************************************************)
(* EXT04 - the NACK -> retransmission -> unwrap loop end to end:           *)
(*   sender  : DefaultRtpSenderNackHandler (on_packet_sent / on_rtcp_received) *)
(*             + RtpTransport::send_rtp on a real socket                   *)
(*   receiver: DefaultRtpReceiverNackHandler (gap detector), rtx::unwrap   *)
(*   wire    : marshal_rtcp_packets / parse_rtcp_packets for the NACK,     *)
(*             RtpPacket marshal / parse for media                         *)
(* Beyond the listed properties: rules are EXT, findings are DRIFT only.   *)
(*                                                                         *)
(* Primary packets are numbered 1, 2, ... (sequence number 65533 + i mod   *)
(* 2^16: the wrap is crossed by the third packet). One action per          *)
(* application-visible step:                                               *)
(*   Send(lost, rtxLost)   the sender emits the next primary packet; the   *)
(*                         network loses it or delivers it; on delivery    *)
(*                         the receiver may report a gap, the report       *)
(*                         travels to the sender, retransmissions travel   *)
(*                         back (all lost or all delivered) - one          *)
(*                         synchronous round                               *)
(*   Repeat(tick, rtxLost) the last report is sent again (browser retry),  *)
(*                         immediately or after the resend cooldown        *)
(*   Foreign(l, rtxLost)   a report built by a remote peer (not our        *)
(*                         detector): any packets, also never-sent ones    *)
(*                                                                         *)
(* Contract (intended):                                                    *)
(*   Answered    a report is answered with exactly the requested packets   *)
(*               the sender still holds and has not resent within the      *)
(*               cooldown, each once, in request order                     *)
(*   Restores    a retransmission, unwrapped, equals the packet AS IT WENT *)
(*               ON THE WIRE (sequence number, timestamp, marker, payload) *)
(*   RtxNumbers  RTX packets use consecutive RTX sequence numbers          *)
(*   Accounting  a retransmission that fills a reported hole is counted    *)
(*               recovered once and closes the hole                        *)
(* Departure of the pinned code (Deviations):                              *)
(*   FirstMarkerNotBuffered  RtpTransport::send_rtp forces the marker bit  *)
(*        of the very first packet it sends AFTER the NACK buffer took its *)
(*        copy: a retransmission of packet 1 carries the original marker,  *)
(*        not the one that was sent                                        *)
(***************************************************************************)
EXTENDS Naturals, Integers, Sequences, FiniteSets, TLC

CONSTANTS Caps, RtxModes, MaxLen, Deviations

AllDeviations == {"FirstMarkerNotBuffered"}
ASSUME Deviations \subseteq AllDeviations
Dev(d) == d \in Deviations

VARIABLES
  cfg,      \* [cap, rtx]
  k,        \* primaries sent
  sbuf,     \* sender NACK buffer: sequence of packet indices, oldest first
  cool,     \* indices resent within the current cooldown window
  rinit, rlast, pending,   \* receiver gap detector: initialised, highest index seen, reported holes
  got,      \* indices the receiver holds
  rtxn,     \* RTX packets sent so far
  lastNack, \* last report of our detector (indices)
  cnt,      \* counters: [nackRecv, rtxSent, suppressed, nackSent, recovered]
  out,      \* observable outcome of the last action
  hist

vars == <<cfg, k, sbuf, cool, rinit, rlast, pending, got, rtxn, lastNack, cnt, out, hist>>
view == <<cfg, k, sbuf, cool, rinit, rlast, pending, got, lastNack, out.kind, Len(hist)>>

OrigMarker(i) == i % 3 = 0
WireMarker(i) == (i = 1) \/ OrigMarker(i)          \* send_rtp forces the marker of the first packet it ever sends
ResentMarker(i) == IF Dev("FirstMarkerNotBuffered") THEN OrigMarker(i) ELSE WireMarker(i)

NoOut == [kind |-> "none", nack |-> <<>>, resent |-> <<>>, recovered |-> <<>>]

Init ==
  /\ cfg \in {[cap |-> c, rtx |-> r] : c \in Caps, r \in RtxModes}
  /\ k = 0 /\ sbuf = <<>> /\ cool = {} /\ rinit = FALSE /\ rlast = 0 /\ pending = {} /\ got = {}
  /\ rtxn = 0 /\ lastNack = <<>>
  /\ cnt = [nackRecv |-> 0, rtxSent |-> 0, suppressed |-> 0, nackSent |-> 0, recovered |-> 0]
  /\ out = NoOut /\ hist = <<>>

InBuf(b, i) == \E j \in 1..Len(b) : b[j] = i
PushBuf(b, i) ==
  LET b1 == Append(b, i) IN IF Len(b1) > cfg.cap THEN SubSeq(b1, Len(b1) - cfg.cap + 1, Len(b1)) ELSE b1

SeqOf(i) == (65533 + i) % 65536
\* what a report looks like after marshal -> parse: distinct numbers, ascending NUMERIC order (the packer sorts)
RECURSIVE SortBySeq(_)
SortBySeq(S) == IF S = {} THEN <<>>
                ELSE LET m == CHOOSE x \in S : \A y \in S : SeqOf(x) <= SeqOf(y) IN <<m>> \o SortBySeq(S \ {m})
Wire(req) == SortBySeq({req[j] : j \in 1..Len(req)})

\* the sender's answer to a report as received: requested, still held, not resent within the cooldown
Answer(wreq, b, c) == SelectSeq(wreq, LAMBDA i : i \notin c /\ InBuf(b, i))
Suppressed(wreq, c) == Cardinality({j \in 1..Len(wreq) : wreq[j] \in c})

\* one report round: req travels to the sender, retransmissions come back (or are lost);
\* b = the sender buffer at that moment, c0 = the cooldown set, pend0 = the holes reported so far
Round(kind, req, rtxLost, b, c0, pend0, extraGot, reported) ==
  LET wreq == Wire(req)
      ans  == Answer(wreq, b, c0)
      back == IF rtxLost THEN <<>> ELSE ans
      rec  == SelectSeq(back, LAMBDA i : i \in pend0)
      n    == Len(ans)
  IN
  /\ cool' = c0 \cup {ans[j] : j \in 1..n}
  /\ rtxn' = IF cfg.rtx THEN rtxn + n ELSE rtxn
  /\ pending' = pend0 \ {rec[j] : j \in 1..Len(rec)}
  /\ got' = got \cup extraGot \cup {back[j] : j \in 1..Len(back)}
  /\ cnt' = [cnt EXCEPT !.nackRecv = @ + Len(wreq), !.rtxSent = @ + (IF cfg.rtx THEN n ELSE 0),
                        !.suppressed = @ + Suppressed(wreq, c0), !.nackSent = @ + reported,
                        !.recovered = @ + Len(rec)]
  /\ out' = [kind |-> kind, nack |-> wreq,
             resent |-> [j \in 1..n |-> [i |-> ans[j], ord |-> IF cfg.rtx THEN rtxn + j ELSE 0,
                                          marker |-> ResentMarker(ans[j])]],
             recovered |-> rec]

Send(lost, rtxLost) ==
  /\ Len(hist) < MaxLen
  /\ hist' = Append(hist, [op |-> "send", lost |-> lost, rtxLost |-> rtxLost, tick |-> FALSE, req |-> <<>>])
  /\ k' = k + 1
  /\ sbuf' = PushBuf(sbuf, k + 1)
  /\ LET i == k + 1 IN
     IF lost
     THEN /\ out' = [NoOut EXCEPT !.kind = "lost"]
          /\ UNCHANGED <<cool, rinit, rlast, pending, got, rtxn, lastNack, cnt>>
     ELSE IF ~rinit
     THEN /\ rinit' = TRUE /\ rlast' = i /\ got' = got \cup {i}
          /\ out' = [NoOut EXCEPT !.kind = "first"]
          /\ UNCHANGED <<cool, pending, rtxn, lastNack, cnt>>
     ELSE IF i - rlast > 1
     THEN \* a gap: the detector reports rlast+1 .. i-1
          LET req == [j \in 1..(i - rlast - 1) |-> rlast + j] IN
          /\ rinit' = rinit /\ rlast' = i /\ lastNack' = req
          /\ Round("gap", req, rtxLost, PushBuf(sbuf, i), cool, pending \cup {req[j] : j \in 1..Len(req)}, {i}, Len(req))
     ELSE /\ rlast' = i /\ got' = got \cup {i} /\ rinit' = rinit
          /\ out' = [NoOut EXCEPT !.kind = "inorder"]
          /\ UNCHANGED <<cool, pending, rtxn, lastNack, cnt>>
  /\ UNCHANGED cfg

Repeat(tick, rtxLost) ==
  /\ Len(hist) < MaxLen /\ lastNack # <<>>
  /\ hist' = Append(hist, [op |-> "repeat", lost |-> FALSE, rtxLost |-> rtxLost, tick |-> tick, req |-> lastNack])
  /\ Round("repeat", lastNack, rtxLost, sbuf, IF tick THEN {} ELSE cool, pending, {}, 0)
  /\ UNCHANGED <<cfg, k, sbuf, rinit, rlast, lastNack>>

\* a remote peer asks for packets at or below what our receiver has seen (anything newer would itself
\* look like a new arrival to the detector and start a nested round), or for a number never sent
ForeignReqs ==
  {r \in {<<1>>, <<rlast>>, <<rlast - 1, rlast>>, <<rlast, rlast>>, <<k + 5>>, <<1, k + 5>>} :
     \A j \in 1..Len(r) : r[j] >= 1 /\ (r[j] <= rlast \/ r[j] > k)}
Foreign(req, rtxLost) ==
  /\ Len(hist) < MaxLen /\ k >= 1 /\ rinit
  /\ hist' = Append(hist, [op |-> "foreign", lost |-> FALSE, rtxLost |-> rtxLost, tick |-> FALSE, req |-> req])
  /\ Round("foreign", req, rtxLost, sbuf, cool, pending, {}, 0)
  /\ UNCHANGED <<cfg, k, sbuf, rinit, rlast, lastNack>>

Next ==
  \/ Send(TRUE, FALSE) \/ Send(FALSE, FALSE) \/ Send(FALSE, TRUE)
  \/ \E t \in BOOLEAN, l \in BOOLEAN : Repeat(t, l)
  \/ \E r \in ForeignReqs : Foreign(r, FALSE)

Spec == Init /\ [][Next]_vars

---------------------------------------------------------------------------
Bounded == Len(hist) <= MaxLen
\* a retransmission carries the marker the packet had on the wire
Restores == \A j \in 1..Len(out.resent) : out.resent[j].marker = WireMarker(out.resent[j].i)
\* answered: only held packets, each once, RTX ordinals consecutive
Answered ==
  /\ \A j \in 1..Len(out.resent) : out.resent[j].i \in 1..k
  /\ \A a, b \in 1..Len(out.resent) : (a # b) => out.resent[a].i # out.resent[b].i
  /\ \A j \in 1..(Len(out.resent) - 1) : cfg.rtx => out.resent[j + 1].ord = out.resent[j].ord + 1
Accounting ==
  /\ pending \cap got = {}
  /\ \A j \in 1..Len(out.recovered) : out.recovered[j] \in got
  /\ Len(sbuf) <= cfg.cap
=============================================================================
