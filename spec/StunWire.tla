------------------------------ MODULE StunWire ------------------------------
(***************************************************************************)
(* Wire-format algebra of the STUN / TURN / ICE-candidate code             *)
(* (src/transports/ice/stun.rs, turn.rs, mod.rs: IceCandidate,             *)
(* IceCandidatePair) - property C16, level "exploration".                  *)
(*                                                                         *)
(* The module is a collection of operators ("what the bytes must look      *)
(* like") over a finite, boundary-oriented domain that TLC enumerates:     *)
(*   Part = "msg"   message shapes: method x class x attribute sequence    *)
(*                  x key kind x FINGERPRINT, with the layout the RFC 5389 *)
(*                  encoding rules imply (offsets, padding, the two        *)
(*                  message-length fix-ups, MI second to last, FP last)    *)
(*   Part = "turn"  the TURN requests / indications / ChannelData the      *)
(*                  client builds, with the attributes RFC 5766 requires   *)
(*   Part = "cand"  candidate tuples with Parse(PrintC(c)) = c             *)
(*   Part = "prio"  pair-priority algebra on a rank domain                 *)
(*   Part = "sets"  small sets of pairs: both agents sort them identically *)
(* TLC checks the invariants below on every element (the design claims)   *)
(* and prints each element as the scenario the harness executes on the     *)
(* real encoder / decoder / builders (nothing is enumerated outside TLC).  *)
(***************************************************************************)
EXTENDS Naturals, Integers, Sequences, FiniteSets, TLC

CONSTANTS Part,        \* which sub-domain this run enumerates
          StrLens,     \* value lengths of the string attributes in sequences
          DataLens,    \* value lengths of DATA
          SweepMax,    \* single-attribute sweep 0..SweepMax over every variable-length attribute
          MaxAttrs,    \* longest attribute sequence
          NRanks,      \* size of the priority rank domain
          Deviations   \* design deviations for self tests

---------------------------------------------------------------------------
(* Layout algebra (RFC 5389 section 15)                                    *)

Pad4(n) == (4 - (n % 4)) % 4
TLV(n)  == 4 + n + Pad4(n)

StrKinds   == {"USERNAME", "REALM", "NONCE", "SOFTWARE"}
FixedKinds == {"REQUESTED-TRANSPORT", "LIFETIME", "PRIORITY", "ICE-CONTROLLING", "ICE-CONTROLLED",
               "USE-CANDIDATE", "CHANNEL-NUMBER"}
AddrKinds  == {"XOR-PEER-ADDRESS", "XOR-MAPPED-ADDRESS"}

Code(k) ==
  CASE k = "USERNAME" -> 6 [] k = "MESSAGE-INTEGRITY" -> 8 [] k = "ERROR-CODE" -> 9
    [] k = "CHANNEL-NUMBER" -> 12 [] k = "LIFETIME" -> 13 [] k = "XOR-PEER-ADDRESS" -> 18
    [] k = "DATA" -> 19 [] k = "REALM" -> 20 [] k = "NONCE" -> 21 [] k = "XOR-RELAYED-ADDRESS" -> 22
    [] k = "REQUESTED-TRANSPORT" -> 25 [] k = "XOR-MAPPED-ADDRESS" -> 32 [] k = "PRIORITY" -> 36
    [] k = "USE-CANDIDATE" -> 37 [] k = "SOFTWARE" -> 32802 [] k = "FINGERPRINT" -> 32808
    [] k = "ICE-CONTROLLED" -> 32809 [] k = "ICE-CONTROLLING" -> 32810
    [] k = "UNKNOWN" -> 49153      \* comprehension-optional, not assigned

\* attribute shape: [k |-> kind, n |-> value length (strings, DATA) or address family (4 / 6) or 0]
VLen(a) ==
  CASE a.k \in StrKinds \cup {"DATA", "UNKNOWN"} -> a.n
    [] a.k = "ERROR-CODE" -> 4 + a.n                     \* class, number, reason phrase of a.n bytes
    [] a.k \in AddrKinds \cup {"XOR-RELAYED-ADDRESS"} -> IF a.n = 4 THEN 8 ELSE 20
    [] a.k \in {"ICE-CONTROLLING", "ICE-CONTROLLED"} -> 8
    [] a.k = "USE-CANDIDATE" -> 0
    [] OTHER -> 4

RECURSIVE Body(_)
Body(s) == IF s = <<>> THEN 0 ELSE TLV(VLen(Head(s))) + Body(Tail(s))

Prefix(s, i) == SubSeq(s, 1, i)

Layout(attrs, mi, fp) ==
  LET body  == Body(attrs)
      miLen == IF mi THEN 24 ELSE 0
      fpLen == IF fp THEN 8 ELSE 0
  IN [ offs    |-> [i \in 1..Len(attrs) |-> 20 + Body(Prefix(attrs, i - 1))],
       codes   |-> [i \in 1..Len(attrs) |-> Code(attrs[i].k)],
       vlens   |-> [i \in 1..Len(attrs) |-> VLen(attrs[i])],
       miOff   |-> IF mi THEN 20 + body ELSE 0,
       fpOff   |-> IF fp THEN 20 + body + miLen ELSE 0,
       total   |-> 20 + body + miLen + fpLen,
       \* value of the header length field while the HMAC / the CRC is computed
       lenAtMi |-> IF mi THEN (IF "NoLenFixupBeforeMI" \in Deviations THEN body ELSE body + 24) ELSE 0,
       lenAtFp |-> IF fp THEN body + miLen + 8 ELSE 0,
       lenFinal|-> body + miLen + fpLen ]

\* RFC 5389 section 6: message type = method bits interleaved with the two class bits
Methods == {"Binding", "Allocate", "Refresh", "Send", "Data", "CreatePermission", "ChannelBind"}
Classes == {"Request", "Indication", "SuccessResponse", "ErrorResponse"}
MethodNo(m) == CASE m = "Binding" -> 1 [] m = "Allocate" -> 3 [] m = "Refresh" -> 4 [] m = "Send" -> 6
                 [] m = "Data" -> 7 [] m = "CreatePermission" -> 8 [] m = "ChannelBind" -> 9
ClassNo(c) == CASE c = "Request" -> 0 [] c = "Indication" -> 1 [] c = "SuccessResponse" -> 2 [] c = "ErrorResponse" -> 3
TypeCode(m, c) == MethodNo(m) + 16 * (ClassNo(c) % 2) + 256 * (ClassNo(c) \div 2)   \* all methods < 16

MTs == {<<m, c>> : m \in Methods, c \in Classes}
MethodSeq == <<"Binding", "Allocate", "Refresh", "Send", "Data", "CreatePermission", "ChannelBind">>
ClassSeq  == <<"Request", "Indication", "SuccessResponse", "ErrorResponse">>
MTAt(i) == <<MethodSeq[(i % 7) + 1], ClassSeq[((i \div 7) % 4) + 1]>>      \* i -> the (i mod 28)-th method x class

Shapes ==
  {[k |-> k, n |-> n] : k \in StrKinds, n \in StrLens}
  \cup {[k |-> "DATA", n |-> n] : n \in DataLens}
  \cup {[k |-> k, n |-> 0] : k \in FixedKinds}
  \cup {[k |-> k, n |-> f] : k \in AddrKinds, f \in {4, 6}}

RECURSIVE SeqsUpTo(_)
SeqsUpTo(n) == IF n = 0 THEN {<<>>}
               ELSE LET r == SeqsUpTo(n - 1) IN r \cup {Append(s, a) : s \in {t \in r : Len(t) = n - 1}, a \in Shapes}

KeyKinds == {"none", "short", "long"}

RECURSIVE SumN(_)
SumN(s) == IF s = <<>> THEN 0 ELSE Head(s).n + Code(Head(s).k) + SumN(Tail(s))

\* sequences of at most one attribute are combined with every method x class; longer ones get a
\* method x class that rotates with their content (the layout does not depend on the type)
MsgDomain ==
  {[mt |-> mt, attrs |-> s, key |-> key, fp |-> fp] :
      mt \in MTs, s \in SeqsUpTo(1), key \in KeyKinds, fp \in BOOLEAN}
  \cup
  {[mt |-> MTAt(SumN(s)), attrs |-> s, key |-> key, fp |-> fp] :
      s \in {t \in SeqsUpTo(MaxAttrs) : Len(t) >= 2}, key \in KeyKinds, fp \in BOOLEAN}
  \cup
  \* every value length 0..SweepMax of every variable-length attribute (all residues mod 4, RFC maximum 763)
  {[mt |-> MTAt(n), attrs |-> <<[k |-> k, n |-> n]>>, key |-> "short", fp |-> TRUE] :
      k \in StrKinds \cup {"DATA"}, n \in 0..SweepMax}

\* messages only the reference implementation can build (the stack has no encoder for these
\* attributes but must decode them): ERROR-CODE, XOR-RELAYED-ADDRESS, unknown optional attributes
DecShapes ==
  {[k |-> "ERROR-CODE", n |-> n] : n \in {0, 1, 2, 3, 4, 17}}
  \cup {[k |-> "XOR-RELAYED-ADDRESS", n |-> f] : f \in {4, 6}}
  \cup {[k |-> "UNKNOWN", n |-> n] : n \in {0, 1, 2, 3, 4, 5}}
DecDomain ==
  {[mt |-> MTAt(SumN(<<a, b>>)), attrs |-> <<a, b>>, key |-> key, fp |-> fp] :
      a \in DecShapes, b \in DecShapes \cup Shapes, key \in KeyKinds, fp \in BOOLEAN}
  \cup
  {[mt |-> MTAt(SumN(<<a, b>>)), attrs |-> <<b, a>>, key |-> key, fp |-> fp] :
      a \in DecShapes, b \in Shapes, key \in KeyKinds, fp \in BOOLEAN}
  \cup
  {[mt |-> mt, attrs |-> <<a>>, key |-> "short", fp |-> TRUE] : mt \in MTs, a \in DecShapes}

MsgRec(it) ==
  [ method |-> it.mt[1], class |-> it.mt[2], type |-> TypeCode(it.mt[1], it.mt[2]),
    attrs |-> it.attrs, key |-> it.key, fp |-> it.fp,
    layout |-> Layout(it.attrs, it.key # "none", it.fp) ]

MsgOK(it) ==
  LET mi == it.key # "none"
      L  == Layout(it.attrs, mi, it.fp)
      n  == Len(it.attrs)
  IN /\ \A i \in 1..n : L.offs[i] % 4 = 0                                   \* every attribute starts aligned
     /\ \A i \in 1..n - 1 : L.offs[i + 1] = L.offs[i] + TLV(L.vlens[i])     \* no gap, no overlap
     /\ \A i \in 1..n : Pad4(L.vlens[i]) \in 0..3 /\ (L.vlens[i] + Pad4(L.vlens[i])) % 4 = 0
     /\ L.total % 4 = 0 /\ L.lenFinal = L.total - 20 /\ L.lenFinal < 65536
     /\ (it.fp => L.fpOff + 8 = L.total)                                    \* FINGERPRINT is last
     /\ (mi => L.miOff + 24 = L.total - (IF it.fp THEN 8 ELSE 0))          \* MESSAGE-INTEGRITY is last but FP
     /\ (mi => L.lenAtMi = (L.miOff - 20) + 24)                            \* length covers up to and incl. MI
     /\ (it.fp => L.lenAtFp = L.lenFinal)                                   \* length covers up to and incl. FP
     /\ (mi /\ n > 0 => L.miOff = L.offs[n] + TLV(L.vlens[n]))
     /\ (mi /\ n = 0 => L.miOff = 20)

---------------------------------------------------------------------------
(* TURN client messages (RFC 5766) and ChannelData framing                 *)

TurnOps == {"allocate", "refresh", "destroy", "permission", "channelbind", "rebind", "send", "channeldata", "recvchan"}
Transports == {"udp", "tcp"}

TurnDomain ==
  {[op |-> op, tr |-> tr, ulen |-> u, rlen |-> r, nlen |-> n, fam |-> f, dlen |-> d, chan |-> c] :
      op \in TurnOps \ {"channeldata", "recvchan", "send", "allocate"}, tr \in {"udp"}, u \in StrLens \ {0}, r \in {1, 6}, n \in {2, 7},
      f \in {4, 6}, d \in {0}, c \in {16384}}
  \cup
  {[op |-> "allocate", tr |-> tr, ulen |-> u, rlen |-> r, nlen |-> n, fam |-> f, dlen |-> 0, chan |-> 16384] :
      tr \in Transports, u \in {1, 2, 3, 4}, r \in {1, 6}, n \in {2, 7}, f \in {4, 6}}
  \cup
  {[op |-> "send", tr |-> tr, ulen |-> u, rlen |-> 5, nlen |-> 3, fam |-> f, dlen |-> d, chan |-> 16384] :
      tr \in Transports, u \in {0, 3}, f \in {4, 6}, d \in DataLens}
  \cup
  {[op |-> op, tr |-> tr, ulen |-> 3, rlen |-> 5, nlen |-> 3, fam |-> 4, dlen |-> d, chan |-> c] :
      op \in {"channeldata", "recvchan"},       \* client -> server, and server -> client followed by a STUN message
      tr \in Transports, d \in DataLens, c \in {16384, 16385, 32767}}

\* attributes RFC 5766 requires in the message (beyond the long-term credential triple + MI)
TurnRequired(op) ==
  CASE op = "allocate" -> {"REQUESTED-TRANSPORT"}
    [] op \in {"refresh", "destroy"} -> {"LIFETIME"}
    [] op = "permission" -> {"XOR-PEER-ADDRESS"}
    [] op \in {"channelbind", "rebind"} -> {"CHANNEL-NUMBER", "XOR-PEER-ADDRESS"}
    [] op = "send" -> {"XOR-PEER-ADDRESS", "DATA"}
    [] OTHER -> {}
TurnMethod(op) ==
  CASE op = "allocate" -> "Allocate" [] op \in {"refresh", "destroy"} -> "Refresh"
    [] op = "permission" -> "CreatePermission" [] op \in {"channelbind", "rebind"} -> "ChannelBind"
    [] op = "send" -> "Send" [] OTHER -> "none"

\* RFC 5766 section 11.5: over UDP ChannelData is not padded; over TCP it is padded to a multiple of four
\* and the padding is not counted in the length field.  No other framing is added.
ChanFrame(tr, d) ==
  [ hdr |-> 4, len |-> d,
    pad |-> IF tr = "tcp" /\ "NoTcpPadding" \notin Deviations THEN Pad4(d) ELSE 0,
    total |-> 4 + d + (IF tr = "tcp" /\ "NoTcpPadding" \notin Deviations THEN Pad4(d) ELSE 0) ]

TurnRec(it) ==
  [ op |-> it.op, tr |-> it.tr, ulen |-> it.ulen, rlen |-> it.rlen, nlen |-> it.nlen, fam |-> it.fam,
    dlen |-> it.dlen, chan |-> it.chan,
    method |-> TurnMethod(it.op),
    class |-> IF it.op = "send" THEN "Indication" ELSE "Request",
    required |-> TurnRequired(it.op),
    authenticated |-> it.op \notin {"channeldata", "recvchan"} /\ ~(it.op = "send" /\ it.ulen = 0),
    frame |-> ChanFrame(it.tr, it.dlen) ]

TurnOK(it) ==
  LET f == ChanFrame(it.tr, it.dlen) IN
  /\ (it.tr = "tcp" => f.total % 4 = 0)         \* a TCP reader can find the next message
  /\ (it.tr = "udp" => f.total = 4 + it.dlen)
  /\ it.chan \in 16384..32767

---------------------------------------------------------------------------
(* Candidate attribute lines (RFC 8839 section 5.1)                        *)

CandTypes == {"host", "srflx", "prflx", "relay"}
Cands ==
  {[typ |-> t, transport |-> tr, tcptype |-> tt, comp |-> c, fam |-> f, raddr |-> ra, ext |-> e] :
     t \in CandTypes, tr \in {"udp", "tcp"}, tt \in {"none", "active", "passive", "so"}, c \in {1, 2, 256},
     f \in {4, 6}, ra \in {0, 4, 6}, e \in {"none", "before", "after"}}
\* what an SDP line can carry: tcptype iff TCP; related address iff not a host candidate
ValidCand(c) ==
  /\ (c.tcptype # "none") = (c.transport = "tcp")
  /\ (c.raddr # 0) = (c.typ # "host")

IpTok(f) == IF f = 4 THEN "IP4" ELSE "IP6"
ExtToks == <<"generation", "0">>
PrintC(c) ==
  <<"FOUNDATION", c.comp, c.transport, "PRIORITY", IpTok(c.fam), "PORT", "typ", c.typ>>
  \o (IF c.ext = "before" THEN ExtToks ELSE <<>>)
  \o (IF c.tcptype # "none" THEN <<"tcptype", c.tcptype>> ELSE <<>>)
  \o (IF c.raddr # 0 THEN <<"raddr", IpTok(c.raddr), "rport", "RPORT">> ELSE <<>>)
  \o (IF c.ext = "after" THEN ExtToks ELSE <<>>)

\* value following keyword kw among the extension pairs (positions 9, 11, ...)
ExtVal(toks, kw) ==
  LET I == {i \in 9..Len(toks) - 1 : (i - 9) % 2 = 0 /\ toks[i] = kw} IN
  IF I = {} THEN "absent" ELSE toks[(CHOOSE i \in I : \A j \in I : i <= j) + 1]

Parse(toks) ==
  LET tt == ExtVal(toks, "tcptype")
      ra == ExtVal(toks, "raddr")
  IN [ typ |-> toks[8], transport |-> toks[3], comp |-> toks[2],
       fam |-> IF toks[5] = "IP4" THEN 4 ELSE 6,
       tcptype |-> IF toks[3] = "tcp" /\ tt # "absent" THEN tt ELSE "none",
       raddr |-> IF ra = "absent" \/ "ParseDropsRaddr" \in Deviations THEN 0 ELSE (IF ra = "IP4" THEN 4 ELSE 6) ]

Core(c) == [typ |-> c.typ, transport |-> c.transport, comp |-> c.comp, fam |-> c.fam,
            tcptype |-> c.tcptype, raddr |-> c.raddr]
CandOK(c) == ValidCand(c) => Parse(PrintC(c)) = Core(c)
CandRec(c) == [cand |-> c, valid |-> ValidCand(c), tokens |-> PrintC(c), parsed |-> Parse(PrintC(c))]

---------------------------------------------------------------------------
(* Pair priority (RFC 8445 section 6.1.2.3) on ranks: rank r stands for the *)
(* r-th smallest value of a strictly increasing table of real u32           *)
(* priorities kept by the harness; B plays the role of 2^32.               *)

Ranks == 0..NRanks - 1
B == 2 * NRanks + 2
Min2(a, b) == IF a < b THEN a ELSE b
Max2(a, b) == IF a > b THEN a ELSE b
PairPrio(g, d) == B * Min2(g, d) + 2 * Max2(g, d) + (IF g > d THEN 1 ELSE 0)

\* what each agent computes for the pair whose controlling-side candidate has priority g and whose
\* controlled-side candidate has priority d
Controlling(local, remote) == PairPrio(local, remote)
Controlled(local, remote)  == IF "ControlledSwapsRoles" \in Deviations THEN PairPrio(local, remote)
                              ELSE PairPrio(remote, local)

Cmp(a, b) == IF a < b THEN 0 - 1 ELSE IF a > b THEN 1 ELSE 0
Lex(g, d) == <<Min2(g, d), Max2(g, d), IF g > d THEN 1 ELSE 0>>
LexLess(x, y) == \/ x[1] < y[1]
                 \/ (x[1] = y[1] /\ x[2] < y[2])
                 \/ (x[1] = y[1] /\ x[2] = y[2] /\ x[3] < y[3])

PrioDomain == {[g |-> g, d |-> d, g2 |-> g2, d2 |-> d2] : g \in Ranks, d \in Ranks, g2 \in Ranks, d2 \in Ranks}
PrioOK(it) ==
  /\ Controlling(it.g, it.d) = Controlled(it.d, it.g)                                   \* Symmetric
  /\ (PairPrio(it.g, it.d) = PairPrio(it.g2, it.d2)) = (it.g = it.g2 /\ it.d = it.d2) \* injective
  /\ (PairPrio(it.g, it.d) < PairPrio(it.g2, it.d2)) = LexLess(Lex(it.g, it.d), Lex(it.g2, it.d2))
  /\ Cmp(Controlling(it.g, it.d), Controlling(it.g2, it.d2))
       = Cmp(Controlled(it.d, it.g), Controlled(it.d2, it.g2))                          \* same order on both sides
PrioRec(it) == [g |-> it.g, d |-> it.d, g2 |-> it.g2, d2 |-> it.d2,
                cmp |-> Cmp(PairPrio(it.g, it.d), PairPrio(it.g2, it.d2))]

\* small sets of pairs: the descending sort of the controlling agent and of the controlled agent agree
SmallRanks == 0..3
PairsS == {<<g, d>> : g \in SmallRanks, d \in SmallRanks}
SetsDomain == {S \in SUBSET PairsS : Cardinality(S) \in 2..3}
SortedBy(S, f(_)) ==   \* the unique descending sequence (priorities are injective)
  CHOOSE s \in [1..Cardinality(S) -> S] :
    /\ \A i, j \in 1..Cardinality(S) : i # j => s[i] # s[j]
    /\ \A i \in 1..Cardinality(S) - 1 : f(s[i]) > f(s[i + 1])
SetsOK(S) ==
  LET fa(p) == Controlling(p[1], p[2])
      fb(p) == Controlled(p[2], p[1])
  IN SortedBy(S, fa) = SortedBy(S, fb)
SetsRec(S) ==
  LET fa(p) == Controlling(p[1], p[2]) IN [pairs |-> S, order |-> SortedBy(S, fa)]

---------------------------------------------------------------------------
(* ICE server URIs (RFC 7064 stun/stuns, RFC 7065 turn/turns).  Beyond the  *)
(* statement of C16 (compared under EXT only).                              *)
UriDomain ==
  {[scheme |-> sc, host |-> h, port |-> p, query |-> q] :
     sc \in {"stun", "stuns", "turn", "turns", "http"},
     h \in {"name", "ip4", "ip6"},
     p \in {"none", "3478", "1", "65535", "0", "65536", "abc"},
     q \in {"none", "udp", "tcp", "sctp"}}
UriValid(u) ==
  /\ u.scheme \in {"stun", "stuns", "turn", "turns"}
  /\ u.port \notin {"65536", "abc"}
  /\ (u.scheme \in {"stun", "stuns"} => u.query = "none")     \* RFC 7064: no query part
  /\ u.query # "sctp"
UriExpect(u) ==
  [ valid |-> UriValid(u),
    kind |-> IF u.scheme \in {"stun", "stuns"} THEN "stun" ELSE "turn",
    port |-> IF u.port = "none" THEN (IF u.scheme \in {"stuns", "turns"} THEN "5349" ELSE "3478") ELSE u.port,
    transport |-> IF u.query \in {"udp", "tcp"} THEN u.query
                  ELSE IF u.scheme \in {"stuns", "turns"} THEN "tcp" ELSE "udp" ]
UriRec(u) == [uri |-> u, expect |-> UriExpect(u)]

---------------------------------------------------------------------------
Domain ==
  CASE Part = "msg"  -> MsgDomain
    [] Part = "dec"  -> DecDomain
    [] Part = "turn" -> TurnDomain
    [] Part = "cand" -> Cands
    [] Part = "prio" -> PrioDomain
    [] Part = "sets" -> SetsDomain
    [] Part = "uri"  -> UriDomain

VARIABLE item
Init == item \in Domain
Next == UNCHANGED item
Spec == Init /\ [][Next]_item

ItemOK ==
  CASE Part = "msg"  -> MsgOK(item)
    [] Part = "dec"  -> MsgOK(item)
    [] Part = "turn" -> TurnOK(item)
    [] Part = "cand" -> CandOK(item)
    [] Part = "prio" -> PrioOK(item)
    [] Part = "sets" -> SetsOK(item)
    [] Part = "uri"  -> (UriValid(item) => UriExpect(item).port \in {"3478", "5349", "1", "65535", "0"})

\* padding algebra over the whole RFC range (independent of the enumerated domain)
ASSUME \A n \in 0..763 : Pad4(n) \in 0..3 /\ (n + Pad4(n)) % 4 = 0 /\ (n % 4 = 0 => Pad4(n) = 0)
=============================================================================
