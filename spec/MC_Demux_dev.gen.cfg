SPECIFICATION Spec
CONSTANTS
  Ls = {1, 2, 3}
  Ssrcs = {1, 2}
  Pts = {1, 2}
  Mids = {1, 2}
  Rids = {1}
  ExtCfgs <- ExtBoth
  MaxLen = 4
  Deviations = {"ClearKeepsMid","ProvisionalOnAmbiguousPt"}
VIEW view
INVARIANTS TypeOK
PROPERTIES AtMostOne
ACTION_CONSTRAINT EmitPkt
CHECK_DEADLOCK FALSE
