----------------------------- MODULE MC_Bridge -----------------------------
(* Bounded model + behaviour generator for Bridge.tla (property C19,       *)
(* rewrite bridge). Every maximal behaviour (MaxLen forwarded packets) is  *)
(* printed once as a JSON case: the bridge configuration and, per packet,  *)
(* the source fields and the output the model expects with the C19 rule    *)
(* that governs each output field.                                         *)
EXTENDS Bridge, Json

R(m, fixOn, fix, off, pt, mid) == [m |-> m, fixOn |-> fixOn, fix |-> fix, off |-> off, pt |-> pt, mid |-> mid]

\* one catch-all rule with a fixed output SSRC, payload type kept
TCatch == << R(-1, TRUE, 43981, 0, -1, 0) >>
\* what RtpRewriteRule::from_params builds: catch-all first, then the DTMF remap; SSRC = source + 900
TDtmf  == << R(-1, FALSE, 0, 900, 96, 1), R(101, FALSE, 0, 900, 110, 1) >>
\* only an exact rule: every other payload type passes through with its SSRC untouched
TExact == << R(101, TRUE, -1, 0, 110, 2) >>
\* audio / video style: two exact rules with their own SSRC, PT and MID, plus a catch-all; a duplicate
\* exact rule that must never win
TAv    == << R(0, TRUE, 1111, 0, 8, 1), R(96, TRUE, MinI, 0, 97, 2), R(-1, FALSE, 0, -1, -1, 0), R(96, TRUE, 5, 0, 5, 3) >>
TNone  == << >>

TablesAll   == {TCatch, TDtmf, TExact, TAv, TNone}
TablesQuick == {TDtmf, TAv}
TablesTwo   == {TCatch, TDtmf}
TablesAv    == {TAv}

\* (negative literals cannot be written in a .cfg file)
SrcOne == {100}
SrcTwo == {100, -2}                   \* -2 = 0xFFFF_FFFE: source + 900 wraps
OffNeg == -1000                       \* initial_timestamp_offset 0xFFFF_FC18

M(fixed, pinOn, strip) == [fixed |-> fixed, pinOn |-> pinOn, strip |-> strip]
ModesFixed == {M(TRUE, FALSE, FALSE)}
ModesFree  == {M(FALSE, FALSE, FALSE)}
ModesAll   == {M(TRUE, FALSE, FALSE), M(FALSE, FALSE, FALSE), M(TRUE, TRUE, FALSE), M(TRUE, FALSE, TRUE), M(FALSE, TRUE, TRUE)}

\* timestamp steps: the real boundary alphabet
DeltasFull  == {0, 1, 160, Thr, Thr + 1, MaxI, MinI, -1, -160, 0 - (Thr + 1)}
DeltasMid   == {0, 160, Thr, Thr + 1, MaxI, MinI, -160}
DeltasSmall == {160, Thr + 1, MinI, -160}
DeltasTwo   == {160, Thr + 1}
StartWrap   == {0, -100}              \* -100 = 0xFFFF_FF9C: the first steps cross the u32 wrap
StartOne    == {1000}
StartEdge   == {MaxI - 100, -100}     \* just below 2^31 and just below 2^32
AlwaysUp    == {TRUE}
MayFail     == {TRUE, FALSE}
NoVideo     == {}
VideoSome   == {96, 101}              \* 96 is rewritten to 97 / 5 by TAv, 101 to 110 by TDtmf and TExact

CaseRec == [ cfg |-> [rules |-> tbl, fixed |-> mode.fixed, seq0 |-> Seq0, off0 |-> Off0,
                      pinOn |-> mode.pinOn, pin |-> Pin, strip |-> mode.strip, video |-> VideoPts],
             steps |-> hist' ]

EmitCase == IF Len(hist') = MaxLen THEN PrintT(<<"CASE", ToJson(CaseRec)>>) ELSE TRUE
NoEmit   == TRUE
=============================================================================
