------------------------------- MODULE Udptl -------------------------------
(***************************************************************************)
(* EXT03 - UDPTL for T.38 (src/transports/udptl.rs): sender sequence       *)
(* numbers and redundancy, receiver reordering / duplicate suppression /   *)
(* redundancy recovery. Beyond the listed properties: rules are EXT,       *)
(* findings are DRIFT only.                                                *)
(*                                                                         *)
(* The sender has sent datagrams 1..N (index k; sequence number            *)
(* Seq(k) = Start + k - 1 mod 2^16, payload "k", redundancy = the payloads *)
(* of the previous min(Depth, k-1) datagrams, oldest first as the code     *)
(* documents). The network is the receiver's choice of which datagram      *)
(* arrives next: any order, any number of times, or never.                 *)
(*   Recv(k)  = UdtlReceiveBuffer::try_deliver(Seq(k), payload k, redundancy)*)
(*                                                                         *)
(* Design = "intended": a reference design of what the module documents    *)
(* ("redundancy-based error correction", "attempting to recover from       *)
(* redundancy on packet loss", "buffer for out-of-order packets"): every   *)
(* payload that reached the receiver in any datagram is delivered exactly  *)
(* once, in order; a hole that redundancy can no longer fill is given up   *)
(* (counted lost) and delivery resumes. It may return several payloads     *)
(* from one call.                                                          *)
(* Design = "pinned": what the code does, statement by statement:          *)
(*   RedundancyIgnored   the redundant payloads are parsed and dropped     *)
(*   FlushDiscards       buffered successors of the expected datagram are  *)
(*                       removed and counted "recovered" but never returned*)
(*   NoGapTimeout        a lost datagram stalls delivery for good          *)
(*   NumericCompare      u16 comparisons are numeric: a datagram ahead of  *)
(*                       `expected` across 65535 -> 0 is dropped, one      *)
(*                       behind it across the wrap is buffered as "future" *)
(*   StaleCountsFuture   cleanup_stale discards buffered datagrams >= 32   *)
(*                       ahead and counts THEM as lost                     *)
(* The contract below holds for "intended" and fails for "pinned".         *)
(***************************************************************************)
EXTENDS Naturals, Integers, Sequences, FiniteSets, TLC

CONSTANTS
  Design,      \* "intended" | "pinned"
  N,           \* datagrams sent
  Depths,      \* redundancy depths
  Starts,      \* first sequence numbers (1 = default, 65534 = wrap inside the run)
  MaxSizes,    \* receive buffer sizes
  Gaps,        \* index strides: datagram k has sequence number Start + Stride * (k - 1)  (stride 40 reaches cleanup_stale)
  MaxLen

VARIABLES
  cfg,        \* [depth, start, max, stride]
  exp,        \* expected sequence number
  buf,        \* set of [seq, id]  (id = index of the datagram whose payload it is)
  out,        \* payload ids returned by the last call (pinned: at most one)
  delivered,  \* all payload ids returned so far, in order
  stats,      \* [recv, lost, recovered]
  lastDel,    \* last_delivered_seq, -1 = none
  excused,    \* ghost: payloads that reached the receiver only when already behind `expected` (late, duplicate)
  base,       \* ghost: length of the history at the last reset (the contract speaks about one epoch)
  hist        \* sequence of [op |-> "recv" | "reset", k |-> datagram index]

vars == <<cfg, exp, buf, out, delivered, stats, lastDel, excused, base, hist>>
view == <<cfg, exp, buf, out, stats, lastDel>>

Mod16(x)    == ((x % 65536) + 65536) % 65536
SeqOf(k)    == Mod16(cfg.start + cfg.stride * (k - 1))
Ahead(a, b) == Mod16(a - b) < 32768            \* a is b or after b, serially
\* payloads carried by datagram k: itself and, oldest first, its predecessors
Reds(k)     == [i \in 1..(IF k - 1 < cfg.depth THEN k - 1 ELSE cfg.depth) |->
                  k - (IF k - 1 < cfg.depth THEN k - 1 ELSE cfg.depth) + i - 1]

Init ==
  /\ cfg \in {[depth |-> d, start |-> s, max |-> m, stride |-> g] : d \in Depths, s \in Starts, m \in MaxSizes, g \in Gaps}
  /\ (cfg.stride > 1 => cfg.depth = 0)       \* a stride stands for a burst loss: no redundancy reaches across it
  /\ excused = {} /\ base = 0
  /\ exp = cfg.start /\ buf = {} /\ out = <<>> /\ delivered = <<>>
  /\ stats = [recv |-> 0, lost |-> 0, recovered |-> 0] /\ lastDel = -1 /\ hist = <<>>

Has(b, q)  == \E e \in b : e.seq = q
Get(b, q)  == CHOOSE e \in b : e.seq = q

---------------------------------------------------------------------------
(* pinned: the code *)
RECURSIVE FlushRun(_, _)
\* flush_contiguous: how many buffered datagrams follow e directly
FlushRun(b, e) == IF Has(b, e) THEN 1 + FlushRun(b, Mod16(e + 1)) ELSE 0

RecvPinned(k) ==
  LET q == SeqOf(k)
      st1 == [stats EXCEPT !.recv = @ + 1] IN
  IF q < exp /\ Mod16(exp - q) < 16384
  THEN /\ out' = <<>> /\ stats' = st1 /\ UNCHANGED <<exp, buf, delivered, lastDel>>
  ELSE IF q = exp
  THEN LET n    == FlushRun(buf, Mod16(exp + 1))
           e2   == Mod16(exp + 1 + n)
           b1   == {x \in buf : ~(\E i \in 1..n : x.seq = Mod16(exp + i))}
           \* cleanup_stale: buffered numbers >= 32 ahead of the new expected number are thrown away as "lost"
           far  == {x \in b1 : x.seq >= e2 /\ Mod16(x.seq - e2) >= 32 /\ Mod16(x.seq - e2) < 32768}
       IN /\ exp' = e2 /\ buf' = b1 \ far
          /\ out' = <<k>> /\ delivered' = Append(delivered, k)
          /\ lastDel' = Mod16(e2 - 1)
          /\ stats' = [st1 EXCEPT !.recovered = @ + n, !.lost = @ + Cardinality(far)]
  ELSE IF q > exp
  THEN /\ buf' = IF Cardinality(buf) < cfg.max THEN {x \in buf : x.seq # q} \cup {[seq |-> q, id |-> k]} ELSE buf
       /\ out' = <<>> /\ stats' = st1 /\ UNCHANGED <<exp, delivered, lastDel>>
  ELSE /\ out' = <<>> /\ stats' = st1 /\ UNCHANGED <<exp, buf, delivered, lastDel>>

---------------------------------------------------------------------------
(* intended: the reference design *)
OldestIn(b) == (CHOOSE x \in b : \A y \in b : Ahead(y.seq, x.seq)).seq
NewestIn(b) == (CHOOSE x \in b : \A y \in b : Ahead(x.seq, y.seq)).seq

\* deliver everything deliverable: the contiguous run from e; a hole is given up once the newest waiting
\* datagram is so far ahead that no later datagram's redundancy can reach back to it
RECURSIVE Deliver(_, _)
Deliver(b, e) ==      \* result: [ids, exp, buf, lost]
  IF Has(b, e)
  THEN LET r == Deliver({x \in b : x.seq # e}, Mod16(e + 1)) IN [r EXCEPT !.ids = <<Get(b, e).id>> \o @]
  ELSE IF b # {} /\ Mod16(NewestIn(b) - e) > cfg.depth * cfg.stride
  THEN LET o == OldestIn(b)
           r == Deliver(b, o) IN [r EXCEPT !.lost = @ + Mod16(o - e)]
  ELSE [ids |-> <<>>, exp |-> e, buf |-> b, lost |-> 0]

RecvIntended(k) ==
  LET q    == SeqOf(k)
      r    == Reds(k)
      \* every payload the datagram carries, with the sequence number it belongs to
      avail == {[seq |-> q, id |-> k]} \cup {[seq |-> SeqOf(r[i]), id |-> r[i]] : i \in 1..Len(r)}
      fresh == {a \in avail : Ahead(a.seq, exp) /\ ~Has(buf, a.seq)}
      res  == Deliver(buf \cup fresh, exp)
      st1  == [stats EXCEPT !.recv = @ + 1] IN
  /\ out' = res.ids
  /\ delivered' = delivered \o res.ids
  /\ exp' = res.exp /\ buf' = res.buf
  /\ lastDel' = IF Len(res.ids) > 0 THEN Mod16(res.exp - 1) ELSE lastDel
  /\ stats' = [st1 EXCEPT !.lost = @ + res.lost,
                          !.recovered = @ + Cardinality({i \in 1..Len(res.ids) : res.ids[i] # k})]

Recv(k) ==
  /\ Len(hist) < MaxLen
  /\ hist' = Append(hist, [op |-> "recv", k |-> k])
  /\ base' = base
  /\ (IF Design = "pinned" THEN RecvPinned(k) ELSE RecvIntended(k))
  \* ghost, independent of the design: what this datagram carries that is already behind `expected`
  /\ LET r == Reds(k)
         carried == {k} \cup {r[i] : i \in 1..Len(r)}
     IN excused' = excused \cup {j \in carried : ~Ahead(SeqOf(j), exp)}
  /\ UNCHANGED cfg

\* UdtlReceiveBuffer::reset(expected): resynchronise on datagram j; nothing buffered survives
Reset(j) ==
  /\ Len(hist) < MaxLen
  /\ Len(hist) > 0 /\ hist[Len(hist)].op # "reset"
  /\ hist' = Append(hist, [op |-> "reset", k |-> j])
  /\ exp' = SeqOf(j) /\ buf' = {} /\ out' = <<>>
  /\ delivered' = <<>> /\ excused' = {} /\ base' = Len(hist')
  /\ UNCHANGED <<cfg, stats, lastDel>>

Next == (\E k \in 1..N : Recv(k)) \/ (\E j \in {1, 3} : Reset(j))
Spec == Init /\ [][Next]_vars

---------------------------------------------------------------------------
(* the contract *)
Bounded == Len(hist) <= MaxLen
\* payloads leave in order, none twice
InOrderNoDup == \A i \in 1..(Len(delivered) - 1) : delivered[i] < delivered[i + 1]
Arrived   == {hist[i].k : i \in (base + 1)..Len(hist)}
Carried   == Arrived \cup UNION {{Reds(k)[i] : i \in 1..Len(Reds(k))} : k \in Arrived}
DelivSet  == {delivered[i] : i \in 1..Len(delivered)}
Waiting   == {x.id : x \in buf}
\* nothing that reached the receiver ahead of `expected` is thrown away: it is delivered, or waiting
NoDiscard == \A k \in Arrived : k \in DelivSet \/ k \in Waiting \/ k \in excused
\* redundancy is used: whatever is returned, every payload carried so far that precedes it has been returned
RecoveryStep == out' # <<>> =>
                  \A k \in Carried' \ excused' : k < out'[Len(out')] => k \in DelivSet'
Recovery == [][RecoveryStep]_vars
\* delivery does not stall behind a hole: no more datagrams wait than redundancy could still complete
NoStall   == Cardinality(Waiting) <= cfg.depth + 1
\* the receiver never invents or mislabels: the sequence number it reports for the last delivery is the one
\* of the last payload it returned
Genuine   == (Len(delivered) > 0 /\ lastDel # -1) => lastDel = SeqOf(delivered[Len(delivered)])
---------------------------------------------------------------------------
(* the sender (UdtlTransport::send): sequence numbers count up from 1 modulo 2^16; datagram i carries the    *)
(* payloads of the previous min(depth, i-1) sends, oldest first. A case = [depth, n, burst]: `burst` sends  *)
(* (payload id 0) precede the n observed ones, so that burst = 65533 puts the wrap inside the observed run. *)
WireCases == {[depth |-> d, n |-> n, burst |-> b] : d \in {0, 1, 2, 3}, n \in {1, 2, 3, 5}, b \in {0, 2, 65533}}
WireExpect(c) ==
  [i \in 1..c.n |->
     LET sent == c.burst + i - 1                       \* sends before this one
         r    == IF sent < c.depth THEN sent ELSE c.depth
     IN [seq |-> Mod16(1 + sent), id |-> i,
         red |-> [j \in 1..r |-> IF i - r + j - 1 >= 1 THEN i - r + j - 1 ELSE 0]]]
\* sender contract: consecutive sequence numbers, redundancy = the previous payloads in sending order
WireLaw(c) ==
  LET e == WireExpect(c) IN
  /\ \A i \in 1..(c.n - 1) : e[i + 1].seq = Mod16(e[i].seq + 1)
  /\ \A i \in 1..c.n : Len(e[i].red) <= c.depth /\ \A j \in 1..Len(e[i].red) : e[i].red[j] < i
=============================================================================
