-------------------------- MODULE MC_SrtpGateConc --------------------------
(* Bounded model + G-edge schedule generator for SrtpGateConc.tla.          *)
(* EmitEdge is an ACTION_CONSTRAINT with a print side effect: one JSON line *)
(* per (state, task step) pair, carrying a schedule that reaches the        *)
(* pre-state (BFS-shortest: hist is outside the VIEW), the step, and what   *)
(* the step is expected / allowed to put on the wire and to deliver.        *)
EXTENDS SrtpGateConc, Json

ClsCode(c) == IF c = "protected" THEN "p" ELSE "c"
SinkCode(s) == CASE s = "obs" -> "o" [] s = "tobs" -> "t" [] s = "bridged" -> "b"
                 [] s = "lst" -> "l" [] s = "rtcp" -> "r"
RECURSIVE Cat(_)
Cat(ss) == IF Len(ss) = 0 THEN "" ELSE ss[1] \o Cat(Tail(ss))
AwCode(S) == IF S = {} THEN 0 ELSE IF S = {"protected"} THEN 1 ELSE 2
RwCode(r) == IF r = "NothingBeforeKeys" THEN "N" ELSE "E"

\* schedule element: <<task, op started ("" = continue), label the task parks at afterwards, outcome unspecified>>
SchedJ(h) == [i \in 1..Len(h) |-> <<h[i].task, h[i].op, h[i].lbl, IF h[i].u THEN 1 ELSE 0>>]

EdgeRec ==
  [ rx |-> req["X"], ry |-> req["Y"],
    pre |-> SchedJ(hist),
    act |-> << last'.task, IF last'.start THEN last'.op ELSE "", last'.lbl,
               IF hist'[Len(hist')].u THEN 1 ELSE 0 >>,
    exp |-> << Cat([i \in 1..Len(last'.w) |-> last'.w[i].tr \o ClsCode(last'.w[i].cls)]),
               Cat([i \in 1..Len(last'.d) |-> SinkCode(last'.d[i])]),
               AwCode(last'.aw["X"]), AwCode(last'.aw["Y"]), RwCode(last'.rw["X"]), RwCode(last'.rw["Y"]),
               IF last'.ad THEN 1 ELSE 0 >> ]

EmitEdge == PrintT(<<"EDGE", ToJson(EdgeRec)>>)
NoEmit == TRUE
=============================================================================
