------------------------ MODULE Trace_DtlsHandshake ------------------------
(***************************************************************************)
(* Trace validation for DtlsHandshake.tla (binding T, DESIGN 2.4).         *)
(*                                                                         *)
(* Input (IOEnv.TRACE): ndjson, one normalised event per line, written by  *)
(* checks/dtls_common.py from the hook events of both real endpoints and   *)
(* the proxy's own events. Scenarios are concatenated, each starting with  *)
(* a `reset` event. Every endpoint event must be a step of the handshake   *)
(* specification from the state the previous events led to:                *)
(*                                                                         *)
(*   hs      one received handshake message / fragment and the disposition *)
(*           the code chose (acc / dup / ooo / frag)  -> RecvResults        *)
(*   flight  records handed to the socket: either the discharge of what    *)
(*           the last handler had to send, or a timer retransmission of    *)
(*           the last flight                          -> pend / TickOf      *)
(*   undec   an encrypted handshake record that could not be decrypted     *)
(*   keys / connected / failed / cert / ske   observations of the state    *)
(*   snap    scalar projection of the handshake context (rule EXT)         *)
(*                                                                         *)
(* The content of a received message is the content the *model* of the     *)
(* sending endpoint produced for (type, message_seq), passed through the   *)
(* rewrite the proxy logged for it (if any), so the symbolic crypto of the *)
(* specification applies to the real run.                                  *)
(*                                                                         *)
(* Semantics are existential (the contract leaves choices free), so rules  *)
(* are guards. Each guard that encodes a rule is wrapped Rule(tag, ..);    *)
(* the driver finds the rule that rejected a trace by switching tags off.  *)
(***************************************************************************)
EXTENDS DtlsHandshake, Json, IOUtils

CONSTANTS Props        \* rule tags that are enforced

Rule(tag, expr) == (tag \in Props) => expr

Rec == ndJsonDeserialize(IOEnv.TRACE)

VARIABLES l,      \* cursor into Rec
          ep,     \* E -> endpoint state
          pend,   \* E -> labels of the records the endpoint still has to hand to the socket
          sent,   \* E -> sequence of messages the model of this endpoint has produced
          kh      \* E -> key hash logged by the endpoint ("" = none)

tvars == <<l, ep, pend, sent, kh>>

Ev == Rec[l]
Is(kind) == l <= Len(Rec) /\ Rec[l].ev = kind
Inst == Rec[l].inst

ExpFp(mode, e, k) == IF mode = "none" THEN "none"
                     ELSE IF mode = "match" THEN GenuineK(Peer(e), k)
                     ELSE "certX"

Labels(out) ==
  LET RECURSIVE F(_)
      F(i) == IF i > Len(out) THEN <<>>
              ELSE [j \in 1..Len(out[i].msgs) |-> out[i].msgs[j].t] \o F(i + 1)
  IN F(1)
Msgs(out) ==
  LET RECURSIVE F(_)
      F(i) == IF i > Len(out) THEN <<>> ELSE out[i].msgs \o F(i + 1)
  IN F(1)

\* messages of `ms` not yet in `have` (a resent flight adds nothing; `same` only tells a resend from the original)
Plainly(m) == [m EXCEPT !.same = FALSE]
NewMsgs(have, ms) ==
  LET H == {Plainly(have[i]) : i \in 1..Len(have)}
      RECURSIVE F(_, _)
      F(i, seen) == IF i > Len(ms) THEN <<>>
                    ELSE IF Plainly(ms[i]) \in seen THEN F(i + 1, seen)
                    ELSE <<Plainly(ms[i])>> \o F(i + 1, seen \cup {Plainly(ms[i])})
  IN F(1, H)

IsPrefix(p, s) == Len(p) <= Len(s) /\ \A i \in 1..Len(p) : p[i] = s[i]

FreshEp(c) ==
  [e \in E |->
     IF e = "C" THEN InitEp("C", CertOfId(c.idC, "C"), AlsoOfId(c.idC, "C"), KeyOfId(c.idC, "C"), IF c.idC = "certC" THEN "dhC" ELSE "dhMc", "rC", ExpFp(c.fpC, "C", c.kS))
                ELSE InitEp("S", CertOfIdK(c.idS, "S", c.kS), AlsoOfIdK(c.idS, "S", c.kS), KeyOfIdK(c.idS, "S", c.kS), IF c.idS = "certS" THEN "dhS" ELSE "dhMs", "rS", ExpFp(c.fpS, "S", c.kS))]

\* a fresh pair, both started (the client's ClientHello is owed)
ResetTo(c) ==
  LET f == FreshEp(c)
      rc == StartOf(f["C"])
      rs == StartOf(f["S"])
  IN /\ ep' = [e \in E |-> IF e = "C" THEN rc.s ELSE rs.s]
     /\ pend' = [e \in E |-> IF e = "C" /\ Ev.model # "C" THEN Labels(rc.out) ELSE <<>>]
     /\ sent' = [e \in E |-> IF e = "C" THEN Msgs(rc.out) ELSE <<>>]
     /\ kh' = [e \in E |-> ""]

TraceInit ==
  /\ l = 1
  /\ ep = FreshEp([fpC |-> "none", fpS |-> "none", idC |-> "certC", idS |-> "certS", kS |-> "ec"])
  /\ pend = [e \in E |-> <<>>]
  /\ sent = [e \in E |-> <<>>]
  /\ kh = [e \in E |-> ""]
  /\ TLCSet(1, 1)

TReset ==
  /\ Is("reset")
  /\ ResetTo(Ev.cfg)
  /\ l' = l + 1

---------------------------------------------------------------------------
\* The message a logged `hs` event is about.
\*   ev.t, ev.ms   handshake type and message_seq as received
\*   ev.oms        message_seq the sender gave it (differs after an adversary's omit)
\*   ev.lo, ev.hi  the piece [lo, hi) of the body it carries, in sixths (0, 6 = the whole message)
\*   ev.rw         rewrite applied by the proxy ("" = none)
\*   ev.inj        "" or the kind of record the adversary built itself
\* (oms = -1: a protected record the proxy cannot look into - the Finished of the sender, whatever its
\*  message_seq. disp = "model": the receiver is an endpoint without hooks (the reference implementation); the
\*  event is the proxy's delivery of the datagram and the specification decides what the endpoint does with it.)
Candidates(e) ==
  IF Ev.inj \in {"inj_sh2", "inj_cert2", "inj_ske2"}
  THEN {CASE Ev.inj = "inj_sh2"   -> [Msg("SH", Ev.ms) EXCEPT !.rnd = "rM", !.prof = "1"]
          [] Ev.inj = "inj_cert2" -> [Msg("CERT", Ev.ms) EXCEPT !.cert = "certM"]
          [] OTHER                -> [Msg("SKE", Ev.ms) EXCEPT !.dh = "dhM", !.sigDh = "dhM", !.sigBy = "certM",
                                                               !.sigN = "M", !.sigCr = "*", !.sigSr = "*"]}
  ELSE IF Ev.inj = "m_fin"      \* the Finished of an adversary that holds the share the endpoint derived its keys from
  THEN {[Msg("FIN", Ev.ms) EXCEPT !.fin = Fin(IF e = "C" THEN "S" ELSE "C", ep[e].keys, ep[e].tr), !.enc = ep[e].keys]}
  ELSE IF Ev.inj # ""
  THEN {[Msg(Ev.t, Ev.ms) EXCEPT !.bad = TRUE]}
  ELSE LET S == {i \in 1..Len(sent[Peer(e)]) :
                   sent[Peer(e)][i].t = Ev.t /\ (Ev.oms = -1 \/ sent[Peer(e)][i].ms = Ev.oms)}
       IN {[(IF Ev.rw # "" THEN Rewrite(Ev.rw, sent[Peer(e)][i]) ELSE sent[Peer(e)][i])
              EXCEPT !.ms = IF Ev.oms = -1 THEN sent[Peer(e)][i].ms ELSE Ev.ms, !.lo = Ev.lo, !.hi = Ev.hi,
                     !.same = Ev.same] : i \in S}

THs ==
  /\ Is("hs")
  /\ LET e == Inst IN
     /\ Rule("MustResend", pend[e] = <<>>)
     /\ \E m \in Candidates(e) :
          /\ Rule("Sequencing", Ev.disp = "model" \/ DispOf(ep[e], m) = Ev.disp)
          /\ Rule("Reassembly", (Ev.disp = "acc" /\ DispOf(ep[e], m) = "acc")
                                   => FragStep(Resynced(ep[e], m), m).bad = Ev.bad)
          /\ \E r \in RecvResults(ep[e], m) :
               /\ ep' = [ep EXCEPT ![e] = r.s]
               /\ pend' = [pend EXCEPT ![e] = IF Ev.disp # "model" /\ ("MustResend" \in Props \/ "FlightContent" \in Props)
                                               THEN Labels(r.out) ELSE <<>>]
               /\ sent' = [sent EXCEPT ![e] = @ \o NewMsgs(@, Msgs(r.out))]
  /\ l' = l + 1
  /\ UNCHANGED kh

\* An encrypted handshake record the endpoint could not decrypt.
TUndec ==
  /\ Is("undec")
  /\ LET e == Inst
         F == {i \in 1..Len(sent[Peer(e)]) : sent[Peer(e)][i].t = "FIN"}
     IN Rule("Decrypt", F # {} /\ \A i \in F : ~CanDecrypt(ep[e], sent[Peer(e)][i]))
  /\ l' = l + 1
  /\ UNCHANGED <<ep, pend, sent, kh>>

TFlight ==
  /\ Is("flight")
  /\ LET e == Inst IN
     \/ /\ Ev.why # "timer"
        /\ Rule("FlightContent", IsPrefix(Ev.msgs, pend[e]))
        /\ pend' = [pend EXCEPT ![e] = IF IsPrefix(Ev.msgs, @) THEN SubSeq(@, Len(Ev.msgs) + 1, Len(@)) ELSE <<>>]
     \/ /\ Ev.why = "timer"
        /\ Rule("MustResend", pend[e] = <<>>)
        /\ Rule("RetransmitLastFlight",
                /\ ep[e].st = "Handshaking"
                /\ Ev.msgs = [i \in 1..Len(ep[e].last) |-> ep[e].last[i].t])
        /\ UNCHANGED pend
  /\ l' = l + 1
  /\ UNCHANGED <<ep, sent, kh>>

TKeys ==
  /\ Is("keys")
  /\ Rule("KeyDerivation", ep[Inst].keys # NoMaster)
  /\ kh' = [kh EXCEPT ![Inst] = Ev.kh]
  /\ l' = l + 1
  /\ UNCHANGED <<ep, pend, sent>>

TConnected ==
  /\ Is("connected")
  /\ LET e == Inst IN
     /\ Rule("ConnectedOnlyWhenSpecConnects", ep[e].st = "Connected")
     /\ Rule("KeyAgreement", /\ Ev.kh = kh[e]
                             /\ (ep[Peer(e)].st = "Connected" /\ ep[e].st = "Connected")
                                   => /\ (kh[Peer(e)] = "" \/ (kh[Peer(e)] = Ev.kh) = (ep[e].keys = ep[Peer(e)].keys))
                                      /\ (kh[Peer(e)] = "" \/ kh[Peer(e)] = Ev.kh))
     /\ Rule("Auth", e = "C" => AuthOf(ep[e]))
     /\ Rule("AuthServer", e = "S" => AuthOf(ep[e]))
  /\ l' = l + 1
  /\ UNCHANGED <<ep, pend, sent, kh>>

TFailed ==
  /\ Is("failed")
  /\ LET e == Inst IN
     \/ /\ Ev.deadline
        /\ ep[e].st = "Handshaking"
        /\ ep' = [ep EXCEPT ![e] = DeadlineOf(@).s]
     \/ /\ ~Ev.deadline
        /\ Rule("FailOnlyWhenSpecFails", ep[e].st = "Failed")
        /\ ep' = [ep EXCEPT ![e].st = "Failed"]
  /\ l' = l + 1
  /\ UNCHANGED <<pend, sent, kh>>

TCertAcc ==
  /\ Is("cert")
  /\ Rule("Auth", ep[Inst].peerCert # "-" /\ (ep[Inst].expFp # "none" => ep[Inst].peerCert = ep[Inst].expFp))
  /\ l' = l + 1
  /\ UNCHANGED <<ep, pend, sent, kh>>

TSkeOk ==
  /\ Is("ske")
  /\ Rule("Auth", ep[Inst].skeOk)
  /\ l' = l + 1
  /\ UNCHANGED <<ep, pend, sent, kh>>

\* Scalar projection of the real handshake context after a packet / a tick.
TSnap ==
  /\ Is("snap")
  /\ LET s == ep[Inst] IN
     /\ Rule("MustResend", pend[Inst] = <<>>)
     /\ Rule("StateProjection", s.st = Ev.state)
     /\ Rule("EXT", /\ s.sendSeq = Ev.msg_seq
                    /\ s.recvSeq = Ev.recv_seq
                    /\ (s.keys # NoMaster) = Ev.have_keys
                    /\ s.skeOk = Ev.ske_verified
                    /\ (s.peerCert # "-") = Ev.peer_cert_set)
  /\ l' = l + 1
  /\ UNCHANGED <<ep, pend, sent, kh>>

TraceNext == TReset \/ THs \/ TUndec \/ TFlight \/ TKeys \/ TConnected \/ TFailed \/ TCertAcc \/ TSkeOk \/ TSnap

TraceSpec == TraceInit /\ [][TraceNext]_tvars

\* furthest cursor reached by any candidate explanation
Furthest == IF l > TLCGet(1) THEN TLCSet(1, l) ELSE TRUE

Accepted == TLCGet(1) = Len(Rec) + 1
Post ==
  IF Accepted THEN PrintT(<<"TRACE", "accepted", Len(Rec)>>)
  ELSE PrintT(<<"TRACE", "rejected", TLCGet(1), ToJson(Rec[TLCGet(1)])>>)
=============================================================================
