-------------------------------- MODULE Jsep --------------------------------
(***************************************************************************)
(* Signaling state machine of PeerConnection (src/peer_connection.rs):     *)
(* create_offer, create_answer, set_local_description,                     *)
(* set_remote_description, close.  Property C09.                           *)
(*                                                                         *)
(* One action per public call; the argument of a set_* call is a           *)
(* description type t and a description class d.  The model is the JSEP    *)
(* offer/answer table (pranswer keeps the state, rollback is refused, as   *)
(* the API documents).  It is a CONTRACT: a call the table allows may      *)
(* succeed or may be refused (malformed description, local resource        *)
(* failure - the property does not say which), a call the table forbids    *)
(* must be refused, and a refused call changes nothing.                    *)
(*                                                                         *)
(* Where the pinned code deviates, the deviation is a named switch in      *)
(* CONSTANT Deviations; with Deviations = {} the properties hold.          *)
(***************************************************************************)
EXTENDS Naturals, Integers, Sequences, FiniteSets, TLC

CONSTANTS Pres,          \* initial conditions: subset of {"fresh","offerer","answerer","connected"}
          Modes,         \* transport modes the programs are run in (not part of the dynamics)
          Medias,        \* what the connection carries: "av" (audio+video transceivers), "dc" (data channel only),
                         \* "avdc" (both); not part of the dynamics either
          Envs,          \* "ok" | "nobind" (no local socket can be bound: allowed calls may then be refused,
                         \* which the contract permits - and they must still be atomic); not part of the dynamics
          MediaOps,      \* non-signaling calls that change what the next offer contains: subset of
                         \* {"add_transceiver", "create_data_channel", "add_track"}
          LocalClasses,  \* description classes for set_local:  subset of DescClasses
          RemoteClasses, \* description classes for set_remote: subset of DescClasses
          MaxLen,        \* number of calls in a program
          Deviations     \* subset of {"MutateBeforeCheck","CommitBeforeFail","PanicOnMid65535"}

VARIABLES sig,      \* "Stable" | "HaveLocalOffer" | "HaveRemoteOffer" | "Closed"
          local,    \* id of the stored local description, 0 = none
          remote,   \* id of the stored remote description, 0 = none
          params,   \* version stamp of the negotiated transceiver parameters
                    \* (mid, direction, payload map, extmap): id of the last call that may have changed them
          pre,      \* the initial condition this behaviour started from
          call,     \* the last call
          result,   \* its outcome: "Ok" | "Err" | "Panic" | "None"
          hist      \* calls so far (bookkeeping)

vars == <<sig, local, remote, params, pre, call, result, hist>>

Sigs  == {"Stable", "HaveLocalOffer", "HaveRemoteOffer", "Closed"}
Types == {"offer", "answer", "pranswer", "rollback"}
DescClasses == {"fresh", "changed", "unchanged", "nofp", "badalg", "mid65535", "otherfp"}

(* The JSEP table (RFC 8829 section 3.2 without rollback; pranswer keeps the state) *)
Trans == ( <<"Stable",          "local",  "offer">>    :> "HaveLocalOffer"  @@
           <<"Stable",          "remote", "offer">>    :> "HaveRemoteOffer" @@
           <<"HaveLocalOffer",  "remote", "answer">>   :> "Stable"          @@
           <<"HaveLocalOffer",  "remote", "pranswer">> :> "HaveLocalOffer"  @@
           <<"HaveRemoteOffer", "local",  "answer">>   :> "Stable"          @@
           <<"HaveRemoteOffer", "local",  "pranswer">> :> "HaveRemoteOffer" )

NoCall == [op |-> "none", t |-> "-", d |-> "-"]
Simple(op) == [op |-> op, t |-> "-", d |-> "-"]
SetCalls(op, classes) ==
  {[op |-> op, t |-> t, d |-> d] : t \in Types \ {"rollback"}, d \in classes}
    \cup {[op |-> op, t |-> "rollback", d |-> "fresh"]}
Calls == {Simple("create_offer"), Simple("create_answer"), Simple("close")}
           \cup {Simple(op) : op \in MediaOps}
           \cup SetCalls("set_local", LocalClasses) \cup SetCalls("set_remote", RemoteClasses)

Side(c) == IF c.op = "set_local" THEN "local" ELSE "remote"
IsSet(c) == c.op \in {"set_local", "set_remote"}

(* does the JSEP machine allow call c in state s ? *)
Allowed(s, c) ==
  CASE c.op = "close"         -> TRUE
    [] c.op = "create_offer"  -> s = "Stable"
    [] c.op = "create_answer" -> s = "HaveRemoteOffer"
    \* adding media is not a signaling call: the machine neither forbids it nor moves (it may be refused, e.g. when closed)
    [] c.op \in MediaOps      -> TRUE
    [] OTHER                  -> <<s, Side(c), c.t>> \in DOMAIN Trans

NextSig(s, c) ==
  CASE c.op = "close" -> "Closed"
    [] IsSet(c)       -> Trans[<<s, Side(c), c.t>>]
    [] OTHER          -> s

(* EXT (beyond the listed property): in which modes is an allowed call expected to succeed *)
ExpectOk(m, c) ==
  IF c.op = "set_remote" /\ c.d \in {"nofp", "badalg"} THEN m # "WebRtc"
  ELSE IF c.op = "set_remote" /\ c.d = "otherfp" THEN ~(m = "WebRtc" /\ pre = "connected")
  ELSE TRUE

Init ==
  /\ pre \in Pres
  /\ sig = "Stable"
  /\ local  = (IF pre = "fresh" THEN 0 ELSE 1)
  /\ remote = (IF pre = "fresh" THEN 0 ELSE 2)
  /\ params = 0
  /\ call = NoCall
  /\ result = "None"
  /\ hist = <<>>

Stamp == 10 + Len(hist) + 1      \* id of the description / parameter version installed by this call

(* an allowed call that succeeds *)
DoOk(c) ==
  /\ Allowed(sig, c)
  /\ result' = "Ok"
  /\ sig' = NextSig(sig, c)
  /\ local'  = (IF c.op = "set_local"  THEN Stamp ELSE local)
  /\ remote' = (IF c.op = "set_remote" THEN Stamp ELSE remote)
  /\ params' = (IF c.op = "close" THEN params ELSE Stamp)

(* any call except close may be refused; a forbidden call must be; nothing changes *)
DoErr(c) ==
  /\ c.op # "close"
  /\ result' = "Err"
  /\ UNCHANGED <<sig, local, remote, params>>

(* ---- deviations of the pinned code (off in the contract) ---- *)
(* set_local_description(offer) extracts parameters into the transceivers before the state check *)
DevMutateBeforeCheck(c) ==
  /\ "MutateBeforeCheck" \in Deviations
  /\ c.op = "set_local" /\ c.t = "offer" /\ ~Allowed(sig, c)
  /\ result' = "Err"
  /\ params' = Stamp
  /\ UNCHANGED <<sig, local, remote>>
(* set_remote_description commits the transition and then fails *)
DevCommitBeforeFail(c) ==
  /\ "CommitBeforeFail" \in Deviations
  /\ c.op = "set_remote" /\ Allowed(sig, c)
  /\ result' = "Err"
  /\ sig' = NextSig(sig, c)
  /\ UNCHANGED <<local, remote, params>>
(* a=mid:65535 overflows the mid counter *)
DevPanic(c) ==
  /\ "PanicOnMid65535" \in Deviations
  /\ c.op = "set_remote" /\ c.d = "mid65535"
  /\ result' = "Panic"
  /\ UNCHANGED <<sig, local, remote, params>>

Do(c) ==
  /\ Len(hist) < MaxLen
  /\ call' = c
  /\ hist' = Append(hist, c)
  /\ pre' = pre
  /\ \/ DoOk(c)
     \/ (~Allowed(sig, c) /\ DoErr(c))
     \/ (Allowed(sig, c) /\ DoErr(c))
     \/ DevMutateBeforeCheck(c)
     \/ DevCommitBeforeFail(c)
     \/ DevPanic(c)

Next == \E c \in Calls : Do(c)
Spec == Init /\ [][Next]_vars

-----------------------------------------------------------------------------
TypeOK ==
  /\ sig \in Sigs
  /\ local \in Nat /\ remote \in Nat /\ params \in Nat
  /\ result \in {"Ok", "Err", "Panic", "None"}
  /\ call \in Calls \cup {NoCall}

(* JSEP sanity: an offer state has the offer it is named after *)
SlotsConsistent ==
  /\ sig = "HaveLocalOffer"  => local # 0
  /\ sig = "HaveRemoteOffer" => remote # 0

(* C09, first sentence: every call returns; forbidden calls return an error; the state follows the table *)
TableConformance ==
  [][ /\ result' \in {"Ok", "Err"}
      /\ ~Allowed(sig, call') => result' = "Err"
      /\ result' = "Ok" => sig' = NextSig(sig, call')
    ]_vars

(* C09, second sentence *)
FailureAtomic ==
  [][ result' # "Ok" => UNCHANGED <<sig, local, remote, params>> ]_vars

(* Closed is terminal *)
ClosedIsTerminal == [][ sig = "Closed" => sig' = "Closed" ]_vars

\* bookkeeping does not influence future steps
view == <<sig, local # 0, remote # 0, pre>>
=============================================================================
