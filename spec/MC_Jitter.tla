----------------------------- MODULE MC_Jitter -----------------------------
(* Bounded model + replay generator for Jitter.tla (EXT01).                  *)
(* EmitEdge: one JSON line per (state, action) pair TLC generates - history   *)
(* reaching the pre-state, the action, the observables the model expects      *)
(* after it. Used both in BFS (transition cover, VIEW without histories) and   *)
(* in simulation (deep behaviours with their real, unmerged histories).       *)
EXTENDS Jitter, Json

EdgeRec ==
  [ cfg |-> [minD |-> cfg[1], maxD |-> cfg[2], cap |-> cfg[3]],
    pre |-> hist,
    act |-> hist'[Len(hist')],
    exp |-> res',
    branch |-> why'.branch,
    buffered |-> Cardinality(buf'),
    drain |-> DrainSeq(buf', last') ]

EmitEdge == PrintT(<<"EDGE", ToJson(EdgeRec)>>)
NoEmit   == TRUE

\* ---- witnesses: the same record for the state / step at which a contract rule fails on the pinned model
StateRec ==
  [ cfg |-> [minD |-> cfg[1], maxD |-> cfg[2], cap |-> cfg[3]],
    pre |-> SubSeq(hist, 1, Len(hist) - 1),
    act |-> hist[Len(hist)],
    exp |-> res,
    branch |-> why.branch,
    buffered |-> Cardinality(buf),
    drain |-> DrainSeq(buf, last) ]
W_Ordered == Ordered \/ (PrintT(<<"EDGE", ToJson(StateRec)>>) /\ FALSE)
W_NoStale == NoStale \/ (PrintT(<<"EDGE", ToJson(StateRec)>>) /\ FALSE)
\* as an action constraint: prints every step that evicts something other than the oldest sample, never prunes
W_Evict   == EvictOldestStep \/ PrintT(<<"EDGE", ToJson(EdgeRec)>>)

\* a .cfg file cannot hold tuples of tuples conveniently
MC_Configs     == { <<0, 0, 10>>, <<0, 2, 10>>, <<0, 1, 10>>, <<1, 1, 10>>, <<1, 2, 10>>, <<0, 0, 3>>, <<0, 2, 2>> }
MC_ConfigsQuick == { <<0, 0, 10>>, <<0, 2, 10>>, <<0, 1, 10>>, <<1, 2, 10>>, <<0, 0, 3>> }
MC_ConfigsDev   == { <<0, 0, 10>>, <<0, 0, 3>> }
MC_ConfigsSim  == { <<0, 0, 10>>, <<0, 2, 10>>, <<0, 1, 4>>, <<1, 2, 3>>, <<0, 0, 3>> }
=============================================================================
