---------------------------- MODULE MC_StunWire ----------------------------
(* Enumerator for StunWire.tla (property C16): every element of the chosen  *)
(* sub-domain is checked against its design claim (ItemOK) and printed as   *)
(* one JSON scenario for harness/src/bin/stunwire.rs.                       *)
EXTENDS StunWire, Json

Rec ==
  CASE Part = "msg"  -> MsgRec(item)
    [] Part = "dec"  -> MsgRec(item)
    [] Part = "turn" -> TurnRec(item)
    [] Part = "cand" -> CandRec(item)
    [] Part = "prio" -> PrioRec(item)
    [] Part = "sets" -> SetsRec(item)
    [] Part = "uri"  -> UriRec(item)

EmitItem == PrintT(<<"ITEM", ToJson([part |-> Part, rec |-> Rec])>>)
NoEmit   == TRUE
=============================================================================
