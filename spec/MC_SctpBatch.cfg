SPECIFICATION Spec
CONSTANTS
  Payloads <- AllPayloads
  Burst = 80
  Deviations = {}
INVARIANTS PacketFits EmitBurst
CHECK_DEADLOCK FALSE
