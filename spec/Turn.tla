-------------------------------- MODULE Turn --------------------------------
(***************************************************************************)
(* TURN client behaviour of the ICE agent (src/transports/ice/turn.rs and   *)
(* its use in src/transports/ice/mod.rs) against a TURN server whose        *)
(* reactions TLC chooses.  Spec growth beyond the listed properties: every  *)
(* rule here is EXT (reported as DRIFT, never as VIOLATION).                *)
(*                                                                         *)
(* One action per handler, each computing the whole exchange the handler    *)
(* runs from the server reactions it meets:                                 *)
(*   Gather     IceGatherer::probe_turn -> TurnClient::allocate            *)
(*   Connect    perform_binding_check over a relay candidate:               *)
(*              CreatePermission, ChannelBind, check + nomination via       *)
(*              ChannelData / Send indication                               *)
(*   Data       application data in both directions through the relay      *)
(*   Refresh    IceTransportRunner::run_turn_refresh (allocation,           *)
(*              permission, channel bindings; one stale-nonce retry each)   *)
(*   Idle       time passes (the allocation lifetime runs down)             *)
(*   Stop       IceTransport::stop (Refresh with LIFETIME 0)                *)
(*                                                                         *)
(* The model is "as built": deterministic, so the harness can predict the   *)
(* exact request sequence of the real client.  Where the as-built           *)
(* behaviour differs from what RFC 5766 / 5389 intend, the step is tagged   *)
(* with the intended rule it breaks (field `flags`); a behaviour that the   *)
(* real client follows exactly and that carries a flag is a finding.        *)
(***************************************************************************)
EXTENDS Naturals, Sequences, FiniteSets, TLC

CONSTANTS Transports,      \* subset of {"udp", "tcp"}
          Lifetimes,       \* lifetimes the server may grant, e.g. {600, 10}
          MaxRefresh,      \* refresh rounds per behaviour
          MaxDrops,        \* requests the server may leave unanswered per behaviour
          Reacts,          \* reactions explored: subset of AllReacts
          AllocLen,        \* longest Allocate reaction script explored (the client makes at most 3 attempts)
          RefreshFaults,   \* how many of the three exchanges of one refresh round may meet a non-ok first answer
          Deviations       \* for self tests: {"RetryForever", "StaleNonceReuse", "DataBeforePermission"}

AllReacts == {"ok", "e401", "e401r", "e438", "e438r", "err", "drop", "badtx"}     \* ...r: the error carries a NEW realm
Stale(r) == r \in {"e401", "e401r", "e438", "e438r"}
NewRealm(r) == r \in {"e401r", "e438r"}
RefreshPeriod == 25          \* seconds, fixed in IceTransportRunner::run

VARIABLES tr,        \* transport to the server
          pc,        \* "gather" | "connect" | "run" | "stopped"
          alloc,     \* "none" | "ok" | "failed" | "hang"
          life,      \* lifetime granted by the server (0: none)
          auth,      \* client credentials context: [has, n, r] (nonce / realm generation)
          sn, sr,    \* server's current nonce / realm generation
          conn,      \* "none" | "connected" | "failed"
          chan,      \* a channel is bound for the peer
          nref,      \* refresh rounds done
          drops,     \* unanswered requests so far
          age,       \* seconds since the allocation was last refreshed (abstract: 0 or "old")
          hist

vars == <<tr, pc, alloc, life, auth, sn, sr, conn, chan, nref, drops, age, hist>>

\* credentials context: nonce generation n, realm generation r, and k = the realm generation the long-term key
\* MD5(user:realm:pass) was computed with (k = r unless the key went stale)
NoAuth == [has |-> FALSE, n |-> 0, r |-> 0, k |-> 0]
\* the context after a stale-nonce answer issued nonce n1 / realm r1 (TurnAuthState::update_nonce)
Renew(old, n1, r1) ==
  [has |-> TRUE, n |-> n1, r |-> r1,
   k |-> IF "StaleKeyOnRealmChange" \in Deviations /\ old.has THEN old.k ELSE r1]

Init ==
  /\ tr \in Transports
  /\ pc = "gather" /\ alloc = "none" /\ life = 0 /\ auth = NoAuth
  /\ sn = 0 /\ sr = 0 /\ conn = "none" /\ chan = FALSE /\ nref = 0 /\ drops = 0 /\ age = 0
  /\ hist = <<>>

Req(m, a, extra) == [m |-> m, auth |-> a.has, n |-> a.n, r |-> a.r, k |-> a.k, x |-> extra]
NDrops(rs) == Cardinality({i \in 1..Len(rs) : rs[i] = "drop"})

---------------------------------------------------------------------------
(* TurnClient::allocate: up to three attempts; a 401 / 438 supplies realm   *)
(* and nonce for the next attempt; a response with another transaction id   *)
(* uses up an attempt; no answer ends it (UDP: 3 s receive timeout, TCP:    *)
(* the read never returns).                                                 *)

RECURSIVE AllocRun(_, _, _, _, _, _)
AllocRun(rs, i, ni, n, r, reqs) ==
  LET q == Req("Allocate", ni, "lifetime600") IN
  IF i > 3 /\ "RetryForever" \notin Deviations THEN [out |-> "failed", reqs |-> reqs, auth |-> NoAuth, sn |-> n, sr |-> r, used |-> i - 1]
  ELSE IF i > Len(rs) THEN [out |-> "incomplete", reqs |-> reqs, auth |-> NoAuth, sn |-> n, sr |-> r, used |-> i - 1]
  ELSE LET x == rs[i] IN
    IF x = "ok" THEN [out |-> "ok", reqs |-> Append(reqs, q), auth |-> ni, sn |-> n, sr |-> r, used |-> i]
    ELSE IF Stale(x)
      THEN LET n1 == n + 1
               r1 == IF NewRealm(x) THEN r + 1 ELSE r
               ni1 == IF "StaleNonceReuse" \in Deviations /\ ni.has THEN ni ELSE [has |-> TRUE, n |-> n1, r |-> r1, k |-> r1]       \* allocate() derives its own key
           IN AllocRun(rs, i + 1, ni1, n1, r1, Append(reqs, q))
    ELSE IF x = "badtx" THEN AllocRun(rs, i + 1, ni, n, r, Append(reqs, q))
    ELSE IF x = "drop" THEN [out |-> IF tr = "tcp" THEN "hang" ELSE "failed", reqs |-> Append(reqs, q),
                             auth |-> NoAuth, sn |-> n, sr |-> r, used |-> i]
    ELSE [out |-> "failed", reqs |-> Append(reqs, q), auth |-> NoAuth, sn |-> n, sr |-> r, used |-> i]

AllocScripts == {<<a>> : a \in Reacts}
                \cup (IF AllocLen >= 2 THEN {<<a, b>> : a \in Reacts, b \in Reacts} ELSE {})
                \cup (IF AllocLen >= 3 THEN {<<a, b, c>> : a \in Reacts, b \in Reacts, c \in Reacts} ELSE {})
                \cup (IF "RetryForever" \in Deviations
                      THEN {<<a, b, c, d>> : a \in Reacts, b \in Reacts, c \in Reacts, d \in Reacts} ELSE {})

Gather(rs, lt) ==
  /\ pc = "gather"
  /\ LET res == AllocRun(rs, 1, NoAuth, sn, sr, <<>>) IN
     /\ res.used = Len(rs) /\ res.out # "incomplete"   \* the script is exactly what the client consumes
     /\ drops + NDrops(rs) <= MaxDrops
     /\ alloc' = res.out
     /\ life' = (IF res.out = "ok" THEN lt ELSE 0)
     /\ auth' = (IF res.out = "ok" THEN res.auth ELSE NoAuth)
     /\ sn' = res.sn /\ sr' = res.sr
     /\ drops' = drops + NDrops(rs)
     /\ pc' = (IF res.out = "ok" THEN "connect" ELSE "stopped")
     /\ hist' = Append(hist,
          [op |-> "gather", reacts |-> rs, lifetime |-> lt, reqs |-> res.reqs, out |-> res.out,
           flags |-> (IF \E i \in 1..Len(rs) : rs[i] = "drop" /\ tr = "udp" THEN {"RequestRetransmission"} ELSE {})
                     \cup (IF res.out = "hang" THEN {"AllocateTerminates"} ELSE {})
                     \cup (IF res.out = "ok" /\ ~res.auth.has THEN {"AllocationWithoutCredentials"} ELSE {})])
  /\ UNCHANGED <<tr, conn, chan, nref, age>>

---------------------------------------------------------------------------
(* A request with one retry after a stale-nonce answer (refresh round).     *)
Exch(m, extra, r1, r2) ==
  LET q1 == Req(m, auth, extra) IN
  IF Stale(r1)
  THEN LET n1 == sn + 1
           rr1 == IF NewRealm(r1) THEN sr + 1 ELSE sr
           a1 == Renew(auth, n1, rr1)
       IN \* a second stale answer is not acted on (the server has issued yet another nonce, the client keeps a1)
          [reqs |-> <<q1, Req(m, a1, extra)>>, ok |-> (r2 = "ok"), auth |-> a1,
           sn |-> (IF Stale(r2) THEN n1 + 1 ELSE n1), sr |-> (IF NewRealm(r2) THEN rr1 + 1 ELSE rr1),
           used |-> <<r1, r2>>]
  ELSE [reqs |-> <<q1>>, ok |-> (r1 = "ok"), auth |-> auth, sn |-> sn, sr |-> sr, used |-> <<r1>>]

(* perform_binding_check over the relay: CreatePermission (no retry at all:  *)
(* an error answer - a stale nonce included - or silence fails the check),   *)
(* ChannelBind (failure tolerated), then the check and the nomination (a    *)
(* second CreatePermission) through the relay.                              *)
Connect(p1, b) ==
  /\ pc = "connect"
  /\ drops + NDrops(<<p1, b>>) <= MaxDrops
  \* no request can be built without a credentials context; over TCP the relay candidate is labelled "tcp"
  \* (the transport to the server) and never pairs with the peer's UDP candidate: no check is ever made
  /\ LET able == auth.has /\ tr = "udp" IN
     /\ (able \/ (p1 = "ok" /\ b = "ok"))
     /\ LET perm == Req("CreatePermission", auth, "peer")
            okp  == p1 = "ok" /\ able
            bind == Req("ChannelBind", auth, "peer")
            bound == okp /\ b = "ok"
            via  == IF bound THEN "ChannelData" ELSE "Send"
            dat(x) == [m |-> via, auth |-> (via = "Send" /\ auth.has), n |-> auth.n, r |-> auth.r, k |-> auth.k, x |-> x]
            reqs == IF ~able THEN <<>>
                    ELSE IF ~okp THEN <<perm>>
                    ELSE IF bound THEN <<perm, bind, dat("check"), perm, dat("nominate")>>
                    ELSE <<perm, bind, dat("check"), perm, bind, dat("nominate")>>     \* an unbound peer is bound again
            used == IF ~able THEN <<>> ELSE IF ~okp THEN <<p1>> ELSE IF bound THEN <<p1, b, "ok">> ELSE <<p1, b, "ok", b>>
        IN /\ (okp \/ b = "ok")                      \* b is not consumed when the permission fails
           /\ conn' = (IF okp THEN "connected" ELSE "failed")
           /\ chan' = bound
           /\ drops' = drops + NDrops(used)
           /\ hist' = Append(hist,
                [op |-> "connect", reacts |-> used, reqs |-> reqs,
                 out |-> (IF okp THEN "connected" ELSE "failed"), bound |-> bound,
                 flags |-> (IF able /\ Stale(p1) THEN {"StaleNonceRetryInChecks"} ELSE {})
                           \cup (IF able /\ p1 = "drop" THEN {"RequestRetransmission"} ELSE {})
                           \cup (IF auth.has /\ tr = "tcp" THEN {"RelayCandidateTransport"} ELSE {})
                           \cup (IF "DataBeforePermission" \in Deviations THEN {"PermissionBeforeData"} ELSE {})])
  /\ sn' = (IF auth.has /\ tr = "udp" /\ Stale(p1) THEN sn + 1 ELSE sn)
  /\ sr' = (IF auth.has /\ tr = "udp" /\ NewRealm(p1) THEN sr + 1 ELSE sr)
  /\ pc' = "run"
  /\ UNCHANGED <<tr, alloc, life, auth, nref, age>>

SkipConnect ==
  /\ pc = "connect" /\ pc' = "run"
  /\ UNCHANGED <<tr, alloc, life, auth, sn, sr, conn, chan, nref, drops, age, hist>>

(* application data through the relay, both directions *)
Data ==
  /\ pc = "run" /\ conn = "connected" /\ nref = MaxRefresh      \* after the refresh rounds: with their credentials
  /\ ~(\E i \in 1..Len(hist) : hist[i].op = "data")
  /\ hist' = Append(hist, [op |-> "data", reacts |-> <<>>,
                           reqs |-> <<[m |-> IF chan THEN "ChannelData" ELSE "Send", auth |-> (~chan /\ auth.has),
                                       n |-> auth.n, r |-> auth.r, k |-> auth.k, x |-> "app"]>>,
                           out |-> "delivered", flags |-> {}])
  /\ UNCHANGED <<tr, pc, alloc, life, auth, sn, sr, conn, chan, nref, drops, age>>

(* one refresh round: allocation, permission for the selected peer, every bound channel; runs only when the     *)
(* transport is connected                                                                                      *)
Refresh(a1, a2, p1, p2, c1, c2) ==
  /\ pc = "run" /\ nref < MaxRefresh
  /\ IF conn # "connected"
     THEN /\ a1 = "ok" /\ a2 = "ok" /\ p1 = "ok" /\ p2 = "ok" /\ c1 = "ok" /\ c2 = "ok"
          /\ hist' = Append(hist, [op |-> "refresh", reacts |-> <<>>, reqs |-> <<>>, out |-> "skipped",
                                   flags |-> {"RefreshWhileNotConnected"}])
          /\ UNCHANGED <<auth, sn, sr, drops, age>>
     ELSE
          LET A  == Exch("Refresh", "lifetime600", a1, a2)
              P  == LET q1 == Req("CreatePermission", A.auth, "peer") IN
                    IF Stale(p1)
                    THEN LET n1 == A.sn + 1
                             r1 == IF NewRealm(p1) THEN A.sr + 1 ELSE A.sr
                             au == Renew(A.auth, n1, r1)
                         IN [reqs |-> <<q1, Req("CreatePermission", au, "peer")>>, ok |-> (p2 = "ok"), auth |-> au,
                             sn |-> (IF Stale(p2) THEN n1 + 1 ELSE n1), sr |-> r1, used |-> <<p1, p2>>]
                    ELSE [reqs |-> <<q1>>, ok |-> (p1 = "ok"), auth |-> A.auth, sn |-> A.sn, sr |-> A.sr, used |-> <<p1>>]
              C  == IF ~chan THEN [reqs |-> <<>>, ok |-> TRUE, auth |-> P.auth, sn |-> P.sn, sr |-> P.sr, used |-> <<>>]
                    ELSE LET q1 == Req("ChannelBind", P.auth, "peer") IN
                    IF Stale(c1)
                    THEN LET n1 == P.sn + 1
                             r1 == IF NewRealm(c1) THEN P.sr + 1 ELSE P.sr
                             au == Renew(P.auth, n1, r1)
                         IN [reqs |-> <<q1, Req("ChannelBind", au, "peer")>>, ok |-> (c2 = "ok"), auth |-> au,
                             sn |-> (IF Stale(c2) THEN n1 + 1 ELSE n1), sr |-> r1, used |-> <<c1, c2>>]
                    ELSE [reqs |-> <<q1>>, ok |-> (c1 = "ok"), auth |-> P.auth, sn |-> P.sn, sr |-> P.sr, used |-> <<c1>>]
              used == A.used \o P.used \o C.used
          IN /\ Cardinality({k \in {1, 2, 3} : <<a1, p1, c1>>[k] # "ok"}) <= RefreshFaults
             /\ (~Stale(a1) => a2 = "ok") /\ (~Stale(p1) => p2 = "ok")       \* unused reactions are fixed: no duplicates
             /\ (chan => (~Stale(c1) => c2 = "ok")) /\ (~chan => c1 = "ok" /\ c2 = "ok")
             /\ drops + NDrops(used) <= MaxDrops
             /\ auth' = C.auth /\ sn' = C.sn /\ sr' = C.sr
             /\ drops' = drops + NDrops(used)
             /\ age' = (IF A.ok THEN 0 ELSE age)
             /\ hist' = Append(hist, [op |-> "refresh", reacts |-> used, reqs |-> A.reqs \o P.reqs \o C.reqs,
                                      out |-> <<A.ok, P.ok, C.ok>>,
                                      flags |-> (IF \E i \in 1..Len(used) : used[i] = "drop" /\ tr = "udp"
                                                 THEN {"RequestRetransmission"} ELSE {})])
  /\ nref' = nref + 1
  /\ UNCHANGED <<tr, pc, alloc, life, conn, chan>>

(* time passes: longer than the granted lifetime, shorter than the refresh period (only interesting then) *)
Idle ==
  /\ pc = "run" /\ conn = "connected" /\ life < RefreshPeriod /\ age = 0
  /\ age' = life + 2
  /\ hist' = Append(hist, [op |-> "idle", secs |-> life + 2, reacts |-> <<>>, reqs |-> <<>>, out |-> "no refresh sent",
                           flags |-> {"RefreshBeforeExpiry"}])
  /\ UNCHANGED <<tr, pc, alloc, life, auth, sn, sr, conn, chan, nref, drops>>

Stop ==
  /\ pc \in {"connect", "run"}
  /\ pc' = "stopped"
  /\ hist' = Append(hist,
       [op |-> "stop", reacts |-> <<>>,
        reqs |-> (IF tr = "udp" /\ auth.has THEN <<Req("Refresh", auth, "lifetime0")>> ELSE <<>>),
        out |-> (IF tr = "udp" THEN "sent" ELSE "closed"),
        flags |-> (IF tr = "udp" /\ ~auth.has THEN {"DeallocateOnStop"} ELSE {})])
  /\ UNCHANGED <<tr, alloc, life, auth, sn, sr, conn, chan, nref, drops, age>>

Next ==
  \/ \E rs \in AllocScripts, lt \in Lifetimes : Gather(rs, lt)
  \/ \E p1 \in Reacts \ {"badtx"}, b \in {"ok", "err", "drop"} : Connect(p1, b)
  \/ SkipConnect
  \/ Data
  \/ \E a1 \in Reacts \ {"badtx"}, a2 \in {"ok", "e438", "err"}, p1 \in {"ok", "e438", "err"}, p2 \in {"ok", "err"},
        c1 \in {"ok", "e438", "err"}, c2 \in {"ok", "err"} : Refresh(a1, a2, p1, p2, c1, c2)
  \/ Idle
  \/ Stop

Spec == Init /\ [][Next]_vars

Done == pc = "stopped"

---------------------------------------------------------------------------
(* Design claims on the model (hold as built; each has a deviation that breaks it in the self test) *)
Steps(op) == {i \in 1..Len(hist) : hist[i].op = op}
\* bounded work: an Allocate exchange never exceeds three requests, any other exchange two per item
BoundedRetries ==
  \A i \in 1..Len(hist) :
    /\ (hist[i].op = "gather" => Len(hist[i].reqs) <= 3)
    /\ (hist[i].op = "refresh" => Len(hist[i].reqs) <= 6)
\* a request sent after a stale-nonce answer carries the nonce the server just issued
FreshNonce ==
  \A i \in 1..Len(hist) : hist[i].op = "gather" =>
    \A k \in 1..Len(hist[i].reqs) - 1 :
      Stale(hist[i].reacts[k]) => hist[i].reqs[k + 1].auth /\ hist[i].reqs[k + 1].n > hist[i].reqs[k].n
\* C16: the MESSAGE-INTEGRITY of every authenticated message is keyed with the realm that message carries
KeyMatchesRealm ==
  \A i \in 1..Len(hist) : \A j \in 1..Len(hist[i].reqs) : hist[i].reqs[j].auth => hist[i].reqs[j].k = hist[i].reqs[j].r
\* nothing is relayed to a peer before a permission for it was granted
PermissionFirst ==
  \A i \in 1..Len(hist) : "PermissionBeforeData" \notin hist[i].flags
=============================================================================
