--------------------------- MODULE MC_H264Depack ---------------------------
(* Bounded model + replay generator for H264Depack.tla (EXT02).              *)
EXTENDS H264Depack, Json

EdgeRec ==
  [ pre |-> hist, act |-> hist'[Len(hist')], out |-> out', drops |-> drops', intended_drops |-> GivenUp(hist') ]
EmitEdge == PrintT(<<"EDGE", ToJson(EdgeRec)>>)
NoEmit   == TRUE

StateRec ==
  [ pre |-> SubSeq(hist, 1, Len(hist) - 1), act |-> hist[Len(hist)], out |-> out, drops |-> drops,
    intended_drops |-> GivenUp(hist) ]
W_DropsCounted == DropsCounted \/ (PrintT(<<"EDGE", ToJson(StateRec)>>) /\ FALSE)

MC_Kinds == {"single", "other", "stap2", "stapbad", "staptail1", "staptail2", "fuS", "fuM", "fuE", "fushort",
             "empty", "audio"}
MC_KindsFu == {"single", "stap2", "fuS", "fuM", "fuE"}
=============================================================================
