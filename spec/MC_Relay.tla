------------------------------ MODULE MC_Relay ------------------------------
(* Bounded model + replay generator for Relay.tla: one line per (state, operation) edge with the BFS-shortest *)
(* history into the state; every operation carries the result the real MediaRelay must produce.             *)
EXTENDS Relay, Json

EdgeRec == [cfg |-> [srccap |-> SrcCap, rcap |-> RCap], ops |-> hist']
EmitEdge == PrintT(<<"EDGE", ToJson(EdgeRec)>>)
NoEmit == TRUE
=============================================================================
