SPECIFICATION Spec
CONSTANTS
  MinSec = 1
  MaxSec = 2
  Sims = {FALSE}
  Port0s = {FALSE}
  Extras = {"none"}
  SNames = {"dash"}
  OUsers = {"dash"}
  SessOpts = {"none"}
  FlagAttrs = {FALSE}
  Trickies = {FALSE}
  Blanks = {FALSE}
  Eols = {"crlf"}
  SetupLevels = {"media"}
  Kinds = {"audio", "video", "application", "image"}
  MidSchemes = {"numeric", "named", "absent"}
  BundleModes = {"none", "all"}
  Setups = {"actpass", "none"}
  AudioPts <- AudioPtsSmall
  VideoPts <- VideoPtsSmall
  ExtSeqs <- ExtSmall
  Dirs = {"sendrecv", "sendonly"}
  Muxes = {TRUE, FALSE}
  Modes = {"WebRtc", "Rtp"}
  Compats = {"Standard"}
  Caps = {"default", "pcmu"}
  Pres = {"none"}
  Negs = {"first"}
  Samples = 0
  Seed = 1
  Deviations = {}
INVARIANTS RejectAllValid ReferenceValid EchoOfferInvalidWhenSendOnly
CHECK_DEADLOCK FALSE
