---------------------------- MODULE DtlsRecord ----------------------------
(***************************************************************************)
(* Record layer of DtlsTransport (src/transports/dtls/mod.rs), property    *)
(* C03: once keys are negotiated only records that authenticate under the  *)
(* negotiated keys are acted on; every application payload leaves          *)
(* encrypted, in records no larger than the path limit, and no two records *)
(* under one key share a sequence number / nonce, for any interleaving of  *)
(* concurrent send() calls.                                                *)
(*                                                                         *)
(* Two parts, selected by CONSTANT Part (the other part's variables        *)
(* stutter):                                                               *)
(*                                                                         *)
(*  "rx"  receiver: one action per record handed to                        *)
(*        handle_incoming_packet (try_decrypt_record +                     *)
(*        handle_decrypted_record), over the alphabet                      *)
(*        content type x authenticity class x source address, in each      *)
(*        phase of the receiver (no keys / keys derived, handshake not     *)
(*        finished / connected / closed by the peer) and for both roles.   *)
(*                                                                         *)
(*  "tx"  sender: the handshake task publishing the write epoch /          *)
(*        sequence and the Connected state, K concurrent send() calls at   *)
(*        the granularity load-epoch / fetch-add / emit, and close().      *)
(*                                                                         *)
(* Where the pinned code deviates from the design the property relies on,  *)
(* the deviation is a named member of CONSTANT Deviations; with            *)
(* Deviations = {} every property below holds.                             *)
(***************************************************************************)
EXTENDS Naturals, Integers, Sequences, FiniteSets, TLC

CONSTANTS Part,         \* "rx" or "tx"
          Deviations,   \* subset of AllDeviations
          Roles,        \* rx: roles of the receiving endpoint explored, subset of {"client","server"}
          InitPhases,   \* rx: phases a behaviour may start in (the harness walks a live pair there)
          Reps,         \* rx: how many copies of an unauthentic record arrive back to back, e.g. {1, 4, 5, 101}
          FlipBits,     \* rx: [content type -> number of bits of the genuine record that is flipped]
          Senders,      \* tx: set of concurrent callers of send()
          Limit,        \* tx: path limit in model units (MAX_APP_DATA_RECORD_SIZE)
          Sizes,        \* tx: payload sizes in model units
          Earlies,      \* tx: subset of BOOLEAN - may callers start before the handshake has finished?
          Closes        \* tx: subset of {"none", "end", "mid"} - close() never / after every send() has returned /
                        \*     at any moment: send() calls may race with it and follow it (the state stays
                        \*     Connected after a local close(), so send() keeps working)

AllDeviations == {"Epoch0AppDataDelivered", "Epoch0AlertHonoured", "Epoch0HandshakeAdvances",
                  "PublishBeforeCounters", "AlertUsesHandshakeSeq", "AlertKeepsSeq", "LoadStoreSeq"}
ASSUME Deviations \subseteq AllDeviations
ASSUME Part \in {"rx", "tx"}

VARIABLES
  \* ---- rx
  role,       \* role of the receiving endpoint
  phase,      \* "NoKeys" | "KeysPending" | "Connected" | "Closed" | "Failed"
  delivered,  \* ghost: number of byte strings handed to the upper layer
  wasConn,    \* the endpoint has been Connected (it can have sent ApplicationData of its own)
  last,       \* the last step: [kind |-> "init" | "progress" | "recv", rec |-> record, pre |-> phase before]
  hist,       \* ghost: <<[rec, to]>> - the records received so far and the phase after each
  \* ---- tx
  plan,       \* [Senders -> Sizes]: payload size each caller submits
  early, withClose,
  hs,         \* handshake task: "fin" -> ... -> "done" -> "closed"
  ctxSeq,     \* HandshakeContext.sequence_number (epoch 1 part)
  wEpoch, wSeq,   \* DtlsInner.write_epoch / write_seq (atomics)
  connected,  \* DtlsInner.state is Connected (what send() checks)
  spc,        \* [Senders -> [pc, e, s, left, off]]
  wire        \* set of records put on the wire; (ct, by, i) identifies a record

rxvars == <<role, phase, wasConn, delivered, last, hist>>
txvars == <<plan, early, withClose, hs, ctxSeq, wEpoch, wSeq, connected, spc, wire>>
vars   == <<rxvars, txvars>>
\* hist, last and the delivery counter do not influence any future step
view   == <<role, phase, wasConn, txvars>>

Dev(d) == d \in Deviations

---------------------------------------------------------------------------
(* Receiver                                                                 *)

CT     == {"AppData", "AlertClose", "AlertOther", "Handshake", "CCS"}
Src    == {"peer", "stranger"}
Phases == {"NoKeys", "KeysPending", "Connected", "Closed"}

KeysExist(ph) == ph \in {"KeysPending", "Connected", "Closed"}

\* What exists on a live pair (this is also what the replayer can build):
\* the negotiated keys are visible once one endpoint is Connected; the peer of a
\* client that still waits for the final flight is Connected, the peer of a
\* server in that position is not.
HaveKeys(r, ph)   == ph \in {"Connected", "Closed"} \/ (ph = "KeysPending" /\ r = "client")
GenuineApp(r, ph) == HaveKeys(r, ph)              \* the peer can send() a genuine ApplicationData record
GenuineFin(r, ph) == KeysExist(ph)                \* the peer's Finished record is on the wire
OwnApp(r, ph)     == ph = "Connected" \/ (ph = "Closed" /\ wasConn)   \* (closed while still handshaking: nothing sent)
OwnFin(r, ph)     == (r = "client" /\ KeysExist(ph)) \/ (r = "server" /\ ph \in {"Connected", "Closed"})
HasBase(r, ph, c) == CASE c = "AppData"   -> GenuineApp(r, ph)
                       [] c = "Handshake" -> GenuineFin(r, ph)
                       [] OTHER           -> HaveKeys(r, ph)

TruncHows   == {"tail1", "tail16", "short", "empty", "nolenfix"}
\* the unauthentic record that shares a datagram with an authentic ApplicationData record
BadKinds    == {"e0-app", "e0-close", "badtag", "wrongkey"}
RewriteHows == {"hdr", "nonce"}
PlainHs     == {"e0-hs-dup", "e0-hs-finished", "e0-hs-finished-next", "e0-hs-cert", "e0-hs-cert-next",
                "e0-hs-hvr", "e0-hs-hvr-next"}

Rec(c, k, s, p, h) == [ct |-> c, cls |-> k, src |-> s, pos |-> p, how |-> h, rep |-> 1]

\* authenticity classes; "pos" is a bit position for e1-flip, "how" a variant for trunc / rewrite
Records1(r, ph) ==
  LET S == Src IN
       { Rec(c, "e0-plain", s, -1, "")   : c \in CT, s \in S }
  \cup { Rec(c, "e1-wrongkey", s, -1, "") : c \in CT, s \in S }
  \cup { Rec("Handshake", "e0-hs-dup", s, -1, "") : s \in S }
  \cup (IF KeysExist(ph)
        THEN { Rec("Handshake", k, s, -1, "") : k \in PlainHs \ {"e0-hs-dup"}, s \in S } ELSE {})
  \cup { Rec(c, "e1-auth", s, -1, "") : c \in {x \in CT : HaveKeys(r, ph) \/ (ph = "KeysPending" /\ x = "Handshake")},
                                         s \in (IF HaveKeys(r, ph) THEN S ELSE {"peer"}) }
  \cup { Rec(c, "e1-replay", s, -1, "") : c \in {x \in {"AppData", "Handshake"} :
                                                    \/ x = "AppData" /\ GenuineApp(r, ph)
                                                    \* (the Finished has been processed: otherwise it is not a replay)
                                                    \/ x = "Handshake" /\ ph \in {"Connected", "Closed"} /\ wasConn},
                                           s \in S }
  \cup { Rec(c, "e1-badtag", s, -1, "") : c \in {x \in CT : HasBase(r, ph, x)}, s \in S }
  \cup { Rec(c, "e1-trunc", s, -1, h)   : c \in {x \in CT : HasBase(r, ph, x)}, s \in S, h \in TruncHows }
  \cup { Rec(c, "e2-rewrite", s, -1, h) : c \in {x \in CT : HasBase(r, ph, x)}, s \in S, h \in RewriteHows }
  \cup UNION { { Rec(c, "e1-flip", s, p, "") : p \in 0..(FlipBits[c] - 1), s \in S }
               : c \in {x \in CT : HasBase(r, ph, x)} }
  \cup { Rec(c, "e1-swapkey", s, -1, "") : c \in {x \in CT : HaveKeys(r, ph)}, s \in S }
  \cup { Rec(c, "e2-sealed", s, -1, "")  : c \in {x \in CT : HaveKeys(r, ph)}, s \in S }
  \cup { Rec(c, "e1-reflect", s, -1, "") : c \in {x \in {"AppData", "Handshake"} :
                                                     \/ x = "AppData" /\ OwnApp(r, ph)
                                                     \/ x = "Handshake" /\ OwnFin(r, ph)},
                                            s \in S }
  \cup { Rec(c, "e1-retype", s, -1, "")  : c \in {x \in CT : \/ x # "Handshake" /\ GenuineFin(r, ph)
                                                             \/ x = "Handshake" /\ GenuineApp(r, ph)},
                                            s \in S }
  \* two records in one datagram: an unauthentic one before / after an authentic ApplicationData record
  \cup (IF HaveKeys(r, ph)
        THEN { Rec("AppData", k, s, -1, h) : k \in {"dg-bad+auth", "dg-auth+bad"}, s \in S, h \in BadKinds }
        ELSE {})

\* representative flip positions that are also repeated (first/last header bit, the low epoch bit,
\* one bit of the sequence number, first nonce bit, first body bit, last tag bit)
RepFlip(rec) == rec.pos \in {0, 7, 39, 100, 104, 168, FlipBits[rec.ct] - 1}

\* the same unauthentic record class `rep` times back to back, observed after the last copy: a drop that
\* only covers the first few failures (rate-limited handling) shows up for rep > 3
RepsFor(rec) == IF rec.cls \in {"e1-auth", "e1-replay", "e2-sealed", "dg-bad+auth", "dg-auth+bad", "start", "derive-keys"}
                   \/ (rec.cls = "e1-flip" /\ ~RepFlip(rec))
                THEN {1} ELSE Reps
Records(r, ph) == UNION { { [rec EXCEPT !.rep = k] : k \in RepsFor(rec) } : rec \in Records1(r, ph) }

\* "decrypts and authenticates under the negotiated keys" (a replay and a record
\* sealed for a later epoch do - the property does not speak about either)
Authentic(rec) == rec.cls \in {"e1-auth", "e1-replay", "e2-sealed"}
\* number of authentic ApplicationData records in the datagram
AuthApps(rec)  == IF rec.ct = "AppData" /\ (Authentic(rec) \/ rec.cls \in {"dg-bad+auth", "dg-auth+bad"}) THEN 1 ELSE 0

\* region of the flipped bit (13-byte header, 8-byte explicit nonce, body, 16-byte tag)
Region(rec) == IF rec.cls # "e1-flip" THEN ""
               ELSE IF rec.pos < 104 THEN "header"
               ELSE IF rec.pos < 168 THEN "nonce"
               ELSE IF rec.pos >= FlipBits[rec.ct] - 128 THEN "tag" ELSE "body"

\* ---- what the design allows a record to do: a set of (delivery count, next phase) pairs,
\* and the rule that speaks about it.  "C03" rules are the property; "EXT" goes beyond it.
Free(ph) == {ph, "Closed", "Failed"}

Effects(r, ph, rec) ==
  IF ~KeysExist(ph)
  THEN \* before keys exist the property is silent; plaintext ApplicationData is still never valid
       [delta |-> {0}, next |-> {"NoKeys", "Failed"},
        drule |-> "EXT", srule |-> "EXT"]
  ELSE IF rec.cls = "dg-bad+auth"
  THEN \* the unauthentic part changes nothing; whether parsing goes on to the authentic part is free
       [delta |-> {0, 1}, next |-> {ph}, drule |-> "OnlyAuthentic", srule |-> "OnlyAuthentic"]
  ELSE IF rec.cls = "dg-auth+bad"
  THEN [delta |-> IF ph = "Connected" THEN {1} ELSE {0, 1}, next |-> {ph}, drule |-> "EXT", srule |-> "OnlyAuthentic"]
  ELSE IF ~Authentic(rec)
  THEN [delta |-> {0}, next |-> {ph}, drule |-> "OnlyAuthentic", srule |-> "OnlyAuthentic"]
  ELSE IF rec.cls = "e1-auth"
  THEN CASE rec.ct = "AppData"    -> [delta |-> IF ph = "Connected" THEN {1} ELSE {0, 1}, next |-> {ph},
                                      drule |-> "EXT", srule |-> "EXT"]
         [] rec.ct = "AlertClose" -> [delta |-> {0}, next |-> {"Closed"}, drule |-> "OnlyAuthentic", srule |-> "EXT"]
         [] rec.ct = "AlertOther" -> [delta |-> {0}, next |-> Free(ph), drule |-> "OnlyAuthentic", srule |-> "EXT"]
         [] rec.ct = "Handshake"  -> [delta |-> {0}, next |-> IF ph = "KeysPending" THEN {"Connected"} ELSE {ph},
                                      drule |-> "OnlyAuthentic", srule |-> "EXT"]
         [] OTHER                 -> [delta |-> {0}, next |-> {ph}, drule |-> "OnlyAuthentic", srule |-> "EXT"]
  ELSE \* replay of a genuine record, or sealed for epoch 2: authentic by the letter of the property
       [delta |-> IF rec.ct = "AppData" THEN {0, 1} ELSE {0},
        next  |-> IF rec.ct \in {"AlertClose", "AlertOther"} THEN Free(ph) ELSE {ph},
        drule |-> IF rec.ct = "AppData" THEN "EXT" ELSE "OnlyAuthentic", srule |-> "EXT"]

\* the pinned code: try_decrypt_record hands back the payload of ANY epoch-0 record
DeviantEffects(r, ph, rec) ==
  IF KeysExist(ph) /\ rec.cls = "e0-plain" /\ rec.ct = "AppData" /\ Dev("Epoch0AppDataDelivered")
  THEN {<<1, ph>>}
  ELSE IF KeysExist(ph) /\ rec.cls = "e0-plain" /\ rec.ct = "AlertClose" /\ Dev("Epoch0AlertHonoured")
  THEN {<<0, "Closed">>}
  ELSE IF KeysExist(ph) /\ Dev("Epoch0HandshakeAdvances")
          /\ \/ rec.cls \in {"e0-hs-finished", "e0-hs-cert"} /\ ph = "KeysPending"
             \/ rec.cls \in {"e0-hs-finished-next", "e0-hs-cert-next"} /\ ph \in {"Connected", "Closed"}
  THEN {<<0, "Failed">>}
  ELSE {}

Step(rec, to) == [rec |-> rec, to |-> to]

RxInit ==
  /\ role \in Roles
  /\ phase \in InitPhases
  /\ delivered = 0
  /\ wasConn = (phase \in {"Connected", "Closed"})
  /\ last = [kind |-> "init", rec |-> Rec("", "", "", -1, ""), pre |-> "NoKeys"]
  /\ hist = << Step(Rec("", "start", "", -1, ""), phase) >>

\* the genuine plaintext flights are processed and the keys derived
Progress ==
  /\ phase = "NoKeys"
  /\ phase' = "KeysPending"
  /\ last' = [kind |-> "progress", rec |-> Rec("", "", "", -1, ""), pre |-> phase]
  /\ hist' = Append(hist, Step(Rec("", "derive-keys", "", -1, ""), phase'))
  /\ UNCHANGED <<role, delivered, wasConn>>

Recv(rec) ==                       \* rec \in Records(role, phase), see RxNext
  /\ phase \in Phases
  /\ LET e == Effects(role, phase, rec) IN
     \/ \E d \in e.delta, n \in e.next : delivered' = delivered + d /\ phase' = n
     \/ \E x \in DeviantEffects(role, phase, rec) : delivered' = delivered + x[1] /\ phase' = x[2]
  /\ last' = [kind |-> "recv", rec |-> rec, pre |-> phase]
  /\ hist' = Append(hist, Step(rec, phase'))
  /\ wasConn' = (wasConn \/ phase' = "Connected")
  /\ UNCHANGED role

RxNext == Progress \/ \E rec \in Records(role, phase) : Recv(rec)

(* C03, first sentence *)
OnlyAuthentic ==
  [][ (last'.kind = "recv" /\ KeysExist(phase) /\ ~Authentic(last'.rec))
        => (delivered' - delivered \in 0..AuthApps(last'.rec) /\ phase' = phase) ]_rxvars

---------------------------------------------------------------------------
(* Sender                                                                   *)

Chunks(n)    == (n + Limit - 1) \div Limit
ChunkLen(n, i) == IF i < Chunks(n) THEN Limit ELSE n - Limit * (Chunks(n) - 1)   \* i = 1..Chunks(n)

Idle == [pc |-> "idle", e |-> 0, s |-> 0, left |-> 0, i |-> 0]

TxInit ==
  /\ plan \in [Senders -> Sizes]
  /\ \A p, q \in Senders : p < q => plan[p] <= plan[q]      \* callers are symmetric
  /\ early \in Earlies /\ withClose \in Closes
  /\ hs = "fin" /\ ctxSeq = 0 /\ wEpoch = 0 /\ wSeq = 0 /\ connected = FALSE
  /\ spc = [p \in Senders |-> Idle]
  /\ wire = {}

Emit(ctype, e, s, len, who, idx) ==
  wire' = wire \cup {[ct |-> ctype, epoch |-> e, seq |-> s, len |-> len, by |-> who, i |-> idx]}

\* ---- handshake task (handle_finished)
HsSendFinished ==          \* the Finished record: epoch 1, sequence 0 of the handshake context
  /\ hs = "fin"
  /\ Emit("Finished", 1, ctxSeq, 1, 0, 0)
  /\ ctxSeq' = ctxSeq + 1
  /\ hs' = IF Dev("PublishBeforeCounters") THEN "pub-first" ELSE "store"
  /\ UNCHANGED <<plan, early, withClose, wEpoch, wSeq, connected, spc>>
HsStore ==                 \* design: counters first ...
  /\ hs = "store"
  /\ wEpoch' = 1 /\ wSeq' = ctxSeq
  /\ hs' = "publish"
  /\ UNCHANGED <<plan, early, withClose, ctxSeq, connected, spc, wire>>
HsPublish ==               \* ... state second
  /\ hs = "publish"
  /\ connected' = TRUE
  /\ hs' = "done"
  /\ UNCHANGED <<plan, early, withClose, ctxSeq, wEpoch, wSeq, spc, wire>>
\* pinned code: *state.lock() = Connected; write_epoch.store(..); write_seq.store(..)
HsPubFirst ==
  /\ hs = "pub-first" /\ connected' = TRUE /\ hs' = "store-epoch"
  /\ UNCHANGED <<plan, early, withClose, ctxSeq, wEpoch, wSeq, spc, wire>>
HsStoreEpoch ==
  /\ hs = "store-epoch" /\ wEpoch' = 1 /\ hs' = "store-seq"
  /\ UNCHANGED <<plan, early, withClose, ctxSeq, wSeq, connected, spc, wire>>
HsStoreSeq ==
  /\ hs = "store-seq" /\ wSeq' = ctxSeq /\ hs' = "done"
  /\ UNCHANGED <<plan, early, withClose, ctxSeq, wEpoch, connected, spc, wire>>

\* ---- send(): state check, then per chunk load epoch, fetch_add sequence, emit
Begin(p) ==
  /\ spc[p].pc = "idle"
  /\ connected                       \* otherwise send() returns Err("DTLS not connected") and nothing happens
  /\ (early \/ hs \in {"done", "closed"})       \* after a local close() the state is still Connected
  /\ spc' = [spc EXCEPT ![p] = IF Chunks(plan[p]) = 0 THEN [Idle EXCEPT !.pc = "finished"]
                                ELSE [pc |-> "load", e |-> 0, s |-> 0, left |-> Chunks(plan[p]), i |-> 1]]
  /\ UNCHANGED <<plan, early, withClose, hs, ctxSeq, wEpoch, wSeq, connected, wire>>
LoadEpoch(p) ==
  /\ spc[p].pc = "load"
  /\ spc' = [spc EXCEPT ![p].e = wEpoch, ![p].pc = "alloc"]
  /\ UNCHANGED <<plan, early, withClose, hs, ctxSeq, wEpoch, wSeq, connected, wire>>
FetchAdd(p) ==
  /\ spc[p].pc = "alloc" /\ ~Dev("LoadStoreSeq")
  /\ spc' = [spc EXCEPT ![p].s = wSeq, ![p].pc = "emit"]
  /\ wSeq' = wSeq + 1
  /\ UNCHANGED <<plan, early, withClose, hs, ctxSeq, wEpoch, connected, wire>>
\* a non-atomic allocation (mutation class; not the pinned code)
SeqLoad(p) ==
  /\ spc[p].pc = "alloc" /\ Dev("LoadStoreSeq")
  /\ spc' = [spc EXCEPT ![p].s = wSeq, ![p].pc = "seqstore"]
  /\ UNCHANGED <<plan, early, withClose, hs, ctxSeq, wEpoch, wSeq, connected, wire>>
SeqStore(p) ==
  /\ spc[p].pc = "seqstore"
  /\ wSeq' = spc[p].s + 1
  /\ spc' = [spc EXCEPT ![p].pc = "emit"]
  /\ UNCHANGED <<plan, early, withClose, hs, ctxSeq, wEpoch, connected, wire>>
EmitChunk(p) ==
  /\ spc[p].pc = "emit"
  /\ Emit("AppData", spc[p].e, spc[p].s, ChunkLen(plan[p], spc[p].i), p, spc[p].i)
  /\ spc' = [spc EXCEPT ![p] = IF spc[p].left = 1 THEN [Idle EXCEPT !.pc = "finished"]
                                ELSE [spc[p] EXCEPT !.pc = "load", !.left = @ - 1, !.i = @ + 1]]
  /\ UNCHANGED <<plan, early, withClose, hs, ctxSeq, wEpoch, wSeq, connected>>

\* ---- close(): close_notify alert from the handshake task
\* the run loop takes the close signal at any moment once connected ("mid"): send() calls that are in
\* flight race with the alert's allocation, and calls that begin afterwards follow it
Close ==
  /\ withClose # "none" /\ hs = "done"
  /\ withClose = "end" => \A p \in Senders : spc[p].pc = "finished"
  /\ IF Dev("AlertUsesHandshakeSeq")
     THEN Emit("Alert", 1, ctxSeq, 1, 0, 0) /\ UNCHANGED wSeq
     ELSE IF Dev("AlertKeepsSeq")                  \* reads the counter without advancing it
     THEN Emit("Alert", wEpoch, wSeq, 1, 0, 0) /\ UNCHANGED wSeq
     ELSE Emit("Alert", wEpoch, wSeq, 1, 0, 0) /\ wSeq' = wSeq + 1
  /\ hs' = "closed"
  /\ UNCHANGED <<plan, early, withClose, ctxSeq, wEpoch, connected, spc>>

TxNext ==
  \/ HsSendFinished \/ HsStore \/ HsPublish \/ HsPubFirst \/ HsStoreEpoch \/ HsStoreSeq \/ Close
  \/ \E p \in Senders : Begin(p) \/ LoadEpoch(p) \/ FetchAdd(p) \/ SeqLoad(p) \/ SeqStore(p) \/ EmitChunk(p)

(* C03, second sentence *)
NonceUnique    == \A r1, r2 \in wire : r1 # r2 => <<r1.epoch, r1.seq>> # <<r2.epoch, r2.seq>>
EpochProtected == \A r \in wire : r.epoch >= 1
RecordLimit    == \A r \in wire : r.len <= Limit
\* every submitted payload is carried completely by ceil(n/Limit) records
Carried == \A p \in Senders : spc[p].pc = "finished" =>
             LET mine == {r \in wire : r.by = p} IN
             /\ Cardinality(mine) = Chunks(plan[p])
             /\ \A k \in 1..Chunks(plan[p]) : \E r \in mine : r.i = k /\ r.len = ChunkLen(plan[p], k)
TxDone == hs \in {"done", "closed"} /\ (withClose # "none" => hs = "closed") /\ \A p \in Senders : spc[p].pc = "finished"

---------------------------------------------------------------------------
Init == IF Part = "rx"
        THEN RxInit /\ plan = [p \in Senders |-> 0] /\ early = FALSE /\ withClose = "none" /\ hs = "fin" /\ ctxSeq = 0
             /\ wEpoch = 0 /\ wSeq = 0 /\ connected = FALSE /\ spc = [p \in Senders |-> Idle] /\ wire = {}
        ELSE TxInit /\ role = "client" /\ phase = "NoKeys" /\ delivered = 0 /\ wasConn = FALSE /\ hist = <<>>
             /\ last = [kind |-> "init", rec |-> Rec("", "", "", -1, ""), pre |-> "NoKeys"]

Next == IF Part = "rx" THEN RxNext /\ UNCHANGED txvars ELSE TxNext /\ UNCHANGED rxvars

Spec == Init /\ [][Next]_vars

TypeOK ==
  /\ role \in {"client", "server"} /\ phase \in Phases \cup {"Failed"} /\ delivered \in Nat /\ wasConn \in BOOLEAN
  /\ wEpoch \in 0..1 /\ wSeq \in Nat /\ ctxSeq \in Nat /\ connected \in BOOLEAN
  /\ \A r \in wire : r.epoch \in 0..1 /\ r.seq \in Nat /\ r.len \in 0..(Limit + 1)
=============================================================================
