------------------------------ MODULE SctpBatch ------------------------------
(***************************************************************************)
(* The packet batcher of sctp.rs (transmit_chunks_with_tag): chunks of one *)
(* flush are appended to the current packet while common header + chunks   *)
(* stay within 1200 bytes; otherwise the packet is sent and a new one is   *)
(* started.  The arithmetic is a pure function of the padded chunk sizes,  *)
(* so TLC enumerates it: a burst of Burst equal messages of payload        *)
(* length p (every p in Payloads), one chunk each.                         *)
(*                                                                         *)
(* Invariant PacketFits (C13: every packet fits the 1200-byte path limit). *)
(* Generator: at the end of each burst the lengths of the first and of the *)
(* later packets are printed; the driver runs the bursts that fill a       *)
(* packet to within one word of the limit.                                 *)
(* Deviation "ResetToChunkHeader": after a flush the running length        *)
(* restarts at the chunk-header size (4) instead of the common-header size *)
(* (12): later packets admit 8 more bytes.                                 *)
(***************************************************************************)
EXTENDS Naturals, Sequences, TLC, Json

CONSTANTS Payloads, Burst, Deviations

MTU == 1200
Common == 12
ChunkHdr == 4
Pad(n) == (4 - (n % 4)) % 4
Wire(p) == 16 + p + Pad(16 + p)          \* DATA chunk: 4 (chunk header) + 12 (TSN, stream, SSN, PPID) + payload, padded
Restart == IF "ResetToChunkHeader" \in Deviations THEN ChunkHdr ELSE Common

VARIABLES p, i, cur, real, nInPkt, firstLen, laterMax, flushed
\* cur: the batcher's running length; real: the true length of the packet being built
vars == <<p, i, cur, real, nInPkt, firstLen, laterMax, flushed>>

Init == /\ p \in Payloads /\ i = 0 /\ cur = Common /\ real = Common /\ nInPkt = 0
        /\ firstLen = 0 /\ laterMax = 0 /\ flushed = 0

Record(len) == IF flushed = 0 THEN /\ firstLen' = len /\ UNCHANGED laterMax
               ELSE /\ laterMax' = (IF len > laterMax THEN len ELSE laterMax) /\ UNCHANGED firstLen

AddChunk ==
  /\ i < Burst
  /\ LET c == Wire(p) IN
     IF nInPkt > 0 /\ cur + c > MTU
     THEN \* send the current packet, start the next one with this chunk
          /\ Record(real) /\ flushed' = flushed + 1
          /\ cur' = Restart + c /\ real' = Common + c /\ nInPkt' = 1
     ELSE /\ cur' = cur + c /\ real' = real + c /\ nInPkt' = nInPkt + 1
          /\ UNCHANGED <<firstLen, laterMax, flushed>>
  /\ i' = i + 1 /\ UNCHANGED p

\* end of the flush: the last packet leaves
Finish ==
  /\ i = Burst /\ nInPkt > 0
  /\ Record(real) /\ flushed' = flushed + 1
  /\ nInPkt' = 0 /\ UNCHANGED <<p, i, cur, real>>

Next == AddChunk \/ Finish
Spec == Init /\ [][Next]_vars

PacketFits == real <= MTU /\ firstLen <= MTU /\ laterMax <= MTU

Done == i = Burst /\ nInPkt = 0
EmitBurst == Done => PrintT(<<"BURST", ToJson([p |-> p, n |-> Burst, first |-> firstLen, later |-> laterMax, pkts |-> flushed])>>)
NoEmit == TRUE
=============================================================================
