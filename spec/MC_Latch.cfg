SPECIFICATION Spec
CONSTANTS
  Addrs = {"A", "B", "C"}
  SeqAlpha = {0, 1, 65535}
  MaxPks = {0, 1, 2, 3}
  MaxLen = 5
  InitRemotes = {"A", "Unset"}
  Deviations = {}
VIEW view
INVARIANTS TypeOK Bounded BoundedImmediate
PROPERTIES Legit CommitRule Sticky RtcpOnly NonRtcpKeepsRtcp PairPreserves
ACTION_CONSTRAINT NoEmit
CHECK_DEADLOCK FALSE
