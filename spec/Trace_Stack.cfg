SPECIFICATION TraceSpec
CONSTRAINT Furthest
POSTCONDITION Post
CHECK_DEADLOCK FALSE
