----------------------------- MODULE MC_Inputs -----------------------------
(* Bounded model + generator for Inputs.tla.                                *)
(* GRAMMAR lines: the wire grammar of every template used by the explored   *)
(* entry points (printed once).  CASE lines: one per (entry, phase, input   *)
(* class) edge TLC generates, with the history that reaches the phase and   *)
(* what the contract allows afterwards.                                     *)
EXTENDS Inputs, Json

UsedTemplates == UNION {TplsOf(e) : e \in Entries}

GrammarRec(t) == [tpl |-> t, leaves |-> Leaves(t)]
EmitGrammar == \A t \in UsedTemplates : PrintT(<<"GRAMMAR", ToJson(GrammarRec(t))>>)
ASSUME EmitGrammar
ASSUME PrintT(<<"BOUNDS", ToJson([bounds |-> [cpu_ms |-> CpuBoundMs, alloc_factor |-> AllocFactor, alloc_slack |-> AllocSlack]])>>)

CaseRec ==
  [ entry |-> ent, kind |-> Entry(ent).kind, phase |-> phase, pre |-> hist,
    tpl |-> last'.tpl, field |-> last'.field, idx |-> last'.idx, mut |-> last'.mut,
    allowed |-> [ res  |-> {"value", "error"},
                  post |-> (AtOrAfter(ent, phase) \cup (IF Entry(ent).kind = "endpoint" THEN Terminal ELSE {})) ] ]

\* one line per input class and pre-state: the successor that keeps the phase is the representative
EmitCase == IF last'.kind = "feed" /\ (phase' = phase \/ phase' = "crashed")
            THEN PrintT(<<"CASE", ToJson(CaseRec)>>) ELSE TRUE
\* simulation (sequences of inputs): only the successor that keeps the phase is followed, so that the phase in a
\* printed case is the one the genuine traffic of its history establishes; every edge out of every visited state is printed
EmitCaseSim == (last'.kind = "feed" => phase' = phase) /\ EmitCase
NoEmit   == TRUE
=============================================================================
