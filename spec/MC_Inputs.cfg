SPECIFICATION Spec
CONSTANTS
  Entries = {"rtp", "rtcp", "stun", "dtls_record", "dtls_hsmsg", "dtls_clienthello", "dtls_serverhello", "dtls_hvr", "dtls_ske", "dtls_cert", "dtls_cke", "dtls_finished", "dcep"}
  Muts = {"trunc_before", "trunc_before_fix", "trunc_inside", "trunc_inside_fix", "len_0", "len_m1", "len_p1", "len_max", "count_0", "count_p1", "count_max", "tag_unknown", "dup", "dup_fill", "empty"}
  MaxFeeds = 1
  Deviations = {}
VIEW view
INVARIANTS TypeOK NoCrash InputEnabled
PROPERTIES TotalStep
ACTION_CONSTRAINT NoEmit
CHECK_DEADLOCK FALSE
