------------------------------ MODULE MC_Srtp ------------------------------
(* Bounded model + replay generator for Srtp.tla.                           *)
(* EmitEdge (ACTION_CONSTRAINT with a print side effect) writes one JSON    *)
(* line per (state, action) pair TLC generates: the configuration, a        *)
(* history reaching the pre-state, the action with the outcome the model    *)
(* expects, the receiver state after it, and the probe set: which of the    *)
(* genuine packets must still be accepted from the post-state.              *)
EXTENDS Srtp, Json, SequencesExt

CtxRow(t, k) == <<k, IF t[k].on THEN 1 ELSE 0, t[k].roc, t[k].last, t[k].rtcp, IF t[k].idle THEN 1 ELSE 0>>
B(b) == IF b THEN 1 ELSE 0

\* genuine packets already produced: <<proto, ssrc, idx, must, would>> evaluated in the post-state
ProbeRow(t, p) ==
  LET c == IF t[p.ssrc].on THEN t[p.ssrc] ELSE FreshCtx IN
  IF p.proto = "rtp"
  THEN <<"rtp", p.ssrc, p.idx, B(MustAcceptIdx(c, p.idx)), B(WouldAcceptIdx(c, p.idx)), B(IdealMustAt(ideal', p.ssrc, p.idx))>>
  ELSE <<"rtcp", p.ssrc, p.idx, 1, 1, 1>>

\* the stream's next packet (+1 beyond the sender's highest), if the bounded sender may produce it
NextRow(t, s) ==
  LET i == sHi'[s] + 1
      c == IF t[s].on THEN t[s] ELSE FreshCtx
  IN IF sHi'[s] >= 0 /\ i <= TopIdx
     THEN <<s, i, B(MustAcceptIdx(c, i)), B(WouldAcceptIdx(c, i))>>
     ELSE <<s, -1, 0, 0>>

EdgeRec ==
  [ cfg  |-> [bits |-> SeqBits, wm |-> Watermark, rocmod |-> RocMod, table |-> B(WithTick),
              start |-> SetToSeq({<<s, start[s]>> : s \in Ssrcs})],
    pre  |-> hist,
    act  |-> hist'[Len(hist')],
    est  |-> step'.est,
    imust |-> B(step'.imust),
    exp  |-> [ unchanged |-> B(Crypto(rx') = Crypto(rx)),
               same      |-> B(rx' = rx),
               post      |-> SetToSeq({CtxRow(rx', k) : k \in AllSsrcs}),
               probes    |-> SetToSeq({ProbeRow(rx', p) : p \in sent'}),
               next      |-> SetToSeq({NextRow(rx', s) : s \in Ssrcs}),
               tx        |-> SetToSeq({<<s, sHi'[s], sRtcp'[s]>> : s \in Ssrcs}) ] ]

EmitEdge == PrintT(<<"EDGE", ToJson(EdgeRec)>>)
NoEmit   == TRUE
=============================================================================
