------------------------------ MODULE MC_Srtp ------------------------------
(* Bounded model + replay generator for Srtp.tla.                           *)
(* EmitEdge (ACTION_CONSTRAINT with a print side effect) writes one JSON    *)
(* line per (state, action) pair TLC generates: the configuration, a        *)
(* history reaching the pre-state, the action with the outcome the model    *)
(* expects, the receiver state after it, and the probe set: which of the    *)
(* genuine packets must still be accepted from the post-state.              *)
EXTENDS Srtp, Json, SequencesExt

\* how the replayer embeds model values into real ones: "low" (ROC from 0, SRTCP index from 0), "highroc" (model ROC
\* 0..MaxRoc -> real 2^32-1-MaxRoc .. 2^32-1), "rtcptop" (model SRTCP index RtcpTop -> real 2^31-1), "rtcppos" (the stream has already sent RtcpBase SRTCP packets:
\* model SRTCP index w -> real RtcpBase + w; positions around 2^16 and 2^24, where index bytes move in the IV / nonce)
CONSTANTS Embed, RtcpBase

CtxRow(t, k) == <<k, IF t[k].on THEN 1 ELSE 0, t[k].roc, t[k].last, t[k].rtcp, IF t[k].idle THEN 1 ELSE 0>>
B(b) == IF b THEN 1 ELSE 0

\* genuine packets already produced: <<proto, ssrc, idx, must, would, idealmust, txok>> evaluated in the post-state
\* (txok = the sender context put the index the application meant on the wire)
ProbeRow(t, p) ==
  LET c == IF t[p.ssrc].on THEN t[p.ssrc] ELSE FreshCtx IN
  IF p.proto = "rtp"
  THEN <<"rtp", p.ssrc, p.idx, B(MustAcceptIdx(c, p.idx) /\ p.widx = p.idx),
         B(EstimateRoc(c.roc, c.last, SeqNo(p.widx)) = RocNo(p.widx)),
         B(IdealMustAt(ideal', p.ssrc, p.idx)), B(p.widx = p.idx)>>
  ELSE <<"rtcp", p.ssrc, p.idx, 1, 1, 1, 1>>

\* the stream's next packet (+1 beyond the application's highest), if the bounded sender may produce it
NextRow(t, s) ==
  LET i  == sHi'[s] + 1
      c  == IF t[s].on THEN t[s] ELSE FreshCtx
      cs == IF tx'[s].on THEN tx'[s] ELSE FreshCtx
      w  == EstimateRoc(cs.roc, cs.last, SeqNo(i)) * M + SeqNo(i)
  IN IF sHi'[s] >= 0 /\ i <= TopIdx
     THEN <<s, i, B(MustAcceptIdx(c, i) /\ w = i), B(EstimateRoc(c.roc, c.last, SeqNo(w)) = RocNo(w))>>
     ELSE <<s, -1, 0, 0>>

EdgeRec ==
  [ cfg  |-> [bits |-> SeqBits, wm |-> Watermark, rocmod |-> RocMod, table |-> B(WithTick), opendev |-> B("EvictLosesState" \in Deviations), embed |-> Embed, rtcptop |-> RtcpTop, rtcpbase |-> RtcpBase,
              start |-> SetToSeq({<<s, start[s]>> : s \in Ssrcs})],
    pre  |-> hist,
    act  |-> hist'[Len(hist')],
    est  |-> step'.est,
    imust |-> B(step'.imust),
    exp  |-> [ unchanged |-> B(Crypto(rx') = Crypto(rx)),
               same      |-> B(rx' = rx),
               post      |-> SetToSeq({CtxRow(rx', k) : k \in AllSsrcs}),
               probes    |-> SetToSeq({ProbeRow(rx', p) : p \in sent'}),
               next      |-> SetToSeq({NextRow(rx', s) : s \in Ssrcs}),
               tx        |-> SetToSeq({<<s, B(tx'[s].on), tx'[s].roc, tx'[s].last, tx'[s].rtcp>> : s \in Ssrcs}) ] ]

EmitEdge == PrintT(<<"EDGE", ToJson(EdgeRec)>>)
NoEmit   == TRUE
=============================================================================
