----------------------------- MODULE SctpAssoc -----------------------------
(***************************************************************************)
(* SCTP association + data channels of src/transports/sctp.rs, contract    *)
(* level.  Two endpoints "A" (client, sends INIT) and "B" (server).        *)
(*                                                                         *)
(* One action per handler of the run loop:                                 *)
(*   SendInit        send_init                                             *)
(*   RecvInit        handle_init                                           *)
(*   RecvInitAck     handle_init_ack                                       *)
(*   RecvCookieEcho  handle_cookie_echo                                    *)
(*   RecvCookieAck   handle_cookie_ack                                     *)
(*   T1Expire        handle_t1_timeout                                     *)
(*   AppSend         send_data_raw (SSN under the channel send lock,       *)
(*                   fragments enqueued contiguously)                      *)
(*   TransmitNew     transmit(), new-data phase                            *)
(*   Rtx             transmit(), retransmit phase (after T3 / fast rtx /   *)
(*                   TLP marked the chunk)                                 *)
(*   Abandon         update_advanced_peer_ack_point + FORWARD-TSN          *)
(*   RecvData        handle_data + process_data_payload                    *)
(*   RecvSack        handle_sack / apply_sack_to_sent_queue                *)
(*   RecvFwd         handle_forward_tsn                                    *)
(*                                                                         *)
(* The receive-side and SACK operators (RxData, RxForward, ApplySack, ...) *)
(* are pure and are shared with Trace_SctpAssoc.tla, which replays logs of *)
(* the real endpoints through them.                                        *)
(*                                                                         *)
(* The set-up handlers are idempotent once they have done their work       *)
(* (RFC 4960 5.2).  The pinned code's unconditional overwrite is the named *)
(* deviation "SetupOverwrite".                                             *)
(*                                                                         *)
(* Network: NetMode = "set"  - every packet ever sent stays deliverable    *)
(*            any number of times, nothing forces delivery: unbounded      *)
(*            loss / duplication / delay / reordering of every datagram.   *)
(*          NetMode = "fifo" - per-direction FIFO with explicit budgeted   *)
(*            faults (drop, dup, hold/release, late duplicate); used to    *)
(*            generate concrete fault schedules and for liveness.          *)
(***************************************************************************)
EXTENDS SctpOps

CONSTANTS
  Chans,       \* [ch |-> [ord |-> BOOLEAN, pr |-> BOOLEAN]] for ch \in 1..NCh
  Msgs,        \* [Side -> Seq([ch |-> Nat, n |-> Nat])] messages each side's application submits
  InitTsnA, InitTsnB,   \* sets of initial TSNs
  MaxRtx, MaxT1, Win,
  Initiators,  \* sides that send INIT on their own ({"A"}: client / server; {"A", "B"}: INIT collision)
  RtxBurst,    \* chunks a T3 expiry marks for retransmission (the rest is only re-timed); the code's RETRANSMIT_BURST
  Rwnd,        \* receive window in chunks (buffered out-of-order chunks use it up); a large value switches it off
  DelaySack,   \* TRUE: an in-order DATA chunk may be acknowledged later (delayed-SACK timer)
  \* Deviations (declared in SctpOps): subset of {"SetupOverwrite", "DataBeforeEstablished",
  \*   "FwdPlainCompare", "AdvPointWrongSpace", "FwdNotRetransmitted", "PartialAbandon", "StaleSackUpdatesRwnd", "T3OnlyInFlightOrMarked",
  \*   "CollisionReopens", "CookieAckDroppedWhenConnected", "BudgetBeforeRtx"}
  NetMode, Budget,
  Props        \* properties whose rules are switched on

\* Rwnd >= 9 switches the window off: constant advertisement, no bookkeeping (keeps the other models small)
WOn == Rwnd < 9
Side == {"A", "B"}
Peer(s) == IF s = "A" THEN "B" ELSE "A"
NCh == Len(Chans)
ChanIds == 1..NCh
Rule(p, e) == (p \in Props) => e

---------------------------------------------------------------------------
VARIABLES
  st,        \* [Side -> {"New","Connecting","Connected","Closed"}]
  t1,        \* [Side -> {"None","Init","Cookie"}]
  t1cnt,
  itsn,      \* [Side -> own initial TSN, M = not chosen yet]
  answered,  \* B answered an INIT (a state cookie exists)
  next,      \* [Side -> next TSN to assign]
  rx,        \* [Side -> receiver state]
  sentQ, outQ,
  sub,       \* [Side -> number of messages submitted]
  ssnOut,    \* [Side -> [ch -> next SSN]]
  deliv,     \* [Side -> [ch -> Seq(msg)]]   what the application received
  opens,     \* [Side -> Nat]  Open events per (negotiated) channel set
  ackPt,     \* [Side -> highest cumulative TSN ack received from the peer] (RFC 3758: updated by SACKs)
  advPt,     \* [Side -> Advanced.Peer.Ack.Point]
  fwd,       \* [Side -> last FORWARD-TSN sent: [on, fr (stream / ssn of the skipped message), n]]
  net, wire, held, lastDel, cnt, faults, budget,
  outage,    \* [Side -> [on, t]]: every DATA packet of that side is lost until a retransmission of chunk t passes
  hole,      \* [Side -> relative TSNs of that side's DATA chunks every transmission of which is lost]
  peerW,     \* [Side -> the peer's advertised window as last learnt (chunks)]
  since,     \* [Side -> new chunks injected since the last SACK that was taken into account]
  sackDue    \* [Side -> a delayed SACK is pending]

vars == <<st, t1, t1cnt, itsn, answered, next, rx, sentQ, outQ, sub, ssnOut, deliv, opens, ackPt, advPt, fwd,
          net, wire, held, lastDel, cnt, faults, budget, hole, outage, peerW, since, sackDue>>

Ordered == [c \in ChanIds |-> Chans[c].ord]

Kinds == {"INIT", "IACK", "CECHO", "CACK", "DATA", "SACK", "FWD", "GSACK", "ZSACK"}
\* o: ordinal among the packets of this kind and direction; g: for a SACK that carries gap blocks, its
\* ordinal among such SACKs (0 otherwise) - a second content address for the same packet
Pkt(k, src, tsn, fr, gaps) == [k |-> k, src |-> src, tsn |-> tsn, fr |-> fr, gaps |-> gaps, o |-> 0, g |-> 0, z |-> 0, w |-> 0]
\* advertised receive window (INIT, INIT-ACK, SACK)
WithW(p, w) == [p EXCEPT !.w = w]
\* a DATA packet is addressed by its TSN relative to the sender's initial TSN and its transmission number
DataPkt(src, tsn, fr, n) == [Pkt("DATA", src, tsn, fr, {}) EXCEPT !.o = n]
\* a SACK by the cumulative TSN it carries, relative to the initial TSN of the side it acknowledges
RelTsn(p) == IF p.k = "DATA" THEN (p.tsn + M - itsn[p.src]) % M
             ELSE IF p.k = "SACK" /\ itsn[Peer(p.src)] # M THEN (p.tsn + 1 + M - itsn[Peer(p.src)]) % M
             ELSE 0

---------------------------------------------------------------------------
(* Network                                                                 *)
IsGapSack(p) == p.k = "SACK" /\ p.gaps # {}
IsZeroSack(p) == p.k = "SACK" /\ p.w = 0      \* third content address: ordinal among SACKs advertising a closed window
Stamp(p) == IF NetMode = "fifo" /\ p.k # "DATA"
            THEN [p EXCEPT !.o = cnt[p.src][p.k] + 1,
                           !.g = IF IsGapSack(p) THEN cnt[p.src]["GSACK"] + 1 ELSE 0,
                           !.z = IF IsZeroSack(p) THEN cnt[p.src]["ZSACK"] + 1 ELSE 0]
            ELSE IF NetMode = "set" THEN [p EXCEPT !.o = 0] ELSE p
Count(c, p) == [c EXCEPT ![p.src][p.k] = @ + 1,
                         ![p.src]["GSACK"] = IF IsGapSack(p) THEN @ + 1 ELSE @,
                         ![p.src]["ZSACK"] = IF IsZeroSack(p) THEN @ + 1 ELSE @]
\* an outage swallows every DATA packet except a retransmission of the chunk it started with (which ends it)
EndsOutage(p) == p.k = "DATA" /\ outage[p.src].on /\ RelTsn(p) = outage[p.src].t /\ p.o >= 2
\* (the ending retransmission first switches the outage off - OutageEnds - and is then handed over)
Holed(p) == p.k = "DATA" /\ (RelTsn(p) \in hole[p.src] \/ outage[p.src].on)
\* packets that may be handed to side `to` now
Avail(to) ==
  IF NetMode = "set" THEN {p \in net : p.src = Peer(to)}
  ELSE IF wire[Peer(to)] # <<>> /\ ~Holed(Head(wire[Peer(to)])) THEN {Head(wire[Peer(to)])} ELSE {}
\* `to` consumed p and sends the packets of `out` (a sequence of length 0 or 1)
NetRecv(to, p, out) ==
  IF NetMode = "set"
  THEN /\ net' = net \cup {out[i] : i \in 1..Len(out)}
       /\ UNCHANGED <<wire, held, lastDel, cnt>>
  ELSE /\ wire' = [wire EXCEPT ![Peer(to)] = Tail(@),
                               ![to] = @ \o [i \in 1..Len(out) |-> Stamp(out[i])]]
       /\ lastDel' = [lastDel EXCEPT ![Peer(to)] = [k |-> p.k, o |-> p.o, t |-> RelTsn(p), g |-> p.g]]
       /\ cnt' = IF out = <<>> THEN cnt ELSE Count(cnt, out[1])
       /\ UNCHANGED <<net, held>>
NetSend(from, p) ==
  IF NetMode = "set"
  THEN /\ net' = net \cup {p}
       /\ UNCHANGED <<wire, held, lastDel, cnt>>
  ELSE /\ wire' = [wire EXCEPT ![from] = Append(@, Stamp(p))]
       /\ cnt' = Count(cnt, p)
       /\ UNCHANGED <<net, held, lastDel>>
NetSame == UNCHANGED <<net, wire, held, lastDel, cnt>>
\* fifo mode: retransmission timers are long compared with the network latency, so they fire only
\* when nothing is in flight (a packet taken aside by Hold is delayed beyond the timer)
TimersMayFire == wire["A"] = <<>> /\ wire["B"] = <<>>
NoFaultW == UNCHANGED <<faults, budget, hole, outage>>
WinSame == UNCHANGED <<peerW, since, sackDue>>
NoFault == NoFaultW /\ WinSame
PrSame == UNCHANGED <<ackPt, advPt, fwd>>

---------------------------------------------------------------------------
Init ==
  /\ st = [s \in Side |-> "New"]
  /\ t1 = [s \in Side |-> "None"]
  /\ t1cnt = [s \in Side |-> 0]
  /\ itsn = [s \in Side |-> M]
  /\ answered = [s \in Side |-> FALSE]
  /\ next = [s \in Side |-> 0]
  /\ rx = [s \in Side |-> EmptyRx(NCh)]
  /\ sentQ = [s \in Side |-> {}]
  /\ outQ = [s \in Side |-> <<>>]
  /\ sub = [s \in Side |-> 0]
  /\ ssnOut = [s \in Side |-> [c \in ChanIds |-> 0]]
  /\ deliv = [s \in Side |-> [c \in ChanIds |-> <<>>]]
  /\ opens = [s \in Side |-> 0]
  /\ ackPt = [s \in Side |-> 0]
  /\ advPt = [s \in Side |-> 0]
  /\ fwd = [s \in Side |-> [on |-> FALSE, fr |-> NoFrag, n |-> 0]]
  /\ net = {}
  /\ wire = [s \in Side |-> <<>>]
  /\ held = [s \in Side |-> {}]
  /\ lastDel = [s \in Side |-> [k |-> "NONE", o |-> 0, t |-> 0, g |-> 0]]
  /\ cnt = [s \in Side |-> [k \in Kinds |-> 0]]
  /\ faults = <<>>
  /\ budget = Budget
  /\ hole = [s \in Side |-> {}]
  /\ outage = [s \in Side |-> [on |-> FALSE, t |-> 0]]
  /\ peerW = [s \in Side |-> 0]
  /\ since = [s \in Side |-> 0]
  /\ sackDue = [s \in Side |-> FALSE]

\* take the messages a handler step produced for the application
Deliver(s, r) ==
  LET RECURSIVE App(_, _)
      App(d, k) == IF k > Len(r.out) THEN d
                   ELSE App([d EXCEPT ![r.out[k].ch] = Append(@, r.out[k].msg)], k + 1)
  IN deliv' = [deliv EXCEPT ![s] = App(@, 1)]
Clr(r) == [r EXCEPT !.out = <<>>]

---------------------------------------------------------------------------
(* Association set-up                                                      *)
\* Both ends may start the association (INIT collision, RFC 4960 5.2.1: browsers do); Initiators says who does.
InitTsnOf(s) == IF s = "A" THEN InitTsnA ELSE InitTsnB

SendInit(s) ==
  /\ s \in Initiators /\ st[s] = "New"
  /\ (IF itsn[s] # M
      THEN \* the peer's INIT was answered first: the tag / initial TSN of that INIT-ACK are this end's
           /\ NetSend(s, WithW(Pkt("INIT", s, itsn[s], NoFrag, {}), Rwnd))
           /\ UNCHANGED <<itsn, next, ackPt, advPt>>
      ELSE \E t \in InitTsnOf(s) :
           /\ itsn' = [itsn EXCEPT ![s] = t]
           /\ next' = [next EXCEPT ![s] = t]
           /\ ackPt' = [ackPt EXCEPT ![s] = Dec(t, M)]
           /\ advPt' = [advPt EXCEPT ![s] = Dec(t, M)]
           /\ NetSend(s, WithW(Pkt("INIT", s, t, NoFrag, {}), Rwnd)))
  /\ st' = [st EXCEPT ![s] = "Connecting"]
  /\ t1' = [t1 EXCEPT ![s] = "Init"]
  /\ UNCHANGED <<t1cnt, answered, rx, sentQ, outQ, sub, ssnOut, deliv, opens, fwd>> /\ NoFault

T1Expire(s) ==
  /\ NetMode = "fifo"            \* in "set" mode the packet is still deliverable: nothing new
  /\ TimersMayFire
  /\ t1[s] # "None" /\ t1cnt[s] < MaxT1
  /\ t1cnt' = [t1cnt EXCEPT ![s] = @ + 1]
  /\ (IF t1[s] = "Init"
      THEN NetSend(s, WithW(Pkt("INIT", s, itsn[s], NoFrag, {}), Rwnd))
      ELSE NetSend(s, Pkt("CECHO", s, 0, NoFrag, {})))
  /\ UNCHANGED <<st, t1, itsn, answered, next, rx, sentQ, outQ, sub, ssnOut, deliv, opens>> /\ PrSame /\ NoFault

RecvInit(s, p) ==
  /\ p \in Avail(s) /\ p.k = "INIT"
  /\ (IF answered[s] /\ "SetupOverwrite" \notin Deviations
      THEN \* RFC 4960 5.2.2: answer again, leave the TCB alone
           /\ NetRecv(s, p, <<WithW(Pkt("IACK", s, itsn[s], NoFrag, {}), Rwnd)>>)
           /\ UNCHANGED <<itsn, next, rx, answered, ackPt, advPt, peerW>>
      ELSE \* an INIT that crosses this end's own handshake is answered with the initial TSN (and tag) its own
           \* INIT carries (5.2.1); otherwise a fresh one is chosen
           \E t \in (IF itsn[s] # M /\ "SetupOverwrite" \notin Deviations THEN {itsn[s]} ELSE InitTsnOf(s)) :
           /\ ackPt' = [ackPt EXCEPT ![s] = IF itsn[s] = t THEN @ ELSE Dec(t, M)]
           /\ advPt' = [advPt EXCEPT ![s] = IF itsn[s] = t THEN @ ELSE Dec(t, M)]
           /\ itsn' = [itsn EXCEPT ![s] = t]
           /\ next' = [next EXCEPT ![s] = IF itsn[s] = t THEN @ ELSE t]
           \* (the peer's initial TSN may be known already from its INIT-ACK: then nothing is rewound)
           /\ rx' = [rx EXCEPT ![s].cum = IF rx[s].has /\ "SetupOverwrite" \notin Deviations THEN @ ELSE Dec(p.tsn, M),
                               ![s].has = TRUE]
           /\ answered' = [answered EXCEPT ![s] = TRUE]
           /\ peerW' = [peerW EXCEPT ![s] = p.w]
           /\ NetRecv(s, p, <<WithW(Pkt("IACK", s, t, NoFrag, {}), Rwnd)>>))
  /\ UNCHANGED <<st, t1, t1cnt, sentQ, outQ, sub, ssnOut, deliv, opens, fwd>> /\ NoFaultW /\ UNCHANGED <<since, sackDue>>

RecvInitAck(s, p) ==
  /\ p \in Avail(s) /\ p.k = "IACK"
  /\ (IF t1[s] = "Init" \/ "SetupOverwrite" \in Deviations
      THEN /\ rx' = [rx EXCEPT ![s].cum = IF rx[s].has /\ "SetupOverwrite" \notin Deviations THEN @ ELSE Dec(p.tsn, M),
                               ![s].has = TRUE]
           /\ t1' = [t1 EXCEPT ![s] = "Cookie"]
           /\ peerW' = [peerW EXCEPT ![s] = p.w]
           /\ t1cnt' = [t1cnt EXCEPT ![s] = 0]               \* t1_start resets the failure count
           /\ NetRecv(s, p, <<Pkt("CECHO", s, 0, NoFrag, {})>>)
      ELSE \* RFC 4960 5.2.3: not in COOKIE-WAIT, discard
           /\ NetRecv(s, p, <<>>)
           /\ UNCHANGED <<rx, t1, t1cnt, peerW>>)
  /\ UNCHANGED <<st, itsn, answered, next, sentQ, outQ, sub, ssnOut, deliv, opens>> /\ PrSame /\ NoFaultW /\ UNCHANGED <<since, sackDue>>

\* Channels are opened on the transition to Connected - whichever of the two handshakes of a collision
\* completes first.  The pinned code opened again when the second one completed: deviation "CollisionReopens".
RecvCookieEcho(s, p) ==
  /\ p \in Avail(s) /\ p.k = "CECHO"
  /\ answered[s]                               \* a cookie exists only after an INIT-ACK
  /\ (IF st[s] = "Connected" /\ "SetupOverwrite" \notin Deviations /\ "CollisionReopens" \notin Deviations
      THEN UNCHANGED <<st, opens>>             \* RFC 4960 5.2.4 case D: only acknowledge
      ELSE /\ st' = [st EXCEPT ![s] = "Connected"]
           /\ opens' = [opens EXCEPT ![s] = @ + 1])
  \* an INIT of this end that is still unanswered is not needed any more
  /\ t1' = IF st[s] # "Connected" /\ t1[s] = "Init" THEN [t1 EXCEPT ![s] = "None"] ELSE t1
  /\ NetRecv(s, p, <<Pkt("CACK", s, 0, NoFrag, {})>>)
  /\ UNCHANGED <<t1cnt, itsn, answered, next, rx, sentQ, outQ, sub, ssnOut, deliv>> /\ PrSame /\ NoFault

\* The COOKIE-ACK stops the T1 timer of this end's COOKIE-ECHO, also when the association is already up.
\* A variant that discards it once Connected leaves the timer running: deviation "CookieAckDroppedWhenConnected".
RecvCookieAck(s, p) ==
  /\ p \in Avail(s) /\ p.k = "CACK"
  /\ (IF "CookieAckDroppedWhenConnected" \in Deviations /\ st[s] = "Connected"
      THEN UNCHANGED <<st, opens, t1>>
      ELSE IF t1[s] = "Cookie" \/ "SetupOverwrite" \in Deviations
      THEN /\ t1' = [t1 EXCEPT ![s] = "None"]
           /\ (IF st[s] = "Connected" /\ "SetupOverwrite" \notin Deviations /\ "CollisionReopens" \notin Deviations
               THEN UNCHANGED <<st, opens>>
               ELSE /\ st' = [st EXCEPT ![s] = "Connected"]
                    /\ opens' = [opens EXCEPT ![s] = @ + 1])
      ELSE UNCHANGED <<st, opens, t1>>)        \* RFC 4960 5.2.5: discard
  /\ NetRecv(s, p, <<>>)
  /\ UNCHANGED <<t1cnt, itsn, answered, next, rx, sentQ, outQ, sub, ssnOut, deliv>> /\ PrSame /\ NoFault

---------------------------------------------------------------------------
(* Data transfer                                                           *)
FragsOf(s, i) ==
  LET mm == Msgs[s][i]
      c  == mm.ch
  IN [k \in 1..mm.n |-> [ch |-> c, ssn |-> IF Chans[c].ord THEN ssnOut[s][c] ELSE 0,
                         u |-> ~Chans[c].ord, b |-> (k = 1), e |-> (k = mm.n),
                         m |-> i, i |-> k, len |-> 1, d |-> FALSE]]

AppSend(s) ==
  /\ st[s] = "Connected" /\ opens[s] >= 1     \* the application sends after Open
  /\ sub[s] < Len(Msgs[s])
  /\ LET i == sub[s] + 1
         c == Msgs[s][i].ch
     IN /\ outQ' = [outQ EXCEPT ![s] = @ \o FragsOf(s, i)]
        /\ ssnOut' = [ssnOut EXCEPT ![s][c] = IF Chans[c].ord THEN Inc(@, S) ELSE @]
        /\ sub' = [sub EXCEPT ![s] = i]
  /\ UNCHANGED <<st, t1, t1cnt, itsn, answered, next, rx, sentQ, deliv, opens>> /\ PrSame /\ NetSame /\ NoFault

\* what transmit() sets against the advertised window when it decides about new data.  The contract counts
\* every outstanding chunk.  The retransmit phase of the same transmit() call comes first and puts the chunks a
\* T3 expiry took out of flight back in flight: a budget computed from the flight size read *before* that phase
\* (deviation "BudgetBeforeRtx") does not see them, and a whole window of new data leaves on top of the
\* retransmissions after every expiry.
BudgetFlight(s) ==
  IF "BudgetBeforeRtx" \in Deviations
  THEN Cardinality({x \in Outstanding(sentQ[s]) : x.inf /\ x.n = 1})
  ELSE Cardinality(Outstanding(sentQ[s]))
TransmitNew(s) ==
  /\ st[s] = "Connected"
  /\ outQ[s] # <<>>
  /\ Cardinality(Outstanding(sentQ[s])) < Win
  \* transmit(): new data while rwnd - flight > 0; the last chunk may exceed what is left (one packet
  \* beyond the window), but nothing goes out against an advertised window of zero
  /\ peerW[s] > 0 /\ peerW[s] + 1 > BudgetFlight(s)
  /\ since' = IF WOn THEN [since EXCEPT ![s] = @ + 1] ELSE since
  /\ LET f == Head(outQ[s])
         t == next[s]
     IN /\ sentQ' = [sentQ EXCEPT ![s] = @ \cup {[tsn |-> t, fr |-> f, n |-> 1, acked |-> FALSE, ab |-> FALSE, mk |-> FALSE, inf |-> TRUE]}]
        /\ next' = [next EXCEPT ![s] = Inc(t, M)]
        /\ NetSend(s, DataPkt(s, t, f, 1))
  /\ outQ' = [outQ EXCEPT ![s] = Tail(@)]
  /\ UNCHANGED <<st, t1, t1cnt, itsn, answered, rx, sub, ssnOut, deliv, opens>> /\ PrSame /\ NoFaultW /\ UNCHANGED <<peerW, sackDue>>

\* handle_timeout: the T3-rtx timer expires for an unacknowledged chunk.  Every outstanding chunk stops
\* counting as in flight; the first RtxBurst of them (in TSN order) are marked for retransmission, the others
\* are only re-timed and wait for a later expiry.  The timer runs for every unacknowledged chunk; a variant
\* that lets it run only for chunks in flight or marked never comes back for the re-timed ones: deviation
\* "T3OnlyInFlightOrMarked".
RECURSIVE LowestN(_, _)
LowestN(q, k) == IF k = 0 \/ q = {} THEN {}
                 ELSE LET y == CHOOSE y \in q : \A z \in q : ~TsnGT(y.tsn, z.tsn)
                      IN {y} \cup LowestN(q \ {y}, k - 1)
T3Expire(s) ==
  /\ NetMode = "fifo"            \* in "set" mode the first copy is still deliverable
  /\ TimersMayFire
  /\ LET out == Outstanding(sentQ[s])
         cand == {x \in out : x.n < MaxRtx}
     IN /\ cand # {} /\ ~(\E x \in out : x.mk)
        /\ ("T3OnlyInFlightOrMarked" \in Deviations => \E x \in out : x.inf \/ x.mk)
        /\ LET marked == LowestN(cand, RtxBurst)
           IN sentQ' = [sentQ EXCEPT ![s] = {IF x \in out THEN [x EXCEPT !.inf = FALSE, !.mk = (x \in marked)] ELSE x : x \in @}]
  /\ UNCHANGED <<st, t1, t1cnt, itsn, answered, next, rx, outQ, sub, ssnOut, deliv, opens>> /\ PrSame /\ NetSame /\ NoFault

\* transmit(), retransmit phase: marked chunks leave in TSN order
Rtx(s) ==
  /\ NetMode = "fifo"
  /\ LET mkd == {x \in Outstanding(sentQ[s]) : x.mk}
     IN /\ mkd # {}
        /\ LET x == CHOOSE y \in mkd : \A z \in mkd : ~TsnGT(y.tsn, z.tsn)
           IN /\ sentQ' = [sentQ EXCEPT ![s] = (@ \ {x}) \cup {[x EXCEPT !.n = @ + 1, !.mk = FALSE, !.inf = TRUE]}]
              /\ NetSend(s, DataPkt(s, x.tsn, x.fr, x.n + 1))
  /\ UNCHANGED <<st, t1, t1cnt, itsn, answered, next, rx, outQ, sub, ssnOut, deliv, opens>> /\ PrSame /\ NoFault

\* PR-SCTP (RFC 3758), update_advanced_peer_ack_point + create_forward_tsn_chunk: the message at
\* the head of the retransmission queue belongs to a partially reliable channel and is given up:
\* all its fragments are abandoned, the Advanced.Peer.Ack.Point moves over them and a FORWARD-TSN
\* announces the new cumulative point.  The point starts from the highest cumulative TSN the peer
\* has acknowledged.  The pinned code reads its own receive-side cumulative TSN there (the peer's
\* TSN space): deviation "AdvPointWrongSpace".
SerMax(a, b) == IF TsnGT(a, b) THEN a ELSE b
\* should_abandon: every fragment of a message of a partially reliable channel is given up together
\* (no further retransmission)
Abandon(s) ==
  /\ st[s] = "Connected"
  /\ \E x \in Outstanding(sentQ[s]) :
       /\ Chans[x.fr.ch].pr
       /\ LET same(f) == f.ch = x.fr.ch /\ f.m = x.fr.m
          IN /\ \A k \in 1..Len(outQ[s]) : ~same(outQ[s][k])  \* the whole message has been given TSNs
             \* every fragment, also those the peer has already gap-acknowledged (deviation
             \* "PartialAbandon": only the unacknowledged ones)
             /\ sentQ' = [sentQ EXCEPT ![s] = {IF same(y.fr) /\ ("PartialAbandon" \notin Deviations \/ ~y.acked)
                                               THEN [y EXCEPT !.ab = TRUE] ELSE y : y \in @}]
  /\ UNCHANGED <<st, t1, t1cnt, itsn, answered, next, rx, outQ, sub, ssnOut, deliv, opens>> /\ PrSame /\ NetSame /\ NoFault

\* the Advanced.Peer.Ack.Point moves over the abandoned message that follows it
Advance(s) ==
  /\ st[s] = "Connected"
  /\ LET last == IF "AdvPointWrongSpace" \in Deviations THEN rx[s].cum ELSE ackPt[s]
         adv0 == SerMax(last, advPt[s])
     IN \E x \in sentQ[s] :
       /\ x.tsn = Inc(adv0, M) /\ x.ab
       /\ LET same(f) == f.ch = x.fr.ch /\ f.m = x.fr.m
              \* the point moves over the consecutive abandoned chunks (of this message) that follow it
              RECURSIVE LastAb(_)
              LastAb(t) == IF \E y \in sentQ[s] : y.tsn = Inc(t, M) /\ y.ab /\ same(y.fr)
                           THEN LastAb(Inc(t, M)) ELSE t
              top == CHOOSE y \in sentQ[s] : y.tsn = LastAb(x.tsn)
          IN /\ sentQ' = [sentQ EXCEPT ![s] = {y \in @ : TsnGT(y.tsn, top.tsn)}]
             /\ advPt' = [advPt EXCEPT ![s] = top.tsn]
             /\ fwd' = [fwd EXCEPT ![s] = [on |-> TRUE, fr |-> x.fr, n |-> 1]]
             /\ NetSend(s, Pkt("FWD", s, top.tsn, x.fr, {}))   \* fr carries (ch, ssn) of the skipped message
  /\ UNCHANGED <<st, t1, t1cnt, itsn, answered, next, rx, outQ, sub, ssnOut, deliv, opens, ackPt>> /\ NoFault

\* RFC 3758 3.5 (C2/C3): while the peer's cumulative ack is behind the Advanced.Peer.Ack.Point the
\* FORWARD-TSN is sent again (a lost one would otherwise freeze the peer's cumulative point for
\* good).  The pinned code sends it once: deviation "FwdNotRetransmitted".
ResendFwd(s) ==
  /\ NetMode = "fifo" /\ TimersMayFire
  /\ "FwdNotRetransmitted" \notin Deviations
  /\ fwd[s].on /\ TsnGT(advPt[s], ackPt[s]) /\ fwd[s].n < MaxRtx
  /\ fwd' = [fwd EXCEPT ![s].n = @ + 1]
  /\ NetSend(s, Pkt("FWD", s, advPt[s], fwd[s].fr, {}))
  /\ UNCHANGED <<st, t1, t1cnt, itsn, answered, next, rx, sentQ, outQ, sub, ssnOut, deliv, opens, ackPt, advPt>> /\ NoFault

AdvW(r) == IF ~WOn THEN Rwnd ELSE IF Rwnd > Cardinality(r.rcvd) THEN Rwnd - Cardinality(r.rcvd) ELSE 0
SackOf(s, r) == WithW(Pkt("SACK", s, r.cum, NoFrag, GapSet(r)), AdvW(r))
\* the SACK leaves at once, or - only if nothing is buffered out of order and no SACK is pending yet - is
\* left to the delayed-SACK timer (RFC 4960 6.2: every second packet / gap / duplicate at once)
SackOrDefer(s, p, r) ==
  \/ /\ NetRecv(s, p, <<SackOf(s, r)>>)
     /\ sackDue' = [sackDue EXCEPT ![s] = FALSE]
  \/ /\ DelaySack /\ r.rcvd = {} /\ ~sackDue[s]
     /\ NetRecv(s, p, <<>>)
     /\ sackDue' = [sackDue EXCEPT ![s] = TRUE]
SackTimer(s) ==
  /\ sackDue[s]
  /\ NetSend(s, SackOf(s, rx[s]))
  /\ sackDue' = [sackDue EXCEPT ![s] = FALSE]
  /\ UNCHANGED <<st, t1, t1cnt, itsn, answered, next, rx, sentQ, outQ, sub, ssnOut, deliv, opens, peerW, since>>
  /\ PrSame /\ NoFaultW

\* handle_data.  DATA is only acted on once the association is established.  An endpoint that
\* has a COOKIE-ECHO outstanding learns from DATA that the peer accepted it (the COOKIE-ACK was
\* lost or is late): it completes the set-up first, so Open precedes the message.  In any other
\* state the chunk is discarded (the peer retransmits).  The pinned code processes DATA in every
\* state: deviation "DataBeforeEstablished".
RecvData(s, p) ==
  /\ p \in Avail(s) /\ p.k = "DATA"
  /\ LET implicitAck == st[s] # "Connected" /\ t1[s] = "Cookie"
                         /\ "DataBeforeEstablished" \notin Deviations
         accept == st[s] = "Connected" \/ implicitAck \/ "DataBeforeEstablished" \in Deviations
     IN IF accept /\ rx[s].has
        THEN LET r == RxData(rx[s], p.tsn, p.fr, Ordered)
             IN /\ rx' = [rx EXCEPT ![s] = Clr(r)]
                /\ Deliver(s, r)
                /\ SackOrDefer(s, p, r)
                /\ (IF implicitAck
                    THEN /\ st' = [st EXCEPT ![s] = "Connected"]
                         /\ opens' = [opens EXCEPT ![s] = @ + 1]
                         /\ t1' = [t1 EXCEPT ![s] = "None"]
                    ELSE UNCHANGED <<st, opens, t1>>)
        ELSE /\ NetRecv(s, p, <<>>)
             /\ UNCHANGED <<rx, deliv, st, opens, t1, sackDue>>
  /\ UNCHANGED <<t1cnt, itsn, answered, next, sentQ, outQ, sub, ssnOut>> /\ PrSame /\ NoFaultW /\ UNCHANGED <<peerW, since>>

RecvFwd(s, p) ==
  /\ p \in Avail(s) /\ p.k = "FWD"
  /\ rx[s].has
  /\ LET streams == IF p.fr.u THEN {} ELSE {[ch |-> p.fr.ch, ssn |-> p.fr.ssn]}
         \* after the jump the buffered chunks that became contiguous are drained
         r == Drain(RxForward(rx[s], p.tsn, streams), Ordered)
     IN /\ rx' = [rx EXCEPT ![s] = Clr([r EXCEPT !.reasm[p.fr.ch] = <<>>])]
        /\ Deliver(s, r)
        /\ SackOrDefer(s, p, r)
  /\ UNCHANGED <<st, t1, t1cnt, itsn, answered, next, sentQ, outQ, sub, ssnOut, opens>> /\ PrSame /\ NoFaultW /\ UNCHANGED <<peerW, since>>

RecvSack(s, p) ==
  /\ p \in Avail(s) /\ p.k = "SACK"
  /\ sentQ' = [sentQ EXCEPT ![s] = ApplySack(@, p.tsn, p.gaps)]
  /\ ackPt' = [ackPt EXCEPT ![s] = SerMax(p.tsn, @)]
  \* the advertised window of a SACK that is older than one already processed says nothing about the
  \* peer's buffer now (RFC 4960 6.2.1 D-i); the pinned code stores it: deviation "StaleSackUpdatesRwnd"
  /\ (IF TsnGT(ackPt[s], p.tsn) /\ "StaleSackUpdatesRwnd" \notin Deviations
      THEN UNCHANGED <<peerW, since>>
      ELSE /\ peerW' = [peerW EXCEPT ![s] = p.w]
           /\ since' = IF WOn THEN [since EXCEPT ![s] = 0] ELSE since)
  /\ NetRecv(s, p, <<>>)
  /\ UNCHANGED <<st, t1, t1cnt, itsn, answered, next, rx, outQ, sub, ssnOut, deliv, opens, advPt, fwd, sackDue>> /\ NoFaultW

---------------------------------------------------------------------------
(* Explicit faults (fifo mode): each costs one unit of budget and is       *)
(* recorded by content: direction, chunk kind, ordinal among the packets   *)
(* of that kind in that direction, fault kind, and for delayed copies the  *)
(* packet after which the copy is released.                                *)
FaultRec(d, p, kind, after) ==
  [dir |-> d, k |-> p.k, o |-> p.o, t |-> RelTsn(p), g |-> p.g, z |-> p.z, kind |-> kind,
   ak |-> after.k, ao |-> after.o, at |-> after.t, ag |-> after.g]
NoAfter == [k |-> "NONE", o |-> 0, t |-> 0, g |-> 0]
ProtoSame == UNCHANGED <<st, t1, t1cnt, itsn, answered, next, rx, sentQ, outQ, sub, ssnOut, deliv, opens, ackPt, advPt, fwd,
                         peerW, since, sackDue>>

Drop(d) ==
  /\ NetMode = "fifo" /\ budget > 0 /\ wire[d] # <<>>
  /\ wire' = [wire EXCEPT ![d] = Tail(@)]
  /\ faults' = Append(faults, FaultRec(d, Head(wire[d]), "drop", NoAfter))
  /\ budget' = budget - 1
  /\ UNCHANGED <<net, held, lastDel, cnt>> /\ ProtoSame /\ UNCHANGED <<hole, outage>>
Dup(d) ==
  /\ NetMode = "fifo" /\ budget > 0 /\ wire[d] # <<>>
  /\ wire' = [wire EXCEPT ![d] = <<Head(@)>> \o @]
  /\ faults' = Append(faults, FaultRec(d, Head(wire[d]), "dup", NoAfter))
  /\ budget' = budget - 1
  /\ UNCHANGED <<net, held, lastDel, cnt>> /\ ProtoSame /\ UNCHANGED <<hole, outage>>
\* take the head aside (delay / reorder) or keep a copy aside (late duplicate)
Hold(d, copy) ==
  /\ NetMode = "fifo" /\ budget > 0 /\ wire[d] # <<>> /\ held[d] = {}
  /\ held' = [held EXCEPT ![d] = {[p |-> Head(wire[d]), kind |-> IF copy THEN "duplate" ELSE "hold"]}]
  /\ wire' = IF copy THEN wire ELSE [wire EXCEPT ![d] = Tail(@)]
  /\ budget' = budget - 1
  /\ UNCHANGED <<net, lastDel, cnt, faults>> /\ ProtoSame /\ UNCHANGED <<hole, outage>>
Release(d) ==
  /\ NetMode = "fifo" /\ held[d] # {}
  /\ lastDel[d].k # "NONE"                       \* something overtook it, otherwise nothing happened
  /\ LET h == CHOOSE h \in held[d] : TRUE
     IN /\ (h.kind = "hold" => (lastDel[d].k # h.p.k \/ lastDel[d].o # h.p.o \/ lastDel[d].t # RelTsn(h.p)))
        /\ wire' = [wire EXCEPT ![d] = <<h.p>> \o @]
        /\ faults' = Append(faults, FaultRec(d, h.p, h.kind, lastDel[d]))
  /\ held' = [held EXCEPT ![d] = {}]
  /\ UNCHANGED <<net, lastDel, cnt, budget>> /\ ProtoSame /\ UNCHANGED <<hole, outage>>

\* persistent loss by content: from now on every transmission of this DATA chunk is lost (one unit of
\* budget).  Only chunks of partially reliable channels: abandonment is what resolves it.
Blackhole(d) ==
  /\ NetMode = "fifo" /\ budget > 0 /\ wire[d] # <<>>
  /\ LET p == Head(wire[d]) IN
       /\ p.k = "DATA" /\ Chans[p.fr.ch].pr /\ ~Holed(p)
       /\ hole' = [hole EXCEPT ![d] = @ \cup {RelTsn(p)}]
       /\ faults' = Append(faults, FaultRec(d, p, "dropall", NoAfter))
  /\ budget' = budget - 1
  /\ UNCHANGED <<net, wire, held, lastDel, cnt, outage>> /\ ProtoSame
\* the network swallows a holed packet (no budget: the fault was paid for once)
HoleDrop(d) ==
  /\ NetMode = "fifo" /\ wire[d] # <<>> /\ Holed(Head(wire[d])) /\ ~EndsOutage(Head(wire[d]))
  /\ wire' = [wire EXCEPT ![d] = Tail(@)]
  /\ UNCHANGED <<net, held, lastDel, cnt, faults, budget, hole, outage>> /\ ProtoSame

\* a blackout of the path (one unit of budget): from this first transmission on every DATA packet of the
\* direction is lost, until the sender's timer brings back the chunk it started with
Outage(d) ==
  /\ NetMode = "fifo" /\ budget > 0 /\ wire[d] # <<>> /\ ~outage[d].on
  /\ LET p == Head(wire[d]) IN
       /\ p.k = "DATA" /\ p.o = 1 /\ ~Holed(p)
       /\ ~Chans[p.fr.ch].pr        \* ended by a retransmission: the chunk must be one that is retransmitted
       /\ outage' = [outage EXCEPT ![d] = [on |-> TRUE, t |-> RelTsn(p)]]
       /\ faults' = Append(faults, FaultRec(d, p, "outage", NoAfter))
  /\ budget' = budget - 1
  /\ UNCHANGED <<net, wire, held, lastDel, cnt, hole>> /\ ProtoSame

Fault == \E d \in Side : Drop(d) \/ Dup(d) \/ Hold(d, TRUE) \/ Hold(d, FALSE) \/ Release(d) \/ Blackhole(d) \/ Outage(d)

\* the retransmission that ends an outage reaches the head of the wire: the path is back
OutageEnds(d) ==
  /\ NetMode = "fifo" /\ wire[d] # <<>> /\ EndsOutage(Head(wire[d]))
  /\ outage' = [outage EXCEPT ![d].on = FALSE]
  /\ UNCHANGED <<net, wire, held, lastDel, cnt, faults, budget, hole>> /\ ProtoSame

Proto ==
  \/ \E s \in Side : SendInit(s) \/ T1Expire(s)
  \/ \E d \in Side : HoleDrop(d) \/ OutageEnds(d)
  \/ \E s \in Side : AppSend(s) \/ TransmitNew(s) \/ T3Expire(s) \/ Rtx(s) \/ Abandon(s) \/ Advance(s) \/ ResendFwd(s) \/ SackTimer(s)
  \/ \E s \in Side : \E p \in Avail(s) :
        \/ RecvData(s, p) \/ RecvSack(s, p) \/ RecvFwd(s, p)
        \/ RecvInit(s, p) \/ RecvCookieEcho(s, p) \/ RecvInitAck(s, p) \/ RecvCookieAck(s, p)

Next == Proto \/ Fault
Spec == Init /\ [][Next]_vars
\* liveness: protocol steps are weakly fair; faults are not (and are budgeted)
FairSpec == Spec /\ WF_vars(Proto)

---------------------------------------------------------------------------
(* Properties                                                              *)
IsPrefix(a, b) == Len(a) <= Len(b) /\ \A i \in 1..Len(a) : a[i] = b[i]

\* ids (in submission order) of the messages side s submitted on channel c
SubIds(s, c) == LET RECURSIVE F(_)
                    F(i) == IF i = 0 THEN <<>>
                            ELSE IF Msgs[s][i].ch = c THEN Append(F(i - 1), i) ELSE F(i - 1)
                IN F(sub[s])
DelivIds(s, c) == [k \in 1..Len(deliv[s][c]) |-> MsgId(deliv[s][c][k])]
AllIntact(s, c) == \A k \in 1..Len(deliv[s][c]) :
                     LET msg == deliv[s][c][k] IN Intact(msg, Msgs[Peer(s)][MsgId(msg)].n)

RelOrd == {c \in ChanIds : Chans[c].ord /\ ~Chans[c].pr}

\* C01: what the application received on a reliable ordered channel is a prefix of what the
\* peer submitted, every message whole
PrefixDelivery ==
  Rule("C01", \A s \in Side : \A c \in RelOrd :
                 AllIntact(s, c) /\ IsPrefix(DelivIds(s, c), SubIds(Peer(s), c)))

\* C12: every delivered message is exactly one submitted message of that channel, never twice;
\* ordered channels keep submission order
IsSubseq(a, b) == \* a (no repetitions) is a subsequence of b
  \A i, j \in 1..Len(a) : i < j =>
     \E x, y \in 1..Len(b) : x < y /\ b[x] = a[i] /\ b[y] = a[j]
OneToOne ==
  Rule("C12", \A s \in Side : \A c \in ChanIds :
     /\ AllIntact(s, c)
     /\ \A k \in 1..Len(deliv[s][c]) : \E j \in 1..Len(SubIds(Peer(s), c)) :
           SubIds(Peer(s), c)[j] = DelivIds(s, c)[k]
     /\ \A j, k \in 1..Len(deliv[s][c]) : j # k => DelivIds(s, c)[j] # DelivIds(s, c)[k]
     /\ (Chans[c].ord => IsSubseq(DelivIds(s, c), SubIds(Peer(s), c))))
OpenOnce == Rule("C12", \A s \in Side : opens[s] <= 1)
OpenBeforeMessage == Rule("C12", \A s \in Side : (\E c \in ChanIds : deliv[s][c] # <<>>) => opens[s] >= 1)

\* C13 on the model: first transmissions carry consecutive TSNs and nothing acknowledged stays queued
ConsecutiveTsn ==
  Rule("C13", \A s \in Side : \A x \in sentQ[s] :
                 itsn[s] # M /\ x.tsn # next[s] /\ ~TsnGT(x.tsn, next[s]) /\ ~TsnGT(itsn[s], x.tsn))
WindowRespected == Rule("C13", \A s \in Side : Cardinality(Outstanding(sentQ[s])) <= Win)
\* between two SACKs that count, at most the advertised window (+ one packet) of new data
NewDataWithinWindow == Rule("C13", \A s \in Side : since[s] <= peerW[s] + 1)
\* a new chunk never leaves while what is in flight (sent or retransmitted, unacknowledged, not taken out of
\* flight by a T3 expiry) already exceeds the advertised window: after the step at most window + one packet is
\* in flight - in particular right after a T3 expiry, once its retransmissions are back in flight (action property)
InFlightWithinWindow ==
  [][Rule("C13", \A s \in Side :
        (WOn /\ Cardinality(sentQ'[s]) > Cardinality(sentQ[s])) =>
            Cardinality({x \in Outstanding(sentQ'[s]) : x.inf}) <= peerW[s] + 1)]_vars

TypeOK ==
  /\ \A s \in Side : st[s] \in {"New", "Connecting", "Connected", "Closed"}
  /\ \A s \in Side : next[s] \in 0..(M - 1) /\ rx[s].cum \in 0..(M - 1)
  /\ budget \in 0..Budget

\* set-up handlers leave an established association alone (action property)
SetupIdempotent ==
  [][\A s \in Side : st[s] = "Connected" =>
        /\ st'[s] = "Connected" /\ opens'[s] = opens[s] /\ itsn'[s] = itsn[s]
        /\ (rx'[s].cum # rx[s].cum => \E p \in Avail(s) : p.k \in {"DATA", "FWD"})]_vars

\* liveness (fifo mode): once faults are used up, everything submitted on reliable ordered
\* channels arrives
AllDelivered == \A s \in Side : \A c \in RelOrd :
                   sub[Peer(s)] = Len(Msgs[Peer(s)]) /\ DelivIds(s, c) = SubIds(Peer(s), c)
EventuallyDelivered == <>[]AllDelivered
\* the T1 timer does not run for ever on an association that is up (it would close it: INIT_TIMEOUT)
T1Stops == <>[](\A s \in Side : st[s] = "Connected" => t1[s] = "None")
=============================================================================
