SPECIFICATION Spec
CONSTANTS
  M = 4194304
  S = 65536
  Deviations = {}
  Props = {"C01"}
INVARIANT Report
CHECK_DEADLOCK FALSE
