SPECIFICATION Spec
CONSTANTS
  Roles = {"controlling", "controlled"}
  MaxSteps = 5
  MaxSlow = 1
VIEW view
INVARIANTS NoEmit
PROPERTIES TerminalIsStable NominatedKeepsPair
CHECK_DEADLOCK FALSE
