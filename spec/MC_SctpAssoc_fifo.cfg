SPECIFICATION FairSpec
CONSTANTS
  M = 16
  S = 8
  Chans <- Chans1
  Msgs <- MsgsA12
  InitTsnA = {14}
  InitTsnB = {0}
  MaxRtx = 3
  MaxT1 = 2
  Win = 2
  Initiators = {"A"}
  RtxBurst = 9
  Rwnd = 9
  DelaySack = FALSE
  Deviations = {}
  NetMode = "fifo"
  Budget = 1
  Props = {"C01", "C12", "C13"}
INVARIANTS TypeOK PrefixDelivery OneToOne OpenOnce OpenBeforeMessage ConsecutiveTsn WindowRespected NewDataWithinWindow
PROPERTIES SetupIdempotent EventuallyDelivered T1Stops
ACTION_CONSTRAINT NoEmit
CHECK_DEADLOCK FALSE
