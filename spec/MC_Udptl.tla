------------------------------ MODULE MC_Udptl ------------------------------
(* Bounded model + replay generator for Udptl.tla (EXT03).                    *)
EXTENDS Udptl, Json

DgJson(h) == [op |-> h.op, k |-> h.k, seq |-> SeqOf(h.k), red |-> IF h.op = "recv" THEN Reds(h.k) ELSE <<>>]
EdgeRec ==
  [ cfg |-> cfg,
    pre |-> [i \in 1..Len(hist) |-> DgJson(hist[i])],
    act |-> DgJson(hist'[Len(hist')]),
    out |-> out', exp |-> exp', buffered |-> Cardinality(buf'), stats |-> stats', lastDel |-> lastDel' ]
EmitEdge == PrintT(<<"EDGE", ToJson(EdgeRec)>>)
NoEmit   == TRUE

StateRec(rule) ==
  [ cfg |-> cfg, rule |-> rule,
    pre |-> [i \in 1..(Len(hist) - 1) |-> DgJson(hist[i])],
    act |-> DgJson(hist[Len(hist)]),
    out |-> out, exp |-> exp, buffered |-> Cardinality(buf), stats |-> stats, lastDel |-> lastDel ]
W(rule, P) == P \/ (PrintT(<<"EDGE", ToJson(StateRec(rule))>>) /\ FALSE)
W_InOrderNoDup == W("InOrderNoDup", InOrderNoDup)
W_NoDiscard    == W("NoDiscard", NoDiscard)
W_NoStall      == W("NoStall", NoStall)
W_Genuine      == W("Genuine", Genuine)
\* as an action constraint: prints the step that skips a carried payload, never prunes
W_Recovery     == RecoveryStep \/ PrintT(<<"EDGE", ToJson([EdgeRec EXCEPT !.cfg = cfg] @@ [rule |-> "Recovery"])>>)

\* wire cases are printed once, from the initial states of any run that asks for it
EmitWire == (hist = <<>> /\ cfg.depth = 0 /\ cfg.start = 1) =>
              \A c \in WireCases : WireLaw(c) /\ PrintT(<<"EDGE", ToJson([wire |-> c, expect |-> WireExpect(c)])>>)
=============================================================================
