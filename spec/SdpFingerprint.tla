--------------------------- MODULE SdpFingerprint ---------------------------
(***************************************************************************)
(* Where the expected DTLS fingerprint comes from (C02, PeerConnection     *)
(* level): the a=fingerprint attributes of the remote description given to *)
(* set_remote_description (src/sdp.rs dtls_fingerprint, peer_connection.rs *)
(* 1400-1425 / 1586-1598) and the certificate the peer presents.           *)
(*                                                                         *)
(* A description carries the attribute at session level and/or in each of  *)
(* its two media sections, each in one of several presentations of the genuine      *)
(* digest G or of a digest that is not the peer's. The contract: all       *)
(* attributes must agree after normalisation (algorithm case-insensitive,  *)
(* hex case-insensitive, colons optional), the algorithm must be sha-256,  *)
(* at least one must be present; otherwise the description is refused.     *)
(* The transport connects only if the agreed value is the digest of the    *)
(* certificate presented.                                                  *)
(***************************************************************************)
EXTENDS Naturals, Sequences, TLC, Json

\* presentations: [alg, val] after normalisation
Forms == {"G", "Glower", "Gnocolon", "GalgUpper", "Gsha1", "W", "Near", "Gtrunc"}
Slot == Forms \cup {"none"}

Alg(f) == IF f = "Gsha1" THEN "sha-1" ELSE "sha-256"
Val(f) == CASE f \in {"G", "Glower", "Gnocolon", "GalgUpper", "Gsha1"} -> "G"
            [] f = "W" -> "W" [] f = "Near" -> "N" [] f = "Gtrunc" -> "T"

\* a description with two media sections (m=audio, m=application, bundled: one DTLS association)
VARIABLES session, media, media2, done
vars == <<session, media, media2, done>>

Present == {s \in {session, media, media2} : s # "none"}
Agree == \A a, b \in Present : Alg(a) = Alg(b) /\ Val(a) = Val(b)

Expected ==
  IF Present = {} THEN "Rejected"
  ELSE IF ~Agree THEN "Rejected"
  ELSE IF \E a \in Present : Alg(a) # "sha-256" THEN "Rejected"
  ELSE IF \A a \in Present : Val(a) = "G" THEN "Connected"
  ELSE "DtlsFailed"

\* every placement of the common values, and every placement in which one attribute uses a rarer presentation
Common == {"none", "G", "W", "Near"}
Rare(x) == IF x \in Common THEN 0 ELSE 1
Init == /\ session \in Slot /\ media \in Slot /\ media2 \in Slot /\ done = FALSE
        /\ Rare(session) + Rare(media) + Rare(media2) <= 1
Next == ~done /\ done' = TRUE /\ UNCHANGED <<session, media, media2>>
Spec == Init /\ [][Next]_vars

\* C02 at this level: Connected only with the genuine digest, agreed by every attribute
Safe == (Expected = "Connected") => (Present # {} /\ \A a \in Present : Val(a) = "G" /\ Alg(a) = "sha-256")

Emit == PrintT(<<"CASE", ToJson([session |-> session, media |-> media, media2 |-> media2, expected |-> Expected])>>)
=============================================================================
