---------------------------- MODULE MC_RtpWire ----------------------------
(* Bounded model + case generator for RtpWire.tla (C15).                    *)
(* Emit is an INVARIANT with a print side effect: one JSON line per         *)
(* distinct state = one case for the harness (harness/src/bin/rtpwire.rs):  *)
(* the logical packet / operation history together with everything the      *)
(* specification predicts about it (layout, range class, canonical form,    *)
(* expected machine state).                                                 *)
EXTENDS RtpWire, Json

SeqOfSet(S) == SortedSeq(S)

\* negative numbers cannot be written in a .cfg file: LostVals <- MC_LostVals
MC_LostVals == {-8388609, -8388608, -1, 0, 1, 8388607, 8388608}

PairJson(p) == [pid |-> p.pid, blp |-> BlpValue(p.bits)]

CaseRec ==
  CASE Mode = "rtp" ->
         [mode |-> "rtp", c |-> cur, enc |-> RtpEncodable(cur), lay |-> RtpLayout(cur)]
    [] Mode = "rtcp" ->
         [mode |-> "rtcp", parts |-> <<cur>>, rc |-> <<RangeClass(cur)>>, canon |-> <<Canon(cur)>>,
          lay |-> <<RtcpLayout(cur)>>, offs |-> <<0>>,
          lost24 |-> <<[i \in 1..Len(cur.a) |-> IF cur.t \in {"SR", "RR"} THEN Lost24(cur.a[i]) ELSE 0]>>]
    [] Mode = "compound" ->
         [mode |-> "rtcp", parts |-> cur, rc |-> [i \in 1..Len(cur) |-> RangeClass(cur[i])],
          canon |-> [i \in 1..Len(cur) |-> Canon(cur[i])],
          lay |-> [i \in 1..Len(cur) |-> RtcpLayout(cur[i])], offs |-> CompoundOffsets(cur),
          lost24 |-> [k \in 1..Len(cur) |->
                        [i \in 1..Len(cur[k].a) |-> IF cur[k].t \in {"SR", "RR"} THEN Lost24(cur[k].a[i]) ELSE 0]]]
    [] Mode = "foreign" ->
         [mode |-> "foreign", parts |-> cur, survivors |-> Survivors(cur),
          lens |-> [i \in 1..Len(cur) |-> ForeignLen(cur[i])],
          lost24 |-> [k \in 1..Len(cur) |->
                        [i \in 1..Len(cur[k].a) |-> IF cur[k].t \in {"SR", "RR"} THEN Lost24(cur[k].a[i]) ELSE 0]]]
    [] Mode = "ext" ->
         [mode |-> "ext", base |-> cur.base, ops |-> hist, res |-> cur.res, map |-> cur.map,
          datalen |-> ExtMapDataLen(cur.map)]
    [] Mode = "nack" ->
         [mode |-> "nack", set |-> SeqOfSet(cur), real |-> [i \in 1..Cardinality(cur) |-> Real(SeqOfSet(cur)[i])],
          minpairs |-> Len(WrapPack(cur)), maxpairs |-> Cardinality(cur),
          pairs |-> [i \in 1..Len(WrapPack(cur)) |-> PairJson(WrapPack(cur)[i])]]
    [] Mode = "rtx" ->
         [mode |-> "rtx", c |-> cur, wrap |-> RtxWrap(cur.orig, cur.rtxseq),
          un |-> RtxUnwrap(RtxWrap(cur.orig, cur.rtxseq))]
    [] Mode = "buf" ->
         [mode |-> "buf", cap |-> cur.cap, ops |-> hist, fifo |-> cur.fifo, out |-> cur.out]
    [] Mode = "gap" ->
         [mode |-> "gap", ops |-> hist, out |-> cur.out, last |-> cur.last, rec |-> cur.rec, sent |-> cur.sent,
          fuzzy |-> cur.fuzzy, npending |-> Cardinality(cur.pending)]

\* machines: a case is worth executing once at least one operation has been applied
Emittable == Mode \in {"rtp", "rtcp", "nack", "rtx"} \/ (Mode = "compound" /\ Len(cur) >= 2)
             \/ (Mode = "foreign" /\ \E i \in 1..Len(cur) : IsForeign(cur[i]))
             \/ (Mode \in {"ext", "buf", "gap"} /\ Len(hist) >= 1)

Emit   == Emittable => PrintT(<<"CASE", ToJson(CaseRec)>>)
NoEmit == TRUE
=============================================================================
