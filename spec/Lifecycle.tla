----------------------------- MODULE Lifecycle -----------------------------
(***************************************************************************)
(* Life cycle of ONE rustrtc PeerConnection (the "victim") between         *)
(* creation and release, as the code structures it                         *)
(* (src/peer_connection.rs):                                               *)
(*                                                                         *)
(*   application      create_offer / set_local / set_remote, close() in    *)
(*                    its five steps, drop of the last handle, API calls   *)
(*   L  ice->pc loop  run_ice_dtls_loop / run_rtp_direct_loop              *)
(*   C  connected-state handler  handle_connected_state[_no_dtls] with     *)
(*                    start_dtls inlined (handshake wait, SRTP, loops)     *)
(*   D  DTLS runner   DtlsInner::handshake loop                            *)
(*   S  SCTP runner   SctpInner::run_loop with its cleanup guard           *)
(*   T  transport loops (rtcp, sctp runner, dc listener, pair monitor)     *)
(*                    under one LoopsGuard                                 *)
(*   environment      ICE progress, the peer, the terminating events       *)
(*                                                                         *)
(* Every publication of an application-visible state by a background loop  *)
(* is split into "decide" (location pre:<site>) and "publish", because the  *)
(* code decides and publishes in two steps without a lock: the binding     *)
(* fires racing events exactly there (verif::probe).                       *)
(*                                                                         *)
(* The spec states the INTENDED design: with Deviations = {} all           *)
(* properties hold.  Behaviour of the pinned code that departs from it is  *)
(* a named member of Deviations.                                           *)
(***************************************************************************)
EXTENDS Naturals, Sequences, FiniteSets, TLC

CONSTANTS
    Mode,          \* "WebRtc" | "Srtp" | "Rtp"
    HasDc,         \* data channel negotiated (WebRtc only)
    Traffic,       \* BOOLEAN: packets keep arriving from the peer (mediaFlowing)
    Deviations,    \* subset of DeviationNames
    Props,         \* property ids whose rules are switched on ("C17", "C10", "EXT")
    MaxEvents,     \* how many terminating events may fire in one behaviour (1 or 2)
    PhaseSet,      \* phases at which the first event may fire
    Ev1Set, Ev2Set,\* first / second (racing) event alphabets
    WfcBudget,     \* wait_for_connected() calls the application makes (0..2)
    Answerer,      \* BOOLEAN: the endpoint answers an offer instead of making one
    MaxFlaps,      \* recoverable ICE disconnects (shorter than the grace period) that may precede the events
    IceFailFallback \* BOOLEAN: the slow fallbacks (ICE connection timeout, SCTP heartbeat limit) are close enough to
                    \* matter; FALSE: they lie far beyond disconnect threshold + grace

DeviationNames == {
    "OverwriteClosed",       \* loops publish peer state without looking at the current value
    "LoopsDoneSilent",       \* end of the transport loops publishes nothing (state stays Connected)
    "HsRunnerDoneWaits",     \* start_dtls waits for a DTLS state change after the runner has ended
    "StrongRefInConnLoop",   \* connected-state handler keeps a strong reference to the connection
    "WaitConnectedBlind",    \* wait_for_connected() only returns on Connected / Failed / Closed
    "SigOverwriteClosed",    \* set_*_description commits its signaling transition after close()
    "SendCheckThenPark",     \* a blocked sender checks the association state and only then creates notified()
    "GraceNotRearmed",       \* after one recovered ICE disconnect the grace timer is never armed again
    "ExitDoesNotWake",       \* only close()/Drop of the transport wake a blocked sender, not the end of the association
    "CloseLeavesOrphanChannels",  \* close() ends only channels of an existing association (via its run loop)
    "GuardSkipsConnecting"   \* the SCTP cleanup guard ends Open channels only (a Connecting channel never sees Close)
}

Rule(p, e) == (p \in Props) => e

IsDirect == Mode \in {"Srtp", "Rtp"}
Dc == HasDc /\ Mode = "WebRtc"

PeerStates == {"New", "Connected", "Disconnected", "Failed", "Closed"}
SigStates  == {"Stable", "HaveLocalOffer", "HaveRemoteOffer", "Closed"}
Reasons    == {"None", "LocalClose", "Dropped", "IceFailed", "IceDisconnected", "DtlsFailed", "DtlsClosed",
               "SctpRemoteAbort", "SctpRemoteShutdown", "SctpHeartbeatTimeout", "TransportStartFailed",
               "Unknown"}
IceStates  == {"New", "Checking", "Connected", "Completed", "Disconnected", "Failed", "Closed"}
IceUp      == {"Connected", "Completed"}
Events     == {"Close", "Drop", "PeerCloseNotify", "PeerSctpAbort", "PeerSctpShutdown", "IceStop",
               "SocketLoss", "BlockedSender"}
Phases     == {"senderBlocked", "created", "offerMade", "gathering", "checking", "iceConnected", "dtlsHandshaking",
               "dtlsConnected", "sctpConnecting", "channelsOpen", "mediaFlowing", "renegotiating"}

VARIABLES
    peer, sig, reason,            \* what the application observes
    ap,                           \* application script location
    iceT, sock, seenL, seenC,     \* ICE transport state, selected socket, last value seen by L / C
    role,                         \* DTLS role learnt from the remote description
    lp,                           \* L location
    cp, cval, cnext,              \* C location, value to publish, continuation
    dtls, dtask, dpermit, seenD,  \* DTLS state watch, runner task, close permit, last value seen by C
    sctp, stask, srun, spermit, swhy,
    loops,                        \* LoopsGuard: none | running | done | aborted
    chan, opened, closes,         \* the data channel as the application sees it
    grace,                        \* disconnect grace timer armed
    cl,                           \* close() invocations in progress: [1..2 -> location]
    handles, dropped,             \* application handles alive; PeerConnectionInner dropped
    calls,                        \* pending API calls
    sendpc,                       \* the blocked send_data() call: none | check | prewait | parked
    peerAlive, alertIn, abortIn, shutdownIn,   \* the peer and what it has sent
    wfcLeft, fired,               \* wait_for_connected() calls the application may still make; events fired
    flapLeft, flapping            \* recoverable disconnects still allowed; one is in progress

vars == <<peer, sig, reason, ap, iceT, sock, seenL, seenC, role, lp, cp, cval, cnext, dtls, dtask, dpermit,
          seenD, sctp, stask, srun, spermit, swhy, loops, chan, opened, closes, grace, cl, handles, dropped,
          calls, sendpc, peerAlive, alertIn, abortIn, shutdownIn, wfcLeft, fired, flapLeft, flapping>>

-----------------------------------------------------------------------------
(* helpers *)

SetReason(r) == reason' = IF reason = "None" THEN r ELSE reason

\* publication of the peer state by a background loop
LoopPublish(s) ==
    \/ peer' = (IF peer # "Closed" THEN s ELSE peer)
    \/ "OverwriteClosed" \in Deviations /\ peer' = s

SctpReason(w) ==
    CASE w = "REMOTE_ABORT"      -> "SctpRemoteAbort"
      [] w = "REMOTE_SHUTDOWN"   -> "SctpRemoteShutdown"
      [] w = "HEARTBEAT_TIMEOUT" -> "SctpHeartbeatTimeout"
      [] w = "DTLS_FAILED"       -> "DtlsFailed"
      [] w = "DTLS_CLOSED"       -> "DtlsClosed"
      [] OTHER                   -> "None"      \* LOCAL_CLOSE / nothing recorded

CInHandler == cp \notin {"off", "retTrue", "retFalse"}

\* strong references to the connection held by its own tasks
StrongRefs == IF "StrongRefInConnLoop" \in Deviations /\ CInHandler /\ cp # "waitRole" THEN 1 ELSE 0

Closing == \E k \in DOMAIN cl : cl[k] \notin {"idle", "done"}
Closed0 == \E k \in DOMAIN cl : cl[k] = "done"

\* the sctp runner future is being polled by somebody
SPolled == (stask = "inline" /\ cp = "hs") \/ (stask = "spawned" /\ loops = "running")

\* cleanup guard of the SCTP run loop: every channel that is not closed yet sees Close once
GuardEffect ==
    IF srun # "idle" /\ chan \in {"connecting", "open"}
    THEN \/ chan' = "closed" /\ closes' = closes + 1
         \/ "GuardSkipsConnecting" \in Deviations /\ chan = "connecting" /\ UNCHANGED <<chan, closes>>
    ELSE UNCHANGED <<chan, closes>>

\* the handler's future (LoopsGuard, or the inline runner) is dropped: what is left of the transport loops is aborted;
\* an SCTP runner that is dropped runs its cleanup guard (channels closed, parked senders woken)
RunnerDropped ==
    IF loops = "running" \/ stask = "inline"
    THEN /\ loops' = (IF loops = "running" THEN "aborted" ELSE loops)
         /\ stask' = (IF stask \in {"spawned", "inline"} THEN "done" ELSE stask)
         /\ GuardEffect
         /\ srun' = (IF srun \in {"idle", "exited"} THEN srun ELSE "exited")
         /\ sendpc' = (IF srun \notin {"idle", "exited"} /\ sendpc \in {"parked", "prewait"}
                           /\ "ExitDoesNotWake" \notin Deviations
                       THEN "check" ELSE sendpc)
    ELSE UNCHANGED <<loops, stask, chan, closes, srun, sendpc>>

-----------------------------------------------------------------------------
(* phases of the start-up, as the binding can observe them *)

PhaseNow ==
    CASE sendpc = "prewait" /\ peerAlive /\ fired = <<>> -> "senderBlocked"
      [] ap = "init"                                   -> "created"
      [] ap = "gathering"                              -> "gathering"
      [] ap \in {"offerMade", "haveOffer"}             -> "offerMade"
      [] ap = "reneg"                                  -> "renegotiating"
      [] ap = "signaled" /\ lp = "sawChecking"         -> "checking"
      [] ap = "signaled" /\ lp = "sawConn"             -> "iceConnected"
      [] ap = "signaled" /\ cp = "hsStarted"           -> "dtlsHandshaking"
      [] ap = "signaled" /\ cp = "hsConn"              -> "dtlsConnected"
      [] ap = "signaled" /\ cp = "spawned"             -> "sctpConnecting"
      [] ap = "signaled" /\ cp = "run" /\ peer = "Connected" /\ (Dc => chan = "open") /\ ~Traffic
                                                       -> "channelsOpen"
      [] ap = "signaled" /\ cp = "run" /\ peer = "Connected" /\ (Dc => chan = "open") /\ Traffic
                                                       -> "mediaFlowing"
      [] OTHER                                         -> "none"

-----------------------------------------------------------------------------
Init ==
    /\ peer = "New" /\ sig = "Stable" /\ reason = "None"
    /\ ap = "init"
    /\ iceT = "New" /\ sock = FALSE /\ seenL = "New" /\ seenC = "New"
    /\ role = "none"
    /\ lp = "top"
    /\ cp = "off" /\ cval = "New" /\ cnext = "off"
    /\ dtls = "none" /\ dtask = "none" /\ dpermit = FALSE /\ seenD = "none"
    /\ sctp = "none" /\ stask = "none" /\ srun = "idle" /\ spermit = FALSE /\ swhy = "none"
    /\ loops = "none"
    /\ chan = "none" /\ opened = FALSE /\ closes = 0
    /\ grace = FALSE
    /\ cl = [k \in 1..3 |-> "idle"]      \* 1,2: application close() calls; 3: Drop of the inner object
    /\ handles = 1 /\ dropped = FALSE
    /\ calls = {} /\ sendpc = "none"
    /\ peerAlive = TRUE /\ alertIn = FALSE /\ abortIn = FALSE /\ shutdownIn = FALSE
    /\ wfcLeft = WfcBudget
    /\ fired = <<>>
    /\ flapLeft = MaxFlaps /\ flapping = FALSE

-----------------------------------------------------------------------------
(* application script: offerer *)

AppVars == <<ap>>

A_MakeOffer ==
    /\ ~Answerer
    /\ ap = "init" /\ handles > 0 /\ sig = "Stable"
    /\ ap' = "gathering"
    /\ chan' = IF Dc THEN "connecting" ELSE chan
    /\ UNCHANGED <<peer, sig, reason, iceT, sock, seenL, seenC, role, lp, cp, cval, cnext, dtls, dtask, dpermit,
                   seenD, sctp, stask, srun, spermit, swhy, loops, opened, closes, grace, cl, handles, dropped,
                   calls, sendpc, peerAlive, alertIn, abortIn, shutdownIn, wfcLeft, fired, flapLeft, flapping>>

A_GatherDone ==
    /\ ap = "gathering"
    /\ ap' = "gathered"
    /\ UNCHANGED <<peer, sig, reason, iceT, sock, seenL, seenC, role, lp, cp, cval, cnext, dtls, dtask, dpermit,
                   seenD, sctp, stask, srun, spermit, swhy, loops, chan, opened, closes, grace, cl, handles,
                   dropped, calls, sendpc, peerAlive, alertIn, abortIn, shutdownIn, wfcLeft, fired, flapLeft, flapping>>

\* set_local_description(offer): check then commit
A_SetLocal ==
    /\ ap \in {"gathered"} /\ handles > 0
    /\ IF sig = "Stable"
       THEN sig' = "HaveLocalOffer" /\ ap' = "offerMade"
       ELSE sig' = sig /\ ap' = "sigFailed"
    /\ UNCHANGED <<peer, reason, iceT, sock, seenL, seenC, role, lp, cp, cval, cnext, dtls, dtask, dpermit,
                   seenD, sctp, stask, srun, spermit, swhy, loops, chan, opened, closes, grace, cl, handles,
                   dropped, calls, sendpc, peerAlive, alertIn, abortIn, shutdownIn, wfcLeft, fired, flapLeft, flapping>>

\* set_remote_description(answer): signaling commit, DTLS role, ICE start
A_SetRemote ==
    /\ ap = "offerMade" /\ handles > 0
    /\ IF sig = "HaveLocalOffer"
       THEN /\ sig' = "Stable" /\ ap' = "signaled"
            /\ role' = IF Mode = "WebRtc" THEN "client" ELSE "none"
            /\ iceT' = IF iceT = "New" THEN (IF IsDirect THEN "Connected" ELSE "Checking") ELSE iceT
            /\ sock' = IF iceT = "New" /\ IsDirect THEN TRUE ELSE sock
       ELSE sig' = sig /\ ap' = "sigFailed" /\ UNCHANGED <<role, iceT, sock>>
    /\ UNCHANGED <<peer, reason, seenL, seenC, lp, cp, cval, cnext, dtls, dtask, dpermit,
                   seenD, sctp, stask, srun, spermit, swhy, loops, chan, opened, closes, grace, cl, handles,
                   dropped, calls, sendpc, peerAlive, alertIn, abortIn, shutdownIn, wfcLeft, fired, flapLeft, flapping>>

\* answerer: set_remote_description(offer) - signaling commit, DTLS role, ICE start; the channel the offerer
\* announced will be opened by its DCEP message
A_SetRemoteOffer ==
    /\ Answerer /\ ap = "init" /\ handles > 0
    /\ IF sig = "Stable"
       THEN /\ sig' = "HaveRemoteOffer" /\ ap' = "haveOffer"
            /\ role' = IF Mode = "WebRtc" THEN "server" ELSE "none"
            /\ iceT' = IF iceT = "New" THEN (IF IsDirect THEN "Connected" ELSE "Checking") ELSE iceT
            /\ sock' = IF iceT = "New" /\ IsDirect THEN TRUE ELSE sock
            /\ chan' = IF Dc THEN "connecting" ELSE chan
       ELSE sig' = sig /\ ap' = "sigFailed" /\ UNCHANGED <<role, iceT, sock, chan>>
    /\ UNCHANGED <<peer, reason, seenL, seenC, lp, cp, cval, cnext, dtls, dtask, dpermit,
                   seenD, sctp, stask, srun, spermit, swhy, loops, opened, closes, grace, cl, handles,
                   dropped, calls, sendpc, peerAlive, alertIn, abortIn, shutdownIn, wfcLeft, fired, flapLeft, flapping>>

\* answerer: set_local_description(answer)
A_SetLocalAnswer ==
    /\ Answerer /\ ap = "haveOffer" /\ handles > 0
    /\ IF sig = "HaveRemoteOffer"
       THEN sig' = "Stable" /\ ap' = "signaled"
       ELSE sig' = sig /\ ap' = "sigFailed"
    /\ UNCHANGED <<peer, reason, iceT, sock, seenL, seenC, role, lp, cp, cval, cnext, dtls, dtask, dpermit,
                   seenD, sctp, stask, srun, spermit, swhy, loops, chan, opened, closes, grace, cl, handles,
                   dropped, calls, sendpc, peerAlive, alertIn, abortIn, shutdownIn, wfcLeft, fired, flapLeft, flapping>>

\* a new local offer on an established connection
A_Reneg ==
    /\ ap = "signaled" /\ handles > 0 /\ cp = "run" /\ peer = "Connected" /\ (Dc => chan = "open")
    /\ "renegotiating" \in PhaseSet /\ fired = <<>>
    /\ sig = "Stable"
    /\ sig' = "HaveLocalOffer" /\ ap' = "reneg"
    /\ UNCHANGED <<peer, reason, iceT, sock, seenL, seenC, role, lp, cp, cval, cnext, dtls, dtask, dpermit,
                   seenD, sctp, stask, srun, spermit, swhy, loops, chan, opened, closes, grace, cl, handles,
                   dropped, calls, sendpc, peerAlive, alertIn, abortIn, shutdownIn, wfcLeft, fired, flapLeft, flapping>>

\* a late signaling commit after close(): the check was made before close() published Closed
A_SigLate ==
    /\ "SigOverwriteClosed" \in Deviations
    /\ sig = "Closed" /\ ap \in {"gathered", "offerMade"} /\ handles > 0
    /\ sig' = IF ap = "gathered" THEN "HaveLocalOffer" ELSE "Stable"
    /\ ap' = "sigFailed"
    /\ UNCHANGED <<peer, reason, iceT, sock, seenL, seenC, role, lp, cp, cval, cnext, dtls, dtask, dpermit,
                   seenD, sctp, stask, srun, spermit, swhy, loops, chan, opened, closes, grace, cl, handles,
                   dropped, calls, sendpc, peerAlive, alertIn, abortIn, shutdownIn, wfcLeft, fired, flapLeft, flapping>>

-----------------------------------------------------------------------------
(* close_with_reason in its steps (k = 1, 2: application calls; 3: Drop for PeerConnectionInner) *)

CloseReason(k) == IF k = 3 THEN "Dropped" ELSE "LocalClose"

\* close() on a connection without an SCTP transport object, or whose SCTP run loop has not been entered yet (its
\* cleanup guard does not exist and the runner may be aborted unpolled): nobody else is certain to end the channels
OrphanChannels ==
    IF (sctp \in {"none", "taken"} \/ srun = "idle") /\ chan \in {"connecting", "open"}
    THEN \/ chan' = "closed" /\ closes' = closes + 1
         \/ "CloseLeavesOrphanChannels" \in Deviations /\ UNCHANGED <<chan, closes>>
    ELSE UNCHANGED <<chan, closes>>

A_Close1(k) ==
    /\ cl[k] = "begin"
    /\ IF peer = "Closed"
       THEN cl' = [cl EXCEPT ![k] = "done"] /\ UNCHANGED reason /\ OrphanChannels
       ELSE cl' = [cl EXCEPT ![k] = "pub"] /\ UNCHANGED <<chan, closes>> /\
            reason' = IF reason # "None" THEN reason
                      ELSE IF SctpReason(swhy) # "None" /\ sctp # "none" THEN SctpReason(swhy)
                      ELSE CloseReason(k)
    /\ UNCHANGED <<peer, sig, ap, iceT, sock, seenL, seenC, role, lp, cp, cval, cnext, dtls, dtask, dpermit,
                   seenD, sctp, stask, srun, spermit, swhy, loops, opened, grace, handles,
                   dropped, calls, sendpc, peerAlive, alertIn, abortIn, shutdownIn, wfcLeft, fired, flapLeft, flapping>>

A_Close2(k) ==
    /\ cl[k] = "pub"
    /\ sig' = "Closed" /\ peer' = "Closed"
    /\ cl' = [cl EXCEPT ![k] = "sctp"]
    /\ UNCHANGED <<reason, ap, iceT, sock, seenL, seenC, role, lp, cp, cval, cnext, dtls, dtask, dpermit,
                   seenD, sctp, stask, srun, spermit, swhy, loops, chan, opened, closes, grace, handles,
                   dropped, calls, sendpc, peerAlive, alertIn, abortIn, shutdownIn, wfcLeft, fired, flapLeft, flapping>>

\* SctpTransport::close(): state Closed, one permit, blocked senders woken
A_Close3(k) ==
    /\ cl[k] = "sctp"
    /\ IF sctp \notin {"none", "taken"}
       THEN sctp' = "taken" /\ spermit' = TRUE
       ELSE UNCHANGED <<sctp, spermit>>
    /\ OrphanChannels
    \* notify_waiters(): reaches the sender if it is parked - or (intended design) registered before its check
    /\ sendpc' = IF sendpc = "parked" THEN "check"
                 ELSE IF sendpc = "prewait" /\ "SendCheckThenPark" \notin Deviations THEN "check"
                 ELSE sendpc
    /\ UNCHANGED calls
    /\ cl' = [cl EXCEPT ![k] = "dtls"]
    /\ UNCHANGED <<peer, sig, reason, ap, iceT, sock, seenL, seenC, role, lp, cp, cval, cnext, dtls, dtask,
                   dpermit, seenD, stask, srun, swhy, loops, opened, grace, handles,
                   dropped, peerAlive, alertIn, abortIn, shutdownIn, wfcLeft, fired, flapLeft, flapping>>

A_Close4(k) ==
    /\ cl[k] = "dtls"
    /\ dpermit' = IF dtls # "none" THEN TRUE ELSE dpermit
    /\ cl' = [cl EXCEPT ![k] = "ice"]
    /\ UNCHANGED <<peer, sig, reason, ap, iceT, sock, seenL, seenC, role, lp, cp, cval, cnext, dtls, dtask,
                   seenD, sctp, stask, srun, spermit, swhy, loops, chan, opened, closes, grace, handles,
                   dropped, calls, sendpc, peerAlive, alertIn, abortIn, shutdownIn, wfcLeft, fired, flapLeft, flapping>>

A_Close5(k) ==
    /\ cl[k] = "ice"
    /\ iceT' = "Closed" /\ sock' = FALSE
    /\ cl' = [cl EXCEPT ![k] = "done"]
    /\ UNCHANGED <<peer, sig, reason, ap, seenL, seenC, role, lp, cp, cval, cnext, dtls, dtask, dpermit,
                   seenD, sctp, stask, srun, spermit, swhy, loops, chan, opened, closes, grace, handles,
                   dropped, calls, sendpc, peerAlive, alertIn, abortIn, shutdownIn, wfcLeft, fired, flapLeft, flapping>>

\* the last application handle is gone and no task holds the connection: Drop runs close and
\* aborts the tracked tasks (L with C inside it); the loops guard goes with C
InnerDropCore ==
    /\ handles = 0 /\ ~dropped /\ calls = {} /\ cl[3] = "idle"
    /\ cl' = [cl EXCEPT ![3] = "begin"]
    /\ dropped' = TRUE
    /\ UNCHANGED <<peer, sig, reason, ap, iceT, sock, seenL, seenC, role, lp, cp, cval, cnext, dtls, dtask,
                   dpermit, seenD, sctp, stask, srun, spermit, swhy, loops, chan, opened, closes, grace,
                   handles, calls, sendpc, peerAlive, alertIn, abortIn, shutdownIn, wfcLeft, fired, flapLeft, flapping>>

InnerDrop == StrongRefs = 0 /\ InnerDropCore

\* abort_tracked_tasks after the close steps of Drop
AbortTracked ==
    /\ dropped /\ cl[3] = "done" /\ (lp # "done" \/ CInHandler)
    /\ lp' = "done" /\ cp' = "off"
    /\ RunnerDropped
    /\ UNCHANGED <<peer, sig, reason, ap, iceT, sock, seenL, seenC, role, cval, cnext, dtls, dtask, dpermit,
                   seenD, sctp, spermit, swhy, opened, grace, cl, handles, dropped, calls,
                   peerAlive, alertIn, abortIn, shutdownIn, wfcLeft, fired, flapLeft, flapping>>

-----------------------------------------------------------------------------
(* L: ice -> pc loop *)

LUnch == <<sig, ap, iceT, sock, seenC, role, dtls, dtask, dpermit, seenD, sctp, stask, srun, spermit,
           swhy, loops, chan, opened, closes, grace, cl, handles, dropped, calls, sendpc, peerAlive, alertIn, abortIn,
           shutdownIn, wfcLeft, fired, flapLeft, flapping>>

L_Top ==
    /\ lp = "top" /\ ~dropped
    /\ seenL' = iceT
    /\ lp' = CASE iceT = "Checking"  -> "sawChecking"
               [] iceT \in IceUp    -> "sawConn"
               [] iceT = "Failed"    -> "pre:iceloop.ice_failed"
               [] iceT = "Closed"    -> "pre:iceloop.ice_closed"
               [] OTHER              -> "wait"
    /\ UNCHANGED <<peer, reason, cp, cval, cnext>> /\ UNCHANGED LUnch

L_SawChecking ==
    /\ lp = "sawChecking"
    /\ lp' = "wait"
    /\ UNCHANGED <<peer, reason, seenL, cp, cval, cnext>> /\ UNCHANGED LUnch

L_Wait ==
    /\ lp = "wait" /\ iceT # seenL
    /\ lp' = "top"
    /\ UNCHANGED <<peer, reason, seenL, cp, cval, cnext>> /\ UNCHANGED LUnch

\* nomination done (or direct mode): enter the connected-state handler
L_EnterConn ==
    /\ lp = "sawConn"
    \* the loop acts on the state it read at the top (seenL), not on the current one: after the nomination wait it
    \* enters the handler even if ICE has been stopped meanwhile; a change noticed during the wait sends it back
    /\ \/ lp' = "inConn" /\ cp' = (IF Mode = "WebRtc" THEN "waitRole" ELSE "starting") /\ seenC' = seenL
       \/ iceT # seenL /\ lp' = "top" /\ UNCHANGED <<cp, seenC>>
    /\ UNCHANGED <<peer, reason, seenL, cval, cnext>>
    /\ UNCHANGED <<sig, ap, iceT, sock, role, dtls, dtask, dpermit, seenD, sctp, stask, srun, spermit,
                   swhy, loops, chan, opened, closes, grace, cl, handles, dropped, calls, sendpc, peerAlive, alertIn,
                   abortIn, shutdownIn, wfcLeft, fired, flapLeft, flapping>>

L_PubFailed ==
    /\ lp = "pre:iceloop.ice_failed"
    /\ SetReason("IceFailed") /\ LoopPublish("Failed")
    /\ lp' = "done"
    /\ UNCHANGED <<seenL, cp, cval, cnext>> /\ UNCHANGED LUnch

L_PubClosed ==
    /\ lp = "pre:iceloop.ice_closed"
    /\ SetReason("IceDisconnected") /\ peer' = "Closed"
    /\ lp' = "done"
    /\ UNCHANGED <<seenL, cp, cval, cnext>> /\ UNCHANGED LUnch

L_ConnReturn ==
    /\ lp = "inConn" /\ cp \in {"retTrue", "retFalse"}
    /\ lp' = IF cp = "retTrue" THEN "top" ELSE "done"
    /\ cp' = "off"
    \* the LoopsGuard lives in the handler's future: returning aborts what is left
    /\ RunnerDropped
    /\ UNCHANGED <<peer, reason, seenL, cval, cnext>>
    /\ UNCHANGED <<sig, ap, iceT, sock, seenC, role, dtls, dtask, dpermit, seenD, sctp, spermit,
                   swhy, opened, grace, cl, handles, dropped, calls, peerAlive, alertIn, abortIn,
                   shutdownIn, wfcLeft, fired, flapLeft, flapping>>

-----------------------------------------------------------------------------
(* C: connected-state handler with start_dtls *)

CUnch == <<sig, ap, iceT, sock, seenL, role, lp, dtask, dpermit, srun, swhy, chan, opened, closes, cl, handles,
           dropped, calls, sendpc, peerAlive, alertIn, abortIn, shutdownIn, wfcLeft, fired, flapLeft, flapping>>

C_Role ==
    /\ cp = "waitRole"
    /\ \/ /\ role # "none" /\ cp' = "starting" /\ UNCHANGED seenC
       \/ /\ iceT # seenC /\ iceT \in {"Failed", "Closed"} /\ cp' = "retTrue" /\ seenC' = iceT
    /\ UNCHANGED <<peer, reason, cval, cnext, dtls, seenD, sctp, stask, spermit, loops, grace>>
    /\ UNCHANGED CUnch

\* start_dtls: selected pair, IceConn, RtpTransport; WebRtc: DtlsTransport + runner task, SctpTransport
\* the selected pair may have been read just before ice.stop() cleared it
PairSeen == sock \/ iceT = "Closed"

C_Start ==
    /\ cp = "starting"
    /\ (Mode = "Srtp") => ap \in {"signaled", "reneg"}      \* SDES needs both descriptions
    /\ \E havePair \in {b \in BOOLEAN : (b => PairSeen) /\ (~b => ~sock)} :
       IF ~havePair
       THEN /\ cp' = "pre:conn.start_failed" /\ cval' = "Failed" /\ cnext' = "retFalse"
            /\ SetReason(IF IsDirect THEN "TransportStartFailed" ELSE "DtlsFailed")
            /\ UNCHANGED <<dtls, seenD, sctp, stask>>
       ELSE IF IsDirect
            THEN /\ cp' = "spawnedPre" /\ UNCHANGED <<cval, cnext, reason, dtls, seenD, sctp, stask>>
            ELSE /\ cp' = "hsStarted"
                 /\ dtls' = "Handshaking" /\ seenD' = "Handshaking"
                 /\ sctp' = (IF Dc THEN "New" ELSE sctp)
                 /\ stask' = (IF Dc THEN "inline" ELSE stask)
                 /\ UNCHANGED <<cval, cnext, reason>>
    /\ UNCHANGED <<peer, seenC, spermit, loops, grace>>
    /\ UNCHANGED <<sig, ap, iceT, sock, seenL, role, lp, dpermit, srun, swhy, chan, opened, closes, cl, handles,
                   dropped, calls, sendpc, peerAlive, alertIn, abortIn, shutdownIn, wfcLeft, fired, flapLeft, flapping>>
    /\ dtask' = IF cp' = "hsStarted" THEN "running" ELSE dtask

\* Srtp: the handler waits for both descriptions before it starts the transport and gives up on a closed connection
C_SrtpAbort ==
    /\ cp = "starting" /\ Mode = "Srtp" /\ sig = "Closed"
    /\ cp' = "retFalse"
    /\ UNCHANGED <<peer, reason, seenC, cval, cnext, dtls, seenD, sctp, stask, spermit, loops, grace>>
    /\ UNCHANGED CUnch

\* (probe dtls.handshaking) -> the select loop of start_dtls
C_HsEnter ==
    /\ cp = "hsStarted"
    /\ cp' = "hs"
    /\ UNCHANGED <<peer, reason, seenC, cval, cnext, dtls, seenD, sctp, stask, spermit, loops, grace>>
    /\ UNCHANGED CUnch

C_HsOk ==
    /\ cp = "hs" /\ dtls = "Connected"
    /\ cp' = "hsConn"
    /\ UNCHANGED <<peer, reason, seenC, cval, cnext, dtls, seenD, sctp, stask, spermit, loops, grace>>
    /\ UNCHANGED CUnch

C_HsFail ==
    /\ cp = "hs"
    /\ \/ /\ dtls \in {"Failed", "Closed"}
          /\ cp' = "pre:conn.start_failed" /\ cval' = "Failed" /\ cnext' = "retFalse" /\ SetReason("DtlsFailed")
       \/ /\ stask = "inlineDone"        \* "SCTP runner stopped unexpectedly"
          /\ cp' = "pre:conn.start_failed" /\ cval' = "Failed" /\ cnext' = "retFalse" /\ SetReason("DtlsFailed")
       \/ /\ dtask = "done" /\ dtls \notin {"Connected", "Failed", "Closed"}
          /\ \/ cp' = "pre:conn.start_failed" /\ cval' = "Failed" /\ cnext' = "retFalse" /\
                SetReason("DtlsFailed")
             \/ /\ "HsRunnerDoneWaits" \in Deviations
                /\ cp' = "hsDone" /\ UNCHANGED <<cval, cnext, reason>>
    /\ UNCHANGED <<peer, seenC, dtls, seenD, sctp, stask, spermit, loops, grace>>
    /\ UNCHANGED CUnch

C_Hs == C_HsOk \/ C_HsFail

\* DTLS connected: SRTP keys, transport loops spawned under the guard
C_HsConn ==
    /\ cp = "hsConn"
    /\ cp' = "spawned"
    /\ loops' = "running"
    /\ stask' = IF stask = "inline" THEN "spawned" ELSE stask
    /\ UNCHANGED <<peer, reason, seenC, cval, cnext, dtls, seenD, sctp, spermit, grace>>
    /\ UNCHANGED CUnch

C_DirectSpawn ==
    /\ cp = "spawnedPre"
    /\ cp' = "spawned" /\ loops' = "running"
    /\ UNCHANGED <<peer, reason, seenC, cval, cnext, dtls, seenD, sctp, stask, spermit, grace>>
    /\ UNCHANGED CUnch

C_Spawned ==
    /\ cp = "spawned"
    /\ cp' = "pre:conn.connected" /\ cval' = "Connected" /\ cnext' = "run"
    /\ UNCHANGED <<peer, reason, seenC, dtls, seenD, sctp, stask, spermit, loops, grace>>
    /\ UNCHANGED CUnch

IsPre(x) == x \in {"pre:conn.start_failed", "pre:conn.connected", "pre:conn.ice_disc", "pre:conn.ice_rec",
                   "pre:conn.dtls_end", "pre:conn.grace", "pre:conn.loops_done"}

C_Publish ==
    /\ IsPre(cp)
    /\ LoopPublish(cval)
    /\ cp' = cnext
    \* after the grace publication the association is closed
    /\ IF cp = "pre:conn.grace" /\ sctp \notin {"none", "taken"}
       THEN spermit' = TRUE
       ELSE UNCHANGED spermit
    /\ UNCHANGED <<reason, seenC, cval, cnext, dtls, seenD, sctp, stask, loops, grace>>
    /\ UNCHANGED CUnch

\* the WebRTC handler lets the ICE loop look again when ICE has failed or closed; the no-DTLS handler just ends
LoopsDoneRet == IF ~IsDirect /\ iceT \in {"Failed", "Closed"} THEN "retTrue" ELSE "retFalse"

\* one of the transport loops has ended
C_RunLoops ==
    /\ cp = "run" /\ loops = "done"
    /\ \/ /\ SetReason(IF SctpReason(swhy) # "None" THEN SctpReason(swhy) ELSE "Unknown")
          /\ cp' = "pre:conn.loops_done" /\ cval' = "Disconnected"
          /\ cnext' = LoopsDoneRet
       \/ /\ "LoopsDoneSilent" \in Deviations
          /\ SetReason(SctpReason(swhy))
          /\ cp' = LoopsDoneRet
          /\ UNCHANGED <<cval, cnext>>
    /\ UNCHANGED <<seenC, seenD, grace>>
    /\ UNCHANGED <<peer, dtls, sctp, stask, spermit, loops>>
    /\ UNCHANGED CUnch

\* ICE state changed
C_RunIce ==
    /\ cp = "run" /\ iceT # seenC
    /\ seenC' = iceT
    /\ CASE iceT \in {"Failed", "Closed"} ->
              cp' = "retTrue" /\ UNCHANGED <<cval, cnext, grace>>
         [] iceT = "Disconnected" ->
              cp' = "pre:conn.ice_disc" /\ cval' = "Disconnected" /\ cnext' = "run" /\
              (\/ grace' = TRUE
               \/ "GraceNotRearmed" \in Deviations /\ flapLeft < MaxFlaps /\ ~flapping /\ grace' = FALSE)
         [] iceT \in IceUp ->
              cp' = "pre:conn.ice_rec" /\ cval' = "Connected" /\ cnext' = "run" /\ grace' = FALSE
         [] OTHER -> UNCHANGED <<cp, cval, cnext, grace>>
    /\ UNCHANGED <<reason, seenD>>
    /\ UNCHANGED <<peer, dtls, sctp, stask, spermit, loops>>
    /\ UNCHANGED CUnch

\* DTLS closed or failed (WebRtc)
C_RunDtls ==
    /\ cp = "run" /\ ~IsDirect /\ dtls # seenD
    /\ seenD' = dtls
    /\ IF dtls \in {"Closed", "Failed"}
       THEN /\ SetReason(IF dtls = "Failed" THEN "DtlsFailed" ELSE "DtlsClosed")
            /\ cp' = "pre:conn.dtls_end" /\ cval' = "Disconnected" /\ cnext' = "retFalse"
       ELSE UNCHANGED <<reason, cp, cval, cnext>>
    /\ UNCHANGED <<seenC, grace>>
    /\ UNCHANGED <<peer, dtls, sctp, stask, spermit, loops>>
    /\ UNCHANGED CUnch

\* disconnect grace expired
C_RunGrace ==
    /\ cp = "run" /\ grace /\ ~(flapping /\ peerAlive)   \* (a flap that recovers is, by definition, shorter than the grace period)
    /\ grace' = FALSE
    /\ SetReason("IceDisconnected")
    /\ cp' = "pre:conn.grace" /\ cval' = "Disconnected" /\ cnext' = "retTrue"
    /\ UNCHANGED <<seenC, seenD>>
    /\ UNCHANGED <<peer, dtls, sctp, stask, spermit, loops>>
    /\ UNCHANGED CUnch

C_Run == C_RunLoops \/ C_RunIce \/ C_RunDtls \/ C_RunGrace

-----------------------------------------------------------------------------
(* D: DTLS runner *)

DUnch == <<peer, sig, reason, ap, iceT, sock, seenL, seenC, role, lp, cp, cval, cnext, seenD, sctp, stask, srun,
           spermit, swhy, loops, chan, opened, closes, grace, cl, handles, dropped, calls, sendpc, peerAlive,
           abortIn, shutdownIn, wfcLeft, fired, flapLeft, flapping>>

D_Connect ==
    /\ dtask = "running" /\ dtls = "Handshaking" /\ sock /\ peerAlive
    /\ dtls' = "Connected"
    /\ UNCHANGED <<dtask, dpermit, alertIn>> /\ UNCHANGED DUnch

\* close permit consumed: close_notify (if keys), the runner ends, the state is left as it is
D_Close ==
    /\ dtask = "running" /\ dpermit
    /\ dtask' = "done" /\ dpermit' = FALSE
    /\ UNCHANGED <<dtls, alertIn>> /\ UNCHANGED DUnch

\* top-of-loop check after any wake-up (1 s tick, packet): the ICE socket is gone
D_SockGone ==
    /\ dtask = "running" /\ ~sock /\ dtls \in {"Handshaking", "Connected", "Closed"}
    /\ dtls' = IF dtls = "Handshaking" THEN "Failed" ELSE "Closed"
    /\ dtask' = "done"
    /\ UNCHANGED <<dpermit, alertIn>> /\ UNCHANGED DUnch

D_PeerAlert ==
    /\ dtask = "running" /\ alertIn /\ dtls = "Connected" /\ sock
    /\ dtls' = "Closed" /\ alertIn' = FALSE
    /\ UNCHANGED <<dtask, dpermit>> /\ UNCHANGED DUnch

\* handshake deadline
D_Timeout ==
    /\ dtask = "running" /\ dtls = "Handshaking" /\ ~peerAlive
    /\ dtls' = "Failed" /\ dtask' = "done"
    /\ UNCHANGED <<dpermit, alertIn>> /\ UNCHANGED DUnch

-----------------------------------------------------------------------------
(* S: SCTP runner (polled inline by start_dtls before DTLS is up, as a transport loop afterwards) *)

SUnch == <<peer, sig, reason, ap, iceT, sock, seenL, seenC, role, lp, cp, cval, cnext, dtls, dtask, dpermit,
           seenD, grace, cl, handles, dropped, calls, peerAlive, alertIn, wfcLeft, fired, flapLeft, flapping>>

SExit(why) ==
    \* the cleanup guard also wakes senders parked on the buffered-amount limit
    /\ sendpc' = IF sendpc \in {"parked", "prewait"} /\ "ExitDoesNotWake" \notin Deviations THEN "check" ELSE sendpc
    /\ swhy' = IF why = "" THEN swhy ELSE why
    /\ GuardEffect
    /\ IF stask = "inline"
       THEN stask' = "inlineDone" /\ UNCHANGED loops
       ELSE stask' = "done" /\ loops' = "done"

S_Start ==
    /\ SPolled /\ srun = "idle"
    /\ srun' = "waitDtls"
    /\ UNCHANGED <<sctp, stask, spermit, swhy, loops, chan, opened, closes, abortIn, shutdownIn>> /\ UNCHANGED SUnch /\ UNCHANGED sendpc

S_DtlsUp ==
    /\ SPolled /\ srun = "waitDtls" /\ dtls = "Connected"
    /\ srun' = "assoc"
    /\ UNCHANGED <<sctp, stask, spermit, swhy, loops, chan, opened, closes, abortIn, shutdownIn>> /\ UNCHANGED SUnch /\ UNCHANGED sendpc

S_Established ==
    /\ SPolled /\ srun = "assoc" /\ sctp = "New" /\ dtls = "Connected" /\ peerAlive /\ sock
    /\ sctp' = "Established"
    /\ UNCHANGED <<stask, srun, spermit, swhy, loops, chan, opened, closes, abortIn, shutdownIn>> /\ UNCHANGED SUnch /\ UNCHANGED sendpc

S_ChanOpen ==
    /\ SPolled /\ sctp = "Established" /\ chan = "connecting" /\ peerAlive /\ sock
    /\ chan' = "open" /\ opened' = TRUE
    /\ UNCHANGED <<sctp, stask, srun, spermit, swhy, loops, closes, abortIn, shutdownIn>> /\ UNCHANGED SUnch /\ UNCHANGED sendpc

\* close(): one permit for two waiters of the runner, or the Closed state seen at the loop top
S_Closed ==
    /\ SPolled /\ srun # "idle" /\ (spermit \/ sctp = "taken")
    /\ spermit' = FALSE
    /\ srun' = "exited"
    /\ SExit(IF spermit THEN "LOCAL_CLOSE" ELSE "")
    /\ UNCHANGED <<sctp, opened, abortIn, shutdownIn>> /\ UNCHANGED SUnch

S_DtlsGone ==
    /\ SPolled /\ srun \in {"waitDtls", "assoc"} /\ dtls \in {"Failed", "Closed"}
    /\ srun' = "exited"
    /\ SExit(IF srun = "waitDtls" THEN "" ELSE IF dtls = "Failed" THEN "DTLS_FAILED" ELSE "DTLS_CLOSED")
    /\ UNCHANGED <<sctp, spermit, opened, abortIn, shutdownIn>> /\ UNCHANGED SUnch

S_Abort ==
    /\ SPolled /\ srun = "assoc" /\ abortIn /\ dtls = "Connected" /\ sock
    /\ abortIn' = FALSE
    /\ srun' = "exited"
    /\ SExit("REMOTE_ABORT")
    /\ UNCHANGED <<sctp, spermit, opened, shutdownIn>> /\ UNCHANGED SUnch

\* the DTLS runner has ended: the channel that feeds the association is closed ("INCOMING_CHANNEL_CLOSED")
S_InputClosed ==
    /\ SPolled /\ srun = "assoc" /\ dtask = "done"
    /\ srun' = "exited"
    /\ SExit("INCOMING_CHANNEL_CLOSED")
    /\ UNCHANGED <<sctp, spermit, opened, abortIn, shutdownIn>> /\ UNCHANGED SUnch

\* the peer acknowledged a SHUTDOWN this endpoint sent ("REMOTE_SHUTDOWN")
S_ShutdownAck ==
    /\ SPolled /\ srun = "assoc" /\ shutdownIn /\ dtls = "Connected" /\ sock
    /\ shutdownIn' = FALSE
    /\ srun' = "exited"
    /\ SExit("REMOTE_SHUTDOWN")
    /\ UNCHANGED <<sctp, spermit, opened, abortIn>> /\ UNCHANGED SUnch

\* the peer shut the association down and stopped answering: heartbeats run out
S_PeerSilent ==
    /\ IceFailFallback      \* (heartbeat / retransmission limits are slow fallbacks like ICE's connection timeout)
    /\ SPolled /\ srun = "assoc" /\ ~peerAlive
    /\ srun' = "exited"
    /\ SExit("HEARTBEAT_TIMEOUT")
    /\ shutdownIn' = FALSE
    /\ UNCHANGED <<sctp, spermit, opened, abortIn>> /\ UNCHANGED SUnch

\* in the direct modes, and in WebRtc mode without a data channel (no SCTP runner among the loops), the transport loops
\* (rtcp reader, pair monitor) end when the ICE socket goes
T_DirectEnd ==
    /\ (IsDirect \/ ~HasDc) /\ loops = "running" /\ ~sock
    /\ loops' = "done"
    /\ UNCHANGED <<sctp, stask, srun, spermit, swhy, chan, opened, closes, abortIn, shutdownIn>> /\ UNCHANGED SUnch /\ UNCHANGED sendpc

-----------------------------------------------------------------------------
(* ICE transport and the peer *)

EUnch == <<peer, sig, reason, ap, seenL, seenC, role, lp, cp, cval, cnext, dtls, dtask, dpermit, seenD, sctp, stask,
           srun, spermit, swhy, loops, chan, opened, closes, grace, cl, handles, dropped, calls, sendpc, alertIn, abortIn,
           shutdownIn, wfcLeft, fired, flapLeft, flapping>>

I_Connect ==
    /\ iceT = "Checking" /\ peerAlive
    /\ iceT' = "Connected" /\ sock' = TRUE
    /\ UNCHANGED peerAlive /\ UNCHANGED EUnch

\* the controlled agent moves on to Completed once the nominated pair is confirmed
I_Complete ==
    /\ Answerer /\ iceT \in IceUp /\ peerAlive /\ ~IsDirect
    \* (the agent re-publishes an up state now and then; the loops see a change each time)
    /\ iceT' = IF iceT = "Connected" THEN "Completed" ELSE "Connected"
    /\ UNCHANGED <<sock, peerAlive>> /\ UNCHANGED EUnch

\* a recoverable disturbance: the path is down for less than the grace period, the peer is still there
I_FlapDown ==
    /\ flapLeft > 0 /\ ~flapping /\ fired = <<>> /\ iceT \in IceUp /\ peerAlive /\ ~IsDirect
    /\ cp = "run" /\ peer = "Connected" /\ (Dc => chan = "open")
    /\ iceT' = "Disconnected" /\ flapLeft' = flapLeft - 1 /\ flapping' = TRUE
    /\ UNCHANGED <<sock, peerAlive>>
    /\ UNCHANGED <<peer, sig, reason, ap, seenL, seenC, role, lp, cp, cval, cnext, dtls, dtask, dpermit, seenD, sctp,
                   stask, srun, spermit, swhy, loops, chan, opened, closes, grace, cl, handles, dropped, calls, sendpc,
                   alertIn, abortIn, shutdownIn, wfcLeft, fired>>

I_FlapUp ==
    /\ flapping /\ iceT = "Disconnected" /\ peerAlive
    /\ iceT' = "Connected" /\ flapping' = FALSE
    /\ UNCHANGED <<sock, peerAlive, flapLeft>>
    /\ UNCHANGED <<peer, sig, reason, ap, seenL, seenC, role, lp, cp, cval, cnext, dtls, dtask, dpermit, seenD, sctp,
                   stask, srun, spermit, swhy, loops, chan, opened, closes, grace, cl, handles, dropped, calls, sendpc,
                   alertIn, abortIn, shutdownIn, wfcLeft, fired>>

I_Disconnect ==
    /\ iceT \in IceUp /\ ~peerAlive /\ ~IsDirect
    /\ iceT' = "Disconnected"
    /\ UNCHANGED <<sock, peerAlive>> /\ UNCHANGED EUnch

I_Fail ==
    /\ iceT \in {"Checking", "Disconnected"} /\ ~peerAlive
    /\ (iceT = "Disconnected" => IceFailFallback)
    /\ iceT' = "Failed"
    /\ UNCHANGED <<sock, peerAlive>> /\ UNCHANGED EUnch

-----------------------------------------------------------------------------
(* API calls *)

R_WaitConnected ==
    /\ "wfc" \in calls
    /\ \/ peer \in {"Connected", "Failed", "Closed"}
       \/ /\ "WaitConnectedBlind" \notin Deviations
          /\ peer = "Disconnected" /\ reason \notin {"None", "IceDisconnected"}
    /\ calls' = calls \ {"wfc"} /\ UNCHANGED sendpc
    /\ UNCHANGED <<peer, sig, reason, ap, iceT, sock, seenL, seenC, role, lp, cp, cval, cnext, dtls, dtask, dpermit,
                   seenD, sctp, stask, srun, spermit, swhy, loops, chan, opened, closes, grace, cl, handles, dropped,
                   peerAlive, alertIn, abortIn, shutdownIn, wfcLeft, fired, flapLeft, flapping>>

\* the send_data() call blocked on the buffered-amount limit (flow-control loop of send_data_raw)
SendUnch == <<peer, sig, reason, ap, iceT, sock, seenL, seenC, role, lp, cp, cval, cnext, dtls, dtask, dpermit,
              seenD, sctp, stask, srun, spermit, swhy, loops, chan, opened, closes, grace, cl, handles, dropped,
              peerAlive, alertIn, abortIn, shutdownIn, wfcLeft, fired, flapLeft, flapping>>

R_SendCheck ==
    /\ sendpc = "check"
    /\ IF sctp = "taken" \/ srun = "exited"
       THEN calls' = calls \ {"send"} /\ sendpc' = "none"       \* "sctp association closed"
       ELSE UNCHANGED calls /\ sendpc' = "prewait"              \* over the limit
    /\ UNCHANGED SendUnch

\* window credit from the (live) peer: the sender goes round its loop again
R_SendCredit ==
    /\ sendpc = "parked" /\ peerAlive /\ sctp = "Established" /\ srun = "assoc" /\ sock
    /\ sendpc' = "check"
    /\ UNCHANGED calls /\ UNCHANGED SendUnch

\* the application streams data over a small send buffer to a live peer
A_Stream ==
    /\ "senderBlocked" \in PhaseSet /\ fired = <<>> /\ sendpc = "none" /\ handles > 0
    /\ ap = "signaled" /\ cp = "run" /\ peer = "Connected" /\ Dc /\ chan = "open" /\ peerAlive
    /\ calls' = calls \cup {"send"} /\ sendpc' = "check"
    /\ UNCHANGED SendUnch

R_SendPark ==
    /\ sendpc = "prewait"
    /\ sendpc' = "parked"
    /\ UNCHANGED calls /\ UNCHANGED SendUnch

-----------------------------------------------------------------------------
(* terminating events of the scenario *)

Applicable(e) ==
    CASE e = "Close"            -> handles > 0
      [] e = "Drop"             -> handles > 0
      [] e = "IceStop"          -> handles > 0
      [] e = "PeerCloseNotify"  -> ~IsDirect /\ dtls = "Connected" /\ peerAlive
      [] e = "PeerSctpAbort"    -> Dc /\ sctp = "Established" /\ peerAlive
      [] e = "PeerSctpShutdown" -> Dc /\ sctp = "Established" /\ peerAlive
      [] e = "SocketLoss"       -> ~IsDirect /\ peerAlive /\ iceT \in {"Checking", "Connected", "Completed"}
      [] e = "BlockedSender"    -> Dc /\ chan = "open" /\ peerAlive /\ handles > 0 /\ (\E k \in {1, 2} : cl[k] \in {"idle", "done"})
      [] OTHER                  -> FALSE

FreeCloser == CHOOSE k \in {1, 2} : cl[k] \in {"idle", "done"}

Effect(e) ==
    CASE e = "Close" ->
           /\ cl' = [cl EXCEPT ![FreeCloser] = "begin"]
           /\ UNCHANGED <<handles, iceT, sock, peerAlive, alertIn, abortIn, shutdownIn, calls, sendpc>>
      [] e = "Drop" ->
           \* every handle goes, also those held by the application's pending calls
           /\ handles' = 0 /\ calls' = {} /\ sendpc' = "none"
           /\ UNCHANGED <<cl, iceT, sock, peerAlive, alertIn, abortIn, shutdownIn>>
      [] e = "IceStop" ->
           /\ iceT' = "Closed" /\ sock' = FALSE
           /\ UNCHANGED <<cl, handles, peerAlive, alertIn, abortIn, shutdownIn, calls, sendpc>>
      [] e = "PeerCloseNotify" ->
           /\ alertIn' = TRUE /\ peerAlive' = FALSE
           /\ UNCHANGED <<cl, handles, iceT, sock, abortIn, shutdownIn, calls, sendpc>>
      [] e = "PeerSctpAbort" ->
           /\ abortIn' = TRUE /\ peerAlive' = FALSE
           /\ UNCHANGED <<cl, handles, iceT, sock, alertIn, shutdownIn, calls, sendpc>>
      [] e = "PeerSctpShutdown" ->
           /\ shutdownIn' = TRUE /\ peerAlive' = FALSE
           /\ UNCHANGED <<cl, handles, iceT, sock, alertIn, abortIn, calls, sendpc>>
      [] e = "SocketLoss" ->
           /\ peerAlive' = FALSE
           /\ UNCHANGED <<cl, handles, iceT, sock, alertIn, abortIn, shutdownIn, calls, sendpc>>
      [] e = "BlockedSender" ->
           \* the peer vanishes, a send_data call blocks on the buffer limit, then the application closes
           /\ peerAlive' = FALSE /\ calls' = calls \cup {"send"} /\ sendpc' = "check"
           /\ cl' = [cl EXCEPT ![FreeCloser] = "begin"]
           /\ UNCHANGED <<handles, iceT, sock, alertIn, abortIn, shutdownIn>>

\* the first event fires at one of the phases, a second (racing) one at any later moment
Fire(e) ==
    /\ Len(fired) < MaxEvents
    /\ IF fired = <<>> THEN e \in Ev1Set /\ PhaseNow \in PhaseSet ELSE e \in Ev2Set
    /\ Applicable(e)
    /\ Effect(e)
    /\ fired' = Append(fired, [ev |-> e, phase |-> PhaseNow, flaps |-> MaxFlaps - flapLeft,
                               at |-> IF sendpc = "prewait" THEN "sctp:send.before_wait" ELSE
                                      IF IsPre(cp) THEN cp ELSE
                                      IF lp \in {"pre:iceloop.ice_failed", "pre:iceloop.ice_closed"}
                                      THEN lp ELSE "any"])
    /\ UNCHANGED <<peer, sig, reason, ap, seenL, seenC, role, lp, cp, cval, cnext, dtls, dtask, dpermit, seenD, sctp,
                   stask, srun, spermit, swhy, loops, chan, opened, closes, grace, dropped, wfcLeft, flapLeft, flapping>>

\* the application may be waiting in wait_for_connected() before the event, and ask again afterwards
A_CallWfc ==
    /\ "wfc" \notin calls /\ handles > 0 /\ wfcLeft > 0
    /\ ap \notin {"init", "gathering", "gathered"}
    /\ (fired = <<>> => wfcLeft = WfcBudget)
    /\ calls' = calls \cup {"wfc"} /\ UNCHANGED sendpc
    /\ wfcLeft' = wfcLeft - 1
    /\ UNCHANGED <<peer, sig, reason, ap, iceT, sock, seenL, seenC, role, lp, cp, cval, cnext, dtls, dtask, dpermit,
                   seenD, sctp, stask, srun, spermit, swhy, loops, chan, opened, closes, grace, cl, handles, dropped,
                   peerAlive, alertIn, abortIn, shutdownIn, fired, flapLeft, flapping>>

-----------------------------------------------------------------------------
Next ==
    \/ A_MakeOffer \/ A_GatherDone \/ A_SetLocal \/ A_SetRemote \/ A_Reneg \/ A_SigLate
    \/ A_SetRemoteOffer \/ A_SetLocalAnswer
    \/ \E k \in 1..3 : A_Close1(k) \/ A_Close2(k) \/ A_Close3(k) \/ A_Close4(k) \/ A_Close5(k)
    \/ InnerDrop \/ AbortTracked
    \/ L_Top \/ L_SawChecking \/ L_Wait \/ L_EnterConn \/ L_PubFailed \/ L_PubClosed \/ L_ConnReturn
    \/ C_Role \/ C_Start \/ C_SrtpAbort \/ C_HsEnter \/ C_Hs \/ C_HsConn \/ C_DirectSpawn \/ C_Spawned \/ C_Publish \/ C_Run
    \/ D_Connect \/ D_Close \/ D_SockGone \/ D_PeerAlert \/ D_Timeout
    \/ S_Start \/ S_DtlsUp \/ S_Established \/ S_ChanOpen \/ S_Closed \/ S_DtlsGone \/ S_Abort \/ S_PeerSilent
    \/ S_InputClosed
    \/ T_DirectEnd
    \/ I_Connect \/ I_Complete \/ I_Disconnect \/ I_Fail \/ I_FlapDown \/ I_FlapUp
    \/ R_WaitConnected \/ R_SendCheck \/ R_SendPark \/ R_SendCredit \/ A_Stream
    \/ (\E e \in Events : Fire(e)) \/ A_CallWfc

\* every step of the code's own tasks is fair; the application script and the events are not
Fairness ==
    /\ WF_vars(L_Top \/ L_SawChecking \/ L_Wait \/ L_EnterConn \/ L_PubFailed \/ L_PubClosed \/ L_ConnReturn)
    /\ WF_vars(C_Role \/ C_Start \/ C_SrtpAbort \/ C_HsEnter \/ C_Hs \/ C_HsConn \/ C_DirectSpawn \/ C_Spawned \/ C_Publish \/ C_Run)
    /\ WF_vars(D_Connect \/ D_Close \/ D_SockGone \/ D_PeerAlert \/ D_Timeout)
    /\ WF_vars(S_Start \/ S_DtlsUp \/ S_Established \/ S_ChanOpen \/ S_Closed \/ S_DtlsGone \/ S_Abort \/ S_PeerSilent
               \/ S_InputClosed)
    /\ WF_vars(T_DirectEnd)
    /\ WF_vars(I_Connect \/ I_Disconnect \/ I_Fail \/ I_FlapUp)
    /\ WF_vars(\E k \in 1..3 : A_Close1(k) \/ A_Close2(k) \/ A_Close3(k) \/ A_Close4(k) \/ A_Close5(k))
    /\ WF_vars(InnerDrop \/ AbortTracked)
    /\ WF_vars(R_WaitConnected)
    /\ WF_vars(R_SendCheck \/ R_SendPark)
    /\ WF_vars(A_Stream)
    /\ WF_vars(A_MakeOffer \/ A_GatherDone \/ A_SetLocal \/ A_SetRemote \/ A_Reneg \/ A_SetRemoteOffer
               \/ A_SetLocalAnswer)
    /\ WF_vars(A_CallWfc)

Spec == Init /\ [][Next]_vars /\ Fairness

-----------------------------------------------------------------------------
(* properties (C17) *)

TypeOK ==
    /\ peer \in PeerStates /\ sig \in SigStates /\ reason \in Reasons
    /\ iceT \in IceStates /\ sock \in BOOLEAN
    /\ closes \in 0..3 /\ handles \in 0..1

\* local termination has been requested and has run to its end
LocalEnded == \E k \in 1..3 : cl[k] = "done"
AnyFired == fired # <<>>
FiredSet == {fired[i].ev : i \in 1..Len(fired)}
LocalFired == FiredSet \cap {"Close", "Drop", "BlockedSender"} # {}

\* what the API presents as "over"
Terminal == \/ peer \in {"Closed", "Failed"}
            \/ peer = "Disconnected" /\ reason # "None"

\* the code's own tasks are gone and the ICE socket is released
Quiet == /\ lp = "done" /\ ~CInHandler
         /\ dtask \in {"none", "done"}
         /\ stask \in {"none", "done", "inlineDone"}
         /\ loops \in {"none", "done", "aborted"}
         /\ ~sock

\* once Closed, always Closed (peer and signaling)
TerminalIsStable ==
    [][Rule("C17", (peer = "Closed" => peer' = "Closed") /\ (sig = "Closed" => sig' = "Closed"))]_vars

\* a terminal state comes with a reason
ReasonSet == Rule("C17", peer \in {"Closed", "Failed"} => reason # "None")

\* no channel sees Close twice; an opened channel sees it once the connection is over
CloseAtMostOnce == Rule("C17", closes <= 1)
CloseEventually == (AnyFired /\ opened /\ (LocalFired \/ ~peerAlive)) ~> (closes = 1)

\* after a terminating event the connection reports that it is over ...
ReportsTerminal == (AnyFired /\ (LocalFired \/ ~peerAlive \/ iceT = "Closed")) ~> Terminal
\* ... and an application close()/drop ends in Closed
LocalEndsClosed == LocalFired ~> [](peer = "Closed")

\* pending API calls are answered
\* ... including a reader parked in DataChannel::recv(): after close()/drop, and once the association that carries the
\* channel has ended, the channel's stream has ended
ChannelEnds == /\ LocalFired ~> (chan \in {"none", "closed"})
               /\ (srun = "exited") ~> (chan \in {"none", "closed"})
NoHang == (AnyFired ~> (calls = {})) /\ ChannelEnds

\* tasks and sockets are released once the application has closed or dropped the connection
Released == LocalFired ~> Quiet

=============================================================================
