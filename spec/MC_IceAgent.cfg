SPECIFICATION Spec
CONSTANTS
  Roles = {"controlling", "controlled"}
  Socks = {"udp", "mux"}
  Lites = {FALSE, TRUE}
  UserAlpha = {"ok", "missing", "wrong"}
  MiAlpha = {"ok", "missing", "wrongKey", "garbled"}
  FpAlpha = {"ok", "none"}
  Deviations = {}
VIEW view
INVARIANTS TypeOK
PROPERTIES UnauthInert UnmatchedInert
ACTION_CONSTRAINT NoEmit
CHECK_DEADLOCK FALSE
