------------------------------- MODULE Stack -------------------------------
(***************************************************************************)
(* First step of the composed specification: the layers of one endpoint    *)
(* (ICE, DTLS, SRTP keying, SCTP, data channel, peer-connection state) at   *)
(* the level of their interfaces - "layer L reaches state S only after     *)
(* layer L-1 has reached S'".  Each layer variable is the projection of    *)
(* the corresponding layer specification:                                   *)
(*   ice   : IceAgent / Lifecycle.iceT       (New, Up, Down)                *)
(*   dtls  : DtlsHandshake / Lifecycle.dtls  (none, Handshaking, Connected, *)
(*                                            Over)                         *)
(*   keys  : Srtp / SrtpGate                 (keying material installed)    *)
(*   sctp  : SctpAssoc / Lifecycle.sctp      (none, Connecting, Established,*)
(*                                            Over)                         *)
(*   chan  : SctpAssoc channel state / Lifecycle.chan                       *)
(*   pc    : Lifecycle.peer                                                 *)
(* Mode decides which layers exist (WebRtc: all; Srtp: keys from SDES, no   *)
(* DTLS/SCTP; Rtp: neither).  The cross-layer ordering invariants below     *)
(* hold in this model by the guards of the "up" steps; Trace_Stack checks   *)
(* them on the hook events of all layers recorded in pc-pair runs.          *)
(***************************************************************************)
EXTENDS Naturals, FiniteSets

CONSTANTS Mode,        \* "WebRtc" | "Srtp" | "Rtp"
          Deviations

DeviationNames == {"KeysBeforeDtls", "SctpBeforeDtls", "OpenBeforeSctp", "ConnectedEarly"}

IsWeb == Mode = "WebRtc"

VARIABLES ice, started, dtls, keys, sctp, chan, pc

vars == <<ice, started, dtls, keys, sctp, chan, pc>>

Init ==
    /\ ice = "New" /\ started = FALSE /\ dtls = "none" /\ keys = FALSE
    /\ sctp = "none" /\ chan = "none" /\ pc = "New"

IceUp == ice = "New" /\ ice' = "Up" /\ UNCHANGED <<started, dtls, keys, sctp, chan, pc>>

\* the connected-state handler starts the transports once ICE is up
TransportStart ==
    /\ ice = "Up" /\ ~started /\ pc = "New"
    /\ started' = TRUE
    /\ dtls' = IF IsWeb THEN "Handshaking" ELSE dtls
    /\ UNCHANGED <<ice, keys, sctp, chan, pc>>

DtlsUp ==
    /\ IsWeb /\ started /\ dtls = "Handshaking"
    /\ dtls' = "Connected"
    /\ UNCHANGED <<ice, started, keys, sctp, chan, pc>>

\* SRTP keying material: exported from DTLS, or taken from a=crypto in Srtp mode
KeysInstalled ==
    /\ Mode # "Rtp" /\ started /\ ~keys
    /\ (IsWeb => (dtls = "Connected" \/ "KeysBeforeDtls" \in Deviations))
    /\ keys' = TRUE
    /\ UNCHANGED <<ice, started, dtls, sctp, chan, pc>>

SctpStart ==
    /\ IsWeb /\ sctp = "none"
    /\ (dtls = "Connected" \/ "SctpBeforeDtls" \in Deviations)
    /\ sctp' = "Connecting"
    /\ UNCHANGED <<ice, started, dtls, keys, chan, pc>>

SctpUp ==
    /\ sctp = "Connecting" /\ dtls = "Connected"
    /\ sctp' = "Established"
    /\ UNCHANGED <<ice, started, dtls, keys, chan, pc>>

ChanOpen ==
    /\ IsWeb /\ chan = "none"
    /\ (sctp = "Established" \/ "OpenBeforeSctp" \in Deviations)
    /\ chan' = "open"
    /\ UNCHANGED <<ice, started, dtls, keys, sctp, pc>>

LayersReady == /\ started
               /\ (IsWeb => dtls = "Connected")
               /\ (Mode # "Rtp" => keys)

PcConnected ==
    /\ pc = "New"
    /\ (LayersReady \/ "ConnectedEarly" \in Deviations)
    /\ pc' = "Connected"
    /\ UNCHANGED <<ice, started, dtls, keys, sctp, chan>>

\* teardown: any layer may end at any time; what is above it follows
LayerDown ==
    \/ ice \in {"New", "Up"} /\ ice' = "Down" /\ UNCHANGED <<started, dtls, keys, sctp, chan, pc>>
    \/ dtls \in {"Handshaking", "Connected"} /\ dtls' = "Over" /\ UNCHANGED <<ice, started, keys, sctp, chan, pc>>
    \/ sctp \in {"Connecting", "Established"} /\ sctp' = "Over" /\ UNCHANGED <<ice, started, dtls, keys, chan, pc>>
    \/ chan = "open" /\ chan' = "closed" /\ UNCHANGED <<ice, started, dtls, keys, sctp, pc>>
    \/ pc \in {"New", "Connected"} /\ pc' = "Over" /\ UNCHANGED <<ice, started, dtls, keys, sctp, chan>>

Next == IceUp \/ TransportStart \/ DtlsUp \/ KeysInstalled \/ SctpStart \/ SctpUp \/ ChanOpen \/ PcConnected \/ LayerDown

Spec == Init /\ [][Next]_vars

-----------------------------------------------------------------------------
(* cross-layer ordering, as action properties: a layer comes up only over the layers below *)
KeysAfterDtls      == [][(~keys /\ keys') => (IsWeb => dtls \in {"Connected", "Over"})]_vars
SctpAfterDtls      == [][(sctp = "none" /\ sctp' # "none") => dtls \in {"Connected", "Over"}]_vars
OpenAfterSctp      == [][(chan = "none" /\ chan' = "open") => sctp \in {"Established", "Over"}]_vars
ConnectedAfterAll  == [][(pc = "New" /\ pc' = "Connected") =>
                           /\ started
                           /\ (IsWeb => dtls \in {"Connected", "Over"})
                           /\ (Mode # "Rtp" => keys)]_vars
DtlsAfterStart     == [][(dtls = "none" /\ dtls' # "none") => ice \in {"Up", "Down"}]_vars
=============================================================================
