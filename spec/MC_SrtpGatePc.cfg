SPECIFICATION Spec
CONSTANTS
  Modes = {"WebRtc", "Srtp", "Rtp"}
  Roles = {"offerer", "answerer"}
  Cryptos = {"ok", "none", "suite", "key"}
  MaxLen = 6
  Ops = {"Push", "Raw", "InClearRtp", "InClearRtcp", "InForged", "InValid", "Keys", "Close", "InValidNack", "Gap", "KeyFrame", "Report"}
  Deviations = {}
VIEW view
INVARIANTS TypeOK
PROPERTIES EgressOK IngressOK AllowedInside
ACTION_CONSTRAINT NoEmit
CHECK_DEADLOCK FALSE
