----------------------------- MODULE MC_Answer -----------------------------
(* Offer enumerator + sanity of the ValidAnswer relation (property C08).    *)
(*                                                                          *)
(* A behaviour builds one (offer, local configuration) pair: Init chooses   *)
(* the number of sections, the description-level attributes and the local   *)
(* configuration; each step appends one media section.  When the offer is   *)
(* complete, EmitOffer prints it (INVARIANT with a print side effect) and   *)
(* the sanity invariants require that the reject-all answer and the plain   *)
(* intersection answerer satisfy ValidAnswer for it.  Exhaustive runs       *)
(* enumerate the whole bounded offer space; -simulate samples a larger one. *)
EXTENDS Answer, Json, SequencesExt

CONSTANTS MinSec, MaxSec, \* offers have MinSec..MaxSec sections
          Sims,          \* subset of BOOLEAN: video sections may carry rid/simulcast lines
          Port0s,        \* subset of BOOLEAN: sections may be offered rejected (port 0)
          \* "line form" of the peer's text - what the parser sees for the SAME abstract description; it matters
          \* for the round trip parse(print(d)) = d of parsed descriptions (session-level fields included):
          SNames,        \* s= line: subset of {"dash" (s=-), "space" (s= , the RFC 4566 no-name form), "empty" (s=), "words" (s=x y)}
          OUsers,        \* o= username: subset of {"dash", "name"}
          SessOpts,      \* optional session-level lines: subset of {"none", "c", "bi", "all"} (c= / b= and i= / all three)
          FlagAttrs,     \* subset of BOOLEAN: value-less attributes (a=ice-lite, a=extmap-allow-mixed, a=rtcp-rsize)
          Trickies,      \* subset of BOOLEAN: values containing ':' '=' ';' (msid ssrc, IPv6 candidate, unknown attribute)
          Blanks,        \* subset of BOOLEAN: leading blanks in values, trailing blanks on lines
          Eols,          \* subset of {"crlf", "lf"}
          SetupLevels,   \* subset of {"media", "session"}: a=setup / a=fingerprint per m= section or once at session level
          Extras,        \* subset of {"none","sip","browser"}: extra lines a real peer sends (bandwidth, ptime,
                         \* msid, ssrc-group, candidates ...) - they matter for the parse/print round trip
          Kinds,         \* subset of {"audio","video","application","image"}
          MidSchemes,    \* subset of {"numeric","named","absent"}
          BundleModes,   \* subset of {"none","all","first2"}
          Setups,        \* setup values an offer may carry, one per description
          AudioPts,      \* set of payload-type sequences for audio sections
          VideoPts,      \* set of payload-type sequences for video sections
          ExtSeqs,       \* set of sequences of <<id, uriKey>>
          Dirs,
          Muxes,         \* subset of BOOLEAN
          Modes, Compats, Caps, Pres, Negs,   \* local configuration dimensions
          Samples,       \* 0: enumerate the whole bounded space; N > 0: N pseudo-random (offer, cfg) pairs
          Seed,          \* seed of the model's own generator (VERIF_SEED): the sample is a function of it
          Deviations     \* {"AnswerLocalList"} switches the reference answerer to the pinned code's behaviour

VARIABLES secs, n, desc, cfg, form, k, rnd
vars == <<secs, n, desc, cfg, form, k, rnd>>

Forms == [sname : SNames, ouser : OUsers, sess : SessOpts, flags : FlagAttrs, tricky : Trickies, blanks : Blanks,
          eol : Eols, setuplvl : SetupLevels]

(* A small deterministic generator inside the model (two LCGs, products stay below 2^31), so that the   *)
(* sample depends only on Seed: TLC's RandomElement is not reproducible from -seed in model-checking mode. *)
M1 == 46337
M2 == 46327
NextR(r) == <<(r[1] * 30011 + 12345) % M1, (r[2] * 20011 + 6789) % M2>>
Val(r)   == (r[1] * r[2] + r[1] + r[2]) % 40009
Pick(S, r) == SetToSeq(S)[1 + (Val(r) % Cardinality(S))]
R0(kk) == NextR(NextR(<<(Seed * 7 + kk * 13 + 1) % M1, (Seed * 11 + kk * 17 + 2) % M2>>))

AudioCodec(pt) ==
  CASE pt = 0   -> "pcmu/8000/1"
    [] pt = 8   -> "pcma/8000/1"
    [] pt = 9   -> "g722/8000/1"
    [] pt = 101 -> "telephone-event/8000/1"
    [] pt = 111 -> "opus/48000/2"
    [] pt = 96  -> "opus/48000/2"      \* opus on another dynamic number: codec identity, not number
    [] OTHER    -> "unknown/8000/1"
VideoCodec(pt) ==
  CASE pt = 96  -> "vp8/90000"
    [] pt = 97  -> "rtx/90000"          \* apt=96
    [] pt = 98  -> "h264/90000"
    [] pt = 99  -> "rtx/90000"          \* apt=98
    [] pt = 100 -> "vp8/90000"          \* VP8 on another dynamic number
    [] pt = 103 -> "rtx/90000"          \* apt=100
    [] OTHER    -> "unknown/90000"
Apt(pt) == IF pt = 97 THEN 96 ELSE IF pt = 99 THEN 98 ELSE IF pt = 103 THEN 100 ELSE 0

PtsOf(kind, s) ==
  [i \in DOMAIN s |-> <<s[i], IF kind = "audio" THEN AudioCodec(s[i]) ELSE VideoCodec(s[i])>>]
RtxOf(kind, s) ==
  IF kind # "video" THEN <<>>
  ELSE LET r == SelectSeq(s, LAMBDA p : Apt(p) # 0 /\ Apt(p) \in Range(s))
       IN [i \in DOMAIN r |-> <<r[i], Apt(r[i])>>]

MidOf(scheme, kind, i) ==
  CASE scheme = "numeric" -> ToString(i - 1)
    [] scheme = "named"   -> (CASE kind = "audio" -> "a" [] kind = "video" -> "v"
                                [] kind = "application" -> "d" [] OTHER -> "i") \o ToString(i - 1)
    [] OTHER              -> ""

Section(kind, pts, ext, dir, mux, sim, p0) ==
  [ kind |-> kind, mid |-> MidOf(desc.mids, kind, Len(secs) + 1),
    pts |-> IF kind \in RtpKinds THEN PtsOf(kind, pts) ELSE <<>>,
    rtx |-> IF kind \in RtpKinds THEN RtxOf(kind, pts) ELSE <<>>,
    ext |-> IF kind \in RtpKinds THEN ext ELSE <<>>,
    dir |-> IF kind \in RtpKinds THEN dir ELSE "sendrecv",
    mux |-> IF kind \in RtpKinds THEN mux ELSE FALSE,
    setup |-> desc.setup, port0 |-> p0, sim |-> (kind = "video" /\ sim),
    fmts |-> CASE kind = "application" -> <<"webrtc-datachannel">> [] kind = "image" -> <<"t38">> [] OTHER -> <<>> ]

Cfgs == [mode : Modes, compat : Compats, caps : Caps, pre : Pres, neg : Negs]

DescOptions(nn, c) ==
  {d \in [mids : MidSchemes, bundle : BundleModes, setup : Setups, extras : Extras] :
     /\ d.mids = "absent" => d.bundle = "none"
     /\ d.bundle = "first2" => nn >= 3
     /\ (d.setup = "none") = (c.mode # "WebRtc")
     \* "swapped": the local side made the previous offer (numeric mids) and the peer, whose answer said
     \* setup:active, now re-offers: it keeps its role or offers actpass
     /\ c.neg = "swapped" => (d.mids = "numeric" /\ d.setup \in {"actpass", "active", "none"})}

Init ==
  /\ secs = <<>>
  /\ IF Samples = 0
     THEN /\ k = 0
          /\ n \in MinSec..MaxSec
          /\ cfg \in Cfgs
          /\ desc \in DescOptions(n, cfg)
          /\ form \in Forms
          /\ rnd = <<0, 0>>
     ELSE \* one pseudo-random behaviour per k
          /\ k \in 1..Samples
          /\ n = Pick(MinSec..MaxSec, R0(k))
          /\ cfg = Pick(Cfgs, NextR(R0(k)))
          /\ desc = Pick(DescOptions(n, cfg), NextR(NextR(R0(k))))
          /\ LET f1 == NextR(NextR(NextR(R0(k))))
                 f2 == NextR(f1)
                 f3 == NextR(f2)
                 f4 == NextR(f3)
                 f5 == NextR(f4)
                 f6 == NextR(f5)
                 f7 == NextR(f6)
                 f8 == NextR(f7)
             IN /\ form = [sname |-> Pick(SNames, f1), ouser |-> Pick(OUsers, f2), sess |-> Pick(SessOpts, f3),
                           flags |-> Pick(FlagAttrs, f4), tricky |-> Pick(Trickies, f5), blanks |-> Pick(Blanks, f6),
                           eol |-> Pick(Eols, f7), setuplvl |-> Pick(SetupLevels, f8)]
                /\ rnd = NextR(f8)

KindOptions(kind) ==
  IF kind \in RtpKinds
  THEN {Section(kind, pts, ext, dir, mux, sim, p0) :
          pts \in (IF kind = "audio" THEN AudioPts ELSE VideoPts), ext \in ExtSeqs, dir \in Dirs, mux \in Muxes,
          sim \in (IF kind = "video" THEN Sims ELSE {FALSE}), p0 \in Port0s}
  ELSE \* one data / fax section at most
       IF \E i \in DOMAIN secs : secs[i].kind = kind THEN {}
       ELSE {Section(kind, <<>>, <<>>, "sendrecv", FALSE, FALSE, p0) : p0 \in Port0s}

\* in a sample one section in five is offered rejected (when the scenario allows rejected sections at all)
P0(r) == IF Port0s = {TRUE} THEN TRUE ELSE (TRUE \in Port0s /\ Val(r) % 5 = 0)

AddSection ==
  /\ Len(secs) < n
  /\ IF Samples = 0
     THEN /\ \E kind \in Kinds : \E s \in KindOptions(kind) : secs' = Append(secs, s)
          /\ rnd' = rnd
     ELSE LET kind == Pick({kd \in Kinds : kd \in RtpKinds \/ \A i \in DOMAIN secs : secs[i].kind # kd}, rnd)
              r1 == NextR(rnd)
              r2 == NextR(r1)
              r3 == NextR(r2)
              r4 == NextR(r3)
              r5 == NextR(r4)
              r6 == NextR(r5)
          IN \* the components are drawn one by one (cheaper than drawing from the product set)
             /\ secs' = Append(secs,
                   IF kind \in RtpKinds
                   THEN Section(kind, Pick(IF kind = "audio" THEN AudioPts ELSE VideoPts, r1), Pick(ExtSeqs, r2),
                                Pick(Dirs, r3), Pick(Muxes, r4), Pick(Sims, r5), P0(r6))
                   ELSE Section(kind, <<>>, <<>>, "sendrecv", FALSE, FALSE, P0(r6)))
             /\ rnd' = NextR(r6)
  /\ UNCHANGED <<n, desc, cfg, form, k>>

Next == AddSection
Spec == Init /\ [][Next]_vars

Done == Len(secs) = n

BundleOf(ss, mode) ==
  CASE mode = "all"    -> [i \in DOMAIN ss |-> ss[i].mid]
    [] mode = "first2" -> <<ss[1].mid, ss[2].mid>>
    [] OTHER           -> <<>>

Offer == [secs |-> secs, bundle |-> BundleOf(secs, desc.bundle)]
\* a rejected section cannot be in the group it was never part of: keep the model simple and leave it in (legal: bundle-only)

(* the offer that established the session before a "subsequent" negotiation: same sections with the  *)
(* full codec menu, everything else as in the offer under test                                      *)
FullPts(kind) == IF kind = "audio" THEN <<111, 0, 8, 9, 101>> ELSE <<96, 97>>
RichSecs ==
  [i \in DOMAIN secs |->
     IF secs[i].kind \in RtpKinds
     THEN [secs[i] EXCEPT !.pts = PtsOf(secs[i].kind, FullPts(secs[i].kind)),
                          !.rtx = RtxOf(secs[i].kind, FullPts(secs[i].kind)),
                          !.dir = "sendrecv", !.port0 = FALSE,
                          \* neg = "moved": before, the same URIs were mapped to other ids (5, 6, ...): the re-offer MOVES them
                          !.ext = IF cfg.neg = "moved"
                                  THEN [j \in DOMAIN secs[i].ext |-> <<4 + j, secs[i].ext[j][2]>>]
                                  ELSE secs[i].ext]
     ELSE [secs[i] EXCEPT !.port0 = FALSE]]
(* neg = "subsequent": the same sections were negotiated before with the full codec menu (re-INVITE narrowing   *)
(* the codecs / changing directions); neg = "grow": the last section is new in this offer (renegotiation that  *)
(* adds an m= section) - for a single-section offer that is the same as "subsequent".                          *)
(* neg = "swapped": the local side was the offerer of the previous negotiation; `prev` is then the peer's ANSWER    *)
(* to the local offer: one codec per section that every capability profile offers, everything live, setup:active   *)
SwappedSecs ==
  [i \in DOMAIN secs |->
     IF secs[i].kind \in RtpKinds
     THEN LET pl == IF secs[i].kind = "video" THEN <<96>> ELSE IF cfg.caps = "pcmu" THEN <<0>> ELSE <<111>>
          IN [secs[i] EXCEPT !.pts = PtsOf(secs[i].kind, pl), !.rtx = <<>>, !.ext = <<>>, !.dir = "sendrecv",
                             !.port0 = FALSE, !.sim = FALSE, !.mux = TRUE,
                             !.setup = IF desc.setup = "none" THEN "none" ELSE "active"]
     ELSE [secs[i] EXCEPT !.port0 = FALSE, !.setup = IF desc.setup = "none" THEN "none" ELSE "active"]]
Previous ==
  LET keep == IF cfg.neg = "grow" /\ Len(secs) >= 2 THEN Len(secs) - 1 ELSE Len(secs)
      ps   == IF cfg.neg = "swapped" THEN SwappedSecs ELSE SubSeq(RichSecs, 1, keep)
  IN [ secs |-> ps,
       bundle |-> SelectSeq(BundleOf(secs, desc.bundle), LAMBDA m : \E i \in DOMAIN ps : ps[i].mid = m) ]

OfferRec == [offer |-> Offer, cfg |-> cfg, prev |-> Previous, extras |-> desc.extras, form |-> form]
EmitOffer == Done => PrintT(<<"OFFER", ToJson(OfferRec)>>)

-----------------------------------------------------------------------------
(* menus (TLC configuration files cannot spell tuples): substituted for the constants in the .cfg *)
AudioPtsSmall == {<<0>>, <<111, 0>>, <<9, 101>>, <<96, 8>>}
AudioPtsFull  == {<<0>>, <<8>>, <<111>>, <<111, 0>>, <<0, 8, 101>>, <<9, 101>>, <<111, 9, 101>>, <<96, 8>>, <<96>>,
                  <<8, 0, 9, 111, 101>>}
AudioPtsOne == {<<111, 0>>}
VideoPtsOne == {<<96, 97>>}
ExtNone == {<<>>}
VideoPtsSmall == {<<96>>, <<96, 97>>, <<98, 99, 100>>}
VideoPtsFull  == {<<96>>, <<96, 97>>, <<98>>, <<98, 99>>, <<100>>, <<98, 99, 100>>, <<96, 97, 98, 99>>,
                  <<100, 103>>, <<96, 97, 98, 99, 100, 103>>, <<97, 96, 103, 100>>}
(* extension-id forms: two-byte ids (15, 16, 255; legal with a=extmap-allow-mixed) on every supported URI, the   *)
(* largest one-byte id, and sections where the local default id of a URI (rid 1, repaired-rid 2, abs-send-time 3, *)
(* sdes:mid 4) is taken by ANOTHER URI                                                                            *)
ExtIdForms == {<<<<16, "sdes-mid">>>>,
               <<<<15, "abs-send-time">>, <<16, "sdes-mid">>>>,
               <<<<255, "rid">>, <<15, "repaired-rid">>, <<16, "abs-send-time">>, <<17, "sdes-mid">>>>,
               <<<<16, "sdes-mid">>, <<4, "toffset">>>>,
               <<<<3, "toffset">>, <<4, "audio-level">>, <<16, "sdes-mid">>, <<15, "abs-send-time">>>>,
               <<<<1, "abs-send-time">>, <<2, "sdes-mid">>, <<3, "rid">>, <<4, "repaired-rid">>>>,
               <<<<14, "sdes-mid">>, <<13, "abs-send-time">>>>,
               <<<<16, "audio-level">>, <<255, "toffset">>>>,
               <<<<4, "abs-send-time">>, <<3, "sdes-mid">>, <<2, "rid">>, <<1, "repaired-rid">>>>,
               <<<<1, "toffset">>, <<2, "audio-level">>, <<3, "toffset2">>, <<4, "audio-level2">>, <<20, "sdes-mid">>,
                 <<21, "abs-send-time">>, <<22, "rid">>, <<23, "repaired-rid">>>>}
ExtSmall == {<<>>, <<<<2, "abs-send-time">>, <<3, "sdes-mid">>>>}
ExtFull  == {<<>>,
             <<<<1, "audio-level">>>>,
             <<<<2, "abs-send-time">>, <<3, "sdes-mid">>>>,
             <<<<3, "abs-send-time">>, <<2, "sdes-mid">>, <<1, "audio-level">>>>,
             <<<<14, "rid">>, <<13, "repaired-rid">>, <<1, "abs-send-time">>, <<4, "toffset">>>>,
             <<<<4, "sdes-mid">>, <<3, "toffset">>, <<1, "rid">>, <<2, "repaired-rid">>>>}

(* local codec lists of the three capability profiles (codec identity) *)
LocalUris == {"abs-send-time", "sdes-mid", "rid", "repaired-rid"}

(* what the pinned code does on a first negotiation: list the local codecs whatever was offered *)
LocalList(o, caps) ==
  [o EXCEPT !.secs = [i \in DOMAIN o.secs |->
     IF o.secs[i].kind = "audio"
     THEN [o.secs[i] EXCEPT !.pts = IF caps = "pcmu" THEN <<<<0, "pcmu/8000/1">>>> ELSE <<<<111, "opus/48000/2">>>>,
                            !.rtx = <<>>, !.dir = Reverse(o.secs[i].dir),
                            !.setup = IF o.secs[i].setup = "none" THEN "none" ELSE "active"]
     ELSE Intersect(o, LocalCodecs(caps), LocalUris).secs[i]]]

Reference(o, caps) ==
  IF "AnswerLocalList" \in Deviations THEN LocalList(o, caps) ELSE Intersect(o, LocalCodecs(caps), LocalUris)

(* sanity of the relation: satisfiable for every offer, and satisfied by the textbook answerer *)
RejectAllValid == Done => ValidAnswer(Offer, cfg.mode, RejectAll(Offer))
ReferenceValid == Done => ValidAnswer(Offer, cfg.mode, Reference(Offer, cfg.caps))
(* ... and it is not trivially true: echoing the offer back is NOT valid for a send-only offer *)
EchoOfferInvalidWhenSendOnly ==
  (Done /\ \E i \in DOMAIN secs : secs[i].dir = "sendonly" /\ ~secs[i].port0) => ~ValidAnswer(Offer, cfg.mode, Offer)
=============================================================================
