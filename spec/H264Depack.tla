----------------------------- MODULE H264Depack -----------------------------
(***************************************************************************)
(* EXT02 - H.264 depacketizer (src/media/depacketizer.rs, RFC 6184):       *)
(* single NAL unit, STAP-A and FU-A reassembly with loss, duplication and  *)
(* timestamp changes, and the drop counter. Beyond the listed properties:  *)
(* every rule is EXT, findings are DRIFT only.                             *)
(*                                                                         *)
(* One action: Push(packet). A packet is described by its kind, its        *)
(* sequence delta to the previous packet (1 = in order, 2 = one packet     *)
(* lost before it, 0 = duplicate), whether the sender moved to the next    *)
(* timestamp before it, and its marker bit. Sequence numbers are real      *)
(* 16-bit values starting at 65534 (the wrap is crossed by the third       *)
(* packet). Payload bytes are not modelled: an emitted sample is described *)
(* by WHICH packets / NAL units it is made of (indices into the history),  *)
(* the harness derives the bytes.                                          *)
(*                                                                         *)
(* Documented / intended behaviour (contract):                             *)
(*  - a single NAL unit, each well-formed NAL of a STAP-A, audio and empty *)
(*    payloads come out unchanged, in order;                               *)
(*  - an FU-A frame comes out once, at its End fragment, iff Start..End    *)
(*    arrived with consecutive sequence numbers and one timestamp; its     *)
(*    data is the reconstructed NAL header followed by the fragment bodies;*)
(*  - "drop_count: frames dropped due to depacketization errors            *)
(*    (FU-A/STAP-A corruption)": every FU-A frame of which a fragment      *)
(*    arrived but which is not emitted, and every STAP-A cut short, is     *)
(*    counted exactly once.                                                *)
(* Departures of the pinned code (Deviations):                             *)
(*   OrphanNotCounted       fragments whose Start was lost are ignored     *)
(*                          without counting the frame                     *)
(*   SupersededNotCounted   an unfinished frame replaced by a new Start    *)
(*                          (End lost) is forgotten without counting; a    *)
(*                          non-FU packet in the middle leaves the stale   *)
(*                          reassembly state in place                      *)
(*   StapTailNotCounted     a STAP-A whose last length field has no room   *)
(*                          for data (exactly two trailing octets) is cut  *)
(*                          short silently                                 *)
(***************************************************************************)
EXTENDS Naturals, Integers, Sequences, FiniteSets, TLC

CONSTANTS MaxLen, Deviations, Kinds,
          Lean   \* TRUE: a small FU-centred alphabet for deep exhaustive contract runs

AllDeviations == {"OrphanNotCounted", "SupersededNotCounted", "StapTailNotCounted"}
ASSUME Deviations \subseteq AllDeviations
Dev(d) == d \in Deviations

VARIABLES
  seq,      \* sequence number of the last packet pushed (65533 before the first)
  frame,    \* sender's timestamp counter: ts = 1000 + 3000 * frame
  fu,       \* reassembly: [on, last, ts, frags]   frags = history indices of the fragments so far
  orphan,   \* intended design: the frame the current fragments belong to has already been counted
  drops,
  out,      \* samples returned by the last push
  lost,     \* ghost: FU frames begun by the sender and never emitted, for the contract (count)
  hist

vars == <<seq, frame, fu, orphan, drops, out, lost, hist>>
Cap(n, c) == IF n > c THEN c ELSE n
\* state identity for the transition cover: positions relative to the stream, not absolute
view == <<fu.on, IF fu.on THEN (seq - fu.last + 65536) % 65536 ELSE 0, IF fu.on THEN frame - fu.ts ELSE 0,
          Cap(Len(fu.frags), 3), orphan, Cap(drops, 2), Cap(Len(hist), MaxLen)>>

Mod16(x) == ((x % 65536) + 65536) % 65536
NoFu == [on |-> FALSE, last |-> 0, ts |-> 0, frags |-> <<>>]

Init ==
  /\ seq = 65533 /\ frame = 0 /\ fu = NoFu /\ orphan = FALSE /\ drops = 0 /\ out = <<>> /\ lost = 0 /\ hist = <<>>

\* an emitted sample: what it is made of
Smp(t, pk, j, frags, ts, lastp, sq) ==
  [t |-> t, pk |-> pk, j |-> j, frags |-> frags, ts |-> ts, last |-> lastp, seq |-> sq]

IsFu(k) == k \in {"fuS", "fuM", "fuE"}

Push(k, d, newts, m) ==
  /\ Len(hist) < MaxLen
  /\ LET q   == Mod16(seq + d)
         fr  == IF newts THEN frame + 1 ELSE frame
         idx == Len(hist) + 1
         one(t) == <<Smp(t, idx, 0, <<>>, fr, m, q)>>
         \* an unfinished frame is given up because something else arrived
         giveUp == fu.on /\ ~Dev("SupersededNotCounted")
     IN
     /\ seq' = q /\ frame' = fr
     /\ hist' = Append(hist, [k |-> k, seq |-> q, fr |-> fr, m |-> m])
     /\ CASE k \in {"audio", "empty"} ->
               \* passed through untouched; reassembly is not affected
               /\ out' = one("pass") /\ UNCHANGED <<fu, orphan, drops, lost>>
          [] k \in {"single", "other"} ->
               /\ out' = one("whole")
               /\ (IF giveUp THEN fu' = NoFu /\ drops' = drops + 1 /\ orphan' = TRUE
                   ELSE UNCHANGED <<fu, drops, orphan>>)
               /\ UNCHANGED lost
          [] k \in {"stap2", "stapbad", "staptail1", "staptail2"} ->
               /\ out' = (CASE k = "stap2" -> <<Smp("nal", idx, 1, <<>>, fr, FALSE, q), Smp("nal", idx, 2, <<>>, fr, m, q)>>
                            [] k = "stapbad" -> <<Smp("nal", idx, 1, <<>>, fr, FALSE, q)>>
                            [] OTHER -> <<Smp("nal", idx, 1, <<>>, fr, FALSE, q)>>)
               /\ LET cut == k = "stapbad" \/ (k = "staptail2" /\ ~Dev("StapTailNotCounted"))
                      n   == (IF cut THEN 1 ELSE 0) + (IF giveUp THEN 1 ELSE 0)
                  IN drops' = drops + n
               /\ (IF giveUp THEN fu' = NoFu /\ orphan' = TRUE ELSE UNCHANGED <<fu, orphan>>)
               /\ UNCHANGED lost
          [] k = "fushort" ->
               \* an FU indicator without FU header: nothing to use, nothing changes
               /\ out' = <<>> /\ UNCHANGED <<fu, orphan, drops, lost>>
          [] k = "fuS" ->
               /\ out' = <<>>
               /\ fu' = [on |-> TRUE, last |-> q, ts |-> fr, frags |-> <<idx>>]
               /\ orphan' = FALSE
               \* (a duplicate of the Start just received restarts the same frame: nothing is given up)
               /\ drops' = IF giveUp /\ ~(Len(fu.frags) = 1 /\ q = fu.last) THEN drops + 1 ELSE drops
               /\ lost' = lost
          [] k \in {"fuM", "fuE"} ->
               IF ~fu.on
               THEN \* Start missing (lost, or the frame was already given up)
                    /\ out' = <<>> /\ fu' = fu
                    /\ (IF orphan \/ Dev("OrphanNotCounted")
                        THEN drops' = drops ELSE drops' = drops + 1)
                    /\ orphan' = (k = "fuM")          \* the End fragment closes the orphaned frame
                    /\ lost' = lost
               ELSE IF q # Mod16(fu.last + 1) \/ fr # fu.ts
               THEN \* gap, duplicate or timestamp change inside the frame
                    /\ out' = <<>> /\ fu' = NoFu /\ drops' = drops + 1
                    /\ orphan' = (k = "fuM")
                    /\ lost' = lost
               ELSE IF k = "fuM"
               THEN /\ out' = <<>> /\ fu' = [fu EXCEPT !.last = q, !.frags = Append(@, idx)]
                    /\ UNCHANGED <<orphan, drops, lost>>
               ELSE /\ out' = <<Smp("fu", idx, 0, Append(fu.frags, idx), fu.ts, m, q)>>
                    /\ fu' = NoFu /\ UNCHANGED <<orphan, drops, lost>>

\* alphabet shaping: markers and timestamp steps only where they mean something
FullNext ==
  \E k \in Kinds :
    \E d \in (IF IsFu(k) \/ k = "single" THEN {0, 1, 2} ELSE {1}) :
      \E newts \in (IF IsFu(k) \/ k = "single" THEN BOOLEAN ELSE {FALSE}) :
        \E m \in (IF k \in {"single", "stap2", "fuE"} THEN BOOLEAN ELSE {FALSE}) :
          Push(k, d, newts, m)
\* nine packets: a new frame starts on a new timestamp, fragments follow with or without loss / duplication
LeanNext ==
  \/ \E d \in {1, 2} : Push("fuS", d, TRUE, FALSE)
  \/ \E d \in {0, 1, 2} : Push("fuM", d, FALSE, FALSE)
  \/ Push("fuM", 1, TRUE, FALSE)
  \/ \E d \in {1, 2} : Push("fuE", d, FALSE, TRUE)
  \/ Push("single", 1, TRUE, TRUE)
Next == IF Lean THEN LeanNext ELSE FullNext

Spec == Init /\ [][Next]_vars

---------------------------------------------------------------------------
(* the contract *)
Bounded == Len(hist) <= MaxLen
\* an emitted FU-A frame is made of Start, middles, End with consecutive numbers and one timestamp
FrameSound ==
  \A i \in 1..Len(out) : out[i].t = "fu" =>
     LET f == out[i].frags IN
     /\ hist[f[1]].k = "fuS" /\ hist[f[Len(f)]].k = "fuE"
     /\ \A j \in 2..Len(f) : /\ hist[f[j]].seq = Mod16(hist[f[j - 1]].seq + 1)
                             /\ hist[f[j]].fr = hist[f[1]].fr
                             /\ (j < Len(f) => hist[f[j]].k = "fuM")
\* frames given up are counted: replay the history with an independent, declarative count.
\* A "frame episode" starts at a Start fragment, or at a middle/End fragment that does not continue the
\* episode in progress; it ends emitted (sound End) or given up. STAP-A cut short count one each.
RECURSIVE GivenUpH(_, _, _, _, _)
\* i: next history index; open: index of the last fragment of the episode in progress (0 = none);
\* dead: the episode in progress was already given up (its remaining fragments belong to it)
GivenUpH(h, i, open, dead, acc) ==
  IF i > Len(h) THEN acc
  ELSE LET p == h[i]
           cont == open # 0 /\ p.seq = Mod16(h[open].seq + 1) /\ p.fr = h[open].fr
       IN
       CASE p.k \in {"audio", "empty", "fushort"} -> GivenUpH(h, i + 1, open, dead, acc)
         [] p.k \in {"single", "other", "stap2", "staptail1"} ->
              GivenUpH(h, i + 1, 0, dead \/ open # 0, acc + (IF open # 0 /\ ~dead THEN 1 ELSE 0))
         [] p.k \in {"stapbad", "staptail2"} ->
              GivenUpH(h, i + 1, 0, dead \/ open # 0, acc + 1 + (IF open # 0 /\ ~dead THEN 1 ELSE 0))
         [] p.k = "fuS" ->
              GivenUpH(h, i + 1, i, FALSE,
                      acc + (IF open # 0 /\ ~dead /\ ~(h[open].k = "fuS" /\ h[open].seq = p.seq) THEN 1 ELSE 0))
         [] p.k = "fuM" ->
              IF open # 0 /\ ~dead /\ cont THEN GivenUpH(h, i + 1, i, FALSE, acc)
              ELSE IF open # 0 /\ ~dead THEN GivenUpH(h, i + 1, i, TRUE, acc + 1)      \* breaks the episode
              ELSE IF dead THEN GivenUpH(h, i + 1, i, TRUE, acc)                        \* rest of a counted frame
              ELSE GivenUpH(h, i + 1, i, TRUE, acc + 1)                                 \* orphan: Start was lost
         [] p.k = "fuE" ->
              IF open # 0 /\ ~dead /\ cont THEN GivenUpH(h, i + 1, 0, FALSE, acc)       \* emitted
              ELSE IF open # 0 /\ ~dead THEN GivenUpH(h, i + 1, 0, FALSE, acc + 1)
              ELSE IF dead THEN GivenUpH(h, i + 1, 0, FALSE, acc)
              ELSE GivenUpH(h, i + 1, 0, FALSE, acc + 1)
GivenUp(h) == GivenUpH(h, 1, 0, FALSE, 0)
DropsCounted == drops = GivenUp(hist)
=============================================================================
