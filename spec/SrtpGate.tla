------------------------------ MODULE SrtpGate ------------------------------
(***************************************************************************)
(* The SRTP gates of RtpTransport (src/transports/rtp.rs) against key      *)
(* installation, bridging and close.  Property C14.                        *)
(*                                                                         *)
(* Two transports: X (the one that is driven) and Y (a second leg that can  *)
(* be the target of X's rewrite bridge).  One action per public entry      *)
(* point of the code:                                                      *)
(*   start_srtp                      -> InstallKeys(t)                     *)
(*   send / send_rtp / send_rtcp     -> Send / SendRtp / SendRtcp          *)
(*   send_rtcp_sync                  -> SyncBye                            *)
(*   close path of PeerConnection    -> Close (clear_listeners + sync BYE) *)
(*   PacketReceiver::receive         -> Recv(kind, auth)                   *)
(*     ... try_bridge_rewrite_rtp    -> the bridge branch of Recv          *)
(*   bridge_rewrite_to / clear_...   -> InstallBridge(t) / ClearBridge     *)
(*                                                                         *)
(* Every egress point has its own copy of the gate in the code; the spec   *)
(* names each copy (GateName) so that the weakening of any single copy is  *)
(* a named switch in CONSTANT Deviations.  With Deviations = {} the spec   *)
(* is the behaviour C14 relies on and the invariants hold.                 *)
(***************************************************************************)
EXTENDS Naturals, Sequences, FiniteSets, TLC

CONSTANTS ReqX, ReqY,     \* values of srtp_required explored for X / Y (subsets of BOOLEAN)
          MaxLen,         \* number of actions in a behaviour
          MaxGen,         \* key generations (re-keying) per transport
          Ops,            \* action alphabet in use (subset of AllOps)
          Reps,           \* how many packets of the class an inbound action delivers (subset of Nat \ {0})
          Deviations      \* subset of GateNames \cup {"AuthFailOpen"}

VARIABLES req,      \* [X |-> BOOLEAN, Y |-> BOOLEAN]   srtp_required (fixed at construction)
          gen,      \* [X |-> 0..MaxGen, Y |-> ..]      0 = no SRTP session, n = n-th session installed
          bridge,   \* "None" | "X" | "Y" | "V"         rewrite-bridge target of X; "V": Y, with X itself as the
                    \*                                  video target (bridge_rewrite_rules_to_with_video)
          closed,   \* close path has run on X
          wire,     \* ghost: every datagram emitted so far  [tr, cls, gen, gate]
          sinks,    \* ghost: every delivery so far          [sink, auth, gen]
          hist,     \* actions taken, each with what the contract expects / allows for the step
          rep       \* every traffic action of the behaviour is a burst of `rep` packets of its class: a gate that
                    \* lets the n-th unauthenticated packet through (rate-limited handling, counters, caches) is
                    \* reached with rep >= n; the contract is the same for every packet of the burst

vars == <<req, gen, bridge, closed, wire, sinks, hist, rep>>

Tr == {"X", "Y"}
AllOps == {"KX", "KY", "S", "SR", "SC", "BYE", "CL",
           "RcR", "RcC", "RvR", "RfR", "RvC", "RfC", "BX", "BY", "BV", "B0"}

\* Which payload type an inbound RTP packet carries is free; the replayer is told: packets of a step at an even
\* position carry the payload type registered as video with the bridge, the others an audio one. The bridge picks its
\* destination from the original payload type, before any rewriting.
Video == Len(hist) % 2 = 1
Target == IF bridge = "V" THEN (IF Video THEN "X" ELSE "Y") ELSE bridge
GateNames == {"send", "send_rtp", "send_rtcp", "sync_bye", "bridge", "recv_rtp", "recv_rtcp"}

Init ==
  /\ req \in [Tr -> BOOLEAN] /\ req["X"] \in ReqX /\ req["Y"] \in ReqY
  /\ gen = [t \in Tr |-> 0]
  /\ bridge = "None"
  /\ closed = FALSE
  /\ wire = <<>> /\ sinks = <<>> /\ hist = <<>>
  /\ rep \in Reps

---------------------------------------------------------------------------
(* What the property allows in a state (used by the invariants' soundness   *)
(* lemma and shipped to the replayer with every step).                      *)

\* classes a datagram leaving transport t may have
AllowedCls(t) == IF ~req[t] THEN {"protected", "clear"}
                 ELSE IF gen[t] > 0 THEN {"protected"} ELSE {}
EgressRule(t) == IF req[t] /\ gen[t] = 0 THEN "NothingBeforeKeys" ELSE "NoClearEgress"

\* may an inbound packet of authenticity class `auth` reach any sink of X?
DeliverAllowed(auth) == ~req["X"] \/ (gen["X"] > 0 /\ auth = "valid")

---------------------------------------------------------------------------
(* The gates as the contract has them.                                      *)

\* Egress gate of transport t, copy `g`: the datagrams it puts on the wire.
Gate(t, g) ==
  IF gen[t] > 0 THEN <<[tr |-> t, cls |-> "protected", gen |-> gen[t], gate |-> g]>>
  ELSE IF req[t] /\ g \notin Deviations THEN <<>>
  ELSE <<[tr |-> t, cls |-> "clear", gen |-> 0, gate |-> g]>>

\* Ingress gate of X, copy `g`, for a packet of class auth \in {"clear","valid","forged"}.
Accept(auth, g) ==
  IF gen["X"] > 0 THEN (auth = "valid" \/ "AuthFailOpen" \in Deviations)
  ELSE IF req["X"] /\ g \notin Deviations THEN FALSE
  ELSE TRUE            \* no session and SRTP not required: taken as plain RTP/RTCP

Step(op, w, d, auth) ==
  [ op  |-> op,
    w   |-> [i \in 1..Len(w) |-> [tr |-> w[i].tr, cls |-> w[i].cls]],   \* expected emissions (exact: EXT)
    d   |-> d,                                                          \* expected deliveries (exact: EXT)
    aw  |-> [t \in Tr |-> AllowedCls(t)],                               \* allowed by C14
    rw  |-> [t \in Tr |-> EgressRule(t)],
    ad  |-> IF auth = "none" THEN FALSE ELSE DeliverAllowed(auth),      \* allowed by C14
    \* is the exact expectation meaningful?  (a protected packet taken as plain RTP/RTCP by a
    \* transport without session and without the SRTP requirement parses or not: unspecified)
    dx  |-> ~(auth \in {"valid", "forged"} /\ gen["X"] = 0 /\ ~req["X"]),
    vid |-> Video ]

RECURSIVE Times(_, _)
Times(sq, n) == IF n = 0 THEN <<>> ELSE sq \o Times(sq, n - 1)

\* traffic actions (sends and receives) are bursts of rep packets, each doing what the first does; control
\* actions (keys, bridge, close) happen once
BurstOps == {"S", "SR", "SC", "BYE", "RcR", "RcC", "RvR", "RfR", "RvC", "RfC"}
Emit(op, w, d, auth) ==
  LET n == IF op \in BurstOps THEN rep ELSE 1 IN
  /\ wire' = wire \o Times(w, n)
  /\ sinks' = sinks \o Times([i \in 1..Len(d) |-> [sink |-> d[i], auth |-> auth, gen |-> gen["X"]]], n)
  /\ hist' = Append(hist, Step(op, w, d, auth))
  /\ UNCHANGED rep

---------------------------------------------------------------------------
(* Actions                                                                  *)

InstallKeys(t) ==
  /\ gen[t] < MaxGen
  /\ gen' = [gen EXCEPT ![t] = @ + 1]
  /\ Emit(IF t = "X" THEN "KX" ELSE "KY", <<>>, <<>>, "none")
  /\ UNCHANGED <<req, bridge, closed>>

Egress(op, g) ==
  /\ Emit(op, Gate("X", g), <<>>, "none")
  /\ UNCHANGED <<req, gen, bridge, closed>>

Send     == Egress("S",   "send")
SendRtp  == Egress("SR",  "send_rtp")
SendRtcp == Egress("SC",  "send_rtcp")
SyncBye  == Egress("BYE", "sync_bye")

Close ==   \* PeerConnection close path: listeners cleared, then the synchronous BYE
  /\ closed' = TRUE
  /\ Emit("CL", Gate("X", "sync_bye"), <<>>, "none")
  /\ UNCHANGED <<req, gen, bridge>>

RecvRtp(op, auth) ==
  /\ IF ~Accept(auth, "recv_rtp")
     THEN Emit(op, <<>>, <<>>, auth)
     ELSE IF bridge # "None"
          THEN \* observers first, then the bridge fast path consumes the packet
               LET out == Gate(Target, "bridge") IN
               Emit(op, out,
                    <<"obs", "tobs">> \o (IF Len(out) > 0 THEN <<"bridged">> ELSE <<>>), auth)
          ELSE Emit(op, <<>>, <<"obs">> \o (IF closed THEN <<>> ELSE <<"lst">>), auth)
  /\ UNCHANGED <<req, gen, bridge, closed>>

RecvRtcp(op, auth) ==
  /\ IF Accept(auth, "recv_rtcp") /\ ~closed
     THEN Emit(op, <<>>, <<"rtcp">>, auth)
     ELSE Emit(op, <<>>, <<>>, auth)
  /\ UNCHANGED <<req, gen, bridge, closed>>

InstallBridge(t) ==
  /\ bridge' = t
  /\ Emit(IF t = "X" THEN "BX" ELSE IF t = "Y" THEN "BY" ELSE "BV", <<>>, <<>>, "none")
  /\ UNCHANGED <<req, gen, closed>>

ClearBridge ==
  /\ bridge' = "None"
  /\ Emit("B0", <<>>, <<>>, "none")
  /\ UNCHANGED <<req, gen, closed>>

Do(op) ==
  CASE op = "KX"  -> InstallKeys("X")
    [] op = "KY"  -> InstallKeys("Y")
    [] op = "S"   -> Send
    [] op = "SR"  -> SendRtp
    [] op = "SC"  -> SendRtcp
    [] op = "BYE" -> SyncBye
    [] op = "CL"  -> Close
    [] op = "RcR" -> RecvRtp("RcR", "clear")
    [] op = "RvR" -> RecvRtp("RvR", "valid")
    [] op = "RfR" -> RecvRtp("RfR", "forged")
    [] op = "RcC" -> RecvRtcp("RcC", "clear")
    [] op = "RvC" -> RecvRtcp("RvC", "valid")
    [] op = "RfC" -> RecvRtcp("RfC", "forged")
    [] op = "BX"  -> InstallBridge("X")
    [] op = "BY"  -> InstallBridge("Y")
    [] op = "BV"  -> InstallBridge("V")
    [] op = "B0"  -> ClearBridge

Next == Len(hist) < MaxLen /\ \E op \in Ops : Do(op)

Spec == Init /\ [][Next]_vars

---------------------------------------------------------------------------
(* Property C14 on the model                                                *)

\* every datagram of an SRTP-mandatory transport is protected ...
NoClearEgress == \A i \in DOMAIN wire : req[wire[i].tr] => wire[i].cls = "protected"
\* ... under keys that existed when it left
NothingBeforeKeys == \A i \in DOMAIN wire : req[wire[i].tr] => wire[i].gen > 0
\* nothing unauthenticated reaches a track, the RTCP listener, an observer or a bridged peer
NoClearIngress == req["X"] => \A i \in DOMAIN sinks : sinks[i].auth = "valid" /\ sinks[i].gen > 0

\* the per-step allowances shipped to the replayer are not looser than the invariants
AllowedSound ==
  /\ \A t \in Tr : req[t] => (AllowedCls(t) \subseteq {"protected"} /\ (gen[t] = 0 => AllowedCls(t) = {}))
  /\ \A a \in {"clear", "valid", "forged"} :
        (req["X"] /\ DeliverAllowed(a)) => (a = "valid" /\ gen["X"] > 0)
\* and the contract's own steps stay inside them
StepInside == [][ /\ \A i \in (Len(wire) + 1)..Len(wire') : wire'[i].cls \in AllowedCls(wire'[i].tr)
                  /\ \A i \in (Len(sinks) + 1)..Len(sinks') : DeliverAllowed(sinks'[i].auth) ]_vars

TypeOK ==
  /\ req \in [Tr -> BOOLEAN] /\ gen \in [Tr -> 0..MaxGen]
  /\ bridge \in {"None", "X", "Y", "V"} /\ closed \in BOOLEAN
=============================================================================
