------------------------------- MODULE Jitter -------------------------------
(***************************************************************************)
(* EXT01 - JitterBuffer (src/media/jitter_buffer.rs). Beyond the listed    *)
(* properties: every rule is tagged EXT, findings are DRIFT only.          *)
(*                                                                         *)
(* One action per public call (push / pop / reset) plus Tick (the playout  *)
(* clock passes the configured delay). The specification is shaped like    *)
(* the code - push has the same decision chain: SSRC change, late /        *)
(* duplicate, forward sequence gap > 64, timestamp discontinuity, marker   *)
(* after silence, capacity eviction - and states the documented behaviour: *)
(* samples leave in sequence order (serial arithmetic, so order survives   *)
(* the 65535 -> 0 wrap), the next-in-sequence sample after min_delay, a    *)
(* sample behind a hole only after max_delay (reorder window).             *)
(*                                                                         *)
(* Sequence numbers are real 16-bit values (TLC integers cover u16): the   *)
(* push alphabet is a set of DELTAS relative to the last delivered number  *)
(* (or the stream's base, 65534, chosen so that the wrap is reached by the *)
(* second packet), which puts the code's thresholds (64, 32768) exactly on *)
(* the alphabet. Timestamps are deltas relative to the last delivered      *)
(* timestamp (8 kHz audio: 2 s = 16000, 0.5 s = 4000).                     *)
(*                                                                         *)
(* Where the pinned code departs from the documented / intended behaviour  *)
(* the departure is a named switch in Deviations:                          *)
(*   FirstSeqWrapNaive  before anything was delivered, the first sample is *)
(*                      chosen by comparing only the numerically smallest  *)
(*                      and largest buffered number (get_first_seq): with  *)
(*                      {65534, 65535, 0} buffered it starts at 65535      *)
(*   EvictNumericFirst  at capacity the numerically smallest number is     *)
(*                      evicted (BTreeMap::pop_first), which across the    *)
(*                      wrap is the NEWEST sample, not the oldest          *)
(*   NextScanNumeric    after a delivery the next sample is the smallest   *)
(*                      number >= last+1 numerically, else the smallest    *)
(*                      number: a stale (older than last) entry can be     *)
(*                      picked and delivered, moving `last` backwards      *)
(* With Deviations = {} the contract (Ordered, NoStale, Bounded...) holds. *)
(***************************************************************************)
EXTENDS Naturals, Integers, Sequences, FiniteSets, TLC

CONSTANTS
  Configs,       \* set of <<minD, maxD, capacity>>; delays are 0, 1 (= M, reached by Tick) or 2 (= never)
  SeqDeltas,     \* push alphabet, sequence delta relative to the reference number
  TsModes,       \* push alphabet, timestamp behaviour
  Base,          \* first reference sequence number (65534)
  MaxLen,        \* operations per behaviour
  Deviations

AllDeviations == {"FirstSeqWrapNaive", "EvictNumericFirst", "NextScanNumeric"}
ASSUME Deviations \subseteq AllDeviations
Dev(d) == d \in Deviations

VARIABLES
  cfg,      \* <<minD, maxD, capacity>>
  buf,      \* set of [seq, ts, aged]
  last,     \* last delivered sequence number, -1 = none
  lastTs,   \* last delivered timestamp, -1 = none
  ssrc,     \* last SSRC seen, 0 = none
  ref,      \* reference for the push alphabet: last delivered, else last pushed, else Base
  refTs,
  res,      \* observable result of the last operation
  out,      \* delivered sequence numbers since the last reset (history, for the contract)
  why,      \* ghost: which branch the last push took, and the number it evicted (-1 = none)
  hist

vars == <<cfg, buf, last, lastTs, ssrc, ref, refTs, res, out, why, hist>>
view == <<cfg, buf, last, lastTs, ssrc, ref, refTs, res>>

BaseTs == 1000000
NoRes  == [op |-> "none", seq |-> -1, empty |-> TRUE, awaiting |-> FALSE, ssrc |-> 0, wait |-> "none"]

Mod16(x)     == ((x % 65536) + 65536) % 65536
Newer(a, b)  == a # b /\ Mod16(a - b) < 32768          \* is_newer(seq, last)
Seqs(b)      == {s.seq : s \in b}
MinNum(S)    == CHOOSE x \in S : \A y \in S : x <= y
MaxNum(S)    == CHOOSE x \in S : \A y \in S : x >= y
\* serially oldest of a set whose span is below 2^15
Oldest(S)    == CHOOSE x \in S : \A y \in S : (y = x) \/ Newer(y, x)
HasOldest(S) == \E x \in S : \A y \in S : (y = x) \/ Newer(y, x)

\* ---- which sample is first in line (get_first_seq)
First(b, l) ==
  LET S == Seqs(b) IN
  IF l = -1
  THEN IF Dev("FirstSeqWrapNaive") \/ ~HasOldest(S)
       THEN (IF Newer(MinNum(S), MaxNum(S)) THEN MaxNum(S) ELSE MinNum(S))
       ELSE Oldest(S)
  ELSE IF Dev("NextScanNumeric")
       THEN LET nx == Mod16(l + 1) IN
            IF nx > l
            THEN (IF \E x \in S : x >= nx THEN MinNum({x \in S : x >= nx}) ELSE MinNum(S))
            ELSE MinNum(S)
       ELSE \* the serially oldest sample that is newer than the last delivered one
            LET N == {x \in S : Newer(x, l)} IN
            IF N # {} /\ HasOldest(N) THEN Oldest(N) ELSE MinNum(S)

Sample(b, q) == CHOOSE s \in b : s.seq = q
IsNext(q, l) == l = -1 \/ q = Mod16(l + 1)
\* delays: 0 = none, 1 = M (elapsed once Tick has aged the sample), 2 = never within a behaviour
Elapsed(d, aged) == d = 0 \/ (d = 1 /\ aged)
Ready(b, l) ==
  b # {} /\ LET q == First(b, l) IN Elapsed(IF IsNext(q, l) THEN cfg[1] ELSE cfg[2], Sample(b, q).aged)
WaitClass(b, l) ==
  IF b = {} THEN "none" ELSE IF Ready(b, l) THEN "zero" ELSE "positive"

\* what leaves, in order, once everything buffered has waited M (hidden content made observable)
RECURSIVE DrainSeq(_, _)
DrainSeq(b, l) ==
  IF b = {} THEN <<>>
  ELSE LET q == First(b, l) IN
       IF (IF IsNext(q, l) THEN cfg[1] ELSE cfg[2]) <= 1
       THEN <<q>> \o DrainSeq({s \in b : s.seq # q}, q)
       ELSE <<>>

Obs(op, seq, b, l, sc) ==
  [op |-> op, seq |-> seq, empty |-> b = {}, awaiting |-> (l # -1 /\ b = {}), ssrc |-> sc,
   wait |-> WaitClass(b, l)]

---------------------------------------------------------------------------
Init ==
  /\ cfg \in Configs
  /\ buf = {} /\ last = -1 /\ lastTs = -1 /\ ssrc = 0
  /\ ref = Base /\ refTs = BaseTs
  /\ res = NoRes /\ out = <<>> /\ hist = <<>> /\ why = [branch |-> "none", evicted |-> -1]

\* timestamp of a pushed sample and its marker bit, by mode, relative to the reference
TsOf(mode, d) ==
  CASE mode = "step"  -> refTs + 160 * (IF d < 32768 THEN d ELSE d - 65536)
    [] mode = "j2s"   -> refTs + 16000          \* exactly 2 s: not a jump
    [] mode = "j2s1"  -> refTs + 16001          \* just above 2 s: forward jump
    [] mode = "b2s"   -> refTs - 16000
    [] mode = "b2s1"  -> refTs - 16001          \* backward jump
    [] mode = "m05"   -> refTs + 4000           \* marker, exactly 0.5 s
    [] mode = "m051"  -> refTs + 4001           \* marker after > 0.5 s of silence
MarkerOf(mode) == mode \in {"m05", "m051"}

Restart(s, sc) ==       \* self.reset(); insert the sample
  /\ buf' = {s} /\ last' = -1 /\ lastTs' = -1 /\ ssrc' = sc /\ out' = <<>>

Evict(b) ==
  IF Cardinality(b) >= cfg[3] /\ b # {}
  THEN LET v == IF Dev("EvictNumericFirst") \/ ~HasOldest(Seqs(b)) THEN MinNum(Seqs(b)) ELSE Oldest(Seqs(b))
       IN {s \in b : s.seq # v}
  ELSE b

Push(d, mode, sc) ==
  /\ Len(hist) < MaxLen
  /\ LET q  == Mod16(ref + d)
         ts == TsOf(mode, d)
         s  == [seq |-> q, ts |-> ts, aged |-> FALSE]
         tsd == ts - lastTs
         sc1 == IF sc = 0 THEN ssrc ELSE sc
     IN
     /\ IF sc # 0 /\ ssrc # 0 /\ ssrc # sc
        THEN Restart(s, sc) /\ ref' = q /\ refTs' = ts /\ why' = [branch |-> "ssrc", evicted |-> -1]
        ELSE IF last # -1 /\ ~Newer(q, last)
        THEN /\ UNCHANGED <<buf, last, lastTs, out, ref, refTs>> /\ ssrc' = sc1
             /\ why' = [branch |-> "late", evicted |-> -1]
        ELSE IF last # -1 /\ Mod16(q - last) > 64 /\ Mod16(q - last) < 32768
        THEN Restart(s, sc) /\ ref' = q /\ refTs' = ts /\ why' = [branch |-> "gap", evicted |-> -1]
        ELSE IF lastTs # -1 /\ (tsd > 16000 \/ tsd < -16000)
        THEN Restart(s, sc) /\ ref' = q /\ refTs' = ts /\ why' = [branch |-> "ts", evicted |-> -1]
        ELSE /\ LET b0 == IF lastTs # -1 /\ MarkerOf(mode) /\ tsd > 4000 /\ buf # {} THEN {} ELSE buf
                    b1 == Evict(b0)
                IN /\ buf' = {x \in b1 : x.seq # q} \cup {s}
                   /\ why' = [branch |-> IF b0 # buf THEN "marker" ELSE "insert",
                              evicted |-> IF b1 = b0 THEN -1 ELSE (CHOOSE x \in b0 \ b1 : TRUE).seq]
             /\ ssrc' = sc1
             /\ UNCHANGED <<last, lastTs, out>>
             /\ (IF last = -1 THEN ref' = q /\ refTs' = ts ELSE UNCHANGED <<ref, refTs>>)
  /\ res' = Obs("push", -1, buf', last', ssrc')
  \* the history records which branch the push took (restart branches start a new delivery epoch)
  /\ hist' = Append(hist, [op |-> "push", seq |-> Mod16(ref + d), ts |-> TsOf(mode, d), marker |-> MarkerOf(mode),
                            ssrc |-> sc, branch |-> why'.branch])
  /\ UNCHANGED cfg

Pop ==
  /\ Len(hist) < MaxLen
  /\ hist' = Append(hist, [op |-> "pop", seq |-> 0, ts |-> 0, marker |-> FALSE, ssrc |-> 0, branch |-> "none"])
  /\ IF Ready(buf, last)
     THEN LET q == First(buf, last)
              s == Sample(buf, q) IN
          /\ buf' = buf \ {s} /\ last' = q /\ lastTs' = s.ts /\ out' = Append(out, q)
          /\ ref' = q /\ refTs' = s.ts
          /\ res' = Obs("pop", q, buf', q, ssrc)
     ELSE /\ UNCHANGED <<buf, last, lastTs, out, ref, refTs>>
          /\ res' = Obs("pop", -1, buf, last, ssrc)
  /\ UNCHANGED <<cfg, ssrc>> /\ why' = [branch |-> "none", evicted |-> -1]

\* the playout clock advances beyond the delay M: everything buffered has waited long enough
Tick ==
  /\ Len(hist) < MaxLen
  /\ \E s \in buf : ~s.aged
  /\ (cfg[1] = 1 \/ cfg[2] = 1)
  /\ hist' = Append(hist, [op |-> "tick", seq |-> 0, ts |-> 0, marker |-> FALSE, ssrc |-> 0, branch |-> "none"])
  /\ buf' = {[s EXCEPT !.aged = TRUE] : s \in buf}
  /\ res' = Obs("tick", -1, buf', last, ssrc)
  /\ UNCHANGED <<cfg, last, lastTs, ssrc, ref, refTs, out>> /\ why' = [branch |-> "none", evicted |-> -1]

Reset ==
  /\ Len(hist) < MaxLen
  /\ (buf # {} \/ last # -1)
  /\ hist' = Append(hist, [op |-> "reset", seq |-> 0, ts |-> 0, marker |-> FALSE, ssrc |-> 0, branch |-> "none"])
  /\ buf' = {} /\ last' = -1 /\ lastTs' = -1 /\ ssrc' = 0 /\ out' = <<>>
  /\ res' = Obs("reset", -1, {}, -1, 0)
  /\ UNCHANGED <<cfg, ref, refTs>> /\ why' = [branch |-> "none", evicted |-> -1]

Next ==
  \* before the first delivery nothing anchors the sequence space: the contract presupposes that
  \* what is buffered then spans far less than 2^15 numbers, so far deltas start after a delivery
  \/ \E d \in SeqDeltas : (last # -1 \/ d < 100 \/ d > 65436) /\ Push(d, "step", 0)
  \/ \E m \in TsModes \ {"step"} : Push(1, m, 0)
  \/ \E d \in {1, 3}, sc \in {1, 2} : Push(d, "step", sc)
  \/ Pop \/ Tick \/ Reset

Spec == Init /\ [][Next]_vars

---------------------------------------------------------------------------
(* the documented behaviour, as properties of the delivered sequence *)
TypeOK == Cardinality(buf) <= cfg[3] \/ cfg[3] = 0
\* samples leave in sequence order, none twice (between two resets)
Ordered == \A i \in 1..(Len(out) - 1) : Newer(out[i + 1], out[i])
\* nothing older than the last delivered sample is kept
NoStale == last = -1 \/ \A s \in buf : Newer(s.seq, last)
\* a delivery respects min_delay / the reorder window (action property)
Delays ==
  [][ (res'.op = "pop" /\ res'.seq # -1) =>
        LET s == Sample(buf, res'.seq) IN
        IF IsNext(res'.seq, last) THEN Elapsed(cfg[1], s.aged) ELSE Elapsed(cfg[2], s.aged) ]_vars
\* at capacity the OLDEST buffered sample makes room
EvictOldestStep == why'.evicted # -1 => \A x \in buf : x.seq = why'.evicted \/ Newer(x.seq, why'.evicted)
EvictOldest == [][EvictOldestStep]_vars
\* a restart leaves exactly the triggering sample
Bounded == Len(hist) <= MaxLen
=============================================================================
