--------------------------- MODULE DtlsHandshake ---------------------------
(***************************************************************************)
(* DTLS 1.2 handshake of rustrtc (src/transports/dtls/mod.rs), both roles, *)
(* over a datagram network with a budgeted fault / adversary proxy.        *)
(*                                                                         *)
(* Shape: one pure operator per handler of the code                        *)
(*   process_handshake_payload  -> HandleHs (sequencing, dup, reassembly)  *)
(*   handle_client_hello        -> RecvCH                                  *)
(*   handle_server_hello        -> RecvSH                                  *)
(*   handle_certificate         -> RecvCERT                                *)
(*   handle_server_key_exchange -> RecvSKE                                 *)
(*   handle_server_hello_done   -> RecvSHD                                 *)
(*   handle_client_key_exchange -> RecvCKE                                 *)
(*   handle_finished            -> RecvFIN                                 *)
(*   handle_retransmit          -> TickOf                                  *)
(*   deadline branch of the loop-> DeadlineOf                              *)
(* Each maps (endpoint state, message) to (endpoint state, flights sent),  *)
(* so the bounded model (MC_DtlsHandshake: network + proxy) and the trace  *)
(* specification (Trace_DtlsHandshake: messages taken from the log) use    *)
(* the same definitions.                                                   *)
(*                                                                         *)
(* Cryptography is symbolic: a certificate is an id, Fp/KeyOf are the      *)
(* identity; a signature records who signed what; the master secret is a   *)
(* term over the two DH shares, the randoms and the session hash; Finished *)
(* is a term over (role, master, transcript).                              *)
(*                                                                         *)
(* Where the pinned code deviates from the design the properties rely on,  *)
(* the deviation is a named switch in CONSTANT Deviations:                 *)
(*   NoFinalFlightResend     a Connected server ignores a retransmitted    *)
(*                           client Finished (RFC 6347 4.2.4 wants the     *)
(*                           final flight resent)                          *)
(*   LastFlightOmitsCKE      the client's retransmitted last flight is     *)
(*                           CCS,FIN without the ClientKeyExchange         *)
(*   ReassemblyIgnoresOffset fragments are appended in arrival order       *)
(*   ServerSkipsClientAuth   the server never requests / checks a client   *)
(*                           certificate (expected fingerprint unused)     *)
(*   PostHvrAdoptsAnySeq     after a HelloVerifyRequest the client adopts  *)
(*                           the message_seq of whatever arrives first as  *)
(*                           its new expectation (the ServerHello may be    *)
(*                           skipped, a repeated HelloVerifyRequest restarts*)
(*                           the exchange)                                  *)
(*   RetransmitReusesRecordSeq a retransmitted flight is the byte-identical*)
(*                           records, record sequence numbers included, so *)
(*                           a peer with an anti-replay window discards     *)
(*                           every retransmitted record it has seen before  *)
(*   SkeShareBeforeVerify    the ECDHE share of a ServerKeyExchange is kept  *)
(*                           even if its signature does not verify, and the *)
(*                           message is skipped instead of failing          *)
(*   FingerprintAnyInChain   the expected fingerprint is accepted if ANY     *)
(*                           entry of the Certificate message has it, while *)
(*                           the key is taken from the first entry          *)
(*   NonEcKeySkipsProof      a well-formed certificate whose public key is  *)
(*                           not an EC key (RSA, Ed25519) is accepted on its *)
(*                           digest alone and the ServerKeyExchange that     *)
(*                           follows counts as verified without any signature*)
(*                           having been checked                             *)
(*   Epoch0AppData           plaintext ApplicationData is delivered        *)
(*   Epoch0HandshakeAfterKeys a plaintext handshake message can advance or  *)
(*                           fail the handshake after keys were negotiated *)
(***************************************************************************)
EXTENDS Naturals, Integers, Sequences, FiniteSets, TLC

CONSTANTS Buffers,      \* endpoints (subset of {"C","S"}) that keep what arrives early - handshake messages with a
                        \* message_seq ahead of the expected one, a protected Finished before the keys exist - and
                        \* consume it as soon as it fits (the reference does; rustrtc ignores such messages and
                        \* relies on retransmission)
          AntiReplay,   \* endpoints (subset of {"C","S"}) that discard a record whose (epoch, sequence number) they
                        \* have already seen (RFC 6347 4.1.2.6): rustrtc has no such window, the reference has
          ServerHvr,    \* TRUE: the server answers a cookie-less ClientHello with a HelloVerifyRequest
                        \* (rustrtc's server never does; the reference implementation's server does)
          Deviations,   \* see above
          Lax           \* TRUE: an endpoint MAY answer any duplicate by resending its last flight
                        \* (contract level, used for trace validation); FALSE: only where it must

E == {"C", "S"}
Peer(e) == IF e = "C" THEN "S" ELSE "C"
Dev(d) == d \in Deviations
ClientAuth == ~Dev("ServerSkipsClientAuth")

Range(s) == {s[i] : i \in 1..Len(s)}

---------------------------------------------------------------------------
(* Symbolic terms                                                           *)

NoMaster == [pre |-> {}, cr |-> "-", sr |-> "-", sh |-> <<>>]
JunkMaster == [pre |-> {"junk"}, cr |-> "-", sr |-> "-", sh |-> <<>>]      \* keys nobody holds
NoFin    == [role |-> "-", master |-> NoMaster, tr |-> <<>>]

\* A handshake body is measured in Units equal parts, so that the fragments of a 2-way and of a 3-way split
\* (cut points 1/3, 1/2, 2/3) are unions of units: fragment = [lo, hi).
Units == 6

\* One record = one datagram (rustrtc sends one record per datagram).
\* t: CH HVR SH CERT SKE CR SHD CV CKE CCS FIN APP ; ms: message_seq (0 for non-handshake)
\* frag/nfrag: fragment i of an n-way split (0/1: unfragmented), covering units lo..hi-1
Msg(t, ms) ==
  [t |-> t, ms |-> ms, frag |-> 0, nfrag |-> 1, lo |-> 0, hi |-> Units,
   rnd |-> "-", ck |-> FALSE, prof |-> "-", cert |-> "-", also |-> "-", dh |-> "-",
   sigBy |-> "-", sigCr |-> "-", sigSr |-> "-", sigDh |-> "-", sigTr |-> <<>>, sigN |-> "-",
   fin |-> NoFin, enc |-> NoMaster, bad |-> FALSE,
   same |-> FALSE]     \* a retransmission that reuses the record sequence number of the first transmission

\* What enters the handshake transcript (the bytes of the message, abstractly).
Dig(m) == [t |-> m.t, ms |-> m.ms, rnd |-> m.rnd, ck |-> m.ck, prof |-> m.prof, cert |-> m.cert, also |-> m.also,
           dh |-> m.dh, sigBy |-> m.sigBy, sigCr |-> m.sigCr, sigSr |-> m.sigSr, sigDh |-> m.sigDh,
           sigN |-> m.sigN, bad |-> m.bad]

Master(own, peer, cr, sr, sh) == [pre |-> {own, peer}, cr |-> cr, sr |-> sr, sh |-> sh]
Fin(role, master, tr) == [role |-> role, master |-> master, tr |-> tr]

Plain(t) == t \in {"CH", "HVR", "SH", "CERT", "SKE", "CR", "SHD", "CV", "CKE"}

---------------------------------------------------------------------------
(* Endpoint state                                                           *)

NoFrag == [ms |-> 0, seq |-> <<>>]        \* seq: the [lo, hi) pieces buffered for message ms, in arrival order

\* cert: the certificate the endpoint presents; key: the private key it signs with (KeyOf(cert) for an
\* honest endpoint, the adversary's for an endpoint that presents somebody else's certificate)
\* also: a second entry in the Certificate message it sends ("-" = none); only the first entry (cert) is the
\* peer's certificate, whatever else the list contains
InitEp(e, cert, also, key, dh, rnd, expFp) ==
  [role |-> e, st |-> "Handshaking", sendSeq |-> 0, recvSeq |-> 0, postHvr |-> FALSE,
   tr |-> <<>>, cr |-> "-", sr |-> "-", prof |-> "-",
   cert |-> cert, also |-> also, key |-> key, dh |-> dh, rnd |-> rnd, expFp |-> expFp,
   peerCert |-> "-", skeOk |-> FALSE, cvOk |-> FALSE, crSeen |-> FALSE, peerDh |-> "-",
   keys |-> NoMaster, last |-> <<>>, frag |-> NoFrag, seenRec |-> {}, ooo |-> {}, early |-> {},
   appGot |-> 0, appBad |-> 0, started |-> FALSE]

\* Who runs an endpoint: "certC"/"certS" the genuine party; "certM" the adversary with its own certificate and
\* key; "stolen" the adversary presenting the genuine party's certificate without having its key.
\* "chain": the adversary with its own certificate and key, whose Certificate message lists the genuine party's
\* certificate as a second entry.
Genuine(e) == IF e = "C" THEN "certC" ELSE "certS"
CertOfId(id, e) == IF id = "stolen" THEN Genuine(e) ELSE IF id = "chain" THEN "certM" ELSE id
AlsoOfId(id, e) == IF id = "chain" THEN Genuine(e) ELSE "-"
KeyOfId(id, e)  == IF id \in {"stolen", "chain"} THEN "certM" ELSE id

\* Key type of the certificate behind the expected fingerprint (configuration dimension kS of the bounded model):
\* "ec" - a P-256 key, the only kind whose signatures the library can verify; "nonec" - RSA / Ed25519: the
\* certificate is well formed and has a digest like any other, but nothing signed with its key can be verified, so
\* no peer - the genuine owner or somebody replaying the (public) certificate - can prove possession: the
\* handshake must fail, whoever is at the other end. The genuine server's non-EC certificate is the id "certSn".
NonEcCerts == {"certSn"}
GenuineK(e, k) == IF e = "S" /\ k = "nonec" THEN "certSn" ELSE Genuine(e)
CertOfIdK(id, e, k) == IF id = "stolen" \/ id = Genuine(e) THEN GenuineK(e, k) ELSE CertOfId(id, e)
AlsoOfIdK(id, e, k) == IF id = "chain" THEN GenuineK(e, k) ELSE "-"
KeyOfIdK(id, e, k)  == IF id = Genuine(e) THEN GenuineK(e, k) ELSE KeyOfId(id, e)

Flight(msgs, rtx, why) == [msgs |-> msgs, rtx |-> rtx, why |-> why]
Res(s, out) == [s |-> s, out |-> out]
Fail(s) == Res([s EXCEPT !.st = "Failed"], <<>>)

\* The records of a flight when it is sent again: a retransmission is a new record with a fresh sequence
\* number. (The protected Finished is resent as is: a peer that has not seen it accepts it, one that has does
\* not need it.)
Plain0(m) == m.enc = [pre |-> {}, cr |-> "-", sr |-> "-", sh |-> <<>>]
Again(fl) == [i \in 1..Len(fl) |-> [fl[i] EXCEPT !.same = (Dev("RetransmitReusesRecordSeq") \/ ~Plain0(fl[i]))]]
RecKey(m) == <<m.t, m.ms, m.lo, m.hi>>

CanDecrypt(s, m) == s.keys # NoMaster /\ m.enc = s.keys
Plaintext(m) == m.enc = NoMaster          \* an epoch-0 record: anybody on the path can read and forge it

\* The client starts by sending ClientHello (handshake(), is_client branch).
StartOf(s) ==
  IF s.role = "C"
  THEN LET ch == [Msg("CH", 0) EXCEPT !.rnd = s.rnd, !.prof = "7,1"]
       IN Res([s EXCEPT !.started = TRUE, !.cr = s.rnd, !.tr = <<Dig(ch)>>, !.sendSeq = 1, !.last = <<ch>>],
              <<Flight(<<ch>>, FALSE, "first")>>)
  ELSE Res([s EXCEPT !.started = TRUE], <<>>)

---------------------------------------------------------------------------
(* Handlers                                                                 *)

\* handle_client_hello (server): second and later ClientHellos re-send the hello flight.
RecvCH(s, m) ==
  IF s.role # "S" THEN Res(s, <<>>)
  ELSE IF s.sr # "-"
  THEN Res(s, IF s.last # <<>> THEN <<Flight(Again(s.last), TRUE, "dupCH")>> ELSE <<>>)
  ELSE IF ServerHvr /\ ~m.ck
  THEN \* cookie exchange: neither this ClientHello nor the HelloVerifyRequest enter the transcript
       LET hvr == Msg("HVR", s.sendSeq)
       IN Res([s EXCEPT !.tr = <<>>, !.sendSeq = s.sendSeq + 1, !.last = <<hvr>>],
              <<Flight(<<hvr>>, FALSE, "first")>>)
  ELSE
    LET q    == s.sendSeq
        prof == "1"                                  \* prefers SRTP_AES128_CM_HMAC_SHA1_80 when offered
        sh   == [Msg("SH", q) EXCEPT !.rnd = s.rnd, !.prof = prof]
        cert == [Msg("CERT", q + 1) EXCEPT !.cert = s.cert, !.also = s.also]
        ske  == [Msg("SKE", q + 2) EXCEPT !.dh = s.dh, !.sigBy = s.key, !.sigCr = m.rnd,
                                          !.sigSr = s.rnd, !.sigDh = s.dh]
        cr   == Msg("CR", q + 3)
        shd  == Msg("SHD", IF ClientAuth THEN q + 4 ELSE q + 3)
        fl   == IF ClientAuth THEN <<sh, cert, ske, cr, shd>> ELSE <<sh, cert, ske, shd>>
    IN Res([s EXCEPT !.cr = m.rnd, !.sr = s.rnd, !.prof = prof,
                     !.tr = s.tr \o [i \in 1..Len(fl) |-> Dig(fl[i])],
                     !.sendSeq = q + Len(fl), !.last = fl],
           <<Flight(fl, FALSE, "first")>>)

RecvSH(s, m) ==
  IF s.role # "C" THEN Res(s, <<>>)
  ELSE Res([s EXCEPT !.sr = m.rnd, !.prof = IF m.prof # "-" THEN m.prof ELSE s.prof], <<>>)

\* handle_certificate (role-agnostic in the code): the digest is compared with the fingerprint from
\* signaling before any key material of the certificate is used.
RecvCERT(s, m) ==
  IF m.bad \/ m.cert = "-" THEN Fail(s)                              \* unparsable / empty chain
  ELSE IF s.expFp # "none" /\ m.cert # s.expFp
          /\ ~(Dev("FingerprintAnyInChain") /\ m.also = s.expFp) THEN Fail(s)
  ELSE IF m.cert \in NonEcCerts /\ ~Dev("NonEcKeySkipsProof") THEN Fail(s)   \* no key to verify a proof of possession with
  ELSE Res([s EXCEPT !.peerCert = m.cert], <<>>)

\* handle_server_key_exchange (client): ECDSA signature over randoms and ECDH parameters,
\* verified with the key of the accepted certificate.
RecvSKE(s, m) ==
  IF s.role # "C" THEN Res(s, <<>>)
  ELSE IF m.bad THEN Res(s, <<>>)                                    \* undecodable: ignored, stays unverified
  ELSE IF s.peerCert = "-" \/ s.cr = "-" \/ s.sr = "-" THEN Fail(s)
  ELSE IF s.peerCert \in NonEcCerts      \* (only with NonEcKeySkipsProof: share kept, nothing was proved - skeOk stays FALSE)
  THEN Res([s EXCEPT !.peerDh = m.dh], <<>>)
  ELSE IF m.sigBy = s.peerCert /\ m.sigCr \in {s.cr, "*"} /\ m.sigSr \in {s.sr, "*"} /\ m.sigDh = m.dh
       THEN Res([s EXCEPT !.skeOk = TRUE, !.peerDh = m.dh], <<>>)
       ELSE IF Dev("SkeShareBeforeVerify") THEN Res([s EXCEPT !.peerDh = m.dh], <<>>)   \* share kept, message skipped
       ELSE Fail(s)

RecvCR(s, m) == Res([s EXCEPT !.crSeen = TRUE], <<>>)

\* handle_server_hello_done (client): refuses unless the key exchange was verified; sends
\* [Certificate,] ClientKeyExchange, [CertificateVerify,] ChangeCipherSpec, Finished.
RecvSHD(s, m) ==
  IF s.keys # NoMaster THEN Res(s, <<>>)
  ELSE IF s.role = "C" /\ ~s.skeOk
          /\ ~(Dev("NonEcKeySkipsProof") /\ s.peerCert \in NonEcCerts /\ s.peerDh # "-") THEN Fail(s)
  ELSE IF s.role # "C" THEN Res(s, <<>>)
  ELSE
    LET q     == s.sendSeq
        auth  == ClientAuth /\ s.crSeen
        cert  == [Msg("CERT", q) EXCEPT !.cert = s.cert, !.also = s.also]
        cke   == [Msg("CKE", IF auth THEN q + 1 ELSE q) EXCEPT !.dh = s.dh]
        tr1   == IF auth THEN s.tr \o <<Dig(cert), Dig(cke)>> ELSE Append(s.tr, Dig(cke))
        cv    == [Msg("CV", q + 2) EXCEPT !.sigBy = s.key, !.sigTr = tr1]
        tr2   == IF auth THEN Append(tr1, Dig(cv)) ELSE tr1
        ms    == Master(s.dh, s.peerDh, s.cr, s.sr, tr1)
        finq  == IF auth THEN q + 3 ELSE q + 1
        fin   == [Msg("FIN", finq) EXCEPT !.fin = Fin("C", ms, tr2), !.enc = ms]
        ccs   == Msg("CCS", 0)
        tr3   == Append(tr2, Dig(fin))
        first == IF auth THEN <<cert, cke, cv>> ELSE <<cke>>
        lastf == IF Dev("LastFlightOmitsCKE") THEN <<ccs, fin>> ELSE first \o <<ccs, fin>>
    IN Res([s EXCEPT !.keys = ms, !.tr = tr3, !.sendSeq = finq + 1, !.last = lastf],
           <<Flight(first, FALSE, "first"), Flight(<<ccs, fin>>, FALSE, "first")>>)

\* handle_client_key_exchange (server)
RecvCKE(s, m) ==
  IF s.role # "S" \/ s.keys # NoMaster \/ m.bad \/ s.cr = "-" \/ s.sr = "-" THEN Res(s, <<>>)
  ELSE Res([s EXCEPT !.peerDh = m.dh, !.keys = Master(s.dh, m.dh, s.cr, s.sr, s.tr)], <<>>)

\* CertificateVerify (server, intended design only): signature by the key of the client certificate
\* over the transcript so far (the CertificateVerify itself excluded).
RecvCV(s, m) ==
  IF s.role # "S" THEN Res(s, <<>>)
  ELSE IF s.peerCert # "-" /\ m.sigBy = s.peerCert /\ m.sigTr = SubSeq(s.tr, 1, Len(s.tr) - 1)
       THEN Res([s EXCEPT !.cvOk = TRUE], <<>>)
       ELSE Fail(s)

\* handle_finished
RecvFIN(s, m) ==
  IF s.role = "S"
  THEN IF s.keys = NoMaster
       THEN \* "Session keys not derived": the code still emits a (useless) CCS + Finished before it fails
            Res([s EXCEPT !.st = "Failed"],
                <<Flight(<<Msg("CCS", 0), [Msg("FIN", s.sendSeq) EXCEPT !.bad = TRUE, !.enc = JunkMaster]>>, FALSE, "first")>>)
       ELSE IF m.fin # Fin("C", s.keys, s.tr) THEN Fail(s)
       ELSE IF ClientAuth /\ s.expFp # "none" /\ ~(s.peerCert = s.expFp /\ s.cvOk) THEN Fail(s)
       ELSE LET tr1 == Append(s.tr, Dig(m))
                fin == [Msg("FIN", s.sendSeq) EXCEPT !.fin = Fin("S", s.keys, tr1), !.enc = s.keys]
                fl  == <<Msg("CCS", 0), fin>>
            IN Res([s EXCEPT !.st = "Connected", !.tr = Append(tr1, Dig(fin)), !.last = fl],
                   <<Flight(fl, FALSE, "first")>>)
  ELSE IF s.keys = NoMaster THEN Res(s, <<>>)
       ELSE IF m.fin # Fin("S", s.keys, s.tr) THEN Fail(s)
       ELSE Res([s EXCEPT !.st = "Connected"], <<>>)

\* handle_hello_verify_request (client): restart with the cookie, transcript reset.
RecvHVR(s, m) ==
  IF s.role # "C" THEN Res(s, <<>>)
  ELSE LET ch == [Msg("CH", s.sendSeq) EXCEPT !.rnd = s.cr, !.prof = "7,1", !.ck = TRUE]
       IN Res([s EXCEPT !.tr = <<Dig(ch)>>, !.sendSeq = s.sendSeq + 1, !.last = <<ch>>, !.postHvr = TRUE],
              <<Flight(<<ch>>, FALSE, "first")>>)

Dispatch(s, m) ==
  CASE m.t = "CH"   -> RecvCH(s, m)
    [] m.t = "HVR"  -> RecvHVR(s, m)
    [] m.t = "SH"   -> RecvSH(s, m)
    [] m.t = "CERT" -> RecvCERT(s, m)
    [] m.t = "SKE"  -> RecvSKE(s, m)
    [] m.t = "CR"   -> RecvCR(s, m)
    [] m.t = "SHD"  -> RecvSHD(s, m)
    [] m.t = "CV"   -> RecvCV(s, m)
    [] m.t = "CKE"  -> RecvCKE(s, m)
    [] m.t = "FIN"  -> RecvFIN(s, m)
    [] OTHER        -> Res(s, <<>>)

\* A message with the expected message_seq, complete: it is consumed.
Accept(s, m) ==
  LET s1 == [s EXCEPT !.recvSeq = s.recvSeq + 1, !.postHvr = FALSE,
                      !.tr = IF m.t \in {"FIN", "HVR"} THEN s.tr ELSE Append(s.tr, Dig(m))]
  IN Dispatch(s1, m)

PostHvrWaits(s, m) == s.postHvr /\ s.role = "C" /\ m.t # "SH" /\ ~Dev("PostHvrAdoptsAnySeq")
Resynced(s, m) == IF s.postHvr /\ s.role = "C" /\ m.ms # s.recvSeq
                  THEN [s EXCEPT !.recvSeq = m.ms, !.postHvr = FALSE] ELSE s

Whole(m, bad) == [m EXCEPT !.frag = 0, !.nfrag = 1, !.lo = 0, !.hi = Units, !.bad = bad]

\* Fragment reassembly. Intended: by offset - complete when the pieces received for this message_seq cover
\* the whole body, in any order, with repeats and overlaps (pieces of differently cut retransmissions mix).
\* ReassemblyIgnoresOffset: bodies appended in arrival order, buffer reset on offset 0 or a new message_seq,
\* "complete" as soon as enough bytes are buffered.
\* FragStep gives the buffer after the fragment, whether the message is complete and whether the
\* reassembled bytes differ from the message that was sent.
Piece(m) == [lo |-> m.lo, hi |-> m.hi]
Covered(b) == UNION {b[i].lo .. (b[i].hi - 1) : i \in 1..Len(b)}
RECURSIVE Size(_)
Size(b) == IF b = <<>> THEN 0 ELSE (Head(b).hi - Head(b).lo) + Size(Tail(b))
InOrder(b) == /\ b # <<>> /\ b[1].lo = 0 /\ b[Len(b)].hi = Units
              /\ \A i \in 1..(Len(b) - 1) : b[i].hi = b[i + 1].lo
FragStep(s, m) ==
  IF m.lo = 0 /\ m.hi = Units THEN [buf |-> s.frag, complete |-> TRUE, bad |-> m.bad]
  ELSE IF Dev("ReassemblyIgnoresOffset")
  THEN LET b0 == IF s.frag.ms # m.ms \/ m.lo = 0 THEN <<>> ELSE s.frag.seq
           b1 == Append(b0, Piece(m))
       IN IF Size(b1) < Units
          THEN [buf |-> [ms |-> m.ms, seq |-> b1], complete |-> FALSE, bad |-> FALSE]
          ELSE [buf |-> [ms |-> m.ms, seq |-> <<>>], complete |-> TRUE, bad |-> (m.bad \/ ~InOrder(b1))]
  ELSE LET b0 == IF s.frag.ms # m.ms THEN <<>> ELSE s.frag.seq
           b1 == IF Piece(m) \in Range(b0) THEN b0 ELSE Append(b0, Piece(m))
       IN IF Covered(b1) # 0..(Units - 1)
          THEN [buf |-> [ms |-> m.ms, seq |-> b1], complete |-> FALSE, bad |-> FALSE]
          ELSE [buf |-> NoFrag, complete |-> TRUE, bad |-> m.bad]

Reassemble(s, m) ==
  LET f == FragStep(s, m)
  IN IF f.complete THEN Accept([s EXCEPT !.frag = f.buf], Whole(m, f.bad))
     ELSE Res([s EXCEPT !.frag = f.buf], <<>>)

\* What process_handshake_payload does with the message, as one of the dispositions it logs.
DispOf(s, m) ==
  LET s0 == Resynced(s, m)
  IN IF PostHvrWaits(s, m) THEN "wait"
     ELSE IF m.ms < s0.recvSeq THEN "dup"
     ELSE IF m.ms > s0.recvSeq THEN "ooo"
     ELSE IF FragStep(s0, m).complete THEN "acc" ELSE "frag"

\* A duplicate (message_seq below the expected one) MUST be answered by resending the last flight when
\*  - it is a ClientHello at the server (the client has not seen the hello flight), or
\*  - it is the client's Finished at a server that has already finished (RFC 6347 4.2.4).
MustAnswerDup(s, m) ==
  \/ s.role = "S" /\ m.t = "CH"
  \/ s.role = "S" /\ m.t = "FIN" /\ s.st = "Connected" /\ ~Dev("NoFinalFlightResend")

DupResults(s, m) ==
  LET yes == Res(s, IF s.last # <<>> THEN <<Flight(Again(s.last), TRUE, "dup")>> ELSE <<>>)
      no  == Res(s, <<>>)
  IN IF MustAnswerDup(s, m) THEN {yes} ELSE IF Lax THEN {yes, no} ELSE {no}

\* process_handshake_payload: message_seq filtering, post-HVR resynchronisation, reassembly.
\* A buffering endpoint consumes what it kept as soon as it has become the expected message.
RECURSIVE Drain(_)
Drain(r) ==
  LET B == {b \in r.s.ooo : b.ms = r.s.recvSeq}
  IN IF r.s.role \notin Buffers \/ B = {} \/ r.s.st = "Failed" THEN r
     ELSE LET b  == CHOOSE x \in B : TRUE
              r2 == Reassemble([r.s EXCEPT !.ooo = @ \ {b}], b)
          IN Drain(Res(r2.s, r.out \o r2.out))

\* After a HelloVerifyRequest the client accepts the ServerHello at whatever message_seq the server restarts
\* with (0 per RFC 6347 4.2.1, HVR + 1 in some implementations) and nothing else before it.
HsResults(s, m) ==
  IF PostHvrWaits(s, m) THEN {Res(s, <<>>)}
  ELSE LET s0 == Resynced(s, m) IN
       IF m.ms < s0.recvSeq THEN DupResults(s0, m)
       ELSE IF m.ms > s0.recvSeq
       THEN IF s0.role \in Buffers
            THEN {Res([s0 EXCEPT !.ooo = @ \cup {m}], <<>>)}             \* kept (fragments too) until it fits
            ELSE {Res(s0, <<>>)}                                          \* out of order: ignored
       ELSE {Drain(Reassemble([s0 EXCEPT !.postHvr = FALSE], m))}       \* (a fragment of the awaited ServerHello
                                                                         \*  already ends the post-HVR wait)

\* A protected Finished that was kept because it arrived before the keys: consumed once they exist.
EarlyFin(r) ==
  IF r.s.early = {} \/ r.s.keys = NoMaster \/ r.s.st = "Failed" THEN {r}
  ELSE LET f == CHOOSE x \in r.s.early : TRUE
           s1 == [r.s EXCEPT !.early = {}]
       IN IF ~CanDecrypt(s1, f) THEN {Res(s1, r.out)}
          ELSE {Res(r2.s, r.out \o r2.out) : r2 \in HsResults(s1, f)}

\* One record arriving at an endpoint (handle_incoming_packet / handle_decrypted_record).
\* The result is a set: the contract leaves some choices free.
RecvResults(s0, m) ==
  IF s0.st = "Failed" THEN {Res(s0, <<>>)}                               \* the task has exited
  ELSE IF s0.role \in AntiReplay /\ m.same /\ RecKey(m) \in s0.seenRec THEN {Res(s0, <<>>)}   \* replayed record
  ELSE LET valid == Plaintext(m) \/ CanDecrypt(s0, m)     \* the window moves only for records that authenticate
           s == IF s0.role \in AntiReplay /\ valid THEN [s0 EXCEPT !.seenRec = @ \cup {RecKey(m)}] ELSE s0 IN
  IF m.t = "CCS" THEN {Res(s, <<>>)}
  ELSE IF m.t \in {"FIN", "APP"} /\ ~Plaintext(m) /\ ~CanDecrypt(s, m)
  THEN {Res(IF m.t = "APP" /\ s.st = "Connected" THEN [s EXCEPT !.appBad = s.appBad + 1]
            ELSE IF m.t = "FIN" /\ s.role \in Buffers /\ s.keys = NoMaster THEN [s EXCEPT !.early = {m}]
            ELSE s, <<>>)}                                               \* undecryptable record: dropped (or kept)
  ELSE IF m.t = "APP"
  THEN IF ~Plaintext(m) \/ Dev("Epoch0AppData")
       THEN {Res([s EXCEPT !.appGot = s.appGot + 1], <<>>)}
       ELSE {Res(s, <<>>)}                                               \* plaintext ApplicationData: never
  ELSE IF /\ Plaintext(m) /\ s.keys # NoMaster /\ m.ms >= s.recvSeq /\ ~Dev("Epoch0HandshakeAfterKeys")
          /\ ~(ClientAuth /\ s.role = "S" /\ m.t = "CV")    \* (with client authentication the CertificateVerify
                                                            \*  legitimately follows the ClientKeyExchange in clear)
  THEN {Res(s, <<>>)}        \* once keys exist only the protected Finished may advance or fail the handshake
  ELSE UNION {EarlyFin(r) : r \in HsResults(s, m)}

\* handle_retransmit: while Handshaking the last flight is resent on every tick.
\* (A HelloVerifyRequest is stateless: it is sent in answer to a ClientHello, never on a timer.)
TickOf(s) ==
  IF s.st = "Handshaking" /\ s.last # <<>> /\ s.last[1].t # "HVR"
  THEN Res(s, <<Flight(Again(s.last), TRUE, "timer")>>) ELSE Res(s, <<>>)

DeadlineOf(s) == IF s.st = "Handshaking" THEN Fail(s) ELSE Res(s, <<>>)

\* Application data from a Connected endpoint.
AppOf(s) == [Msg("APP", 0) EXCEPT !.enc = s.keys]

---------------------------------------------------------------------------
(* Adversary rewrites of plaintext handshake messages. M owns certM and its  *)
(* key, the DH share dhM and the random rM; it cannot sign for anybody else. *)

Rewrite(kind, m) ==
  CASE kind = "rw_cert"     -> [m EXCEPT !.cert = "certM", !.also = "-"]                 \* the list becomes [M]
    [] kind = "rw_cert_pre" -> [m EXCEPT !.cert = "certM", !.also = m.cert]             \* [M, original leaf]
    [] kind = "rw_cert_app" -> [m EXCEPT !.also = "certM"]                              \* [original leaf, M]
    [] kind = "rw_ske_key"  -> [m EXCEPT !.dh = "dhM"]                                   \* signature left as is
    \* M sees both hellos in clear, so what it signs itself covers the randoms the verifier holds ("*")
    [] kind = "rw_ske_sig"  -> [m EXCEPT !.sigBy = "certM", !.sigN = "M", !.sigCr = "*", !.sigSr = "*"]
                                                                     \* re-signed by M (ECDSA is randomised: new bytes)
    [] kind = "rw_ske_full" -> [m EXCEPT !.dh = "dhM", !.sigDh = "dhM", !.sigBy = "certM", !.sigN = "M",
                                         !.sigCr = "*", !.sigSr = "*"]
    [] kind = "rw_crand"    -> [m EXCEPT !.rnd = "rM"]
    [] kind = "rw_srand"    -> [m EXCEPT !.rnd = "rM"]
    [] kind = "rw_prof"     -> [m EXCEPT !.prof = "7"]
    [] kind = "rw_cke_key"  -> [m EXCEPT !.dh = "dhM"]
    [] OTHER                -> m

RewriteApplies(kind, m) ==
  CASE kind \in {"rw_cert", "rw_cert_pre", "rw_cert_app"} -> m.t = "CERT"
    [] kind = "rw_ske_key"  -> m.t = "SKE"
    [] kind = "rw_ske_sig"  -> m.t = "SKE"
    [] kind = "rw_ske_full" -> m.t = "SKE"
    [] kind = "rw_crand"    -> m.t = "CH"
    [] kind = "rw_srand"    -> m.t = "SH"
    [] kind = "rw_prof"     -> m.t = "SH"
    [] kind = "rw_cke_key"  -> m.t = "CKE"
    [] OTHER                -> FALSE

---------------------------------------------------------------------------
(* Properties over a pair of endpoint states (used by MC and Trace).         *)

KeyAgreement(c, s) ==
  (c.st = "Connected" /\ s.st = "Connected") => (c.keys = s.keys /\ c.prof = s.prof)

\* C02: Connected with an expected fingerprint only after the peer presented the certificate with that
\* digest and proved possession of its key in this handshake (client: verified ServerKeyExchange;
\* server: verified CertificateVerify).
AuthOf(s) ==
  (s.st = "Connected" /\ s.expFp # "none") =>
     /\ s.peerCert = s.expFp
     /\ IF s.role = "C" THEN s.skeOk ELSE s.cvOk

FailClosedOf(s) == (s.st = "Failed") => (s.appGot = 0)
=============================================================================
