SPECIFICATION Spec
CONSTANTS
  Pres = {"fresh", "offerer", "answerer"}
  Modes = {"WebRtc", "Srtp", "Rtp"}
  LocalClasses = {"fresh", "changed", "unchanged"}
  RemoteClasses = {"fresh", "changed", "unchanged", "nofp", "badalg", "mid65535"}
  MaxLen = 6
  Deviations = {}
VIEW view
INVARIANTS TypeOK SlotsConsistent 
PROPERTIES TableConformance FailureAtomic ClosedIsTerminal
ACTION_CONSTRAINT EmitEdge
CHECK_DEADLOCK FALSE
