---------------------------- MODULE MC_SctpAssoc ----------------------------
(* Bounded models of SctpAssoc.tla and the fault-schedule generator.        *)
EXTENDS SctpAssoc, Json

\* ---- constants for the configurations (cfg files pick one of each)
Chans1   == <<[ord |-> TRUE, pr |-> FALSE]>>
Chans2   == <<[ord |-> TRUE, pr |-> FALSE], [ord |-> FALSE, pr |-> FALSE]>>
ChansPR  == <<[ord |-> TRUE, pr |-> FALSE], [ord |-> TRUE, pr |-> TRUE]>>
ChansPRU == <<[ord |-> TRUE, pr |-> FALSE], [ord |-> FALSE, pr |-> TRUE]>>

Mg(c, n) == [ch |-> c, n |-> n]
\* A submits a 1-fragment and a 2-fragment message on channel 1; B submits nothing
MsgsA12   == [s \in {"A", "B"} |-> IF s = "A" THEN <<Mg(1, 1), Mg(1, 2)>> ELSE <<>>]
MsgsA1    == [s \in {"A", "B"} |-> IF s = "A" THEN <<Mg(1, 1)>> ELSE <<>>]
MsgsA2    == [s \in {"A", "B"} |-> IF s = "A" THEN <<Mg(1, 2)>> ELSE <<>>]
MsgsA11   == [s \in {"A", "B"} |-> IF s = "A" THEN <<Mg(1, 1), Mg(1, 1)>> ELSE <<>>]
MsgsBoth  == [s \in {"A", "B"} |-> IF s = "A" THEN <<Mg(1, 1), Mg(1, 2)>> ELSE <<Mg(1, 2)>>]
MsgsA123  == [s \in {"A", "B"} |-> IF s = "A" THEN <<Mg(1, 1), Mg(1, 2), Mg(1, 3)>> ELSE <<Mg(1, 1)>>]
MsgsPR2    == [s \in {"A", "B"} |-> IF s = "A" THEN <<Mg(2, 1), Mg(1, 1)>> ELSE <<>>]
MsgsPR3    == [s \in {"A", "B"} |-> IF s = "A" THEN <<Mg(2, 3), Mg(1, 1), Mg(2, 1)>> ELSE <<>>]
MsgsA22    == [s \in {"A", "B"} |-> IF s = "A" THEN <<Mg(1, 2), Mg(1, 2)>> ELSE <<>>]
\* a burst of one-chunk messages (T3 marks RtxBurst of them, the others are re-timed)
MsgsA111   == [s \in {"A", "B"} |-> IF s = "A" THEN <<Mg(1, 1), Mg(1, 1), Mg(1, 1)>> ELSE <<>>]
\* two channels: messages alternate
MsgsTwoCh == [s \in {"A", "B"} |-> IF s = "A" THEN <<Mg(1, 1), Mg(2, 2), Mg(1, 2), Mg(2, 1)>> ELSE <<>>]
MsgsTwoCh3 == [s \in {"A", "B"} |-> IF s = "A" THEN <<Mg(2, 2), Mg(1, 1), Mg(2, 1)>> ELSE <<>>]

\* state identity: everything except the fault history bookkeeping stays in; in "set" mode the
\* fifo variables are constant anyway
view == vars

\* ---- fault-schedule generator (fifo mode): print the fault history each time it grows
EmitSched == (faults' # faults) => PrintT(<<"SCHED", ToJson(faults')>>)
NoEmit == TRUE
\* generator for the closing-window schedules: only losses of A's DATA and delayed / late-duplicated SACKs of B
WindowFaults ==
  /\ (faults' # faults) =>
        LET f == faults'[Len(faults')] IN
          \/ (f.dir = "A" /\ f.k = "DATA" /\ f.kind = "drop")
          \/ (f.dir = "B" /\ f.k = "SACK" /\ f.kind \in {"hold", "duplate"})
  /\ \A d \in {"A", "B"} : \A h \in held'[d] : d = "B" /\ h.p.k = "SACK"
EmitWindowSched == WindowFaults /\ EmitSched

\* generator for the T3-under-a-closed-window schedules: the peer falls silent (an outage of A's DATA, or single
\* losses of A's DATA) while the advertised window is exhausted and more data is queued
T3WindowFaults ==
  (faults' # faults) =>
     LET f == faults'[Len(faults')] IN f.dir = "A" /\ f.k = "DATA" /\ f.kind \in {"outage", "drop"}
EmitT3WindowSched == T3WindowFaults /\ EmitSched

\* deviation-on models are unbounded (every late COOKIE-ECHO opens again, every reset can re-deliver):
\* bound the history counters so that a targeted run terminates
DevBound == /\ \A s \in Side : opens[s] <= 2
            /\ \A s \in Side : \A c \in ChanIds : Len(deliv[s][c]) <= Len(Msgs[Peer(s)]) + 1
=============================================================================
