------------------------------- MODULE Demux -------------------------------
(***************************************************************************)
(* Inbound RTP demultiplexing of RtpTransport (src/transports/rtp.rs):     *)
(* the listener registry (by SSRC / by RID / by MID / payload-type routes  *)
(* with a provisional flag) and the demux chain of `receive`.              *)
(*                                                                         *)
(* One action per public entry point that touches the registry:            *)
(*   register_listener_sync, register_rid_listener, register_mid_listener, *)
(*   register_payload_list_listener, register_pt_listener,                 *)
(*   register_provisional_listener, clear_listeners, the receiver side of  *)
(*   a listener channel being dropped, and one inbound RTP packet.         *)
(*                                                                         *)
(* Listeners, SSRCs, payload types, mids and rids are small integers;      *)
(* 0 is "none / absent".                                                   *)
(*                                                                         *)
(* Property C19 (first sentence): each packet reaches at most one          *)
(* registered receiver - the one identified by RID or MID, else by SSRC,   *)
(* else by an unambiguous payload type - and is dropped rather than handed *)
(* to a receiver of another media section.                                 *)
(*                                                                         *)
(* Deviations (named switches, see CONVENTIONS):                           *)
(*   "ProvisionalOnAmbiguousPt"  the provisional fallback is taken even    *)
(*        when the payload type is claimed by two or more routes (C19).    *)
(*   "ClearKeepsMid"  clear_listeners leaves the by-MID map populated, so a *)
(*        receiver that is no longer registered still gets MID-carrying    *)
(*        packets (C19: "at most one REGISTERED receiver").                *)
(* Both were found on the pinned tree and are fixed in /repo (KF-C19-1/2). *)
(***************************************************************************)
EXTENDS Naturals, Sequences, FiniteSets, TLC

CONSTANTS Ls,          \* listeners (channels), e.g. {1,2,3}
          Ssrcs,       \* e.g. {1,2}
          Pts,         \* e.g. {1,2}
          Mids,        \* e.g. {1,2}
          Rids,        \* e.g. {1}
          ExtCfgs,     \* set of <<ridOn, midOn>> pairs: which header-extension ids are negotiated
          MaxLen,      \* bound on the number of actions in a behaviour
          Extras,      \* optional action groups: subset of {"full", "ext", "bridge"}
          Deviations

VARIABLES bySsrc,      \* [Ssrcs -> Ls \cup {0}]
          byRid,       \* [Rids  -> Ls \cup {0}]
          byMid,       \* [Mids  -> Ls \cup {0}]
          route,       \* [Ls -> [on : BOOLEAN, pts : SUBSET Pts, prov : BOOLEAN]]
          closed,      \* listeners whose receiving end was dropped
          full,        \* listeners whose channel is at capacity (the receiver is not reading)
          cfg,         \* [rid |-> BOOLEAN, mid |-> BOOLEAN]: which extension ids are set now
          cfg0,        \* the configuration the transport started with (never changes)
          bridged,     \* a rewrite bridge is installed on this transport: inbound RTP bypasses the demux
          reg,         \* ghost: listeners registered since the last clear_listeners / removal
          hist,        \* actions so far
          last         \* what the last step did (for the rules)

vars == <<bySsrc, byRid, byMid, route, closed, full, cfg, cfg0, bridged, reg, hist, last>>
view == <<bySsrc, byRid, byMid, route, closed, full, cfg, cfg0, bridged, reg>>

NoRoute == [on |-> FALSE, pts |-> {}, prov |-> FALSE]
NoLast  == [kind |-> "ctl", by |-> "", sel |-> 0, delivered |-> {}, allowed |-> {{}}, failed |-> 0, fwd |-> FALSE,
            ridmid |-> {}, holders |-> {}, provs |-> {}, identified |-> FALSE, unreg |-> FALSE]

Init ==
  /\ bySsrc = [s \in Ssrcs |-> 0]
  /\ byRid  = [r \in Rids |-> 0]
  /\ byMid  = [m \in Mids |-> 0]
  /\ route  = [l \in Ls |-> NoRoute]
  /\ closed = {}
  /\ full = {}
  /\ \E c \in ExtCfgs : cfg = [rid |-> c[1], mid |-> c[2]]
  /\ cfg0 = cfg
  /\ bridged = FALSE
  /\ reg = {}
  /\ hist = <<>>
  /\ last = NoLast

Log(a) == hist' = Append(hist, a)

---------------------------------------------------------------------------
(* Registry helpers, shaped like ListenerRegistry                           *)

\* retain(|_, tx| !tx.is_closed())
DropClosed(f) == [x \in DOMAIN f |-> IF f[x] \in closed THEN 0 ELSE f[x]]
\* retain(|_, tx| !tx.same_channel(l))
DropL(f, l)   == [x \in DOMAIN f |-> IF f[x] = l THEN 0 ELSE f[x]]

\* route_for_sender_mut: the existing route of l, else prune closed routes and push a new one
RoutesFor(l) ==
  IF route[l].on THEN route
  ELSE [x \in Ls |-> IF x = l THEN [on |-> TRUE, pts |-> {}, prov |-> FALSE]
                     ELSE IF x \in closed THEN NoRoute ELSE route[x]]

PtHolders(pt) == {l \in Ls : route[l].on /\ pt \in route[l].pts}
Provs         == {l \in Ls : route[l].on /\ route[l].prov}
TheOne(S)     == IF Cardinality(S) = 1 THEN CHOOSE l \in S : TRUE ELSE 0

---------------------------------------------------------------------------
(* Registration and life-cycle actions                                      *)

Ctl(a) == /\ last' = NoLast
          /\ Log(a)
          /\ UNCHANGED <<cfg0, bridged>>

RegSsrc(l, s) ==
  /\ bySsrc' = [DropClosed(bySsrc) EXCEPT ![s] = l]
  /\ reg' = reg \cup {l}
  /\ Ctl([op |-> "ssrc", l |-> l, s |-> s])
  /\ UNCHANGED <<byRid, byMid, route, closed, full, cfg>>

RegRid(l, r) ==
  /\ byRid' = [DropClosed(byRid) EXCEPT ![r] = l]
  /\ reg' = reg \cup {l}
  /\ Ctl([op |-> "rid", l |-> l, r |-> r])
  /\ UNCHANGED <<bySsrc, byMid, route, closed, full, cfg>>

RegMid(l, m) ==
  /\ byMid' = [byMid EXCEPT ![m] = l]
  /\ route' = RoutesFor(l)
  /\ reg' = reg \cup {l}
  /\ Ctl([op |-> "mid", l |-> l, m |-> m])
  /\ UNCHANGED <<bySsrc, byRid, closed, full, cfg>>

RegPts(l, P) ==     \* register_payload_list_listener: replaces the list
  /\ route' = [RoutesFor(l) EXCEPT ![l].pts = P]
  /\ reg' = reg \cup {l}
  /\ Ctl([op |-> "pts", l |-> l, pts |-> P])
  /\ UNCHANGED <<bySsrc, byRid, byMid, closed, full, cfg>>

RegPt(l, p) ==      \* register_pt_listener: adds one payload type
  /\ route' = [RoutesFor(l) EXCEPT ![l].pts = @ \cup {p}]
  /\ reg' = reg \cup {l}
  /\ Ctl([op |-> "pt", l |-> l, pt |-> p])
  /\ UNCHANGED <<bySsrc, byRid, byMid, closed, full, cfg>>

RegProv(l) ==
  /\ route' = [RoutesFor(l) EXCEPT ![l].prov = TRUE]
  /\ reg' = reg \cup {l}
  /\ Ctl([op |-> "prov", l |-> l])
  /\ UNCHANGED <<bySsrc, byRid, byMid, closed, full, cfg>>

Close(l) ==         \* the receiver end of listener l is dropped; the registry is not told
  /\ l \notin closed
  /\ closed' = closed \cup {l}
  /\ full' = full \ {l}          \* a closed channel reports Closed, whatever is still queued
  /\ Ctl([op |-> "close", l |-> l])
  /\ UNCHANGED <<bySsrc, byRid, byMid, route, cfg, reg>>

Clear ==            \* clear_listeners
  /\ bySsrc' = [s \in Ssrcs |-> 0]
  /\ byRid'  = [r \in Rids |-> 0]
  /\ byMid'  = IF "ClearKeepsMid" \in Deviations THEN byMid ELSE [m \in Mids |-> 0]
  /\ route'  = [l \in Ls |-> NoRoute]
  /\ reg' = {}
  /\ Ctl([op |-> "clear"])
  /\ UNCHANGED <<closed, full, cfg>>

Fill(l) ==          \* the receiver of l stops reading and its channel fills up
  /\ "full" \in Extras
  /\ l \notin closed /\ l \notin full
  /\ full' = full \cup {l}
  /\ Ctl([op |-> "fill", l |-> l])
  /\ UNCHANGED <<bySsrc, byRid, byMid, route, closed, cfg, reg>>

Drain(l) ==         \* the receiver of l reads everything that is queued
  /\ "full" \in Extras
  /\ l \in full /\ l \notin closed
  /\ full' = full \ {l}
  /\ Ctl([op |-> "drain", l |-> l])
  /\ UNCHANGED <<bySsrc, byRid, byMid, route, closed, cfg, reg>>

SetExt(k, on) ==    \* set_rid_extension_id / set_sdes_mid_extension_id (Some(id) / None)
  /\ "ext" \in Extras
  /\ cfg' = IF k = "rid" THEN [cfg EXCEPT !.rid = on] ELSE [cfg EXCEPT !.mid = on]
  /\ cfg' # cfg
  /\ Ctl([op |-> "ext", k |-> k, on |-> on])
  /\ UNCHANGED <<bySsrc, byRid, byMid, route, closed, full, reg>>

SetBridge(on) ==    \* bridge_rewrite_rules_to(..) / clear_bridge_rewrite(): the registry is not touched
  /\ "bridge" \in Extras
  /\ bridged # on
  /\ bridged' = on
  /\ last' = NoLast
  /\ Log([op |-> "bridge", on |-> on])
  /\ UNCHANGED <<bySsrc, byRid, byMid, route, closed, full, cfg, cfg0, reg>>

---------------------------------------------------------------------------
(* One inbound RTP packet (clear mode, no bridge)                           *)

RidSel(rid) == IF cfg.rid /\ rid # 0 THEN byRid[rid] ELSE 0
MidSel(mid) == IF cfg.mid /\ mid # 0 THEN byMid[mid] ELSE 0

\* The demux chain. `bind` = the SSRC binding is learnt from this identification.
Select(s, pt, rid, mid) ==
  LET r == RidSel(rid)
      m == MidSel(mid)
      b == bySsrc[s]
      u == TheOne(PtHolders(pt))
      v == TheOne(Provs)
  IN IF r # 0 THEN [l |-> r, by |-> "rid",  bind |-> TRUE]
     ELSE IF m # 0 THEN [l |-> m, by |-> "mid",  bind |-> TRUE]
     ELSE IF b # 0 THEN [l |-> b, by |-> "ssrc", bind |-> FALSE]
     ELSE IF u # 0 THEN [l |-> u, by |-> "pt",   bind |-> TRUE]
     ELSE IF v # 0 /\ (PtHolders(pt) = {} \/ "ProvisionalOnAmbiguousPt" \in Deviations)
          THEN [l |-> v, by |-> "prov", bind |-> FALSE]
     ELSE [l |-> 0, by |-> "none", bind |-> FALSE]

\* What the delivery attempt to x produces: a closed channel receives nothing.
\* A full channel (try_send -> Full) receives nothing either, but its listener stays registered.
Out(x) == IF x = 0 \/ x \in closed \/ x \in full THEN {} ELSE {x}

\* Outcomes the *statement* allows for this packet in this registry (sets of receivers):
\*  - RID or MID identifies: that receiver (if both identify different receivers the statement
\*    does not rank them: either);
\*  - else the SSRC binding; else the unambiguous payload type;
\*  - else nothing - except the documented promiscuous fallback (single provisional listener) when
\*    no route claims the payload type, which the statement neither requires nor forbids.
AllowedOutcomes(s, pt, rid, mid) ==
  LET rm == {RidSel(rid), MidSel(mid)} \ {0}
      b  == bySsrc[s]
      u  == TheOne(PtHolders(pt))
      v  == TheOne(Provs)
  IN IF rm # {} THEN {Out(x) : x \in rm}
     ELSE IF b # 0 THEN {Out(b)}
     ELSE IF u # 0 THEN {Out(u)}
     ELSE IF v # 0 /\ PtHolders(pt) = {} THEN {{}, Out(v)}
     ELSE {{}}

\* The whole effect of one packet as a value (so that it can also be evaluated in the next state, for
\* the probe edges of MC_Demux).
PktEffect(s, pt, rid, mid) ==
  LET sel  == IF bridged THEN [l |-> 0, by |-> "bridge", bind |-> FALSE]   \* taken by the bridge fast path
              ELSE Select(s, pt, rid, mid)
      x    == sel.l
      bs1  == IF sel.bind THEN [DropClosed(bySsrc) EXCEPT ![s] = x] ELSE bySsrc
      fail == x # 0 /\ x \in closed
  IN [ \* try_send -> Closed: by_ssrc.remove(ssrc); remove_sender(tx)
       bySsrc |-> IF fail THEN DropL([bs1 EXCEPT ![s] = 0], x) ELSE bs1,
       byRid  |-> IF fail THEN DropL(byRid, x) ELSE byRid,
       byMid  |-> IF fail THEN DropL(byMid, x) ELSE byMid,
       route  |-> IF fail THEN [route EXCEPT ![x] = NoRoute] ELSE route,
       reg    |-> IF fail THEN reg \ {x} ELSE reg,
       last   |-> [kind |-> "pkt", by |-> sel.by, sel |-> x, delivered |-> Out(x),
                   \* with a bridge the packet is forwarded instead (EXT: no listener gets it); the statement
                   \* itself only forbids a receiver the chain does not identify
                   allowed |-> IF bridged THEN AllowedOutcomes(s, pt, rid, mid) \cup {{}}
                               ELSE AllowedOutcomes(s, pt, rid, mid),
                   fwd |-> bridged,
                   failed |-> IF fail THEN x ELSE 0,
                   ridmid |-> {RidSel(rid), MidSel(mid)} \ {0},
                   holders |-> PtHolders(pt), provs |-> Provs,
                   identified |-> ({RidSel(rid), MidSel(mid)} \ {0} # {} \/ bySsrc[s] # 0),
                   unreg |-> (Out(x) # {} /\ x \notin reg)] ]

Packet(s, pt, rid, mid) ==
  LET e == PktEffect(s, pt, rid, mid) IN
  /\ bySsrc' = e.bySsrc
  /\ byRid'  = e.byRid
  /\ byMid'  = e.byMid
  /\ route'  = e.route
  /\ reg'    = e.reg
  /\ last'   = e.last
  /\ Log([op |-> "pkt", s |-> s, pt |-> pt, rid |-> rid, mid |-> mid])
  /\ UNCHANGED <<closed, full, cfg, cfg0, bridged>>

Register == \E l \in Ls :
              \/ \E s \in Ssrcs : RegSsrc(l, s)
              \/ \E r \in Rids : RegRid(l, r)
              \/ \E m \in Mids : RegMid(l, m)
              \/ \E P \in SUBSET Pts : RegPts(l, P)
              \/ \E p \in Pts : RegPt(l, p)
              \/ RegProv(l)

AnyPacket == \E s \in Ssrcs, pt \in Pts, rid \in Rids \cup {0}, mid \in Mids \cup {0} :
               Packet(s, pt, rid, mid)

Next == Len(hist) < MaxLen /\ ( \/ Register \/ (\E l \in Ls : Close(l)) \/ Clear \/ AnyPacket
                               \/ (\E l \in Ls : Fill(l) \/ Drain(l))
                               \/ (\E k \in {"rid", "mid"}, on \in BOOLEAN : SetExt(k, on))
                               \/ (\E on \in BOOLEAN : SetBridge(on)) )

Spec == Init /\ [][Next]_vars

---------------------------------------------------------------------------
(* Property C19, first sentence, on the model                               *)

\* `last` and `hist` are not part of the VIEW, so every rule about the last step is an action
\* property (TLC evaluates those on every generated transition, also into already-seen states).
IsPkt == last'.kind = "pkt"

\* delivered to at most one receiver
AtMostOne == [][ Cardinality(last'.delivered) <= 1 ]_vars

\* ... the one identified by RID or MID, else by SSRC, else by an unambiguous payload type
ChainRespected == [][ IsPkt => last'.delivered \in last'.allowed ]_vars

\* a packet that nothing identifies and whose payload type two or more routes claim is dropped
\* rather than handed to some receiver (it may belong to another media section)
AmbiguousPtDropped ==
  [][ (IsPkt /\ ~last'.identified /\ Cardinality(last'.holders) >= 2) => last'.delivered = {} ]_vars

\* a receiver whose channel is closed gets nothing, and after the first failed delivery it is
\* gone from every map
NeverToClosed == [][ last'.delivered \cap closed' = {} ]_vars
Ran(f) == {f[x] : x \in DOMAIN f}
ClosedRemoved ==
  [][ (IsPkt /\ last'.failed # 0) =>
        /\ last'.failed \notin (Ran(bySsrc') \cup Ran(byRid') \cup Ran(byMid'))
        /\ ~route'[last'.failed].on ]_vars

\* a packet carrying a RID / MID that names a registered receiver is never given to another one
NoCrossSection ==
  [][ (IsPkt /\ last'.delivered # {}) =>
        \/ last'.ridmid = {}
        \/ last'.delivered \subseteq last'.ridmid ]_vars

\* SSRC bindings are learnt only from RID / MID / unique-PT identification (or registered
\* explicitly); by-SSRC and provisional deliveries never create or re-point one.
BindingRule ==
  [][ (last'.kind = "pkt" /\ last'.by \in {"ssrc", "prov", "none", "bridge"} /\ last'.failed = 0)
        => bySsrc' = bySsrc ]_vars
BindingLearnt ==
  [][ (last'.kind = "pkt" /\ last'.by \in {"rid", "mid", "pt"} /\ last'.failed = 0)
        => bySsrc'[hist'[Len(hist')].s] = last'.sel ]_vars

\* "registered receiver": nothing is delivered to a receiver that has not been registered since the
\* last clear_listeners (or since it was removed after a failed delivery)
OnlyRegistered == [][ IsPkt => ~last'.unreg ]_vars

TypeOK ==
  /\ \A s \in Ssrcs : bySsrc[s] \in Ls \cup {0}
  /\ \A r \in Rids : byRid[r] \in Ls \cup {0}
  /\ \A m \in Mids : byMid[m] \in Ls \cup {0}
  /\ \A l \in Ls : (~route[l].on) => route[l] = NoRoute
  /\ closed \subseteq Ls /\ full \subseteq Ls
=============================================================================
