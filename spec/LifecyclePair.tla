--------------------------- MODULE LifecyclePair ---------------------------
(***************************************************************************)
(* Start-up of TWO rustrtc endpoints with compatible configurations (C10). *)
(*                                                                         *)
(* Same layering as Lifecycle (signaling -> gathering -> ICE -> DTLS ->    *)
(* SRTP / SCTP -> channels / media), both sides, for every point of the    *)
(* configuration lattice                                                   *)
(*   cfg = [mode, media, bundle, mux, ice, latching, compat, offerer].     *)
(* Which layers exist depends on cfg.mode and cfg.media:                   *)
(*   WebRtc : ICE, DTLS (roles from a=setup), DTLS-SRTP keys, SCTP if dc    *)
(*   Srtp   : direct transport, SDES keys from a=crypto of both descriptions *)
(*   Rtp    : direct transport, no keys                                    *)
(* The lattice is the scenario list of the binding: TLC prints one CFG     *)
(* line per compatible configuration.                                      *)
(***************************************************************************)
EXTENDS Naturals, Sequences, FiniteSets, TLC

CONSTANTS Modes, MediaSets, Bundles, Muxes, Ices, Latchings, Compats, Offerers, Scheds, Renegs,
          Deviations

DeviationNames == {"SdesBeforeLocalAnswer",   \* Srtp answerer installs SDES keys before its own answer exists
                   "EqualRoles",              \* both sides take the same DTLS role
                   "SctpNeedsStoredRemote",   \* SCTP is only created if the remote description is already stored
                   "RenegRestartsTransport",  \* a second offer/answer round tears the transports down
                   "StaleRemoteAfterMove"}    \* a latched remote address is kept when a later description moves it

Sides == {"A", "B"}
Other(s) == IF s = "A" THEN "B" ELSE "A"

\* sched is not a configuration but a schedule of the application: "slowSetRemote" = the task that runs the offerer's
\* set_remote_description(answer) is slow after it has started ICE (the description is stored late)
\* options that need not match between the endpoints are per-side dimensions: rtcp-mux policy, SDP compatibility mode,
\* latching, and (inside the value of `ice`) ICE-lite / single-port UDP mux / ICE-TCP role
Lattice == [mode : Modes, media : MediaSets, bundle : Bundles, muxA : Muxes, muxB : Muxes, ice : Ices,
            latchingA : Latchings, latchingB : Latchings, compatA : Compats, compatB : Compats,
            offerer : Offerers, sched : Scheds, reneg : Renegs]

\* reneg: who starts a second offer/answer round once the connection is up and has delivered ("none": nobody);
\* "moved": the offering endpoint is replaced by a fresh one with the same configuration (a moved / restarted SIP
\* endpoint: every transport address in its description is new), which re-INVITEs the peer

\* only what the configuration API documents as meaningful together
Compatible(c) ==
    /\ c.media # {}
    /\ (c.mode = "WebRtc") =>
          /\ c.compatA = "Standard" /\ c.compatB = "Standard"      \* LegacySip is for plain SIP endpoints
          /\ c.latchingA = FALSE /\ c.latchingB = FALSE
    /\ (c.mode # "WebRtc") =>
          /\ "dc" \notin c.media
          /\ c.ice = "full"                       \* no ICE agent in the direct modes
          /\ (c.mode = "Srtp" => (c.latchingA = FALSE /\ c.latchingB = FALSE))
          /\ c.sched = "plain"
    \* a fresh endpoint can take over only where the media path carries no per-connection secrets or ICE state
    /\ (c.reneg = "moved") => c.mode = "Rtp"
    \* (ICE values are pairs that have a common transport: never lite on both sides; ICE-TCP needs one active and one
    \*  passive side, and passive candidates exist only where a tcp_port_range is configured; an endpoint with ICE-TCP
    \*  disabled gathers UDP only, so it cannot reach a TCP-only peer - those pairs are not in Ices)

VARIABLES cfg,
          sig,     \* [Sides -> signaling state]
          ldesc, rdesc,   \* [Sides -> BOOLEAN] local / remote description set
          ice,     \* [Sides -> ICE state]
          role,    \* [Sides -> none | client | server]
          dtls,    \* [Sides -> none | handshaking | connected]
          keys,    \* [Sides -> [tx, rx]]  0 = none; key ids are small naturals
          sctp,    \* [Sides -> none | connecting | established]
          chan,    \* [Sides -> none | connecting | open]
          peer,    \* [Sides -> New | Connected | Failed]
          dcGot, rtpGot,  \* [Sides -> BOOLEAN] a data-channel message / an RTP packet from the other side arrived
          round           \* 1: first negotiation; 2..4: second offer/answer round in progress; 5: complete

vars == <<cfg, sig, ldesc, rdesc, ice, role, dtls, keys, sctp, chan, peer, dcGot, rtpGot, round>>

HasDc == "dc" \in cfg.media
HasMedia == cfg.media \cap {"audio", "video"} # {}
IsWeb == cfg.mode = "WebRtc"
Off == cfg.offerer
Ans == Other(cfg.offerer)
\* the side that starts the second offer/answer round, and the other one
RSide == IF cfg.reneg \in {"offerer", "moved"} THEN Off ELSE Ans
OSide == Other(RSide)

Init ==
    /\ cfg \in {c \in Lattice : Compatible(c)}
    /\ sig = [s \in Sides |-> "Stable"]
    /\ ldesc = [s \in Sides |-> FALSE] /\ rdesc = [s \in Sides |-> FALSE]
    /\ ice = [s \in Sides |-> "New"]
    /\ role = [s \in Sides |-> "none"]
    /\ dtls = [s \in Sides |-> "none"]
    /\ keys = [s \in Sides |-> [tx |-> 0, rx |-> 0]]
    /\ sctp = [s \in Sides |-> "none"]
    /\ chan = [s \in Sides |-> "none"]
    /\ peer = [s \in Sides |-> "New"]
    /\ dcGot = [s \in Sides |-> FALSE] /\ rtpGot = [s \in Sides |-> FALSE]
    /\ round = 1

-----------------------------------------------------------------------------
(* signaling: offer / answer in JSEP order *)

SetLocalOffer ==
    /\ round = 1 /\ sig[Off] = "Stable" /\ ~ldesc[Off]
    /\ sig' = [sig EXCEPT ![Off] = "HaveLocalOffer"]
    /\ ldesc' = [ldesc EXCEPT ![Off] = TRUE]
    /\ chan' = [chan EXCEPT ![Off] = IF HasDc THEN "connecting" ELSE @]
    /\ UNCHANGED <<cfg, rdesc, ice, role, dtls, keys, sctp, peer, dcGot, rtpGot, round>>

\* the answerer learns its DTLS role from the offer (actpass -> it becomes the client... the code
\* maps a remote actpass to "server" for itself and the answer says passive/active accordingly);
\* in the direct modes the transport is started as soon as the remote address is known
SetRemoteOffer ==
    /\ round = 1 /\ ldesc[Off] /\ sig[Ans] = "Stable" /\ ~rdesc[Ans]
    /\ sig' = [sig EXCEPT ![Ans] = "HaveRemoteOffer"]
    /\ rdesc' = [rdesc EXCEPT ![Ans] = TRUE]
    /\ role' = [role EXCEPT ![Ans] = IF IsWeb THEN "server" ELSE @]
    /\ ice' = [ice EXCEPT ![Ans] = IF IsWeb THEN "Checking" ELSE "Connected"]
    /\ UNCHANGED <<cfg, ldesc, dtls, keys, sctp, chan, peer, dcGot, rtpGot, round>>

SetLocalAnswer ==
    /\ round = 1 /\ sig[Ans] = "HaveRemoteOffer"
    /\ sig' = [sig EXCEPT ![Ans] = "Stable"]
    /\ ldesc' = [ldesc EXCEPT ![Ans] = TRUE]
    /\ UNCHANGED <<cfg, rdesc, ice, role, dtls, keys, sctp, chan, peer, dcGot, rtpGot, round>>

\* set_remote_description(answer): signaling commit, DTLS role and ICE start come first, the description is stored at
\* the end of the call - with a slow application task the transports can start in between
SetRemoteAnswer ==
    /\ round = 1 /\ ldesc[Ans] /\ sig[Off] = "HaveLocalOffer"
    /\ sig' = [sig EXCEPT ![Off] = "Stable"]
    /\ rdesc' = [rdesc EXCEPT ![Off] = (cfg.sched # "slowSetRemote")]
    /\ role' = [role EXCEPT ![Off] = IF IsWeb THEN (IF "EqualRoles" \in Deviations THEN "server" ELSE "client") ELSE @]
    /\ ice' = [ice EXCEPT ![Off] = IF IsWeb THEN "Checking" ELSE "Connected"]
    /\ UNCHANGED <<cfg, ldesc, dtls, keys, sctp, chan, peer, dcGot, rtpGot, round>>

StoreRemoteAnswer ==
    /\ sig[Off] = "Stable" /\ ldesc[Ans] /\ ~rdesc[Off] /\ role[Off] # "none"
    /\ rdesc' = [rdesc EXCEPT ![Off] = TRUE]
    /\ UNCHANGED <<cfg, sig, ldesc, ice, role, dtls, keys, sctp, chan, peer, dcGot, rtpGot, round>>

-----------------------------------------------------------------------------
(* transports *)

IceConnect(s) ==
    /\ IsWeb /\ ice[s] = "Checking" /\ ice[Other(s)] \in {"Checking", "Connected"}
    /\ ice' = [ice EXCEPT ![s] = "Connected"]
    /\ UNCHANGED <<cfg, sig, ldesc, rdesc, role, dtls, keys, sctp, chan, peer, dcGot, rtpGot, round>>

StartDtls(s) ==
    /\ IsWeb /\ ice[s] = "Connected" /\ role[s] # "none" /\ dtls[s] = "none"
    /\ dtls' = [dtls EXCEPT ![s] = "handshaking"]
    \* the association is needed iff the negotiated descriptions have an application section: decided from the
    \* remote description, or from the local one while the remote one is not stored yet
    /\ sctp' = [sctp EXCEPT ![s] = IF HasDc /\ (rdesc[s] \/ (ldesc[s] /\ "SctpNeedsStoredRemote" \notin Deviations))
                                   THEN "connecting" ELSE @]
    /\ UNCHANGED <<cfg, sig, ldesc, rdesc, ice, role, keys, chan, peer, dcGot, rtpGot, round>>

\* the handshake needs one client and one server
DtlsConnected ==
    /\ IsWeb /\ \A s \in Sides : dtls[s] = "handshaking"
    /\ role["A"] # role["B"]
    /\ dtls' = [s \in Sides |-> "connected"]
    \* exporter: client write key = 1, server write key = 2
    /\ keys' = [s \in Sides |-> IF role[s] = "client" THEN [tx |-> 1, rx |-> 2] ELSE [tx |-> 2, rx |-> 1]]
    /\ UNCHANGED <<cfg, sig, ldesc, rdesc, ice, role, sctp, chan, peer, dcGot, rtpGot, round>>

\* direct modes: the transport starts when ICE ("direct") is connected; Srtp needs the a=crypto of
\* both descriptions of THIS side (key of A's description = 3, of B's = 4)
StartDirect(s) ==
    /\ ~IsWeb /\ ice[s] = "Connected" /\ peer[s] = "New"
    /\ IF cfg.mode = "Srtp"
       THEN IF ldesc[s] /\ rdesc[s]
            THEN /\ keys' = [keys EXCEPT ![s] = IF s = "A" THEN [tx |-> 3, rx |-> 4] ELSE [tx |-> 4, rx |-> 3]]
                 /\ peer' = [peer EXCEPT ![s] = "Connected"]
            ELSE /\ "SdesBeforeLocalAnswer" \in Deviations
                 /\ peer' = [peer EXCEPT ![s] = "Failed"] /\ UNCHANGED keys
       ELSE peer' = [peer EXCEPT ![s] = "Connected"] /\ UNCHANGED keys
    /\ UNCHANGED <<cfg, sig, ldesc, rdesc, ice, role, dtls, sctp, chan, dcGot, rtpGot, round>>

WebConnected(s) ==
    /\ IsWeb /\ dtls[s] = "connected" /\ peer[s] = "New"
    /\ peer' = [peer EXCEPT ![s] = "Connected"]
    /\ UNCHANGED <<cfg, sig, ldesc, rdesc, ice, role, dtls, keys, sctp, chan, dcGot, rtpGot, round>>

SctpUp ==
    /\ HasDc /\ \A s \in Sides : sctp[s] = "connecting" /\ dtls[s] = "connected"
    /\ sctp' = [s \in Sides |-> "established"]
    /\ UNCHANGED <<cfg, sig, ldesc, rdesc, ice, role, dtls, keys, chan, peer, dcGot, rtpGot, round>>

ChanOpen ==
    /\ HasDc /\ \A s \in Sides : sctp[s] = "established"
    /\ chan[Off] = "connecting"
    /\ chan' = [s \in Sides |-> "open"]
    /\ UNCHANGED <<cfg, sig, ldesc, rdesc, ice, role, dtls, keys, sctp, peer, dcGot, rtpGot, round>>

DataDelivered(s) ==
    /\ round \in {1, 5}
    /\ HasDc /\ chan["A"] = "open" /\ chan["B"] = "open" /\ ~dcGot[s]
    /\ dcGot' = [dcGot EXCEPT ![s] = TRUE]
    /\ UNCHANGED <<cfg, sig, ldesc, rdesc, ice, role, dtls, keys, sctp, chan, peer, rtpGot, round>>

\* an RTP packet from the other side is accepted only under matching keys (or without keys in Rtp mode)
RtpDelivered(s) ==
    /\ round \in {1, 5}
    /\ HasMedia /\ peer["A"] = "Connected" /\ peer["B"] = "Connected" /\ ~rtpGot[s]
    /\ keys[Other(s)].tx = keys[s].rx
    /\ (cfg.mode # "Rtp") => keys[s].rx # 0
    \* after the peer has moved, the packets for it go to the addresses of its latest description - also where
    \* the sender had latched onto the source of the packets it received in the first round
    /\ ~("StaleRemoteAfterMove" \in Deviations /\ cfg.reneg = "moved" /\ round = 5 /\ s = RSide
          /\ (IF OSide = "A" THEN cfg.latchingA ELSE cfg.latchingB))
    /\ rtpGot' = [rtpGot EXCEPT ![s] = TRUE]
    /\ UNCHANGED <<cfg, sig, ldesc, rdesc, ice, role, dtls, keys, sctp, chan, peer, dcGot, round>>

-----------------------------------------------------------------------------
(* renegotiation: a second offer/answer round on the established connection, started by either side; transports,
   roles and keys stay, delivery works again afterwards *)

Delivered1 == /\ \A s \in Sides : peer[s] = "Connected"
              /\ HasDc => \A s \in Sides : dcGot[s]
              /\ HasMedia => \A s \in Sides : rtpGot[s]


RenegLocalOffer ==
    /\ cfg.reneg # "none" /\ round = 1 /\ \A s \in Sides : peer[s] = "Connected"
    /\ sig[RSide] = "Stable" /\ sig[OSide] = "Stable"
    /\ sig' = [sig EXCEPT ![RSide] = "HaveLocalOffer"]
    /\ round' = 2
    /\ dcGot' = [s \in Sides |-> FALSE] /\ rtpGot' = [s \in Sides |-> FALSE]
    /\ UNCHANGED <<cfg, ldesc, rdesc, ice, role, dtls, keys, sctp, chan, peer>>

RenegRemoteOffer ==
    /\ round = 2 /\ sig[OSide] = "Stable"
    /\ sig' = [sig EXCEPT ![OSide] = "HaveRemoteOffer"]
    /\ round' = 3
    /\ IF "RenegRestartsTransport" \in Deviations
       THEN peer' = [peer EXCEPT ![OSide] = "New"]
       ELSE UNCHANGED peer
    /\ UNCHANGED <<cfg, ldesc, rdesc, ice, role, dtls, keys, sctp, chan, dcGot, rtpGot>>

RenegLocalAnswer ==
    /\ round = 3 /\ sig[OSide] = "HaveRemoteOffer"
    /\ sig' = [sig EXCEPT ![OSide] = "Stable"]
    /\ round' = 4
    /\ UNCHANGED <<cfg, ldesc, rdesc, ice, role, dtls, keys, sctp, chan, peer, dcGot, rtpGot>>

RenegRemoteAnswer ==
    /\ round = 4 /\ sig[RSide] = "HaveLocalOffer"
    /\ sig' = [sig EXCEPT ![RSide] = "Stable"]
    /\ round' = 5
    /\ UNCHANGED <<cfg, ldesc, rdesc, ice, role, dtls, keys, sctp, chan, peer, dcGot, rtpGot>>

Next ==
    \/ RenegLocalOffer \/ RenegRemoteOffer \/ RenegLocalAnswer \/ RenegRemoteAnswer
    \/ SetLocalOffer \/ SetRemoteOffer \/ SetLocalAnswer \/ SetRemoteAnswer \/ StoreRemoteAnswer
    \/ \E s \in Sides : IceConnect(s) \/ StartDtls(s) \/ StartDirect(s) \/ WebConnected(s)
                        \/ DataDelivered(s) \/ RtpDelivered(s)
    \/ DtlsConnected \/ SctpUp \/ ChanOpen

Spec == Init /\ [][Next]_vars /\ WF_vars(Next)

-----------------------------------------------------------------------------
TypeOK == cfg \in Lattice

RolesComplementary ==
    (IsWeb /\ role["A"] # "none" /\ role["B"] # "none") => role["A"] # role["B"]

SameSrtpKeys ==
    (keys["A"].tx # 0 /\ keys["B"].tx # 0) =>
        /\ keys["A"].tx = keys["B"].rx /\ keys["B"].tx = keys["A"].rx
        /\ keys["A"].tx # keys["A"].rx

NeverFailed == \A s \in Sides : peer[s] # "Failed"

\* a connection that is up stays up through a renegotiation
StaysConnected == round >= 2 => \A s \in Sides : peer[s] = "Connected"

Done == /\ round = (IF cfg.reneg = "none" THEN 1 ELSE 5)
        /\ \A s \in Sides : peer[s] = "Connected"
        /\ HasDc => \A s \in Sides : dcGot[s]
        /\ HasMedia => \A s \in Sides : rtpGot[s]

ConnectsAndDelivers == <>[]Done

=============================================================================
