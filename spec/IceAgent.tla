------------------------------ MODULE IceAgent ------------------------------
(***************************************************************************)
(* Inbound STUN handling of one ICE agent (src/transports/ice/mod.rs:      *)
(* handle_packet, handle_stun_request, perform_connectivity_checks_async,  *)
(* perform_binding_check) as seen by its environment: the legitimate peer  *)
(* (address P, signalled as a remote candidate, knows the credentials) and  *)
(* an off-path stranger (address X, never signalled).                      *)
(*                                                                         *)
(* One action per handler:                                                 *)
(*   Start          IceTransport::start (after add_remote_candidate(P))    *)
(*   Request        handle_packet -> handle_stun_request                   *)
(*   Response       handle_packet -> pending_transactions dispatch ->      *)
(*                  the awaiting perform_binding_check / check round       *)
(*                                                                         *)
(* Property C06 is the pair of action properties UnauthInert and           *)
(* UnmatchedInert.  What an *authenticated* request or a *matched*         *)
(* response does is not constrained by C06; it is modelled after the code  *)
(* (deterministically, so that replay can drive the real agent into every  *)
(* state) and compared under the tag EXT only.                             *)
(*                                                                         *)
(* The pinned code's deviation -- handle_stun_request never looks at        *)
(* USERNAME / MESSAGE-INTEGRITY -- is the switch "NoRequestAuth".          *)
(***************************************************************************)
EXTENDS Naturals, Sequences, FiniteSets, TLC

CONSTANTS Roles,       \* subset of {"controlling", "controlled"}
          Socks,       \* socket kinds explored: subset of {"udp", "mux", "tcp"}
          Lites,       \* values of config.enable_ice_lite explored
          UserAlpha,   \* USERNAME variants: "ok" | "missing" | "wrong" | ...
          MiAlpha,     \* MESSAGE-INTEGRITY variants: "ok" | "missing" | "wrongKey" | "garbled" | ...
          FpAlpha,     \* FINGERPRINT variants: "ok" | "none"
          Deviations   \* subset of {"NoRequestAuth", "AnyResponse"}

Addr == {"P", "X"}

VARIABLES role, sock, lite,   \* configuration (never changes)
          started,            \* start() was called (remote credentials known)
          state,              \* "New" | "Checking" | "Connected" | "Failed"
          rc,                 \* remote candidate addresses: SUBSET Addr
          sel,                \* remote address of the selected pair: "none" | "P" | "X"
          nom,                \* nomination_complete: "none" | "true" | "false"
          pend,               \* outstanding transactions: set of [dst, rnd, uc]
          nrounds,            \* check rounds started so far
          phost,              \* P's (first) entry in the candidate list is the signalled host candidate
                              \* (FALSE: P was first learnt as a peer-reflexive candidate from a request)
          routes,             \* shared-UDP demux (shared_udp.rs): which session a source address is routed to:
                              \* "us" | "other" | "none"; constantly "us" for a socket of our own
          hist, last

vars == <<role, sock, lite, started, state, rc, sel, nom, pend, nrounds, phost, routes, hist, last>>
view == <<role, sock, lite, started, state, rc, sel, nom, pend, nrounds, phost, routes>>
cfgv == <<role, sock, lite>>

Txn == [dst : Addr, rnd : 1..3, uc : BOOLEAN]

TypeOK ==
  /\ role \in Roles /\ sock \in Socks /\ lite \in Lites
  /\ started \in BOOLEAN
  /\ state \in {"New", "Checking", "Connected", "Failed"}
  /\ rc \subseteq Addr
  /\ sel \in {"none"} \cup Addr
  /\ nom \in {"none", "true", "false"}
  /\ pend \subseteq Txn
  /\ nrounds \in 0..3
  /\ phost \in BOOLEAN
  /\ routes \in [Addr -> {"us", "other", "none"}]

Init ==
  /\ role \in Roles /\ sock \in Socks /\ lite \in Lites
  /\ started = FALSE
  /\ state = "New"
  /\ rc = {} /\ sel = "none" /\ nom = "none"
  /\ pend = {} /\ nrounds = 0
  /\ phost = FALSE
  /\ routes = [a \in Addr |-> IF sock \in {"mux", "tcpmux", "turn"} THEN "none" ELSE "us"]
  /\ hist = <<>>
  /\ last = [kind |-> "init", delivered |-> TRUE, first |-> FALSE]

\* every history entry carries the state it leads to, so that a replay can wait for the
\* (asynchronous) effects of one step before it applies the next
Snap(st, r, s, n, ps, ph) ==
  [state |-> st, rc |-> r, sel |-> s, nom |-> n, phost |-> ph,
   pend |-> {[dst |-> p.dst, uc |-> p.uc] : p \in ps}]
Log(a) == hist' = Append(hist, [a |-> a, st |-> Snap(state', rc', sel', nom', pend', phost')])

PendDsts(ps) == {p.dst : p \in ps}

\* A check round over the remote candidates that have no check in flight
\* (perform_connectivity_checks_async: runs only in state Checking with nothing selected).
NewRound(ps, cands, n) ==
  LET ds == cands \ PendDsts(ps) IN
  IF ds = {} THEN [pend |-> ps, n |-> n]
  ELSE [pend |-> ps \cup {[dst |-> d, rnd |-> n + 1, uc |-> FALSE] : d \in ds}, n |-> n + 1]

\* ICE-TCP: connections accepted by the agent's own passive listener ("tcp") or by the process-wide shared
\* single-port listener ("tcpmux": the FIRST frame of a new connection must be a Binding request whose USERNAME
\* names a registered ufrag - it attaches the connection to that session (routes = "us") and is then handled like
\* every later frame; anything else makes the listener drop the connection)
IsTcp == sock \in {"tcp", "tcpmux"}

\* sending to an address through the shared socket routes that address back to this session
Sent(rt, ds) == [a \in Addr |-> IF a \in ds THEN "us" ELSE rt[a]]

---------------------------------------------------------------------------
(* start(): the peer's candidate P has been signalled, remote credentials  *)
(* are set, state becomes Checking and a round of checks starts unless a    *)
(* pair is already selected.                                               *)
Start ==
  /\ ~started /\ state # "Failed"
  /\ started' = TRUE
  \* ICE-TCP: the peer signals an active candidate (port 9); its real source address is only ever learnt
  \* from an inbound connection, and checks towards the placeholder fail at once
  /\ rc' = (IF IsTcp THEN rc ELSE rc \cup {"P"})
  /\ phost' = (IF IsTcp \/ "P" \in rc THEN phost ELSE TRUE)
  /\ state' = "Checking"
  /\ (LET r == IF sel = "none" /\ ~IsTcp THEN NewRound(pend, rc', nrounds) ELSE [pend |-> pend, n |-> nrounds]
      IN pend' = r.pend /\ nrounds' = r.n)
  \* connectivity checks go out on the raw socket (IceGatherer::get_socket), not through the session handle:
  \* they do not route their destination back to this session.  Through a TURN relay ("turn") a check first binds
  \* a channel for its destination: there routes[d] = "us" stands for "a channel is bound for peer d"
  /\ routes' = (IF sock = "turn" THEN Sent(routes, PendDsts(pend') \ PendDsts(pend)) ELSE routes)
  /\ last' = [kind |-> "start", delivered |-> TRUE, first |-> FALSE]
  /\ UNCHANGED <<sel, nom, cfgv>>
  /\ Log([op |-> "start"])

---------------------------------------------------------------------------
(* Inbound Binding request.                                                *)

Authentic(q) == q.user = "ok" /\ q.mi = "ok"

\* pair priority on one local host candidate: a signalled host candidate (P) beats a
\* peer-reflexive one (X, or P when it was first learnt from a request)
Better(a, b) == a = "P" /\ b = "X" /\ phost

\* ICE-TCP, request on an accepted inbound connection (complete_controlled_inbound_tcp_nomination):
\* a controlled agent takes the first accepted request - with or without USE-CANDIDATE - as the nomination
AcceptTcp(src, rt) ==
  /\ routes' = rt
  /\ rc' = rc \cup {src}
  /\ (IF role = "controlled" /\ nom = "none"
      THEN sel' = src /\ state' = "Connected" /\ nom' = "true"
      ELSE UNCHANGED <<sel, state, nom>>)
  /\ UNCHANGED <<pend, nrounds>>

\* What handle_stun_request does with a request it accepts.
Accept(src, uc, rt) ==
  IF IsTcp THEN AcceptTcp(src, rt) ELSE
  LET isNew   == src \notin rc
      rc1     == rc \cup {src}
      useIt   == uc /\ role = "controlled"
      already == nom # "none"
      pick    == sel = "none" \/ (sel # src /\ (~already \/ Better(src, sel)))
      sel1    == IF useIt /\ pick THEN src ELSE sel
      state1  == IF useIt THEN "Connected" ELSE state
      nom1    == IF useIt THEN "true" ELSE nom
      r       == IF isNew /\ state1 = "Checking" /\ sel1 = "none"
                 THEN NewRound(pend, rc1, nrounds) ELSE [pend |-> pend, n |-> nrounds]
  IN /\ rc' = rc1 /\ sel' = sel1 /\ state' = state1 /\ nom' = nom1
     /\ pend' = r.pend /\ nrounds' = r.n
     /\ routes' = (IF sock = "turn" THEN Sent(rt, PendDsts(r.pend) \ PendDsts(pend))     \* channels of the new checks
                   ELSE Sent(rt, {src}))      \* the reply goes through the session handle (new checks do not)

\* whom the USERNAME of a request names (shared_tcp.rs: peer_ufrag_from_binding_request)
UserLocal(u) == CASE u = "ok" -> "us"
                  [] u \in {"wrong", "swapped", "prefix"} -> "other"
                  [] OTHER -> "nouser"                       \* missing, or no colon in it

\* how a packet reaches the agent: "direct" on its own / shared sockets; through a TURN relay wrapped in a Data
\* indication ("data"), as ChannelData on the channel bound for its source ("chan"), or BARE on the TURN client's
\* 5-tuple, from the server address ("bare_srv") or from a stranger ("bare_x") - a bare packet is dispatched with the
\* agent's own relayed address as its source
ViasOf(k) == IF k = "turn" THEN {"data", "chan", "bare_srv", "bare_x"} ELSE {"direct"}
Bare(v) == v \in {"bare_srv", "bare_x"}

Request(q) ==
  /\ state # "Failed"
  /\ (q.via = "chan" => routes[q.src] = "us")             \* ChannelData needs a bound channel
  /\ (Bare(q.via) => ~Authentic(q) /\ q.src = "X")        \* bare requests: the adversarial ones only
  /\ LET ul == UserLocal(q.user)
         \* the demux records the route a USERNAME names before anything is verified
         rt1 == IF sock = "mux" /\ ul # "nouser" THEN [routes EXCEPT ![q.src] = ul]
                ELSE IF sock = "tcpmux" /\ routes[q.src] # "us" /\ ul = "us" THEN [routes EXCEPT ![q.src] = "us"]
                ELSE routes
         delivered == CASE sock = "mux" -> ul = "us" \/ (ul = "nouser" /\ routes[q.src] = "us")
                        [] sock = "tcpmux" -> routes[q.src] = "us" \/ ul = "us"     \* later frame, or an attaching first frame
                        [] OTHER -> TRUE                 \* "turn": every way explored here reaches handle_packet
     IN /\ (IF delivered /\ (Authentic(q) \/ "NoRequestAuth" \in Deviations)
             THEN Accept(q.src, q.uc, rt1)
             ELSE /\ UNCHANGED <<rc, sel, state, nom, pend, nrounds>>
                  /\ routes' = rt1)
        /\ last' = [kind |-> "request", auth |-> Authentic(q), known |-> (q.src \in rc), delivered |-> delivered,
               first |-> (sock = "tcpmux" /\ routes[q.src] # "us")]
  /\ UNCHANGED <<started, phost, cfgv>>
  /\ Log([op |-> "request", src |-> q.src, user |-> q.user, mi |-> q.mi, uc |-> q.uc, fp |-> q.fp, via |-> q.via])

Requests == [src : Addr, user : UserAlpha, mi : MiAlpha, uc : BOOLEAN, fp : FpAlpha, via : ViasOf(sock)]

---------------------------------------------------------------------------
(* Inbound response.  tx is an outstanding transaction or Unknown.          *)
Unknown == [dst |-> "none", rnd |-> 0, uc |-> FALSE]

Matched(p, class) ==
  LET others     == {o \in pend : o.rnd = p.rnd /\ o # p /\ ~o.uc}
      nominating == \E o \in pend : o.rnd = p.rnd /\ o.uc     \* this round is past its check phase
  IN
  IF ~p.uc
  THEN \* ordinary connectivity check of round p.rnd
    IF nominating
    THEN \* the round no longer polls its checks: the transaction is consumed, nothing else happens
         /\ pend' = pend \ {p}
         /\ UNCHANGED <<sel, state, nom>>
    ELSE IF class = "success"
    THEN IF role = "controlled"
         THEN \* the round ends (after a grace period for its other checks, which are then dropped)
              /\ pend' = pend \ ({p} \cup others)
              /\ (IF nom # "none" THEN UNCHANGED <<sel, state>>
                  ELSE sel' = p.dst /\ state' = "Connected")
              /\ UNCHANGED nom
         ELSE \* controlling: Connected, then the successful pair is nominated; the round's other
              \* checks stay outstanding until the round function returns
              /\ pend' = (pend \ {p}) \cup {[dst |-> p.dst, rnd |-> p.rnd, uc |-> TRUE]}
              /\ state' = "Connected"
              /\ UNCHANGED <<sel, nom>>
    ELSE /\ pend' = pend \ {p}
         /\ UNCHANGED <<sel, state, nom>>
  ELSE \* nomination check (controlling agent): the round function returns afterwards
    IF class = "success"
    THEN /\ pend' = pend \ ({p} \cup others) /\ sel' = p.dst /\ nom' = "true" /\ UNCHANGED state
    ELSE /\ pend' = pend \ ({p} \cup others) /\ sel' = p.dst /\ nom' = "false" /\ state' = "Failed"

Response(tx, class, src, via) ==
  /\ state # "Failed"
  /\ (via = "chan" => routes[src] = "us")
  /\ (Bare(via) => src = "X")
  /\ (IF sock # "turn" /\ routes[src] # "us"
      THEN UNCHANGED <<sel, state, nom, pend>>                \* dropped by the demux
      ELSE IF tx \in pend
      THEN Matched(tx, class)
      ELSE IF "AnyResponse" \in Deviations /\ pend # {}
           THEN \E p \in pend : Matched(p, class)          \* a response consumed although it matches nothing
           ELSE UNCHANGED <<sel, state, nom, pend>>)
  /\ last' = [kind |-> "response", matched |-> (tx \in pend), delivered |-> (sock = "turn" \/ routes[src] = "us"),
               first |-> (sock = "tcpmux" /\ routes[src] # "us")]
  /\ UNCHANGED <<rc, nrounds, started, phost, routes, cfgv>>
  /\ Log([op |-> "response",
          tx |-> IF tx \in pend THEN [dst |-> tx.dst, uc |-> tx.uc, known |-> TRUE]
                 ELSE [dst |-> "none", uc |-> FALSE, known |-> FALSE],
          class |-> class, src |-> src, via |-> via])

Next ==
  \/ Start
  \/ \E q \in Requests : Request(q)
  \/ \E tx \in pend \cup {Unknown}, class \in {"success", "error"}, src \in Addr, via \in ViasOf(sock) :
        Response(tx, class, src, via)

Spec == Init /\ [][Next]_vars

---------------------------------------------------------------------------
(* C06 *)
UnauthInert ==
  [][(last'.kind = "request" /\ ~last'.auth) => UNCHANGED <<rc, sel, nom, state>>]_vars
UnmatchedInert ==
  [][(last'.kind = "response" /\ ~last'.matched) => UNCHANGED <<rc, sel, nom, state, pend>>]_vars
=============================================================================
