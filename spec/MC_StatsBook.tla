---------------------------- MODULE MC_StatsBook ----------------------------
(* Bounded model + replay generator for StatsBook.tla (EXT06).               *)
EXTENDS StatsBook, Json

EdgeRec == [ pre |-> hist, act |-> hist'[Len(hist')], out |-> out', rtt |-> rtt',
             recv |-> [s \in Sources |-> rx'[s].recv], lost |-> [s \in Sources |-> Expected(rx'[s]) - rx'[s].recv] ]
EmitEdge == PrintT(<<"EDGE", ToJson(EdgeRec)>>)
NoEmit   == TRUE
StateRec(rule) == [ rule |-> rule, pre |-> SubSeq(hist, 1, Len(hist) - 1), act |-> hist[Len(hist)], out |-> out, rtt |-> rtt,
                    recv |-> [s \in Sources |-> rx[s].recv], lost |-> [s \in Sources |-> Expected(rx[s]) - rx[s].recv] ]
W_LsrMiddle == LsrMiddle \/ (PrintT(<<"EDGE", ToJson(StateRec("LsrMiddle"))>>) /\ FALSE)
W_RttRule   == RttRule \/ (PrintT(<<"EDGE", ToJson(StateRec("RttRule"))>>) /\ FALSE)
=============================================================================
