SPECIFICATION TraceSpec
CONSTANTS
  Mode = "WebRtc"
  HasDc = TRUE
  Traffic = FALSE
  Deviations = {"OverwriteClosed", "LoopsDoneSilent", "HsRunnerDoneWaits", "StrongRefInConnLoop", "WaitConnectedBlind", "SigOverwriteClosed", "SendCheckThenPark", "ExitDoesNotWake"}
  Props = {"EXT", "C17.Stable", "C17.Reason", "C17.CloseOnce", "C17.NoHang", "C17.Released", "C17.Terminal", "C17.LocalClosed", "C17.DoubleClose"}
  MaxEvents = 9
  PhaseSet = {"renegotiating"}
  Ev1Set = {}
  WfcBudget = 2
  Answerer = FALSE
  MaxFlaps = 3
  IceFailFallback = TRUE
  Ev2Set = {}
  MaxSilent = 8
VIEW tview
CONSTRAINT Furthest
POSTCONDITION Post
CHECK_DEADLOCK FALSE
