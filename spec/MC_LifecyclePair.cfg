SPECIFICATION Spec
CONSTANTS
  Modes = {"WebRtc", "Srtp", "Rtp"}
  MediaSets = {{"dc"}, {"audio"}, {"video"}, {"dc", "audio"}, {"dc", "video"}, {"audio", "video"}, {"dc", "audio", "video"}}
  Bundles = {"balanced", "maxbundle", "maxcompat"}
  Muxes = {"require", "negotiate"}
  Ices = {"full", "liteA", "liteB", "tcp", "udpmux"}
  Latchings = {TRUE, FALSE}
  Compats = {"Standard", "LegacySip"}
  Offerers = {"A", "B"}
  Scheds = {"plain", "slowSetRemote"}
  Renegs = {"none", "offerer", "answerer"}
  Deviations = {}
INVARIANTS TypeOK RolesComplementary SameSrtpKeys NeverFailed StaysConnected
PROPERTIES ConnectsAndDelivers
ACTION_CONSTRAINT NoEmit
CHECK_DEADLOCK FALSE
