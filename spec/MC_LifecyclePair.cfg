SPECIFICATION Spec
CONSTANTS
  Modes = {"WebRtc", "Srtp", "Rtp"}
  MediaSets = {{"dc"}, {"audio"}, {"video"}, {"dc", "audio"}, {"dc", "video"}, {"audio", "video"}, {"dc", "audio", "video"}}
  Bundles = {"balanced", "maxcompat"}
  Muxes = {"require", "negotiate"}
  Ices = {"full", "liteA", "liteB", "tcp", "tcpActive+tcp", "udpmuxA", "udpmuxB", "udpmuxAB", "liteA+udpmuxB", "liteB+udpmuxA"}
  Latchings = {TRUE, FALSE}
  Compats = {"Standard", "LegacySip"}
  Offerers = {"A", "B"}
  Scheds = {"plain", "slowSetRemote"}
  Renegs = {"none", "offerer", "answerer", "moved"}
  Deviations = {}
INVARIANTS TypeOK RolesComplementary SameSrtpKeys NeverFailed StaysConnected
PROPERTIES ConnectsAndDelivers
ACTION_CONSTRAINT NoEmit
CHECK_DEADLOCK FALSE
