------------------------------ MODULE RtpWire ------------------------------
(***************************************************************************)
(* C15 - RTP / RTCP encode and decode are mutually inverse and             *)
(* standards-conformant (src/rtp.rs, src/rtx.rs, NACK handlers in          *)
(* src/peer_connection.rs).                                                *)
(*                                                                         *)
(* Byte fidelity of a codec is not something a model checker decides.      *)
(* What this specification contributes, and what TLC checks / enumerates:  *)
(*                                                                         *)
(*  (i)   the LOGICAL PACKET DOMAIN with its boundaries as finite sets     *)
(*        (RtpCases, RtcpParts, compound sequences, NACK sets, RTX cases): *)
(*        TLC enumerates them; the harness executes every one of them on   *)
(*        the real constructors / marshal / parse and on the reference     *)
(*        crates rtp / rtcp 0.17.2;                                        *)
(*  (ii)  the LAYOUT ALGEBRA (header length, P bit and padding length,     *)
(*        length-in-words, count field, 32-bit alignment of extension      *)
(*        blocks and SDES chunks, part offsets of a compound packet) as    *)
(*        operators whose predictions are compared with the real bytes;    *)
(*        for RTCP the algebra is a small wire-summary model MarshalW /    *)
(*        ParseW with the inverse law checked by TLC on the whole domain;  *)
(*  (iii) the small state machines and algebraic laws of the property:     *)
(*        header-extension Set/Get over an element map, NACK (pid, blp)    *)
(*        packing as a relation with Unpack(Pack(S)) = S around the 16-bit *)
(*        wrap, RTX wrap / unwrap, and (rule tag EXT, beyond the listed    *)
(*        property) the sender NACK buffer and the receiver gap detector.  *)
(*                                                                         *)
(* One sub-machine is active per run, selected by the constant Mode.       *)
(* Deviations of the pinned code from the intended design are named        *)
(* switches in Deviations; with Deviations = {} every law below holds.     *)
(***************************************************************************)
EXTENDS Naturals, Integers, Sequences, FiniteSets, TLC

CONSTANTS
  Mode,          \* "rtp" | "rtcp" | "compound" | "foreign" | "ext" | "nack" | "rtx" | "buf" | "gap"
  Deviations,    \* subset of AllDeviations
  \* ---- RTP domain
  CsrcCounts,    \* e.g. {0, 1, 15, 16}   (16 is over-range: must be rejected)
  PadLens,       \* e.g. {0, 1, 255}
  PayLens,       \* payload lengths
  ExtIds1, ExtLens1,   \* one-byte header elements: ids within 1..14, lengths within 1..16
  ExtIds2, ExtLens2,   \* two-byte header elements: ids within 1..255, lengths within 0..255
  MaxEls,        \* elements per extension block
  \* ---- RTCP domain
  ReportCounts,  \* e.g. {0, 1, 31, 32}   (32 is over-range)
  LostVals,      \* packets_lost values
  TextLens,      \* SDES / BYE text lengths, e.g. {0, 1, 255, 256}
  MaxCompound,   \* parts per compound packet
  \* ---- header-extension Set/Get machine
  ExtDepth,      \* operations per behaviour
  \* ---- NACK packing
  NackBits,      \* model sequence space is mod 2^NackBits, embedded around the real wrap
  MaxNackSet,    \* every subset of the model space with 1..MaxNackSet elements
  \* ---- sender NACK buffer / receiver gap detector (EXT)
  BufCaps, BufSeqs, BufDepth,
  GapDeltas, GapDepth

AllDeviations == {"SdesLenCast", "CountCast", "TwccNoPadBit", "NackBlpReversed", "RtxKeepsRtxSeq"}

ASSUME Deviations \subseteq AllDeviations

VARIABLES cur,    \* current case / machine state (shape depends on Mode)
          hist    \* operations applied so far (machines only)
vars == <<cur, hist>>

Dev(d) == d \in Deviations

---------------------------------------------------------------------------
(* arithmetic helpers *)
Pad4(n)   == ((n + 3) \div 4) * 4
Min(a, b) == IF a < b THEN a ELSE b
Max(a, b) == IF a > b THEN a ELSE b
RECURSIVE SeqSum(_)
SeqSum(s) == IF s = <<>> THEN 0 ELSE Head(s) + SeqSum(Tail(s))
Prefix(s, n) == [i \in 1..n |-> s[i]]
\* prefix sums: Offsets(<<a,b,c>>) = <<0, a, a+b>>
Offsets(s) == [i \in 1..Len(s) |-> SeqSum(Prefix(s, i - 1))]

---------------------------------------------------------------------------
(* ============================ RTP (RFC 3550 5.1, RFC 8285) ============== *)

NoExt        == [kind |-> "none", els |-> <<>>, rawlen |-> 0]
OneB(els)    == [kind |-> "one",  els |-> els,  rawlen |-> 0]
TwoB(els)    == [kind |-> "two",  els |-> els,  rawlen |-> 0]
RawExt(n)    == [kind |-> "raw",  els |-> <<>>, rawlen |-> n]   \* RFC 3550 profile-specific block of n bytes

El(i, l) == [id |-> i, len |-> l]
ElemSet(ids, lens) == {El(i, l) : i \in ids, l \in lens}
\* element lists of at most k elements with pairwise distinct ids
ElLists(E, k) ==
  UNION {{s \in [1..n -> E] : \A i, j \in 1..n : (i # j) => (s[i].id # s[j].id)} : n \in 0..k}

ElsBytes(kind, els) ==
  SeqSum([i \in 1..Len(els) |-> (IF kind = "one" THEN 1 ELSE 2) + els[i].len])

ExtDataLen(x) ==
  CASE x.kind = "none" -> 0
    [] x.kind = "one"  -> Pad4(ElsBytes("one", x.els))
    [] x.kind = "two"  -> Pad4(ElsBytes("two", x.els))
    [] x.kind = "raw"  -> x.rawlen
ExtProfile(x) ==
  CASE x.kind = "one" -> 48862      \* 0xBEDE
    [] x.kind = "two" -> 4096       \* 0x1000
    [] x.kind = "raw" -> 4660       \* 0x1234, any other profile
    [] OTHER          -> 0
ExtWellFormed(x) ==
  CASE x.kind = "one" -> \A i \in 1..Len(x.els) : x.els[i].id \in 1..14 /\ x.els[i].len \in 1..16
    [] x.kind = "two" -> \A i \in 1..Len(x.els) : x.els[i].id \in 1..255 /\ x.els[i].len \in 0..255
    [] x.kind = "raw" -> x.rawlen % 4 = 0
    [] OTHER          -> TRUE

RtpCase(cc, pad, pay, ext, marker, cls) ==
  [cc |-> cc, pad |-> pad, pay |-> pay, ext |-> ext, marker |-> marker, cls |-> cls]

RtpEncodable(c) == c.cc <= 15 /\ ExtWellFormed(c.ext)

ExtBlockLen(c) == IF c.ext.kind = "none" THEN 0 ELSE 4 + ExtDataLen(c.ext)
HeaderLen(c)   == 12 + 4 * c.cc + ExtBlockLen(c)
TotalLen(c)    == HeaderLen(c) + c.pay + c.pad
PBit(c)        == c.pad > 0
XBit(c)        == c.ext.kind # "none"
Byte0(c)       == 128 + (IF PBit(c) THEN 32 ELSE 0) + (IF XBit(c) THEN 16 ELSE 0) + c.cc
ExtWords(c)    == ExtDataLen(c.ext) \div 4
\* the reference implementation can only emit padding that aligns the payload to 32 bits
RefPad(c)      == IF c.pad = 0 THEN 0 ELSE (IF c.pay % 4 = 0 THEN 4 ELSE 4 - (c.pay % 4))
RefTotalLen(c) == HeaderLen(c) + c.pay + RefPad(c)

RtpLayout(c) ==
  [hdr |-> HeaderLen(c), total |-> TotalLen(c), b0 |-> Byte0(c), xwords |-> ExtWords(c),
   xdata |-> ExtDataLen(c.ext), profile |-> ExtProfile(c.ext),
   refpad |-> RefPad(c), reftotal |-> RefTotalLen(c)]

E1 == ElemSet(ExtIds1, ExtLens1)
E2 == ElemSet(ExtIds2, ExtLens2)
Min1 == CHOOSE i \in ExtIds1 : \A j \in ExtIds1 : i <= j
Max1 == CHOOSE i \in ExtIds1 : \A j \in ExtIds1 : i >= j
Min2 == CHOOSE i \in ExtIds2 : \A j \in ExtIds2 : i <= j
Max2 == CHOOSE i \in ExtIds2 : \A j \in ExtIds2 : i >= j
MaxL1 == CHOOSE l \in ExtLens1 : \A k \in ExtLens1 : l >= k
MaxL2 == CHOOSE l \in ExtLens2 : \A k \in ExtLens2 : l >= k

\* a few extension shapes for the full product with CSRC count x padding x payload length
ExtSmall ==
  { NoExt,
    OneB(<<El(Min1, 1)>>),
    OneB(<<El(Min1, 3), El(Max1, MaxL1)>>),
    TwoB(<<El(Min2, 0)>>),
    TwoB(<<El(Max2, MaxL2), El(Min2, 2)>>),
    RawExt(0), RawExt(8) }

RtpCore ==
  { RtpCase(cc, pad, pay, x, m, cls) :
      cc \in CsrcCounts, pad \in PadLens, pay \in PayLens, x \in ExtSmall, m \in BOOLEAN,
      cls \in {"lo", "hi"} }
\* every element list within the alphabets, on an otherwise plain packet
RtpExtSweep ==
  { RtpCase(0, 0, 5, OneB(s), FALSE, "mix") : s \in ElLists(E1, MaxEls) \ {<<>>} } \cup
  { RtpCase(1, 1, 2, TwoB(s), TRUE, "mix") : s \in ElLists(E2, MaxEls) \ {<<>>} }
\* not encodable: must be rejected, never serialised
RtpOver ==
  { RtpCase(0, 0, 4, RawExt(n), FALSE, "mix") : n \in {1, 2, 3, 6} }

RtpCases == RtpCore \cup RtpExtSweep \cup RtpOver

\* design checks on the layout algebra (every RTP case)
RtpLayoutLaws(c) ==
  /\ HeaderLen(c) % 4 = 0 \/ ~ExtWellFormed(c.ext)
  /\ ExtWords(c) * 4 = ExtDataLen(c.ext) \/ ~ExtWellFormed(c.ext)
  /\ TotalLen(c) - HeaderLen(c) - c.pay = c.pad
  /\ PBit(c) <=> (c.pad >= 1)
  /\ c.pad <= 255
  /\ RefPad(c) \in 0..4 /\ (RefPad(c) > 0 => (c.pay + RefPad(c)) % 4 = 0)
  /\ (c.cc <= 15 => Byte0(c) % 16 = c.cc)

---------------------------------------------------------------------------
(* ============================ NACK (pid, blp) packing (RFC 4585 6.2.1) == *)
(* Model values 0..2^NackBits-1 are embedded around the real 16-bit wrap    *)
(* with scale 1 (the bitmask speaks about exact +1 distances):             *)
(*    Real(v) = (65536 - 2^(NackBits-1) + v) mod 65536                      *)
(* so the model's midpoint is the real wrap point 65535 -> 0.               *)

NackSpace == 0..(2^NackBits - 1)
Real(v)   == (65536 - 2^(NackBits - 1) + v) % 65536

\* a pair is [pid, bits] with bits a subset of 1..16; blp bit (i-1) <=> pid + i is lost
BitsOf(pid, T) == {i \in 1..16 : ((pid + i) % 65536) \in T}
BlpValue(bits) == SeqSum([i \in 1..16 |-> IF i \in bits THEN 2^(i - 1) ELSE 0])
\* deviation used by the self-test: bit i written at position 16 - i
BlpWire(bits)  == IF Dev("NackBlpReversed")
                  THEN SeqSum([i \in 1..16 |-> IF i \in bits THEN 2^(16 - i) ELSE 0])
                  ELSE BlpValue(bits)
BitsFromBlp(v) == {i \in 1..16 : (v \div 2^(i - 1)) % 2 = 1}

UnpackPair(p) == {p.pid} \cup {(p.pid + i) % 65536 : i \in p.bits}
Unpack(ps)    == UNION {UnpackPair(ps[i]) : i \in 1..Len(ps)}

\* The contract: Pack is ANY relation with Unpack(Pack(S)) = S. Two packers are checked against
\* it: the numeric-order greedy one (what src/rtp.rs does) and a wrap-aware one (fewest pairs).
RECURSIVE GreedyFrom(_, _)
\* `order` is the sequence of real values still to cover, in the packer's order
GreedyFrom(order, T) ==
  IF order = <<>> THEN <<>>
  ELSE LET pid  == Head(order)
           bits == {i \in 1..16 : pid + i \in T /\ pid + i <= 65535}     \* numeric order: no wrap inside a pair
           rest == SelectSeq(Tail(order), LAMBDA x : ~(x - pid \in bits))
       IN <<[pid |-> pid, bits |-> bits]>> \o GreedyFrom(rest, T)

RECURSIVE SortedSeq(_)
SortedSeq(T) == IF T = {} THEN <<>>
                ELSE LET m == CHOOSE x \in T : \A y \in T : x <= y IN <<m>> \o SortedSeq(T \ {m})
GreedyPack(T) == GreedyFrom(SortedSeq(T), T)

\* wrap-aware: order by model value (i.e. serial order across the wrap)
RECURSIVE WrapFrom(_, _)
WrapFrom(order, T) ==
  IF order = <<>> THEN <<>>
  ELSE LET pid  == Head(order)
           bits == BitsOf(pid, T)
           rest == SelectSeq(Tail(order), LAMBDA x : ~(((x - pid) + 65536) % 65536 \in bits))
       IN <<[pid |-> pid, bits |-> bits]>> \o WrapFrom(rest, T)
WrapPack(S) == WrapFrom([i \in 1..Cardinality(S) |-> Real(SortedSeq(S)[i])], {Real(v) : v \in S})

NackLaw(S) ==
  LET T == {Real(v) : v \in S}
      g == GreedyPack(T)
      w == WrapPack(S) IN
  /\ Unpack(g) = T
  /\ Unpack(w) = T
  /\ Len(w) <= Len(g) /\ Len(g) <= Cardinality(S)
  /\ \A i \in 1..Len(g) : BitsFromBlp(BlpValue(g[i].bits)) = g[i].bits
  \* what a peer reading the transmitted word reconstructs (differs only under the deviation)
  /\ UNION { {g[i].pid} \cup {(g[i].pid + b) % 65536 : b \in BitsFromBlp(BlpWire(g[i].bits))}
             : i \in 1..Len(g) } = T

\* every subset of the model space with 1..k elements (built constructively: SUBSET of a
\* 64-element set cannot be enumerated)
RECURSIVE KSets(_)
KSets(k) == IF k = 0 THEN {{}} ELSE LET R == KSets(k - 1) IN R \cup {S \cup {x} : S \in R, x \in NackSpace}
SmallSets == KSets(MaxNackSet) \ {{}}
\* structured sets: runs across the wrap of every length that matters for a 16-bit mask
Half == 2^(NackBits - 1)
Runs == { {(Half - a + i) % (2 * Half) : i \in 0..(n - 1)} : a \in {0, 1, 8, 16, 17}, n \in {16, 17, 18, 33, 34} }
NackCases == SmallSets \cup Runs \cup { NackSpace }

---------------------------------------------------------------------------
(* ============================ RTCP (RFC 3550 6, RFC 4585, REMB, TWCC) === *)
(* A part is [t, n, a, cls]:                                               *)
(*   SR / RR : n report blocks; a = pattern of packets_lost values, block  *)
(*             i carries a[((i-1) % Len(a)) + 1]                            *)
(*   SDES    : n chunks, each with Len(a) items of text lengths a          *)
(*   BYE     : n sources; a = <<>> (no reason) or <<reason length>>        *)
(*   PLI     : -                                                           *)
(*   FIR     : n entries                                                   *)
(*   NACK    : a = lost sequence numbers as model values (see NACK below)  *)
(*   REMB    : n SSRCs; a = <<mantissa, exponent, low>>: bitrate =         *)
(*             mantissa * 2^exponent + (IF low = 1 THEN 2^exponent - 1)    *)
(*   TWCC    : a = <<status count N>>; payload = one run-length chunk +    *)
(*             N one-byte deltas (2 + N bytes)                             *)
(* cls selects the scalar fields: "lo" all zero, "hi" all ones, "mix".     *)

Part(t, n, a, cls) == [t |-> t, n |-> n, a |-> a, cls |-> cls]

PT(p) == CASE p.t = "SR" -> 200 [] p.t = "RR" -> 201 [] p.t = "SDES" -> 202 [] p.t = "BYE" -> 203
           [] p.t \in {"NACK", "TWCC"} -> 205 [] p.t \in {"PLI", "FIR", "REMB"} -> 206

TwoP23 == 8388608
TwoP24 == 16777216
ClampLost(v) == Max(-TwoP23, Min(TwoP23 - 1, v))
Lost24(v)    == (ClampLost(v) + TwoP24) % TwoP24       \* the 24-bit two's complement field

SdesChunkLen(a) == Pad4(4 + SeqSum([i \in 1..Len(a) |-> 2 + a[i]]) + 1)
ByeReasonLen(p) == IF p.a = <<>> THEN 0 ELSE 1 + Min(p.a[1], 255)
TwccPayLen(p)   == 2 + p.a[1]

NackSetOf(p)    == {p.a[i] : i \in 1..Len(p.a)}
NackMinPairs(p) == IF p.a = <<>> THEN 0 ELSE Len(WrapPack(NackSetOf(p)))

\* logical body length (after the 4-byte RTCP header), before alignment
BodyLen(p) ==
  CASE p.t = "SR"   -> 24 + 24 * p.n
    [] p.t = "RR"   -> 4 + 24 * p.n
    [] p.t = "SDES" -> p.n * SdesChunkLen(p.a)
    [] p.t = "BYE"  -> 4 * p.n + ByeReasonLen(p)
    [] p.t = "PLI"  -> 8
    [] p.t = "FIR"  -> 8 + 8 * p.n
    [] p.t = "REMB" -> 16 + 4 * p.n
    [] p.t = "TWCC" -> 16 + TwccPayLen(p)
    [] p.t = "NACK" -> 8 + 4 * NackMinPairs(p)   \* the contract leaves the number of pairs free: see RtcpLayout

\* range classes: "in" must serialise and round-trip; "reject" has no wire form and must be
\* refused; "canon" has no exact wire form, the stack may refuse it or send the canonical value
RangeClass(p) ==
  CASE p.t \in {"SR", "RR"} ->
         IF p.n > 31 THEN "reject"
         ELSE IF \E i \in 1..Len(p.a) : ClampLost(p.a[i]) # p.a[i] THEN "canon" ELSE "in"
    [] p.t = "SDES" -> IF p.n > 31 \/ (\E i \in 1..Len(p.a) : p.a[i] > 255) THEN "reject" ELSE "in"
    [] p.t = "BYE"  -> IF p.n > 31 THEN "reject"
                       ELSE IF p.a # <<>> /\ p.a[1] > 255 THEN "canon" ELSE "in"
    [] p.t = "REMB" -> IF p.n > 255 THEN "reject" ELSE "in"
    [] p.t = "NACK" -> IF p.a = <<>> THEN "reject" ELSE "in"
    [] OTHER -> "in"

\* canonical logical packet: what parse(marshal(p)) must return
Canon(p) ==
  CASE p.t \in {"SR", "RR"} -> [p EXCEPT !.a = [i \in 1..Len(p.a) |-> ClampLost(p.a[i])]]
    [] p.t = "BYE" -> IF p.a = <<>> THEN p ELSE [p EXCEPT !.a = <<Min(p.a[1], 255)>>]
    [] OTHER -> p

(* ---- wire summary: what a serialiser puts on the wire, abstracted to the fields the      *)
(* ---- layout rules speak about.  items = per SDES item <<length byte, bytes written>>.     *)
Rejected == [ok |-> FALSE, pt |-> 0, count |-> 0, words |-> 0, pbit |-> FALSE, pad |-> 0,
             body |-> 0, trail |-> 0, items |-> <<>>, n |-> 0]

MarshalW(p) ==
  LET rc == RangeClass(p)
      castCount == Dev("CountCast") /\ p.t \in {"SR", "RR", "SDES", "BYE"} /\ p.n > 31
      castSdes  == Dev("SdesLenCast") /\ p.t = "SDES" /\ (\E i \in 1..Len(p.a) : p.a[i] > 255)
      refuse    == rc = "reject" /\ ~(castCount \/ castSdes)
      q    == Canon(p)
      body == BodyLen(q)
      gap  == Pad4(body) - body
      usePad == q.t = "TWCC" /\ ~Dev("TwccNoPadBit") /\ gap > 0
  IN IF refuse THEN Rejected
     ELSE [ok    |-> TRUE,
           pt    |-> PT(q),
           count |-> CASE q.t \in {"SR", "RR", "SDES", "BYE"} -> q.n % 32
                       [] q.t \in {"PLI", "NACK"} -> 1
                       [] q.t = "FIR" -> 4
                       [] q.t \in {"REMB", "TWCC"} -> 15,
           words |-> Pad4(body) \div 4,
           pbit  |-> usePad,
           pad   |-> IF usePad THEN gap ELSE 0,
           body  |-> body,
           trail |-> IF usePad THEN 0 ELSE gap,        \* zero octets not announced by the P bit
           items |-> IF q.t = "SDES" THEN [i \in 1..Len(q.a) |-> <<q.a[i] % 256, q.a[i]>>] ELSE <<>>,
           n     |-> q.n]

\* the wire is a well-formed RTCP packet of its type
WireOK(w) ==
  /\ w.ok
  /\ (w.pbit <=> w.pad > 0) /\ w.pad <= w.body + w.pad + w.trail
  /\ (w.body + w.pad + w.trail) % 4 = 0 /\ w.words * 4 = w.body + w.pad + w.trail
  /\ \A i \in 1..Len(w.items) : w.items[i][1] = w.items[i][2]
  /\ (w.pt \in {200, 201, 202, 203} => w.count = w.n)

\* what a conforming parser reads back from the summary (only the fields that can differ)
ParseW(p, w) ==
  CASE p.t = "SDES" -> [p EXCEPT !.n = w.count, !.a = [i \in 1..Len(w.items) |-> w.items[i][1]]]
    [] p.t \in {"SR", "RR", "BYE"} -> [Canon(p) EXCEPT !.n = w.count]
    [] p.t = "TWCC" -> [p EXCEPT !.a = <<(w.body + w.trail) - 16 - 2>>]
    [] OTHER -> Canon(p)

\* law 1 on the model: a serialised packet is well-formed and parses back to the canonical packet;
\* an unrepresentable packet is refused
RtcpInverseLaw(p) ==
  LET w == MarshalW(p) IN
  /\ (RangeClass(p) = "reject") => ~w.ok
  /\ (RangeClass(p) = "in") => w.ok
  /\ w.ok => (WireOK(w) /\ ParseW(p, w) = Canon(p))

PartLen(p) == 4 + Pad4(BodyLen(Canon(p)))
RtcpLayout(p) ==
  LET w == MarshalW(p) IN
  [ok |-> w.ok, pt |-> w.pt, count |-> w.count, words |-> w.words, pbit |-> w.pbit, pad |-> w.pad,
   len |-> 4 + 4 * w.words, chunk |-> IF p.t = "SDES" THEN SdesChunkLen(p.a) ELSE 0,
   \* NACK: any number of pairs between the fewest possible and one per lost packet is conformant
   wordsmax |-> IF p.t = "NACK" THEN 2 + Cardinality(NackSetOf(p)) ELSE w.words]

Cycle4 == <<-TwoP23, -1, 0, TwoP23 - 1>>
LostPatterns ==
  { <<v>> : v \in LostVals } \cup { Cycle4 }

RembMEs ==      \* <<mantissa, exponent, low>> ; normalised (mantissa >= 2^17 when exponent > 0)
  { <<0, 0, 0>>, <<1, 0, 0>>, <<262143, 0, 0>>, <<131072, 1, 0>>, <<131072, 1, 1>>,
    <<262143, 1, 1>>, <<262143, 46, 0>>, <<262143, 46, 1>>, <<131072, 46, 0>>, <<200000, 13, 1>> }

\* SDES item-length lists: up to two items over the text-length alphabet, plus alignment probes
ElListsLens ==
  { <<>> } \cup { <<l>> : l \in TextLens \cup {2, 3, 5} } \cup
  { <<l, k>> : l \in TextLens, k \in TextLens }

RtcpParts ==
  { Part(t, n, a, cls) : t \in {"SR", "RR"}, n \in ReportCounts, a \in LostPatterns, cls \in {"lo", "hi"} }
  \cup
  { Part("SDES", n, IF n = 0 THEN <<>> ELSE a, "mix") : n \in ReportCounts,     \* no chunk, no items
       a \in ElListsLens }
  \cup
  { Part("BYE", n, a, "mix") : n \in ReportCounts, a \in {<<>>} \cup {<<l>> : l \in TextLens \cup {2, 3}} }
  \cup
  { Part("PLI", 0, <<>>, cls) : cls \in {"lo", "hi", "mix"} }
  \cup
  { Part("FIR", n, <<>>, cls) : n \in {0, 1, 3, 31}, cls \in {"lo", "hi"} }
  \cup
  { Part("REMB", n, a, "mix") : n \in {0, 1, 255, 256}, a \in RembMEs }
  \cup
  { Part("TWCC", 0, <<n>>, cls) : n \in {1, 2, 3, 6, 7}, cls \in {"lo", "hi"} }
  \cup
  { Part("NACK", 0, a, "mix") : a \in {<<>>, <<0>>, <<31, 32>>, <<15, 31, 32, 48>>, <<30, 31, 32, 33, 47, 48, 49>>} }

\* representative parts for compound packets (one or two of each type, aligned and unaligned)
CompoundAlphabet ==
  { Part("SR", 1, <<-1>>, "mix"), Part("RR", 0, <<0>>, "mix"), Part("RR", 2, Cycle4, "mix"),
    Part("SDES", 1, <<5>>, "mix"), Part("SDES", 2, <<255, 0>>, "mix"),
    Part("BYE", 1, <<>>, "mix"), Part("BYE", 2, <<2>>, "mix"),
    Part("PLI", 0, <<>>, "mix"), Part("FIR", 1, <<>>, "mix"),
    Part("NACK", 0, <<31, 32, 49>>, "mix"), Part("REMB", 2, <<200000, 13, 1>>, "mix"),
    Part("TWCC", 0, <<3>>, "mix"), Part("TWCC", 0, <<2>>, "mix") }

CompoundLens(s)    == [i \in 1..Len(s) |-> PartLen(s[i])]
CompoundOffsets(s) == Offsets(CompoundLens(s))
CompoundTotal(s)   == SeqSum(CompoundLens(s))
CompoundLaws(s) ==
  /\ \A i \in 1..Len(s) : CompoundOffsets(s)[i] % 4 = 0 /\ RtcpInverseLaw(s[i])
  /\ CompoundTotal(s) % 4 = 0
  /\ (Len(s) > 0 => CompoundOffsets(s)[Len(s)] + PartLen(s[Len(s)]) = CompoundTotal(s))

---------------------------------------------------------------------------
(* ============================ foreign wire input (EXT) ================== *)
(* Compound packets as a peer may legitimately send them, containing parts *)
(* the stack has no logical type for (RTPFB / PSFB formats other than      *)
(* NACK, TWCC, PLI, FIR, REMB; XR), or a REMB whose value exceeds the      *)
(* logical u64 range. Beyond the listed property (it quantifies over the   *)
(* stack's own logical packets): the expectation - the supported parts of  *)
(* the compound are still delivered, an out-of-range REMB is refused or    *)
(* saturated, never silently wrapped - is rule EXT.                        *)
(*   RRR  : RTPFB fmt 5 (rapid resynchronisation request), 8-byte body     *)
(*   SLI  : PSFB fmt 2 (slice loss indication), n entries of 4 bytes       *)
(*   XR   : PT 207 extended report with no report blocks                   *)
(*   REMBX: REMB with a = <<mantissa, exponent>>, mantissa * 2^exponent >= 2^64 *)
ForeignParts ==
  { Part("RRR", 0, <<>>, "mix"), Part("SLI", 1, <<>>, "mix"), Part("SLI", 2, <<>>, "mix"),
    Part("XR", 0, <<>>, "mix"), Part("REMBX", 1, <<131072, 47>>, "mix"), Part("REMBX", 0, <<262143, 63>>, "mix") }
ForeignCompanions ==
  { Part("SR", 1, <<-1>>, "mix"), Part("RR", 1, <<0>>, "mix"), Part("SDES", 1, <<5>>, "mix"),
    Part("PLI", 0, <<>>, "mix"), Part("NACK", 0, <<31, 32, 49>>, "mix") }
IsForeign(p) == p.t \in {"RRR", "SLI", "XR", "REMBX"}
ForeignLen(p) ==
  CASE p.t = "RRR" -> 12 [] p.t = "SLI" -> 12 + 4 * p.n [] p.t = "XR" -> 8 [] p.t = "REMBX" -> 20 + 4 * p.n
    [] p.t = "NACK" -> 12 + 4 * Cardinality(NackSetOf(p))      \* the peer sends one pair per packet here
    [] OTHER -> PartLen(p)
\* what the supported parts are expected to survive as: everything that is not foreign, in order
Survivors(s) == SelectSeq(s, LAMBDA p : ~IsForeign(p) \/ p.t = "REMBX")
ForeignNext ==
  /\ Len(cur) < MaxCompound
  /\ \E p \in ForeignParts \cup ForeignCompanions : cur' = Append(cur, p)
  /\ hist' = hist
ForeignLaws ==
  /\ SeqSum([i \in 1..Len(cur) |-> ForeignLen(cur[i])]) % 4 = 0
  /\ Len(Survivors(cur)) <= Len(cur)

---------------------------------------------------------------------------
(* ============================ header-extension Set / Get ================ *)
(* State: a map id -> [len, ver] (ver = index of the Set that wrote the     *)
(* value), the order of elements is left free (the property is silent).    *)
(* base = how the header was obtained: "fresh" (no extension), "parsed1"   *)
(* (one-byte block with two elements parsed from the wire), "padded1" (the *)
(* same with RFC 8285 padding octets before, between and after them),      *)
(* "parsed2"                                                               *)
(* (two-byte block: Set must refuse and leave the header untouched).       *)

ExtBases == {"fresh", "parsed1", "padded1", "parsed2"}
BaseMap(b) ==
  CASE b = "fresh"   -> << >>
    [] b \in {"parsed1", "padded1"} -> <<[id |-> 3, len |-> 2, ver |-> 0], [id |-> 9, len |-> 16, ver |-> 0]>>
    [] b = "parsed2" -> <<[id |-> 3, len |-> 2, ver |-> 0], [id |-> 200, len |-> 40, ver |-> 0]>>

ExtOps == { [id |-> i, len |-> l] : i \in ExtIds1, l \in ExtLens1 } \cup
          { [id |-> 0, len |-> 1], [id |-> 15, len |-> 1], [id |-> 1, len |-> 0], [id |-> 1, len |-> 17] }
OpValid(o) == o.id \in 1..14 /\ o.len \in 1..16

\* the map as a sequence of entries with distinct ids; lookup:
GetEl(m, id) ==
  IF \E i \in 1..Len(m) : m[i].id = id
  THEN LET i == CHOOSE i \in 1..Len(m) : m[i].id = id IN [present |-> TRUE, len |-> m[i].len, ver |-> m[i].ver]
  ELSE [present |-> FALSE, len |-> 0, ver |-> 0]

SetEl(m, o, ver) ==
  IF \E i \in 1..Len(m) : m[i].id = o.id
  THEN [i \in 1..Len(m) |-> IF m[i].id = o.id THEN [id |-> o.id, len |-> o.len, ver |-> ver] ELSE m[i]]
  ELSE Append(m, [id |-> o.id, len |-> o.len, ver |-> ver])

ExtInit == cur \in {[base |-> b, map |-> BaseMap(b), res |-> "init"] : b \in ExtBases} /\ hist = <<>>
ExtSet(o) ==
  /\ Len(hist) < ExtDepth
  /\ hist' = Append(hist, o)
  /\ IF OpValid(o) /\ cur.base # "parsed2"
     THEN cur' = [cur EXCEPT !.map = SetEl(cur.map, o, Len(hist) + 1), !.res = "ok"]
     ELSE cur' = [cur EXCEPT !.res = "err"]
ExtNext == \E o \in ExtOps : ExtSet(o)

\* the stated property, as an action property of the machine
ExtSetGetLaw ==
  [][ (Mode = "ext") =>
        LET o == hist'[Len(hist')] IN
        IF cur'.res = "ok"
        THEN /\ GetEl(cur'.map, o.id) = [present |-> TRUE, len |-> o.len, ver |-> Len(hist')]
             /\ \A i \in 0..255 : (i # o.id) => GetEl(cur'.map, i) = GetEl(cur.map, i)
        ELSE cur'.map = cur.map ]_vars
ExtMapLaws ==
  (Mode = "ext") =>
     /\ \A i, j \in 1..Len(cur.map) : (i # j) => cur.map[i].id # cur.map[j].id
     /\ (cur.base # "parsed2" => \A i \in 1..Len(cur.map) : cur.map[i].id \in 1..14 /\ cur.map[i].len \in 1..16)
\* one-byte data length when the block carries no interior padding (EXT: RFC 8285 allows padding)
ExtMapDataLen(m) == Pad4(SeqSum([i \in 1..Len(m) |-> 1 + m[i].len]))

---------------------------------------------------------------------------
(* ============================ RTX wrap / unwrap (RFC 4588) ============== *)
(* payload is an abstract sequence of byte tags; osn = original sequence   *)
(* number, carried in the first two payload octets in network order.       *)

RtxOrig(seq, ts, marker, pay, extras) ==
  [seq |-> seq, ts |-> ts, marker |-> marker, pay |-> pay, extras |-> extras, pt |-> 96, ssrc |-> "primary"]
RtxWrap(o, rtxseq) ==
  [seq |-> rtxseq, ts |-> o.ts, marker |-> o.marker, pt |-> 97, ssrc |-> "rtx",
   pay |-> <<o.seq \div 256, o.seq % 256>> \o o.pay, extras |-> FALSE]
RtxUnwrap(r) ==
  IF Len(r.pay) < 2 THEN [ok |-> FALSE, seq |-> 0, ts |-> "lo", marker |-> FALSE, pay |-> <<>>, pt |-> 0, ssrc |-> ""]
  ELSE [ok |-> TRUE,
        seq |-> IF Dev("RtxKeepsRtxSeq") THEN r.seq ELSE r.pay[1] * 256 + r.pay[2],
        ts |-> r.ts, marker |-> r.marker, pay |-> SubSeq(r.pay, 3, Len(r.pay)), pt |-> 96, ssrc |-> "primary"]

RtxCases ==
  { [orig |-> RtxOrig(s, ts, m, [i \in 1..n |-> 100 + i], x), rtxseq |-> rs] :
      s \in {0, 1, 255, 256, 32768, 65535}, ts \in {"lo", "hi", "mix"}, m \in BOOLEAN,
      n \in {0, 1, 2, 3, 40}, x \in BOOLEAN, rs \in {0, 1, 65535} }
RtxLaw(c) ==
  LET w == RtxWrap(c.orig, c.rtxseq)
      u == RtxUnwrap(w) IN
  /\ u.ok
  /\ u.seq = c.orig.seq /\ u.ts = c.orig.ts /\ u.marker = c.orig.marker /\ u.pay = c.orig.pay
  /\ u.pt = c.orig.pt /\ u.ssrc = c.orig.ssrc
  /\ w.seq = c.rtxseq /\ Len(w.pay) = Len(c.orig.pay) + 2
\* an RTX packet shorter than the OSN cannot be unwrapped
RtxShortLaw == \A n \in {0, 1} :
  ~RtxUnwrap([seq |-> 0, ts |-> "lo", marker |-> FALSE, pt |-> 97, ssrc |-> "rtx",
              pay |-> [i \in 1..n |-> 7], extras |-> FALSE]).ok

---------------------------------------------------------------------------
(* ============================ sender NACK buffer (EXT) ================== *)
(* Bounded store keyed by sequence number with FIFO eviction               *)
(* (peer_connection.rs NackSendBuffer + packets_for_nack).  Contract:      *)
(*   - at most cap packets are retained;                                   *)
(*   - the most recently pushed packet is retained; a packet is evicted    *)
(*     only to make room, oldest first-pushed sequence number first;       *)
(*   - pushing a sequence number that is retained replaces the packet in   *)
(*     place;                                                              *)
(*   - a NACK returns, for each requested number that is retained and not  *)
(*     answered within the cooldown, the latest packet pushed under it.    *)
(* State: cap, fifo = sequence of [seq, ver]; cool = set of seqs answered  *)
(* since the last clock step beyond the cooldown.                          *)

BufInit == cur \in {[cap |-> c, fifo |-> <<>>, cool |-> {}, out |-> <<>>] : c \in BufCaps} /\ hist = <<>>
BufHas(f, s) == \E i \in 1..Len(f) : f[i].seq = s
BufPush(s) ==
  /\ Len(hist) < BufDepth
  /\ hist' = Append(hist, [op |-> "push", seq |-> s, seqs |-> <<>>])
  /\ LET ver == Len(hist) + 1
         f1  == IF BufHas(cur.fifo, s)
                THEN [i \in 1..Len(cur.fifo) |-> IF cur.fifo[i].seq = s THEN [seq |-> s, ver |-> ver] ELSE cur.fifo[i]]
                ELSE Append(cur.fifo, [seq |-> s, ver |-> ver])
         f2  == IF Len(f1) > cur.cap THEN SubSeq(f1, Len(f1) - cur.cap + 1, Len(f1)) ELSE f1
     IN cur' = [cur EXCEPT !.fifo = f2, !.out = <<>>]
\* a NACK for the sequence `req` (duplicates allowed) at the current instant
BufNack(req) ==
  /\ Len(hist) < BufDepth
  /\ hist' = Append(hist, [op |-> "nack", seq |-> 0, seqs |-> req])
  /\ LET firsts == {i \in 1..Len(req) : \A j \in 1..(i - 1) : req[j] # req[i]}
         answer == SelectSeq([i \in 1..Len(req) |-> [i |-> i, s |-> req[i]]],
                             LAMBDA e : e.i \in firsts /\ e.s \notin cur.cool /\ BufHas(cur.fifo, e.s))
         outp   == [k \in 1..Len(answer) |->
                      LET i == CHOOSE i \in 1..Len(cur.fifo) : cur.fifo[i].seq = answer[k].s IN cur.fifo[i]]
     IN cur' = [cur EXCEPT !.out = outp, !.cool = cur.cool \cup {answer[k].s : k \in 1..Len(answer)}]
\* the clock passes the cooldown
BufTick ==
  /\ Len(hist) < BufDepth /\ cur.cool # {}
  /\ hist' = Append(hist, [op |-> "tick", seq |-> 0, seqs |-> <<>>])
  /\ cur' = [cur EXCEPT !.cool = {}, !.out = <<>>]
BufMin  == CHOOSE s \in BufSeqs : \A t \in BufSeqs : s <= t
BufReqs == { <<s>> : s \in BufSeqs } \cup { <<BufMin, BufMin>>, SortedSeq(BufSeqs) }
BufNext == (\E s \in BufSeqs : BufPush(s)) \/ (\E r \in BufReqs : BufNack(r)) \/ BufTick
BufLaws ==
  (Mode = "buf") =>
    /\ Len(cur.fifo) <= cur.cap
    /\ \A i, j \in 1..Len(cur.fifo) : (i # j) => cur.fifo[i].seq # cur.fifo[j].seq
    /\ \A k \in 1..Len(cur.out) : BufHas(cur.fifo, cur.out[k].seq)
BufNewestKept ==
  [][ (Mode = "buf" /\ hist'[Len(hist')].op = "push") => BufHas(cur'.fifo, hist'[Len(hist')].seq) ]_vars

---------------------------------------------------------------------------
(* ============================ receiver gap detector (EXT) =============== *)
(* peer_connection.rs DefaultRtpReceiverNackHandler::on_packet_received.   *)
(* Real 16-bit sequence numbers are used directly (TLC integers cover u16).*)
(* Contract: a forward jump of d in 2..32767 reports exactly the missing   *)
(* numbers between last and seq, capped to the newest 128; a packet that   *)
(* fills a reported hole is counted as recovered and does not move `last`; *)
(* an old packet (backward) is ignored; an SSRC change resets.             *)

GapCap == 128
GapInit == cur = [init |-> FALSE, last |-> 0, ssrc |-> 0, pending |-> {}, out |-> <<>>, rec |-> 0, sent |-> 0,
                  fuzzy |-> FALSE]
           /\ hist = <<>>
SeqRange(from, n) == [i \in 1..n |-> (from + i - 1) % 65536]     \* n numbers starting at from
GapRecv(seq, ssrc) ==
  /\ Len(hist) < GapDepth
  /\ hist' = Append(hist, [seq |-> seq, ssrc |-> ssrc])
  /\ LET d == (seq - cur.last + 65536) % 65536 IN
     IF cur.ssrc # 0 /\ cur.ssrc # ssrc
     THEN cur' = [cur EXCEPT !.ssrc = ssrc, !.last = seq, !.pending = {}, !.out = <<>>, !.fuzzy = FALSE]
     ELSE IF ~cur.init
     THEN cur' = [cur EXCEPT !.init = TRUE, !.ssrc = ssrc, !.last = seq, !.out = <<>>]
     ELSE IF seq \in cur.pending
     THEN cur' = [cur EXCEPT !.pending = cur.pending \ {seq}, !.rec = cur.rec + 1, !.out = <<>>]
     ELSE IF d > 1 /\ d < 32768
     THEN LET gap  == d - 1
              n    == Min(gap, GapCap)
              lost == SeqRange((seq - n + 65536) % 65536, n)
              pend == cur.pending \cup {lost[i] : i \in 1..n}
          IN \* beyond 2 * GapCap remembered holes the code forgets an unspecified subset:
             \* the model stops predicting recovery accounting from there on (fuzzy)
             cur' = [cur EXCEPT !.last = seq, !.out = lost, !.sent = cur.sent + n,
                                !.pending = IF Cardinality(pend) > 2 * GapCap THEN {} ELSE pend,
                                !.fuzzy = cur.fuzzy \/ Cardinality(pend) > 2 * GapCap]
     ELSE IF d < 32768
     THEN cur' = [cur EXCEPT !.last = seq, !.out = <<>>]
     ELSE cur' = [cur EXCEPT !.out = <<>>]
\* late packets that fill a reported hole: the newest and the oldest remembered one
GapPicks ==
  IF cur.pending = {} THEN {}
  ELSE LET dist(q) == (cur.last - q + 65536) % 65536 IN
       { CHOOSE q \in cur.pending : \A r \in cur.pending : dist(q) <= dist(r),
         CHOOSE q \in cur.pending : \A r \in cur.pending : dist(q) >= dist(r) }
GapNext == (\E d \in GapDeltas : GapRecv((cur.last + d) % 65536, IF cur.ssrc = 0 THEN 1 ELSE cur.ssrc))
        \/ (\E d \in {1, 3} : cur.init /\ GapRecv((cur.last + d) % 65536, 3 - cur.ssrc))
        \/ (~cur.fuzzy /\ \E q \in GapPicks : GapRecv(q, cur.ssrc))
\* every reported number lies strictly between the previous and the new highest number, newest kept
GapLaws ==
  (Mode = "gap") =>
    /\ Len(cur.out) <= GapCap
    /\ (~cur.fuzzy => \A i \in 1..Len(cur.out) : cur.out[i] \in cur.pending)
    /\ (Len(cur.out) > 0 => (cur.out[Len(cur.out)] + 1) % 65536 = cur.last)
    /\ \A i \in 1..(Len(cur.out) - 1) : (cur.out[i] + 1) % 65536 = cur.out[i + 1]

---------------------------------------------------------------------------
(* ============================ the machine ============================== *)
EnumInit(S) == cur \in S /\ hist = <<>>

Init ==
  CASE Mode = "rtp"      -> EnumInit(RtpCases)
    [] Mode = "rtcp"     -> EnumInit(RtcpParts)
    [] Mode = "compound" -> cur = <<>> /\ hist = <<>>
    [] Mode = "foreign"  -> cur = <<>> /\ hist = <<>>
    [] Mode = "ext"      -> ExtInit
    [] Mode = "nack"     -> EnumInit(NackCases)
    [] Mode = "rtx"      -> EnumInit(RtxCases)
    [] Mode = "buf"      -> BufInit
    [] Mode = "gap"      -> GapInit

CompoundNext == Len(cur) < MaxCompound /\ \E p \in CompoundAlphabet : cur' = Append(cur, p) /\ hist' = hist

Next ==
  CASE Mode = "compound" -> CompoundNext
    [] Mode = "foreign"  -> ForeignNext
    [] Mode = "ext"      -> ExtNext
    [] Mode = "buf"      -> BufNext
    [] Mode = "gap"      -> GapNext
    [] OTHER             -> UNCHANGED vars

Spec == Init /\ [][Next]_vars

\* the laws, per mode (state invariants)
Laws ==
  CASE Mode = "rtp"      -> RtpLayoutLaws(cur)
    [] Mode = "rtcp"     -> RtcpInverseLaw(cur)
    [] Mode = "compound" -> CompoundLaws(cur)
    [] Mode = "foreign"  -> ForeignLaws
    [] Mode = "ext"      -> ExtMapLaws
    [] Mode = "nack"     -> NackLaw(cur)
    [] Mode = "rtx"      -> RtxLaw(cur) /\ RtxShortLaw
    [] Mode = "buf"      -> BufLaws
    [] Mode = "gap"      -> GapLaws
=============================================================================
