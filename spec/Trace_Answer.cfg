SPECIFICATION TraceSpec
INVARIANTS EmitVerdict
CHECK_DEADLOCK FALSE
