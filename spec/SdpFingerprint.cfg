SPECIFICATION Spec
INVARIANT Safe
ACTION_CONSTRAINT Emit
CHECK_DEADLOCK FALSE
