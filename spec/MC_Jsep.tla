------------------------------ MODULE MC_Jsep ------------------------------
(* Bounded model + generators for Jsep.tla (property C09).                  *)
(*                                                                          *)
(* Two TLC runs, both over the same specification:                          *)
(*  table    - VIEW view (bookkeeping excluded): the whole reachable        *)
(*             abstract graph; EmitEdge prints one EDGE line per            *)
(*             (state, call, outcome) the contract allows, with the         *)
(*             post-state.  This is the oracle the replayer follows.        *)
(*  programs - VIEW progView (= the call sequence): one PROGRAM line per    *)
(*             call sequence of length MaxLen from each initial condition   *)
(*             (G-bounded).  Every call is enabled in every state (the API  *)
(*             is total), so the set of programs is Calls^MaxLen.           *)
EXTENDS Jsep, Json

AbsState == [sig |-> sig, hasLocal |-> local # 0, hasRemote |-> remote # 0]

EdgeRec ==
  [ pre     |-> pre,
    from    |-> AbsState,
    call    |-> call',
    res     |-> result',
    allowed |-> Allowed(sig, call'),
    to      |-> [ sig    |-> sig',
                  local  |-> IF local'  = local  THEN "same" ELSE "new",
                  remote |-> IF remote' = remote THEN "same" ELSE "new",
                  params |-> IF params' = params THEN "same" ELSE "any" ],
    extOk   |-> {m \in Modes : ExpectOk(m, call')} ]

EmitEdge == PrintT(<<"EDGE", ToJson(EdgeRec)>>)
NoEmit   == TRUE

progView == <<pre, hist>>
ProgramRec == [pre |-> pre, modes |-> Modes, medias |-> Medias, envs |-> Envs, calls |-> hist]
EmitProgram == Len(hist) = MaxLen => PrintT(<<"PROGRAM", ToJson(ProgramRec)>>)

(* for -simulate runs: print the behaviour when it reaches the bound *)
EmitSim == Len(hist) = MaxLen => PrintT(<<"PROGRAM", ToJson(ProgramRec)>>)
=============================================================================
