--------------------------- MODULE Trace_Lifecycle ---------------------------
(***************************************************************************)
(* Validation of recorded pc-pair executions against Lifecycle.            *)
(*                                                                         *)
(* The log (one endpoint, the "victim") holds the exact H5 hook events     *)
(* (state publications with their site, signaling commits, close/drop,     *)
(* loop and task scopes), the coalescing public watch channels, the        *)
(* application's view of its data channel and API calls, the terminating   *)
(* events the harness fired, and the end-state observations.               *)
(* Steps of the DTLS / SCTP / ICE layers and of the environment are not    *)
(* logged: they are silent steps (at most MaxSilent between two consumed   *)
(* events).  Semantics are existential: a log is accepted iff SOME         *)
(* explanation obeys every rule, so the C17 rules are guards over logged   *)
(* quantities, tagged Rule("C17.<name>", ..); structural agreement with    *)
(* the spec beyond the listed property is tagged "EXT".                    *)
(*                                                                         *)
(* All deviations of Lifecycle are admitted as alternatives here: whether  *)
(* the observed behaviour is acceptable is decided by the rules, not by    *)
(* the shape of the control flow.                                          *)
(***************************************************************************)
EXTENDS Lifecycle, Json, IOUtils

CONSTANTS MaxSilent

Rec == ndJsonDeserialize(IOEnv.TRACE)

VARIABLES l,     \* cursor
          k,     \* silent steps since the last consumed event
          tr,    \* trace-only bookkeeping (application-level observations)
          viol   \* rule tags this explanation of the current scenario has had to break

tvars == <<vars, l, k, tr, viol>>
\* the silent-step counter is not part of a state's identity (BFS reaches each state with the fewest silent steps first)
tview == <<vars, l, tr, viol>>

Ev == Rec[l]
Is(t) == l <= Len(Rec) /\ Rec[l].t = t

\* Rules are soft: a candidate explanation that breaks a rule carries the rule's tag in `viol` and goes on, so one
\* TLC run yields, per scenario, the set of rules that EVERY explanation has to break (the driver takes the
\* smallest set printed at the scenario's `end`).  Tags outside Props are not evaluated.
Broken(S) == {<<p[1], Ev.t, Ev.site, Ev.peer, Ev.x>> : p \in {q \in S : q[1] \in Props /\ ~q[2]}}
Judge(S) == viol' = viol \cup Broken(S)


FreshTr == [id |-> 0, procs |-> {}, wClosed |-> FALSE, wSigClosed |-> FALSE, peerHist |-> {"New"},
            appOpen |-> FALSE, appCloses |-> 0, hangs |-> 0, closeDepth |-> 0, localFired |-> FALSE,
            remoteFired |-> FALSE]

Fresh ==
    /\ peer' = "New" /\ sig' = "Stable" /\ reason' = "None"
    /\ ap' = "init"
    /\ iceT' = "New" /\ sock' = FALSE /\ seenL' = "New" /\ seenC' = "New"
    /\ role' = "none"
    /\ lp' = "top"
    /\ cp' = "off" /\ cval' = "New" /\ cnext' = "off"
    /\ dtls' = "none" /\ dtask' = "none" /\ dpermit' = FALSE /\ seenD' = "none"
    /\ sctp' = "none" /\ stask' = "none" /\ srun' = "idle" /\ spermit' = FALSE /\ swhy' = "none"
    /\ loops' = "none"
    /\ chan' = "none" /\ opened' = FALSE /\ closes' = 0
    /\ grace' = FALSE
    /\ cl' = [j \in 1..3 |-> "idle"]
    /\ handles' = 1 /\ dropped' = FALSE
    /\ calls' = {} /\ sendpc' = "none"
    /\ peerAlive' = TRUE /\ alertIn' = FALSE /\ abortIn' = FALSE /\ shutdownIn' = FALSE
    /\ wfcLeft' = 2
    /\ fired' = <<>>
    /\ flapLeft' = 0 /\ flapping' = FALSE

TraceInit ==
    /\ peer = "New" /\ sig = "Stable" /\ reason = "None"
    /\ ap = "init"
    /\ iceT = "New" /\ sock = FALSE /\ seenL = "New" /\ seenC = "New"
    /\ role = "none"
    /\ lp = "top"
    /\ cp = "off" /\ cval = "New" /\ cnext = "off"
    /\ dtls = "none" /\ dtask = "none" /\ dpermit = FALSE /\ seenD = "none"
    /\ sctp = "none" /\ stask = "none" /\ srun = "idle" /\ spermit = FALSE /\ swhy = "none"
    /\ loops = "none"
    /\ chan = "none" /\ opened = FALSE /\ closes = 0
    /\ grace = FALSE
    /\ cl = [j \in 1..3 |-> "idle"]
    /\ handles = 1 /\ dropped = FALSE
    /\ calls = {} /\ sendpc = "none"
    /\ peerAlive = TRUE /\ alertIn = FALSE /\ abortIn = FALSE /\ shutdownIn = FALSE
    /\ wfcLeft = 2
    /\ fired = <<>>
    /\ flapLeft = 0 /\ flapping = FALSE
    /\ l = 1 /\ k = 0 /\ tr = FreshTr /\ viol = {}
    /\ TLCSet(1, 1)

Consume == l' = l + 1 /\ k' = 0

-----------------------------------------------------------------------------
TReset ==
    /\ Is("reset")
    /\ Fresh
    /\ tr' = [FreshTr EXCEPT !.id = Ev.n]
    /\ viol' = {}
    /\ Consume

\* ---- task scopes
TProcStart ==
    /\ Is("proc_start")
    /\ tr' = [tr EXCEPT !.procs = @ \cup {<<Ev.site, Ev.n>>}]
    /\ UNCHANGED vars /\ UNCHANGED viol /\ Consume

TProcExit ==
    /\ Is("proc_exit")
    /\ tr' = [tr EXCEPT !.procs = @ \ {<<Ev.site, Ev.n>>}]
    /\ IF Ev.site = "conn_state"
       THEN \/ L_ConnReturn
            \/ dropped /\ UNCHANGED vars      \* cancelled by abort_tracked_tasks
       ELSE UNCHANGED vars
    /\ Judge({<<"EXT", Ev.site \in {"ice_dtls_loop", "rtp_direct_loop"} => (lp = "done" \/ dropped)>>})
    /\ Consume

\* ---- L
TIceSeen ==
    /\ Is("ice_seen")
    /\ iceT = Ev.site
    /\ L_Top
    /\ UNCHANGED <<tr, viol>> /\ Consume

\* ---- signaling commits
TSig ==
    /\ Is("sig")
    /\ \/ /\ Ev.site = "local.offer" /\ ap = "gathered" /\ A_SetLocal
          /\ Judge({<<"EXT", sig' = Ev.sig>>})
       \/ /\ Ev.site = "local.offer" /\ ap = "signaled" /\ A_Reneg
          /\ Judge({<<"EXT", sig' = Ev.sig>>})
       \/ /\ Ev.site = "remote.answer" /\ ap = "offerMade" /\ A_SetRemote
          /\ Judge({<<"EXT", sig' = Ev.sig>>})
       \/ /\ Ev.site = "remote.offer" /\ ap = "init" /\ A_SetRemoteOffer
          /\ Judge({<<"EXT", sig' = Ev.sig>>})
       \/ /\ Ev.site = "local.answer" /\ ap = "haveOffer" /\ A_SetLocalAnswer
          /\ Judge({<<"EXT", sig' = Ev.sig>>})
       \/ \* a commit that lands after close() has published Closed
          /\ sig = "Closed"
          /\ Judge({<<"C17.Stable", Ev.sig = "Closed">>})
          /\ sig' = Ev.sig
          /\ UNCHANGED <<peer, reason, ap, iceT, sock, seenL, seenC, role, lp, cp, cval, cnext, dtls, dtask,
                         dpermit, seenD, sctp, stask, srun, spermit, swhy, loops, chan, opened, closes, grace, cl,
                         handles, dropped, calls, sendpc, peerAlive, alertIn, abortIn, shutdownIn, wfcLeft, fired, flapLeft, flapping>>
    /\ UNCHANGED tr /\ Consume

\* ---- C
TStartTransport ==
    /\ Is("start_transport")
    /\ cp = "starting"
    /\ UNCHANGED vars /\ UNCHANGED <<tr, viol>> /\ Consume

TDtlsStarted ==
    /\ Is("dtls_started")
    /\ ~IsDirect
    /\ C_Start /\ cp' = "hsStarted"
    /\ UNCHANGED <<tr, viol>> /\ Consume

TDtlsConnected ==
    /\ Is("dtls_connected")
    /\ C_HsOk
    /\ UNCHANGED <<tr, viol>> /\ Consume

TLoopsStart ==
    /\ Is("loops_start")
    /\ \/ C_HsConn
       \/ C_DirectSpawn
    /\ UNCHANGED <<tr, viol>> /\ Consume

\* logged after the decision (and after the publication, if there was one)
TLoopsDone ==
    /\ Is("loops_done")
    /\ cp \in {"retTrue", "retFalse"}
    /\ UNCHANGED vars /\ UNCHANGED <<tr, viol>> /\ Consume

\* a publication: the snapshot taken right after the send is what the application can now see
TPub ==
    /\ Is("pub")
    /\ \/ /\ Ev.site = "close"
          /\ \E j \in 1..3 : A_Close2(j)
       \/ /\ Ev.site = "iceloop.ice_failed" /\ L_PubFailed
       \/ /\ Ev.site = "iceloop.ice_closed" /\ L_PubClosed
       \/ /\ cp = Ev.x /\ C_Publish
    /\ Judge({<<"C17.Stable", peer = "Closed" => Ev.peer = "Closed">>,
              <<"C17.Reason", Ev.peer \in {"Closed", "Failed"} => Ev.reason # "None">>,
              \* the model follows what was observed (a concurrent close() may already show through)
              <<"EXT", peer' = Ev.peer \/ (Ev.peer = "Closed" /\ Closing)>>})
    /\ tr' = [tr EXCEPT !.peerHist = @ \cup {Ev.peer}]
    /\ Consume

\* ---- close() and Drop
TFireEffect(e) ==
    CASE e = "BlockedSender" ->
           /\ peerAlive' = FALSE /\ calls' = calls \cup {"send"} /\ alertIn' \in BOOLEAN /\ UNCHANGED sendpc
           /\ UNCHANGED <<cl, handles, iceT, sock, abortIn, shutdownIn>>
      [] e = "Close" ->
           /\ cl' = [cl EXCEPT ![FreeCloser] = "begin"]
           /\ UNCHANGED <<handles, iceT, sock, peerAlive, alertIn, abortIn, shutdownIn, calls, sendpc>>
      [] e = "OwnDtlsClose" ->      \* this endpoint's DTLS transport was closed directly (harness playing a peer)
           /\ UNCHANGED <<cl, handles, iceT, sock, peerAlive, alertIn, abortIn, shutdownIn, calls, sendpc>>
      [] e = "OwnSctpAbort" ->
           /\ UNCHANGED <<cl, handles, iceT, sock, peerAlive, alertIn, abortIn, shutdownIn, calls, sendpc>>
      [] e = "OwnSctpShutdown" ->
           /\ shutdownIn' = TRUE
           /\ UNCHANGED <<cl, handles, iceT, sock, peerAlive, alertIn, abortIn, calls, sendpc>>
      [] e = "SocketLoss" ->
           \* the harness plays it with close() on the peer: now and then its close_notify still gets out
           /\ peerAlive' = FALSE /\ alertIn' \in BOOLEAN
           /\ UNCHANGED <<cl, handles, iceT, sock, abortIn, shutdownIn, calls, sendpc>>
      [] e \in {"PeerSctpAbort", "PeerSctpShutdown"} ->
           \* ... and the harness's peer closes itself shortly after having sent the chunk
           /\ peerAlive' = FALSE /\ alertIn' \in BOOLEAN
           /\ abortIn' = (e = "PeerSctpAbort") /\ shutdownIn' = (e = "PeerSctpShutdown")
           /\ UNCHANGED <<cl, handles, iceT, sock, calls, sendpc>>
      [] OTHER -> Effect(e)

TFire ==
    /\ Is("fire")
    /\ TFireEffect(Ev.site)
    /\ fired' = Append(fired, [ev |-> Ev.site, phase |-> "none", flaps |-> 0, at |-> "any"])
    /\ tr' = [tr EXCEPT !.localFired = @ \/ (Ev.site \in {"Close", "Drop"}),
                        !.remoteFired = @ \/ (Ev.site \notin {"Close", "Drop"})]
    /\ dpermit' = (IF Ev.site = "OwnDtlsClose" /\ dtls # "none" THEN TRUE ELSE dpermit)
    /\ UNCHANGED <<peer, sig, reason, ap, seenL, seenC, role, lp, cp, cval, cnext, dtls, dtask, seenD, sctp,
                   stask, srun, spermit, swhy, loops, chan, opened, closes, grace, dropped, wfcLeft, flapLeft, flapping>>
    /\ UNCHANGED viol /\ Consume

\* the harness starts / ends a recoverable blackout (the peer's runtime is frozen for a while)
TFlap ==
    /\ Is("flap")
    /\ flapLeft' = IF Ev.site = "begin" THEN flapLeft + 1 ELSE flapLeft
    /\ UNCHANGED <<peer, sig, reason, ap, iceT, sock, seenL, seenC, role, lp, cp, cval, cnext, dtls, dtask, dpermit,
                   seenD, sctp, stask, srun, spermit, swhy, loops, chan, opened, closes, grace, cl, handles, dropped,
                   calls, sendpc, peerAlive, alertIn, abortIn, shutdownIn, wfcLeft, fired, flapping>>
    /\ UNCHANGED <<tr, viol>> /\ Consume

TCloseBegin ==
    /\ Is("close_begin")
    /\ \/ /\ Ev.site # "Dropped" /\ \E j \in 1..2 : A_Close1(j)
       \/ /\ Ev.site = "Dropped" /\ A_Close1(3)
    /\ tr' = [tr EXCEPT !.closeDepth = @ + 1]
    /\ UNCHANGED viol /\ Consume

TCloseNoop ==
    /\ Is("close_noop")
    /\ Judge({<<"EXT", peer = "Closed">>})
    /\ tr' = [tr EXCEPT !.closeDepth = @ - 1]
    /\ UNCHANGED vars /\ Consume

TCloseEnd ==
    /\ Is("close_end")
    /\ \E j \in 1..3 : cl[j] = "done"
    /\ Judge({<<"C17.Reason", Ev.reason # "None">>})
    /\ tr' = [tr EXCEPT !.closeDepth = @ - 1]
    /\ UNCHANGED vars /\ Consume

TDropBegin ==
    /\ Is("drop_begin")
    /\ InnerDropCore
    /\ UNCHANGED <<tr, viol>> /\ Consume

TDropEnd ==
    /\ Is("drop_end")
    /\ UNCHANGED vars /\ UNCHANGED <<tr, viol>> /\ Consume

\* values whose publication is under way: the watcher task may log them before the hook event of the
\* publishing task is written
PendingPub ==
    (IF IsPre(cp) THEN {cval} ELSE {}) \cup
    (IF cp = "spawned" THEN {"Connected"} ELSE {}) \cup
    (IF \E j \in 1..3 : cl[j] \in {"begin", "pub"} THEN {"Closed"} ELSE {}) \cup
    (IF lp = "pre:iceloop.ice_failed" THEN {"Failed"} ELSE {}) \cup
    (IF lp = "pre:iceloop.ice_closed" THEN {"Closed"} ELSE {})

\* ---- the application's view: public watch channels (coalescing)
TWatch ==
    /\ Is("w_peer")
    /\ Judge({<<"C17.Stable", tr.wClosed => Ev.peer = "Closed">>,
              <<"EXT", Ev.peer \in tr.peerHist \/ Ev.peer = peer \/ Ev.peer \in PendingPub>>})
    /\ tr' = [tr EXCEPT !.wClosed = @ \/ Ev.peer = "Closed", !.peerHist = {peer}]
    /\ UNCHANGED vars /\ Consume

TWatchSig ==
    /\ Is("w_sig")
    /\ Judge({<<"C17.Stable", tr.wSigClosed => Ev.sig = "Closed">>})
    /\ tr' = [tr EXCEPT !.wSigClosed = @ \/ Ev.sig = "Closed"]
    /\ UNCHANGED vars /\ Consume

\* ---- the application's view: data channel and API calls
TDcOpen ==
    /\ Is("dc_open")
    /\ Judge({<<"EXT", chan = "open" \/ opened>>})
    /\ tr' = [tr EXCEPT !.appOpen = TRUE]
    /\ UNCHANGED vars /\ Consume

TDcClose ==
    /\ Is("dc_close")
    /\ Judge({<<"C17.CloseOnce", tr.appCloses = 0>>, <<"EXT", chan = "closed">>})
    /\ tr' = [tr EXCEPT !.appCloses = @ + 1]
    /\ UNCHANGED vars /\ Consume

TApiBegin ==
    /\ Is("api_begin")
    /\ calls' = (IF Ev.site \in {"wfc", "send"} THEN calls \cup {Ev.site} ELSE calls) /\ UNCHANGED sendpc
    /\ UNCHANGED <<peer, sig, reason, ap, iceT, sock, seenL, seenC, role, lp, cp, cval, cnext, dtls, dtask, dpermit,
                   seenD, sctp, stask, srun, spermit, swhy, loops, chan, opened, closes, grace, cl, handles, dropped,
                   peerAlive, alertIn, abortIn, shutdownIn, wfcLeft, fired, flapLeft, flapping>>
    /\ UNCHANGED <<tr, viol>> /\ Consume

TApiEnd ==
    /\ Is("api_end")
    /\ calls' = (IF Ev.site = "wfc" THEN calls \ {"wfc"} ELSE IF Ev.site = "send" THEN calls \ {"send"} ELSE calls)
    /\ UNCHANGED sendpc
    /\ UNCHANGED <<peer, sig, reason, ap, iceT, sock, seenL, seenC, role, lp, cp, cval, cnext, dtls, dtask, dpermit,
                   seenD, sctp, stask, srun, spermit, swhy, loops, chan, opened, closes, grace, cl, handles, dropped,
                   peerAlive, alertIn, abortIn, shutdownIn, wfcLeft, fired, flapLeft, flapping>>
    /\ UNCHANGED <<tr, viol>> /\ Consume

TApiHang ==
    /\ Is("api_hang")
    /\ Judge({<<"C17.NoHang", FALSE>>})
    /\ tr' = [tr EXCEPT !.hangs = @ + 1]
    /\ UNCHANGED vars /\ Consume

\* ---- end-state oracle (after quiescence of the event counter)
\*   peer/reason/sig : observed after the events settled      x : peer after the second close()
\*   site            : final peer state (after close + drop)   n : Close events seen by the channel
\*   m : hung API calls   b1 : terminal reached   b2 : channel was open   b3 : resources back at baseline
\*   b4 : every planned event was fired and applicable
EndRules ==
    {<<"C17.Terminal", Ev.b1>>,
     <<"C17.LocalClosed", tr.localFired => Ev.site = "Closed">>,
     <<"C17.LocalClosed", (tr.localFired /\ ~tr.remoteFired /\ Len(fired) <= 3) => Ev.peer = "Closed">>,
     <<"C17.Reason", Ev.peer \in {"Closed", "Failed"} => Ev.reason # "None">>,
     <<"C17.CloseOnce", Ev.n <= 1 /\ (Ev.b2 => Ev.n = 1)>>,
     <<"C17.NoHang", Ev.m = 0>>,
     <<"C17.Released", Ev.b3>>,
     <<"C17.DoubleClose", Ev.x \in {"Closed", "-"}>>,
     <<"EXT", tr.procs = {}>>}

TEnd ==
    /\ Is("end")
    /\ LET v == IF Ev.b4 THEN viol \cup Broken(EndRules) ELSE viol
       IN /\ viol' = v
          /\ PrintT(<<"VERDICT", ToJson([id |-> tr.id, viol |-> v])>>)
    /\ UNCHANGED vars /\ UNCHANGED tr /\ Consume

-----------------------------------------------------------------------------
\* either agent re-publishes an "up" ICE state now and then (Connected <-> Completed); the loops see a change
T_IceRenotify ==
    /\ iceT \in IceUp /\ peerAlive /\ ~IsDirect
    /\ iceT' = IF iceT = "Connected" THEN "Completed" ELSE "Connected"
    /\ UNCHANGED <<sock, peerAlive>> /\ UNCHANGED EUnch

(* silent steps: what the log does not show *)
Silent ==
    /\ k < MaxSilent
    /\ l <= Len(Rec)
    /\ \/ A_MakeOffer \/ A_GatherDone
       \/ \E j \in 1..3 : A_Close3(j) \/ A_Close4(j) \/ A_Close5(j)
       \/ AbortTracked
       \/ L_SawChecking \/ L_Wait \/ L_EnterConn
       \/ C_Role \/ C_HsEnter \/ C_Spawned
       \/ (C_Start /\ cp' # "hsStarted")
       \/ C_SrtpAbort
       \/ C_HsFail
       \/ C_RunLoops \/ C_RunIce \/ C_RunDtls \/ C_RunGrace
       \/ D_Connect \/ D_Close \/ D_SockGone \/ D_PeerAlert \/ D_Timeout
       \/ S_Start \/ S_DtlsUp \/ S_Established \/ S_ChanOpen \/ S_Closed \/ S_DtlsGone \/ S_Abort \/ S_PeerSilent
       \/ S_InputClosed \/ S_ShutdownAck
       \/ T_DirectEnd
       \/ I_Connect \/ I_Complete \/ T_IceRenotify \/ I_Disconnect \/ I_Fail \/ I_FlapDown \/ I_FlapUp
    /\ k' = k + 1
    /\ UNCHANGED <<l, tr, viol>>

TraceNext ==
    \/ TReset \/ TProcStart \/ TProcExit \/ TIceSeen \/ TSig \/ TStartTransport \/ TDtlsStarted \/ TDtlsConnected
    \/ TLoopsStart \/ TLoopsDone \/ TPub \/ TFire \/ TFlap \/ TCloseBegin \/ TCloseNoop \/ TCloseEnd \/ TDropBegin \/ TDropEnd
    \/ TWatch \/ TWatchSig \/ TDcOpen \/ TDcClose \/ TApiBegin \/ TApiEnd \/ TApiHang \/ TEnd
    \/ Silent

TraceSpec == TraceInit /\ [][TraceNext]_tvars

\* furthest cursor reached by any candidate explanation
Furthest == IF l > TLCGet(1) THEN TLCSet(1, l) ELSE TRUE

Accepted == TLCGet(1) = Len(Rec) + 1
Post ==
    IF Accepted THEN PrintT(<<"TRACE", "accepted", Len(Rec)>>)
    ELSE PrintT(<<"TRACE", "rejected", TLCGet(1), ToJson(Rec[TLCGet(1)])>>)
=============================================================================
