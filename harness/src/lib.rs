//! Shared plumbing for the conformance harness binaries (one binary per
//! subsystem under src/bin/). Every binary reads TLC-generated input (ndjson),
//! drives the real rustrtc objects, and writes observations / divergences as
//! ndjson for the driver (`/verif/check`) to classify.

use serde_json::{Value, json};
use std::io::{BufRead, BufWriter, Write};
use std::net::SocketAddr;

pub fn read_ndjson(path: &str) -> Vec<Value> {
    let f = std::fs::File::open(path).unwrap_or_else(|e| panic!("open {path}: {e}"));
    let r = std::io::BufReader::new(f);
    let mut out = Vec::new();
    for (i, line) in r.lines().enumerate() {
        let line = line.expect("read line");
        let t = line.trim();
        if t.is_empty() {
            continue;
        }
        out.push(
            serde_json::from_str(t).unwrap_or_else(|e| panic!("{path}:{}: bad json: {e}", i + 1)),
        );
    }
    out
}

/// Streaming variant for large inputs (millions of TLC edges): one value at a time.
pub fn for_each_ndjson(path: &str, mut f: impl FnMut(usize, Value)) -> usize {
    let file = std::fs::File::open(path).unwrap_or_else(|e| panic!("open {path}: {e}"));
    let r = std::io::BufReader::with_capacity(1 << 20, file);
    let mut n = 0;
    for (i, line) in r.lines().enumerate() {
        let line = line.expect("read line");
        let t = line.trim();
        if t.is_empty() {
            continue;
        }
        let v = serde_json::from_str(t).unwrap_or_else(|e| panic!("{path}:{}: bad json: {e}", i + 1));
        f(n, v);
        n += 1;
    }
    n
}

pub struct NdjsonOut {
    w: BufWriter<std::fs::File>,
}

impl NdjsonOut {
    pub fn create(path: &str) -> Self {
        if let Some(p) = std::path::Path::new(path).parent() {
            let _ = std::fs::create_dir_all(p);
        }
        Self {
            w: BufWriter::new(
                std::fs::File::create(path).unwrap_or_else(|e| panic!("create {path}: {e}")),
            ),
        }
    }
    pub fn push(&mut self, v: &Value) {
        serde_json::to_writer(&mut self.w, v).expect("write");
        self.w.write_all(b"\n").expect("write");
    }
    pub fn finish(mut self) {
        self.w.flush().expect("flush");
    }
}

/// Model address names <-> concrete socket addresses.
pub fn addr_of(name: &str) -> SocketAddr {
    match name {
        "A" => "10.0.0.1:5000".parse().unwrap(),
        "B" => "10.0.0.2:5002".parse().unwrap(),
        "C" => "10.0.0.3:5004".parse().unwrap(),
        "D" => "10.0.0.4:5006".parse().unwrap(),
        "Unset" | "None" => "0.0.0.0:0".parse().unwrap(),
        other => other.parse().unwrap_or_else(|_| panic!("bad addr name {other}")),
    }
}

pub fn name_of(a: SocketAddr) -> String {
    for n in ["A", "B", "C", "D"] {
        if addr_of(n) == a {
            return n.to_string();
        }
    }
    if a.port() == 0 {
        return "Unset".to_string();
    }
    a.to_string()
}

/// `exp` is `{"allowed":[...], "rule":"..."}`; returns Some(divergence) if `observed` is not allowed.
pub fn check_field(field: &str, exp: &Value, observed: &Value) -> Option<Value> {
    let allowed = exp["allowed"].as_array().cloned().unwrap_or_default();
    if allowed.iter().any(|a| a == observed) {
        None
    } else {
        Some(json!({
            "field": field,
            "rule": exp["rule"],
            "allowed": allowed,
            "observed": observed,
        }))
    }
}

/// Deterministic splitmix64 for concretisation choices driven by VERIF_SEED.
#[derive(Clone)]
pub struct Rng(pub u64);
impl Rng {
    pub fn from_env() -> Self {
        let s = std::env::var("VERIF_SEED")
            .ok()
            .and_then(|s| s.parse::<u64>().ok())
            .unwrap_or(1);
        Rng(s ^ 0x9E3779B97F4A7C15)
    }
    pub fn next(&mut self) -> u64 {
        self.0 = self.0.wrapping_add(0x9E3779B97F4A7C15);
        let mut z = self.0;
        z = (z ^ (z >> 30)).wrapping_mul(0xBF58476D1CE4E5B9);
        z = (z ^ (z >> 27)).wrapping_mul(0x94D049BB133111EB);
        z ^ (z >> 31)
    }
    pub fn below(&mut self, n: u64) -> u64 {
        if n == 0 { 0 } else { self.next() % n }
    }
    pub fn bytes(&mut self, n: usize) -> Vec<u8> {
        (0..n).map(|_| self.next() as u8).collect()
    }
}

/// Run `f`, turning a panic in the code under test into data.
pub fn catch<T>(f: impl FnOnce() -> T) -> Result<T, String> {
    std::panic::catch_unwind(std::panic::AssertUnwindSafe(f)).map_err(|e| {
        if let Some(s) = e.downcast_ref::<&str>() {
            s.to_string()
        } else if let Some(s) = e.downcast_ref::<String>() {
            s.clone()
        } else {
            "panic".to_string()
        }
    })
}

/// Silence the default panic message (panics in the code under test are reported as data).
pub fn quiet_panics() {
    std::panic::set_hook(Box::new(|_| {}));
}

// Shared harness modules. Each has ONE owner (see CONVENTIONS.md); the files start as stubs.
pub mod dtlsproxy; // owner: DTLS handshake checks (C11, C02)
pub mod ministack; // owner: SCTP checks (C01, C12, C13): ICE-conn + DTLS + SCTP pair behind a decrypting proxy
pub mod pcpair; // owner: lifecycle checks (C17, C10): two PeerConnections signalled in-process
pub mod refimpl; // owner: SRTP checks (C04, C05): thin wrappers over reference crates
