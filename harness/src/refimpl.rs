//! Thin wrappers over the reference SRTP implementation (`webrtc-srtp` 0.17.2, the webrtc-rs
//! port of pion/srtp) used as an *extra oracle* at model-generated steps (C04/C05). It is never
//! the generator of scenarios. Owner: SRTP checks.
//!
//! Facts about the reference that callers must respect (read from its source):
//! * one `Context` is one direction (encrypt only or decrypt only);
//! * no NULL-cipher profile: `RefProfile::from_name` returns `None` for it;
//! * its ROC estimate follows the *last accepted* packet (not the highest), so it is only a valid
//!   oracle for a packet whose true index is within half the sequence space of the last packet
//!   the same context processed; `RefSrtp` tracks that and exposes `in_domain`;
//! * its RTP header parser panics / mis-sizes on non-canonical RFC 8285 extension blocks, so
//!   every call is wrapped in `catch_unwind`; a panic is reported as `Err("panic: ..")` and is a
//!   statement about the reference, not about rustrtc;
//! * replay protection is off by default (`Context::new(.., None, None)`), like rustrtc.

use std::collections::HashMap;
use webrtc_srtp::context::Context;
use webrtc_srtp::protection_profile::ProtectionProfile;

#[derive(Clone, Copy, Debug, PartialEq, Eq)]
pub enum RefProfile {
    Aes128Sha1_80,
    Aes128Sha1_32,
    AeadAes128Gcm,
}

impl RefProfile {
    /// Names used across the harness: "sha1_80", "sha1_32", "gcm", "null" (-> None).
    pub fn from_name(name: &str) -> Option<Self> {
        match name {
            "sha1_80" => Some(Self::Aes128Sha1_80),
            "sha1_32" => Some(Self::Aes128Sha1_32),
            "gcm" => Some(Self::AeadAes128Gcm),
            _ => None,
        }
    }
    fn to_ref(self) -> ProtectionProfile {
        match self {
            Self::Aes128Sha1_80 => ProtectionProfile::Aes128CmHmacSha1_80,
            Self::Aes128Sha1_32 => ProtectionProfile::Aes128CmHmacSha1_32,
            Self::AeadAes128Gcm => ProtectionProfile::AeadAes128Gcm,
        }
    }
    pub fn salt_len(self) -> usize {
        self.to_ref().salt_len()
    }
}

fn guard<T>(f: impl FnOnce() -> Result<T, String>) -> Result<T, String> {
    match std::panic::catch_unwind(std::panic::AssertUnwindSafe(f)) {
        Ok(r) => r,
        Err(e) => {
            let m = if let Some(s) = e.downcast_ref::<&str>() {
                s.to_string()
            } else if let Some(s) = e.downcast_ref::<String>() {
                s.clone()
            } else {
                "?".to_string()
            };
            Err(format!("panic: {m}"))
        }
    }
}

/// One direction of the reference implementation plus the bookkeeping that says when its
/// answer can be demanded.
pub struct RefSrtp {
    ctx: Context,
    /// true index of the last RTP packet this context processed successfully, per SSRC
    last_idx: HashMap<u32, i64>,
}

impl RefSrtp {
    /// `salt` may be longer than the profile needs (rustrtc takes 14 bytes for every profile and
    /// uses the first 12 for GCM); it is cut to the reference's length.
    pub fn new(profile: RefProfile, key: &[u8], salt: &[u8]) -> Result<Self, String> {
        let sl = profile.salt_len();
        if salt.len() < sl || key.len() < 16 {
            return Err("keying material too short".into());
        }
        let ctx = Context::new(&key[..16], &salt[..sl], profile.to_ref(), None, None)
            .map_err(|e| e.to_string())?;
        Ok(Self { ctx, last_idx: HashMap::new() })
    }

    /// Can the reference be expected to handle the packet of `ssrc` with true index `idx`
    /// (48-bit, real scale) given what it processed before?
    pub fn in_domain(&self, ssrc: u32, idx: i64) -> bool {
        match self.last_idx.get(&ssrc) {
            None => idx < 65536,
            Some(&l) => (idx - l).abs() < 32768,
        }
    }

    /// Protect a plaintext RTP packet (marshalled). `idx` is the true index the caller means.
    pub fn protect_rtp(&mut self, plain: &[u8], ssrc: u32, idx: i64) -> Result<Vec<u8>, String> {
        let ctx = &mut self.ctx;
        let r = guard(|| ctx.encrypt_rtp(plain).map(|b| b.to_vec()).map_err(|e| e.to_string()));
        if r.is_ok() {
            self.last_idx.insert(ssrc, idx);
        }
        r
    }

    /// Unprotect an SRTP packet; returns the marshalled plaintext RTP packet.
    pub fn unprotect_rtp(&mut self, enc: &[u8], ssrc: u32, idx: i64) -> Result<Vec<u8>, String> {
        let ctx = &mut self.ctx;
        let r = guard(|| ctx.decrypt_rtp(enc).map(|b| b.to_vec()).map_err(|e| e.to_string()));
        if r.is_ok() {
            self.last_idx.insert(ssrc, idx);
        }
        r
    }

    pub fn protect_rtcp(&mut self, plain: &[u8]) -> Result<Vec<u8>, String> {
        let ctx = &mut self.ctx;
        guard(|| ctx.encrypt_rtcp(plain).map(|b| b.to_vec()).map_err(|e| e.to_string()))
    }

    pub fn unprotect_rtcp(&mut self, enc: &[u8]) -> Result<Vec<u8>, String> {
        let ctx = &mut self.ctx;
        guard(|| ctx.decrypt_rtcp(enc).map(|b| b.to_vec()).map_err(|e| e.to_string()))
    }
}

/// Is this plaintext RTP packet inside the reference's own domain (its header parser and its
/// cipher agree on the header length and it round-trips its own output)? Checked with scratch
/// contexts at ROC 0, so it speaks about the packet shape only.
pub fn ref_accepts_shape(profile: RefProfile, plain: &[u8]) -> bool {
    let key = [0x11u8; 16];
    let salt = [0x22u8; 14];
    let (Ok(mut a), Ok(mut b)) = (RefSrtp::new(profile, &key, &salt), RefSrtp::new(profile, &key, &salt)) else {
        return false;
    };
    match a.protect_rtp(plain, 0, 0) {
        Ok(enc) => matches!(b.unprotect_rtp(&enc, 0, 0), Ok(p) if p == plain),
        Err(_) => false,
    }
}
