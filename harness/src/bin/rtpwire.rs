//! C15 - replay of RtpWire.tla cases on the real RTP / RTCP codec (src/rtp.rs, src/rtx.rs) and the
//! NACK handlers (src/peer_connection.rs), with the reference crates `rtp` / `rtcp` 0.17.2 as extra oracle.
//!
//! usage: rtpwire <cases.ndjson> <out.ndjson>
//!
//! Every input line is one case printed by TLC (MC_RtpWire.tla, `CaseRec`): a logical packet or an
//! operation history plus what the specification predicts about it. For every case
//!   law 1  build with the real constructors, marshal, parse back            (rule RoundTrip)
//!   law 2  parse the real bytes with the reference, compare with the MODEL  (rule RefAgrees)
//!   law 3  serialise with the reference, parse with rustrtc, re-serialise,
//!          reference parses again                                           (rule RefBytesParse)
//!   layout the model's predictions against the real bytes                   (rule Layout)
//!   range  a packet without a wire form is refused, never serialised        (rule Reject)
//! and the machine rules ExtSetGet, NackSet, RtxRestore; EXT rules (beyond the listed property):
//! NackMinimal, ExtCompact, NackBuf, GapDetector.
use bytes::Bytes;
use rtcverif::*;
use rustrtc::peer_connection::{
    DefaultRtpReceiverNackHandler, DefaultRtpSenderNackHandler, NackStats, RtpReceiverInterceptor,
    RtpSenderInterceptor,
};
use rustrtc::rtp::*;
use rustrtc::rtx::{RtxSenderConfig, decode_osn, encode_osn, unwrap_rtx_packet, wrap_rtx_packet};
use serde_json::{Value, json};
use std::collections::{BTreeMap, BTreeSet, HashMap};
use std::sync::Arc;
use std::sync::atomic::Ordering;
use std::time::{Duration, Instant};
use webrtc_util::marshal::{Marshal, Unmarshal};

use rtcp::extended_report::ExtendedReport;
use rtcp::goodbye::Goodbye as RGoodbye;
use rtcp::payload_feedbacks::slice_loss_indication::{SliEntry, SliceLossIndication};
use rtcp::transport_feedbacks::rapid_resynchronization_request::RapidResynchronizationRequest;
use rtcp::payload_feedbacks::full_intra_request::{FirEntry, FullIntraRequest as RFir};
use rtcp::payload_feedbacks::picture_loss_indication::PictureLossIndication as RPli;
use rtcp::payload_feedbacks::receiver_estimated_maximum_bitrate::ReceiverEstimatedMaximumBitrate as RRemb;
use rtcp::receiver_report::ReceiverReport as RRr;
use rtcp::reception_report::ReceptionReport;
use rtcp::sender_report::SenderReport as RSr;
use rtcp::source_description::{
    SdesType, SourceDescription as RSdes, SourceDescriptionChunk, SourceDescriptionItem,
};
use rtcp::transport_feedbacks::transport_layer_cc::{
    PacketStatusChunk, RecvDelta, RunLengthChunk, StatusChunkTypeTcc, SymbolTypeTcc, TransportLayerCc,
};
use rtcp::transport_feedbacks::transport_layer_nack::{NackPair, TransportLayerNack};

type RBox = Box<dyn rtcp::packet::Packet + Send + Sync>;

// ------------------------------------------------------------------------------------------- plumbing

struct Ctx<'a> {
    out: &'a mut NdjsonOut,
    case: &'a Value,
    kind: String,
    per_sig: &'a mut HashMap<String, u64>,
    ndiv: u64,
    nchecks: u64,
}

impl<'a> Ctx<'a> {
    fn diverge(&mut self, rule: &str, field: &str, expected: Value, observed: Value) {
        self.ndiv += 1;
        let key = format!("{rule}/{}/{field}", self.kind);
        let n = self.per_sig.entry(key).or_insert(0);
        *n += 1;
        if *n <= 5 {
            self.out.push(&json!({"type": "divergence", "rule": rule, "kind": self.kind, "field": field,
                "expected": expected, "observed": observed, "case": self.case}));
        }
    }
    /// compare one field; returns true when equal
    fn eq<T: PartialEq + std::fmt::Debug + ?Sized>(&mut self, rule: &str, field: &str, expected: &T, observed: &T) -> bool {
        self.nchecks += 1;
        if expected != observed {
            self.diverge(rule, field, json!(trunc(format!("{expected:?}"))), json!(trunc(format!("{observed:?}"))));
            false
        } else {
            true
        }
    }
}

fn trunc(s: String) -> String {
    if s.len() > 400 { format!("{}...({} chars)", &s[..400], s.len()) } else { s }
}

fn u(v: &Value) -> u64 {
    v.as_u64().unwrap_or_else(|| panic!("expected unsigned number, got {v}"))
}
fn i(v: &Value) -> i64 {
    v.as_i64().unwrap_or_else(|| panic!("expected number, got {v}"))
}
fn s(v: &Value) -> &str {
    v.as_str().unwrap_or_else(|| panic!("expected string, got {v}"))
}
fn arr(v: &Value) -> &Vec<Value> {
    v.as_array().unwrap_or_else(|| panic!("expected array, got {v}"))
}

fn fnv(sv: &str) -> u64 {
    let mut h = 0xcbf29ce484222325u64;
    for b in sv.bytes() {
        h ^= b as u64;
        h = h.wrapping_mul(0x100000001b3);
    }
    h
}

fn cls32(cls: &str, rng: &mut Rng) -> u32 {
    match cls {
        "lo" => 0,
        "hi" => u32::MAX,
        _ => rng.next() as u32,
    }
}
fn cls16(cls: &str, rng: &mut Rng) -> u16 {
    cls32(cls, rng) as u16
}
fn cls8(cls: &str, rng: &mut Rng) -> u8 {
    cls32(cls, rng) as u8
}
fn ascii(rng: &mut Rng, n: usize) -> String {
    (0..n).map(|_| (b'a' + rng.below(26) as u8) as char).collect()
}

fn block_on<F: std::future::Future>(rt: &tokio::runtime::Runtime, f: F) -> F::Output {
    rt.block_on(f)
}

// ------------------------------------------------------------------------------------------- RTP

struct ElemV {
    id: u8,
    val: Vec<u8>,
}

fn rtp_case(cx: &mut Ctx, rng: &mut Rng) {
    let case = cx.case;
    let c = &case["c"];
    let lay = &case["lay"];
    let enc = case["enc"].as_bool().unwrap();
    let cls = s(&c["cls"]);
    let cc = u(&c["cc"]) as usize;
    let pad = u(&c["pad"]) as u8;
    let pay = u(&c["pay"]) as usize;
    let marker = c["marker"].as_bool().unwrap();
    let xkind = s(&c["ext"]["kind"]).to_string();
    cx.kind = format!("rtp/{xkind}");

    let pt = cls8(cls, rng) & 0x7F;
    let seq = cls16(cls, rng);
    let ts = cls32(cls, rng);
    let ssrc = cls32(cls, rng);
    let csrcs: Vec<u32> = (0..cc).map(|k| if cls == "mix" { rng.next() as u32 } else { cls32(cls, rng) ^ k as u32 }).collect();
    let payload = rng.bytes(pay);
    let els: Vec<ElemV> = arr(&c["ext"]["els"])
        .iter()
        .map(|e| ElemV { id: u(&e["id"]) as u8, val: rng.bytes(u(&e["len"]) as usize) })
        .collect();
    let rawlen = u(&c["ext"]["rawlen"]) as usize;
    let rawdata = rng.bytes(rawlen);

    // ---- build with the real constructors
    let mut header = RtpHeader::new(pt, seq, ts, ssrc);
    header.marker = marker;
    header.csrcs = csrcs.clone();
    match xkind.as_str() {
        "one" => {
            for e in &els {
                match catch(|| header.set_extension(e.id, &e.val)) {
                    Ok(Ok(())) => {}
                    other => cx.diverge("ExtSetGet", "set_result", json!("Ok"), json!(format!("{other:?}"))),
                }
            }
        }
        "two" => {
            let mut d = Vec::new();
            for e in &els {
                d.push(e.id);
                d.push(e.val.len() as u8);
                d.extend_from_slice(&e.val);
            }
            while d.len() % 4 != 0 {
                d.push(0);
            }
            header.extension = Some(RtpHeaderExtension::new(0x1000, d));
        }
        "raw" => header.extension = Some(RtpHeaderExtension::new(u(&lay["profile"]) as u16, rawdata.clone())),
        _ => {}
    }
    let packet = RtpPacket { header, payload: Bytes::from(payload.clone()), padding_len: pad };

    // ---- header extension get on the constructed header
    for e in &els {
        let got = packet.header.get_extension(e.id).map(|b| b.to_vec());
        cx.eq("ExtSetGet", "get_after_build", &Some(e.val.clone()), &got);
    }

    // ---- marshal
    let bytes = match catch(|| packet.marshal()) {
        Err(p) => {
            cx.diverge("RoundTrip", "marshal_panic", json!("no panic"), json!(p));
            return;
        }
        Ok(Err(e)) => {
            if enc {
                cx.diverge("RoundTrip", "marshal_result", json!("Ok"), json!(format!("Err({e:?})")));
            }
            cx.nchecks += 1;
            return;
        }
        Ok(Ok(b)) => b,
    };
    if !enc {
        // a packet without a wire form was serialised: corrupt unless it happens to parse back identically
        cx.diverge("Reject", "marshal_result", json!("Err"), json!(format!("Ok({} bytes)", bytes.len())));
        return;
    }

    // ---- layout predictions against the real bytes
    let hdr = u(&lay["hdr"]) as usize;
    cx.eq("Layout", "total_len", &(u(&lay["total"]) as usize), &bytes.len());
    cx.eq("Layout", "byte0", &(u(&lay["b0"]) as u8), &bytes[0]);
    if xkind != "none" && bytes.len() >= 16 + 4 * cc {
        let o = 12 + 4 * cc;
        let profile = u16::from_be_bytes([bytes[o], bytes[o + 1]]);
        let words = u16::from_be_bytes([bytes[o + 2], bytes[o + 3]]);
        cx.eq("Layout", "ext_profile", &(u(&lay["profile"]) as u16), &profile);
        cx.eq("Layout", "ext_words", &(u(&lay["xwords"]) as u16), &words);
    }
    if pad > 0 {
        cx.eq("Layout", "pad_count_octet", &pad, bytes.last().unwrap());
    }
    if bytes.len() >= hdr + pay {
        cx.eq("Layout", "payload_at_header_len", &payload[..], &bytes[hdr..hdr + pay]);
    }
    let mut into = Vec::new();
    packet.marshal_into(&mut into);
    cx.eq("RoundTrip", "marshal_into_equals_marshal", &bytes, &into);

    // ---- law 1
    match catch(|| RtpPacket::parse(&bytes)) {
        Ok(Ok(back)) => {
            if back != packet {
                cx.eq("RoundTrip", "marker", &packet.header.marker, &back.header.marker);
                cx.eq("RoundTrip", "payload_type", &packet.header.payload_type, &back.header.payload_type);
                cx.eq("RoundTrip", "sequence_number", &packet.header.sequence_number, &back.header.sequence_number);
                cx.eq("RoundTrip", "timestamp", &packet.header.timestamp, &back.header.timestamp);
                cx.eq("RoundTrip", "ssrc", &packet.header.ssrc, &back.header.ssrc);
                cx.eq("RoundTrip", "csrcs", &packet.header.csrcs, &back.header.csrcs);
                cx.eq("RoundTrip", "extension", &packet.header.extension, &back.header.extension);
                cx.eq("RoundTrip", "payload", &packet.payload, &back.payload);
                cx.eq("RoundTrip", "padding_len", &packet.padding_len, &back.padding_len);
            } else {
                cx.nchecks += 9;
            }
            for e in &els {
                let got = back.header.get_extension(e.id).map(|b| b.to_vec());
                cx.eq("ExtSetGet", "get_after_parse", &Some(e.val.clone()), &got);
            }
        }
        other => cx.diverge("RoundTrip", "parse_result", json!("Ok"), json!(trunc(format!("{other:?}")))),
    }

    // ---- law 2: the reference parses the real bytes to the model's fields
    let ref_cmp = |cx: &mut Ctx, rule: &str, rp: &rtp::packet::Packet, expect_pad: bool| {
        let h = &rp.header;
        cx.eq(rule, "version", &2u8, &h.version);
        cx.eq(rule, "padding_bit", &expect_pad, &h.padding);
        cx.eq(rule, "extension_bit", &(xkind != "none"), &h.extension);
        cx.eq(rule, "marker", &marker, &h.marker);
        cx.eq(rule, "payload_type", &pt, &h.payload_type);
        cx.eq(rule, "sequence_number", &seq, &h.sequence_number);
        cx.eq(rule, "timestamp", &ts, &h.timestamp);
        cx.eq(rule, "ssrc", &ssrc, &h.ssrc);
        cx.eq(rule, "csrc", &csrcs, &h.csrc);
        cx.eq(rule, "payload", &payload[..], &rp.payload[..]);
        match xkind.as_str() {
            "one" | "two" => {
                cx.eq(rule, "extension_profile", &(u(&lay["profile"]) as u16), &h.extension_profile);
                let want: Vec<(u8, Vec<u8>)> = els.iter().map(|e| (e.id, e.val.clone())).collect();
                let got: Vec<(u8, Vec<u8>)> = h.extensions.iter().map(|e| (e.id, e.payload.to_vec())).collect();
                // order of elements is not part of the property: compare as maps
                let wm: BTreeMap<u8, Vec<u8>> = want.into_iter().collect();
                let gm: BTreeMap<u8, Vec<u8>> = got.into_iter().collect();
                cx.eq(rule, "extension_elements", &wm, &gm);
            }
            "raw" => {
                cx.eq(rule, "extension_profile", &(u(&lay["profile"]) as u16), &h.extension_profile);
                let got: Vec<u8> = h.extensions.iter().flat_map(|e| e.payload.to_vec()).collect();
                cx.eq(rule, "extension_data", &rawdata, &got);
            }
            _ => {}
        }
    };
    match catch(|| rtp::packet::Packet::unmarshal(&mut &bytes[..])) {
        Ok(Ok(rp)) => ref_cmp(cx, "RefAgrees", &rp, pad > 0),
        other => cx.diverge("RefAgrees", "reference_parse", json!("Ok"), json!(trunc(format!("{other:?}")))),
    }

    // ---- law 3: reference bytes -> rustrtc -> bytes -> reference
    let rhdr = rtp::header::Header {
        version: 2,
        padding: pad > 0,
        extension: xkind != "none",
        marker,
        payload_type: pt,
        sequence_number: seq,
        timestamp: ts,
        ssrc,
        csrc: csrcs.clone(),
        extension_profile: u(&lay["profile"]) as u16,
        extensions: match xkind.as_str() {
            "one" | "two" => els
                .iter()
                .map(|e| rtp::header::Extension { id: e.id, payload: Bytes::from(e.val.clone()) })
                .collect(),
            "raw" => vec![rtp::header::Extension { id: 0, payload: Bytes::from(rawdata.clone()) }],
            _ => vec![],
        },
        extensions_padding: 0,
    };
    let rpk = rtp::packet::Packet { header: rhdr, payload: Bytes::from(payload.clone()) };
    let rbytes = match catch(|| rpk.marshal()) {
        Ok(Ok(b)) => b,
        _ => return, // the reference cannot express this case (e.g. its own limits): nothing to compare
    };
    if rbytes.len() != u(&lay["reftotal"]) as usize {
        // the model's idea of the reference's padding is off: tool-side inconsistency, reported as drift
        cx.diverge("EXT", "reference_total_len", json!(lay["reftotal"]), json!(rbytes.len()));
    }
    match catch(|| RtpPacket::parse(&rbytes)) {
        Ok(Ok(p3)) => {
            let h = &p3.header;
            cx.eq("RefBytesParse", "marker", &marker, &h.marker);
            cx.eq("RefBytesParse", "payload_type", &pt, &h.payload_type);
            cx.eq("RefBytesParse", "sequence_number", &seq, &h.sequence_number);
            cx.eq("RefBytesParse", "timestamp", &ts, &h.timestamp);
            cx.eq("RefBytesParse", "ssrc", &ssrc, &h.ssrc);
            cx.eq("RefBytesParse", "csrcs", &csrcs, &h.csrcs);
            cx.eq("RefBytesParse", "payload", &payload[..], &p3.payload[..]);
            cx.eq("RefBytesParse", "padding_len", &(u(&lay["refpad"]) as u8), &p3.padding_len);
            match (&h.extension, xkind.as_str()) {
                (None, "none") => {}
                (Some(x), k) if k != "none" => {
                    cx.eq("RefBytesParse", "ext_profile", &(u(&lay["profile"]) as u16), &x.profile);
                    cx.eq("RefBytesParse", "ext_data_len", &(u(&lay["xdata"]) as usize), &x.data.len());
                    if k == "raw" {
                        cx.eq("RefBytesParse", "ext_data", &rawdata[..], &x.data[..]);
                    }
                }
                (x, _) => cx.diverge("RefBytesParse", "extension_presence", json!(xkind), json!(format!("{x:?}"))),
            }
            for e in &els {
                let got = h.get_extension(e.id).map(|b| b.to_vec());
                cx.eq("ExtSetGet", "get_from_reference_bytes", &Some(e.val.clone()), &got);
            }
            // re-serialise what was parsed; the reference must read the same fields again
            match catch(|| p3.marshal()) {
                Ok(Ok(b3)) => match catch(|| rtp::packet::Packet::unmarshal(&mut &b3[..])) {
                    Ok(Ok(rp)) => ref_cmp(cx, "RefBytesParse", &rp, pad > 0),
                    other => cx.diverge("RefBytesParse", "reference_reparse", json!("Ok"), json!(trunc(format!("{other:?}")))),
                },
                other => cx.diverge("RefBytesParse", "remarshal", json!("Ok"), json!(trunc(format!("{other:?}")))),
            }
        }
        other => cx.diverge("RefBytesParse", "parse_result", json!("Ok"), json!(trunc(format!("{other:?}")))),
    }
}

// ------------------------------------------------------------------------------------------- RTCP

#[derive(Debug, Clone)]
struct LBlock {
    ssrc: u32,
    fraction: u8,
    lost: i32,       // as given by the model (possibly out of range)
    lost_canon: i32, // clamped
    lost24: u32,     // the model's prediction of the 24-bit field
    hseq: u32,
    jitter: u32,
    lsr: u32,
    dlsr: u32,
}

#[derive(Debug, Clone)]
enum L {
    Sr { ssrc: u32, ntp_most: u32, ntp_least: u32, rtp_ts: u32, pc: u32, oc: u32, blocks: Vec<LBlock> },
    Rr { ssrc: u32, blocks: Vec<LBlock> },
    Sdes { chunks: Vec<(u32, Vec<(u8, String)>)> },
    Bye { sources: Vec<u32>, reason: Option<String>, reason_canon: Option<String> },
    Pli { s: u32, m: u32 },
    Fir { s: u32, entries: Vec<(u32, u8)> },
    Nack { s: u32, m: u32, order: Vec<u16>, set: BTreeSet<u16> },
    Remb { s: u32, mant: u64, exp: u32, low: bool, ssrcs: Vec<u32> },
    Twcc { s: u32, m: u32, base: u16, count: u16, reftime: u32, fb: u8, deltas: Vec<u8>, payload: Vec<u8> },
}

fn real_seq(model: u64, bits: u32) -> u16 {
    ((65536 - (1u64 << (bits - 1)) + model) % 65536) as u16
}

fn blocks(n: usize, pattern: &[i64], lost24: &[u64], cls: &str, rng: &mut Rng) -> Vec<LBlock> {
    (0..n)
        .map(|k| {
            let v = if pattern.is_empty() { 0 } else { pattern[k % pattern.len()] };
            let l24 = if lost24.is_empty() { 0 } else { lost24[k % lost24.len()] };
            LBlock {
                ssrc: cls32(cls, rng),
                fraction: cls8(cls, rng),
                lost: v as i32,
                lost_canon: (v as i32).clamp(-(1 << 23), (1 << 23) - 1),
                lost24: l24 as u32,
                hseq: cls32(cls, rng),
                jitter: cls32(cls, rng),
                lsr: cls32(cls, rng),
                dlsr: cls32(cls, rng),
            }
        })
        .collect()
}

fn logical(part: &Value, lost24: &Value, rng: &mut Rng) -> L {
    let t = s(&part["t"]);
    let n = u(&part["n"]) as usize;
    let a: Vec<i64> = arr(&part["a"]).iter().map(i).collect();
    let l24: Vec<u64> = arr(lost24).iter().map(u).collect();
    let cls = s(&part["cls"]);
    match t {
        "SR" => L::Sr {
            ssrc: cls32(cls, rng),
            ntp_most: cls32(cls, rng),
            ntp_least: cls32(cls, rng),
            rtp_ts: cls32(cls, rng),
            pc: cls32(cls, rng),
            oc: cls32(cls, rng),
            blocks: blocks(n, &a, &l24, cls, rng),
        },
        "RR" => L::Rr { ssrc: cls32(cls, rng), blocks: blocks(n, &a, &l24, cls, rng) },
        "SDES" => L::Sdes {
            chunks: (0..n)
                .map(|_| {
                    (
                        rng.next() as u32,
                        a.iter().enumerate().map(|(k, len)| (1 + (k % 8) as u8, ascii(rng, *len as usize))).collect(),
                    )
                })
                .collect(),
        },
        "BYE" => {
            let reason = a.first().map(|len| ascii(rng, *len as usize));
            let reason_canon = reason.as_ref().map(|r| r[..r.len().min(255)].to_string());
            L::Bye { sources: (0..n).map(|_| rng.next() as u32).collect(), reason, reason_canon }
        }
        "PLI" => L::Pli { s: cls32(cls, rng), m: cls32(cls, rng) },
        "FIR" => L::Fir { s: cls32(cls, rng), entries: (0..n).map(|_| (cls32(cls, rng), cls8(cls, rng))).collect() },
        "NACK" => {
            let set: BTreeSet<u16> = a.iter().map(|v| real_seq(*v as u64, 6)).collect();
            // order in which the application hands the numbers over: shuffled, with one duplicate
            let mut order: Vec<u16> = set.iter().copied().collect();
            for k in (1..order.len()).rev() {
                let j = rng.below(k as u64 + 1) as usize;
                order.swap(k, j);
            }
            if let Some(f) = order.first().copied() {
                order.push(f);
            }
            L::Nack { s: rng.next() as u32, m: rng.next() as u32, order, set }
        }
        "REMB" => L::Remb {
            s: rng.next() as u32,
            mant: a[0] as u64,
            exp: a[1] as u32,
            low: a[2] == 1,
            ssrcs: (0..n).map(|_| rng.next() as u32).collect(),
        },
        "TWCC" => {
            let cnt = a[0] as u16;
            let deltas: Vec<u8> = (0..cnt).map(|_| 1 + rng.below(255) as u8).collect();
            let chunk: u16 = (1 << 13) | cnt; // run-length chunk, symbol "received, small delta"
            let mut payload = chunk.to_be_bytes().to_vec();
            payload.extend_from_slice(&deltas);
            L::Twcc {
                s: cls32(cls, rng),
                m: cls32(cls, rng),
                base: cls16(cls, rng),
                count: cnt,
                reftime: cls32(cls, rng) & 0x00FF_FFFF,
                fb: cls8(cls, rng),
                deltas,
                payload,
            }
        }
        x => panic!("unknown part type {x}"),
    }
}

fn to_block(b: &LBlock) -> ReportBlock {
    ReportBlock {
        ssrc: b.ssrc,
        fraction_lost: b.fraction,
        packets_lost: b.lost,
        highest_sequence: b.hseq,
        jitter: b.jitter,
        last_sender_report: b.lsr,
        delay_since_last_sender_report: b.dlsr,
    }
}

fn remb_bitrate(mant: u64, exp: u32, low: bool) -> u64 {
    (mant << exp) | if low { (1u64 << exp) - 1 } else { 0 }
}

fn to_rustrtc(l: &L) -> RtcpPacket {
    match l {
        L::Sr { ssrc, ntp_most, ntp_least, rtp_ts, pc, oc, blocks } => RtcpPacket::SenderReport(SenderReport {
            sender_ssrc: *ssrc,
            ntp_most: *ntp_most,
            ntp_least: *ntp_least,
            rtp_timestamp: *rtp_ts,
            packet_count: *pc,
            octet_count: *oc,
            report_blocks: blocks.iter().map(to_block).collect(),
        }),
        L::Rr { ssrc, blocks } => RtcpPacket::ReceiverReport(ReceiverReport {
            sender_ssrc: *ssrc,
            report_blocks: blocks.iter().map(to_block).collect(),
        }),
        L::Sdes { chunks } => RtcpPacket::SourceDescription(SourceDescription {
            chunks: chunks
                .iter()
                .map(|(ssrc, items)| SdesChunk {
                    ssrc: *ssrc,
                    items: items.iter().map(|(ty, text)| SdesItem { ty: *ty, text: text.clone() }).collect(),
                })
                .collect(),
        }),
        L::Bye { sources, reason, .. } => RtcpPacket::Goodbye(Goodbye { sources: sources.clone(), reason: reason.clone() }),
        L::Pli { s, m } => RtcpPacket::PictureLossIndication(PictureLossIndication { sender_ssrc: *s, media_ssrc: *m }),
        L::Fir { s, entries } => RtcpPacket::FullIntraRequest(FullIntraRequest {
            sender_ssrc: *s,
            requests: entries.iter().map(|(ssrc, n)| FirRequest { ssrc: *ssrc, sequence_number: *n }).collect(),
        }),
        L::Nack { s, m, order, .. } => {
            RtcpPacket::GenericNack(GenericNack { sender_ssrc: *s, media_ssrc: *m, lost_packets: order.clone() })
        }
        L::Remb { s, mant, exp, low, ssrcs } => RtcpPacket::RemoteBitrateEstimate(RemoteBitrateEstimate {
            sender_ssrc: *s,
            bitrate_bps: remb_bitrate(*mant, *exp, *low),
            ssrcs: ssrcs.clone(),
        }),
        L::Twcc { s, m, base, count, reftime, fb, payload, .. } => RtcpPacket::TransportWideCc(TransportWideCc {
            sender_ssrc: *s,
            media_ssrc: *m,
            base_sequence: *base,
            packet_status_count: *count,
            reference_time_64ms: *reftime,
            feedback_packet_count: *fb,
            payload: payload.clone(),
        }),
    }
}

fn to_ref_block(b: &LBlock) -> ReceptionReport {
    ReceptionReport {
        ssrc: b.ssrc,
        fraction_lost: b.fraction,
        total_lost: b.lost24,
        last_sequence_number: b.hseq,
        jitter: b.jitter,
        last_sender_report: b.lsr,
        delay: b.dlsr,
    }
}

fn to_ref(l: &L, pairs: Option<&Vec<(u16, u16)>>) -> RBox {
    match l {
        L::Sr { ssrc, ntp_most, ntp_least, rtp_ts, pc, oc, blocks } => Box::new(RSr {
            ssrc: *ssrc,
            ntp_time: ((*ntp_most as u64) << 32) | *ntp_least as u64,
            rtp_time: *rtp_ts,
            packet_count: *pc,
            octet_count: *oc,
            reports: blocks.iter().map(to_ref_block).collect(),
            profile_extensions: Bytes::new(),
        }),
        L::Rr { ssrc, blocks } => Box::new(RRr {
            ssrc: *ssrc,
            reports: blocks.iter().map(to_ref_block).collect(),
            profile_extensions: Bytes::new(),
        }),
        L::Sdes { chunks } => Box::new(RSdes {
            chunks: chunks
                .iter()
                .map(|(ssrc, items)| SourceDescriptionChunk {
                    source: *ssrc,
                    items: items
                        .iter()
                        .map(|(ty, text)| SourceDescriptionItem {
                            sdes_type: SdesType::from(*ty),
                            text: Bytes::from(text.clone().into_bytes()),
                        })
                        .collect(),
                })
                .collect(),
        }),
        L::Bye { sources, reason_canon, .. } => Box::new(RGoodbye {
            sources: sources.clone(),
            reason: Bytes::from(reason_canon.clone().unwrap_or_default().into_bytes()),
        }),
        L::Pli { s, m } => Box::new(RPli { sender_ssrc: *s, media_ssrc: *m }),
        L::Fir { s, entries } => Box::new(RFir {
            sender_ssrc: *s,
            media_ssrc: 0,
            fir: entries.iter().map(|(ssrc, n)| FirEntry { ssrc: *ssrc, sequence_number: *n }).collect(),
        }),
        L::Nack { s, m, set, .. } => {
            let nacks: Vec<NackPair> = match pairs {
                Some(p) => p.iter().map(|(pid, blp)| NackPair { packet_id: *pid, lost_packets: *blp }).collect(),
                None => set.iter().map(|q| NackPair { packet_id: *q, lost_packets: 0 }).collect(),
            };
            Box::new(TransportLayerNack { sender_ssrc: *s, media_ssrc: *m, nacks })
        }
        L::Remb { s, mant, exp, ssrcs, .. } => Box::new(RRemb {
            sender_ssrc: *s,
            bitrate: (*mant as f32) * 2f32.powi(*exp as i32),
            ssrcs: ssrcs.clone(),
        }),
        L::Twcc { s, m, base, count, reftime, fb, deltas, .. } => Box::new(TransportLayerCc {
            sender_ssrc: *s,
            media_ssrc: *m,
            base_sequence_number: *base,
            packet_status_count: *count,
            reference_time: *reftime,
            fb_pkt_count: *fb,
            packet_chunks: vec![PacketStatusChunk::RunLengthChunk(RunLengthChunk {
                type_tcc: StatusChunkTypeTcc::RunLengthChunk,
                packet_status_symbol: SymbolTypeTcc::PacketReceivedSmallDelta,
                run_length: *count,
            })],
            recv_deltas: deltas
                .iter()
                .map(|d| RecvDelta { type_tcc_packet: SymbolTypeTcc::PacketReceivedSmallDelta, delta: *d as i64 * 250 })
                .collect(),
        }),
    }
}

fn type_name(p: &RtcpPacket) -> &'static str {
    match p {
        RtcpPacket::SenderReport(_) => "SR",
        RtcpPacket::ReceiverReport(_) => "RR",
        RtcpPacket::SourceDescription(_) => "SDES",
        RtcpPacket::Goodbye(_) => "BYE",
        RtcpPacket::PictureLossIndication(_) => "PLI",
        RtcpPacket::FullIntraRequest(_) => "FIR",
        RtcpPacket::GenericNack(_) => "NACK",
        RtcpPacket::RemoteBitrateEstimate(_) => "REMB",
        RtcpPacket::TransportWideCc(_) => "TWCC",
    }
}
fn l_name(l: &L) -> &'static str {
    match l {
        L::Sr { .. } => "SR",
        L::Rr { .. } => "RR",
        L::Sdes { .. } => "SDES",
        L::Bye { .. } => "BYE",
        L::Pli { .. } => "PLI",
        L::Fir { .. } => "FIR",
        L::Nack { .. } => "NACK",
        L::Remb { .. } => "REMB",
        L::Twcc { .. } => "TWCC",
    }
}

fn cmp_blocks(cx: &mut Ctx, rule: &str, want: &[LBlock], got: &[ReportBlock]) {
    if !cx.eq(rule, "report_count", &want.len(), &got.len()) {
        return;
    }
    for (w, g) in want.iter().zip(got) {
        let wb = ReportBlock { packets_lost: w.lost_canon, ..to_block(w) };
        if wb != *g {
            cx.eq(rule, "block.ssrc", &wb.ssrc, &g.ssrc);
            cx.eq(rule, "block.fraction_lost", &wb.fraction_lost, &g.fraction_lost);
            cx.eq(rule, "block.packets_lost", &wb.packets_lost, &g.packets_lost);
            cx.eq(rule, "block.highest_sequence", &wb.highest_sequence, &g.highest_sequence);
            cx.eq(rule, "block.jitter", &wb.jitter, &g.jitter);
            cx.eq(rule, "block.lsr", &wb.last_sender_report, &g.last_sender_report);
            cx.eq(rule, "block.dlsr", &wb.delay_since_last_sender_report, &g.delay_since_last_sender_report);
            return;
        }
        cx.nchecks += 7;
    }
}

/// compare what rustrtc parsed with the canonical logical packets
fn cmp_rustrtc(cx: &mut Ctx, rule: &str, want: &[L], got: &[RtcpPacket]) {
    let wn: Vec<&str> = want.iter().map(l_name).collect();
    let gn: Vec<&str> = got.iter().map(type_name).collect();
    if !cx.eq(rule, "packet_types", &wn, &gn) {
        return;
    }
    for (w, g) in want.iter().zip(got) {
        let save = cx.kind.clone();
        cx.kind = format!("rtcp/{}", l_name(w));
        match (w, g) {
            (L::Sr { ssrc, ntp_most, ntp_least, rtp_ts, pc, oc, blocks }, RtcpPacket::SenderReport(x)) => {
                cx.eq(rule, "sender_ssrc", ssrc, &x.sender_ssrc);
                cx.eq(rule, "ntp_most", ntp_most, &x.ntp_most);
                cx.eq(rule, "ntp_least", ntp_least, &x.ntp_least);
                cx.eq(rule, "rtp_timestamp", rtp_ts, &x.rtp_timestamp);
                cx.eq(rule, "packet_count", pc, &x.packet_count);
                cx.eq(rule, "octet_count", oc, &x.octet_count);
                cmp_blocks(cx, rule, blocks, &x.report_blocks);
            }
            (L::Rr { ssrc, blocks }, RtcpPacket::ReceiverReport(x)) => {
                cx.eq(rule, "sender_ssrc", ssrc, &x.sender_ssrc);
                cmp_blocks(cx, rule, blocks, &x.report_blocks);
            }
            (L::Sdes { chunks }, RtcpPacket::SourceDescription(x)) => {
                let got: Vec<(u32, Vec<(u8, String)>)> = x
                    .chunks
                    .iter()
                    .map(|c| (c.ssrc, c.items.iter().map(|it| (it.ty, it.text.clone())).collect()))
                    .collect();
                if *chunks != got {
                    let wl: Vec<Vec<usize>> = chunks.iter().map(|c| c.1.iter().map(|it| it.1.len()).collect()).collect();
                    let gl: Vec<Vec<usize>> = got.iter().map(|c| c.1.iter().map(|it| it.1.len()).collect()).collect();
                    if !cx.eq(rule, "sdes_item_lengths", &wl, &gl) {
                    } else {
                        cx.eq(rule, "sdes_chunks", chunks, &got);
                    }
                } else {
                    cx.nchecks += 1;
                }
            }
            (L::Bye { sources, reason_canon, .. }, RtcpPacket::Goodbye(x)) => {
                cx.eq(rule, "sources", sources, &x.sources);
                // "no reason" and "empty reason" are the same logical packet
                let wr = reason_canon.clone().unwrap_or_default();
                let gr = x.reason.clone().unwrap_or_default();
                cx.eq(rule, "reason", &wr, &gr);
            }
            (L::Pli { s, m }, RtcpPacket::PictureLossIndication(x)) => {
                cx.eq(rule, "sender_ssrc", s, &x.sender_ssrc);
                cx.eq(rule, "media_ssrc", m, &x.media_ssrc);
            }
            (L::Fir { s, entries }, RtcpPacket::FullIntraRequest(x)) => {
                cx.eq(rule, "sender_ssrc", s, &x.sender_ssrc);
                let got: Vec<(u32, u8)> = x.requests.iter().map(|r| (r.ssrc, r.sequence_number)).collect();
                cx.eq(rule, "fir_entries", entries, &got);
            }
            (L::Nack { s, m, set, .. }, RtcpPacket::GenericNack(x)) => {
                cx.eq(rule, "sender_ssrc", s, &x.sender_ssrc);
                cx.eq(rule, "media_ssrc", m, &x.media_ssrc);
                let got: BTreeSet<u16> = x.lost_packets.iter().copied().collect();
                cx.eq("NackSet", if rule == "RoundTrip" { "lost_set" } else { "lost_set_from_reference_bytes" }, set, &got);
            }
            (L::Remb { s, mant, exp, ssrcs, .. }, RtcpPacket::RemoteBitrateEstimate(x)) => {
                cx.eq(rule, "sender_ssrc", s, &x.sender_ssrc);
                cx.eq(rule, "bitrate_bps", &(mant << exp), &x.bitrate_bps);
                cx.eq(rule, "ssrcs", ssrcs, &x.ssrcs);
            }
            (L::Twcc { s, m, base, count, reftime, fb, payload, .. }, RtcpPacket::TransportWideCc(x)) => {
                cx.eq(rule, "sender_ssrc", s, &x.sender_ssrc);
                cx.eq(rule, "media_ssrc", m, &x.media_ssrc);
                cx.eq(rule, "base_sequence", base, &x.base_sequence);
                cx.eq(rule, "packet_status_count", count, &x.packet_status_count);
                cx.eq(rule, "reference_time", reftime, &x.reference_time_64ms);
                cx.eq(rule, "feedback_packet_count", fb, &x.feedback_packet_count);
                cx.eq(rule, "twcc_payload", payload, &x.payload);
            }
            _ => unreachable!(),
        }
        cx.kind = save;
    }
}

fn cmp_ref_blocks(cx: &mut Ctx, rule: &str, want: &[LBlock], got: &[ReceptionReport]) {
    if !cx.eq(rule, "report_count", &want.len(), &got.len()) {
        return;
    }
    for (w, g) in want.iter().zip(got) {
        let wb = to_ref_block(w);
        if wb != *g {
            cx.eq(rule, "block.ssrc", &wb.ssrc, &g.ssrc);
            cx.eq(rule, "block.fraction_lost", &wb.fraction_lost, &g.fraction_lost);
            cx.eq(rule, "block.total_lost_24bit", &wb.total_lost, &g.total_lost);
            cx.eq(rule, "block.last_sequence_number", &wb.last_sequence_number, &g.last_sequence_number);
            cx.eq(rule, "block.jitter", &wb.jitter, &g.jitter);
            cx.eq(rule, "block.lsr", &wb.last_sender_report, &g.last_sender_report);
            cx.eq(rule, "block.dlsr", &wb.delay, &g.delay);
            return;
        }
        cx.nchecks += 7;
    }
}

/// compare what the reference parsed with the MODEL's logical packets
fn cmp_ref(cx: &mut Ctx, rule: &str, want: &[L], got: &[RBox]) {
    if !cx.eq(rule, "packet_count", &want.len(), &got.len()) {
        return;
    }
    for (w, g) in want.iter().zip(got) {
        let save = cx.kind.clone();
        cx.kind = format!("rtcp/{}", l_name(w));
        let any = g.as_any();
        match w {
            L::Sr { ssrc, ntp_most, ntp_least, rtp_ts, pc, oc, blocks } => match any.downcast_ref::<RSr>() {
                Some(x) => {
                    cx.eq(rule, "sender_ssrc", ssrc, &x.ssrc);
                    cx.eq(rule, "ntp_time", &(((*ntp_most as u64) << 32) | *ntp_least as u64), &x.ntp_time);
                    cx.eq(rule, "rtp_timestamp", rtp_ts, &x.rtp_time);
                    cx.eq(rule, "packet_count", pc, &x.packet_count);
                    cx.eq(rule, "octet_count", oc, &x.octet_count);
                    cmp_ref_blocks(cx, rule, blocks, &x.reports);
                }
                None => cx.diverge(rule, "reference_type", json!("SenderReport"), json!(format!("{g:?}"))),
            },
            L::Rr { ssrc, blocks } => match any.downcast_ref::<RRr>() {
                Some(x) => {
                    cx.eq(rule, "sender_ssrc", ssrc, &x.ssrc);
                    cmp_ref_blocks(cx, rule, blocks, &x.reports);
                }
                None => cx.diverge(rule, "reference_type", json!("ReceiverReport"), json!(format!("{g:?}"))),
            },
            L::Sdes { chunks } => match any.downcast_ref::<RSdes>() {
                Some(x) => {
                    let got: Vec<(u32, Vec<(u8, String)>)> = x
                        .chunks
                        .iter()
                        .map(|c| {
                            (c.source, c.items.iter().map(|it| (it.sdes_type as u8, String::from_utf8_lossy(&it.text).to_string())).collect())
                        })
                        .collect();
                    if *chunks != got {
                        let wl: Vec<Vec<usize>> = chunks.iter().map(|c| c.1.iter().map(|it| it.1.len()).collect()).collect();
                        let gl: Vec<Vec<usize>> = got.iter().map(|c| c.1.iter().map(|it| it.1.len()).collect()).collect();
                        if cx.eq(rule, "sdes_item_lengths", &wl, &gl) {
                            cx.eq(rule, "sdes_chunks", chunks, &got);
                        }
                    } else {
                        cx.nchecks += 1;
                    }
                }
                None => cx.diverge(rule, "reference_type", json!("SourceDescription"), json!(trunc(format!("{g:?}")))),
            },
            L::Bye { sources, reason_canon, .. } => match any.downcast_ref::<RGoodbye>() {
                Some(x) => {
                    cx.eq(rule, "sources", sources, &x.sources);
                    cx.eq(rule, "reason", &reason_canon.clone().unwrap_or_default().into_bytes(), &x.reason.to_vec());
                }
                None => cx.diverge(rule, "reference_type", json!("Goodbye"), json!(trunc(format!("{g:?}")))),
            },
            L::Pli { s, m } => match any.downcast_ref::<RPli>() {
                Some(x) => {
                    cx.eq(rule, "sender_ssrc", s, &x.sender_ssrc);
                    cx.eq(rule, "media_ssrc", m, &x.media_ssrc);
                }
                None => cx.diverge(rule, "reference_type", json!("PictureLossIndication"), json!(format!("{g:?}"))),
            },
            L::Fir { s, entries } => match any.downcast_ref::<RFir>() {
                Some(x) => {
                    cx.eq(rule, "sender_ssrc", s, &x.sender_ssrc);
                    cx.eq(rule, "fir_media_ssrc_is_zero", &0u32, &x.media_ssrc);
                    let got: Vec<(u32, u8)> = x.fir.iter().map(|r| (r.ssrc, r.sequence_number)).collect();
                    cx.eq(rule, "fir_entries", entries, &got);
                }
                None => cx.diverge(rule, "reference_type", json!("FullIntraRequest"), json!(format!("{g:?}"))),
            },
            L::Nack { s, m, set, .. } => match any.downcast_ref::<TransportLayerNack>() {
                Some(x) => {
                    cx.eq(rule, "sender_ssrc", s, &x.sender_ssrc);
                    cx.eq(rule, "media_ssrc", m, &x.media_ssrc);
                    let got: BTreeSet<u16> = x.nacks.iter().flat_map(|p| p.packet_list()).collect();
                    cx.eq("NackSet", "lost_set_seen_by_reference", set, &got);
                }
                None => cx.diverge(rule, "reference_type", json!("TransportLayerNack"), json!(format!("{g:?}"))),
            },
            L::Remb { s, mant, exp, ssrcs, .. } => match any.downcast_ref::<RRemb>() {
                Some(x) => {
                    cx.eq(rule, "sender_ssrc", s, &x.sender_ssrc);
                    // the reference decodes mantissa 0 as 2^23 (its IEEE-754 reconstruction has no zero case):
                    // a limitation of the oracle, not of the code under test
                    if *mant != 0 {
                        cx.eq(rule, "bitrate", &((*mant as f32) * 2f32.powi(*exp as i32)), &x.bitrate);
                    }
                    cx.eq(rule, "ssrcs", ssrcs, &x.ssrcs);
                }
                None => cx.diverge(rule, "reference_type", json!("ReceiverEstimatedMaximumBitrate"), json!(format!("{g:?}"))),
            },
            L::Twcc { s, m, base, count, reftime, fb, deltas, .. } => match any.downcast_ref::<TransportLayerCc>() {
                Some(x) => {
                    cx.eq(rule, "sender_ssrc", s, &x.sender_ssrc);
                    cx.eq(rule, "media_ssrc", m, &x.media_ssrc);
                    cx.eq(rule, "base_sequence", base, &x.base_sequence_number);
                    cx.eq(rule, "packet_status_count", count, &x.packet_status_count);
                    cx.eq(rule, "reference_time", reftime, &x.reference_time);
                    cx.eq(rule, "feedback_packet_count", fb, &x.fb_pkt_count);
                    cx.eq(rule, "twcc_chunk_count", &1usize, &x.packet_chunks.len());
                    let got: Vec<i64> = x.recv_deltas.iter().map(|d| d.delta).collect();
                    let want: Vec<i64> = deltas.iter().map(|d| *d as i64 * 250).collect();
                    cx.eq(rule, "twcc_deltas", &want, &got);
                }
                None => cx.diverge(rule, "reference_type", json!("TransportLayerCc"), json!(format!("{g:?}"))),
            },
        }
        cx.kind = save;
    }
}

/// independent walk over a compound packet: (offset, byte0, pt, words) per part
fn walk(bytes: &[u8]) -> Vec<(usize, u8, u8, usize)> {
    let mut v = Vec::new();
    let mut o = 0;
    while o + 4 <= bytes.len() {
        let words = u16::from_be_bytes([bytes[o + 2], bytes[o + 3]]) as usize;
        v.push((o, bytes[o], bytes[o + 1], words));
        o += 4 * (words + 1);
    }
    v
}

fn rtcp_case(cx: &mut Ctx, rng: &mut Rng) {
    let case = cx.case;
    let parts = arr(&case["parts"]);
    let names: Vec<&str> = parts.iter().map(|p| s(&p["t"])).collect();
    cx.kind = if parts.len() == 1 { format!("rtcp/{}", names[0]) } else { "rtcp/compound".to_string() };
    let rcs: Vec<&str> = arr(&case["rc"]).iter().map(s).collect();
    let ls: Vec<L> = parts.iter().zip(arr(&case["lost24"])).map(|(p, l24)| logical(p, l24, rng)).collect();
    let pkts: Vec<RtcpPacket> = ls.iter().map(to_rustrtc).collect();

    let any_reject = rcs.iter().any(|r| *r == "reject");
    let any_canon = rcs.iter().any(|r| *r == "canon");

    let bytes = match catch(|| marshal_rtcp_packets(&pkts)) {
        Err(p) => {
            cx.diverge("RoundTrip", "marshal_panic", json!("no panic"), json!(p));
            return;
        }
        Ok(Err(e)) => {
            cx.nchecks += 1;
            if !any_reject && !any_canon {
                cx.diverge("RoundTrip", "marshal_result", json!("Ok"), json!(format!("Err({e:?})")));
            }
            return;
        }
        Ok(Ok(b)) => b,
    };
    if any_reject {
        // no wire form exists for this logical packet: whatever was emitted is not this packet.
        // Name the field that does not fit, for the signature.
        let which: Vec<String> = parts
            .iter()
            .zip(&rcs)
            .filter(|(_, r)| **r == "reject")
            .map(|(p, _)| {
                let t = s(&p["t"]);
                let over_count = u(&p["n"]) > if t == "REMB" { 255 } else { 31 };
                format!("{t}:{}", if t == "NACK" { "empty" } else if over_count { "count" } else { "text_len" })
            })
            .collect();
        let back = catch(|| parse_rtcp_packets(&bytes, None));
        cx.diverge("Reject", &which[0], json!("Err (no wire form)"),
            json!({"marshal": format!("Ok({} bytes)", bytes.len()), "parses_back_as": trunc(format!("{back:?}"))}));
        return;
    }

    // ---- layout
    let lay = arr(&case["lay"]);
    let w = walk(&bytes);
    if cx.eq("Layout", "part_count", &parts.len(), &w.len()) {
        let mut exact = true; // offsets are predictable until a part whose length the contract leaves free
        let mut total = 0usize;
        for (k, (o, b0, pt, words)) in w.iter().enumerate() {
            let l = &lay[k];
            let t = names[k];
            let save = cx.kind.clone();
            cx.kind = format!("rtcp/{t}");
            if exact {
                cx.eq("Layout", "part_offset", &(u(&arr(&case["offs"])[k]) as usize), o);
            }
            let pbit = l["pbit"].as_bool().unwrap();
            let want_b0 = 0x80u8 | if pbit { 0x20 } else { 0 } | (u(&l["count"]) as u8);
            cx.eq("Layout", "byte0_version_padding_count", &want_b0, b0);
            cx.eq("Layout", "packet_type", &(u(&l["pt"]) as u8), pt);
            let end = o + 4 * (words + 1);
            if t == "NACK" {
                let (lo, hi) = (u(&l["words"]) as usize, u(&l["wordsmax"]) as usize);
                cx.nchecks += 1;
                if *words < lo || *words > hi {
                    cx.diverge("Layout", "length_words_range", json!([lo, hi]), json!(words));
                }
                if *words != lo {
                    exact = false;
                    cx.diverge("EXT", "nack_pairs_not_minimal", json!(lo), json!(words));
                }
            } else {
                cx.eq("Layout", "length_words", &(u(&l["words"]) as usize), words);
            }
            if pbit && end <= bytes.len() {
                cx.eq("Layout", "padding_count_octet", &(u(&l["pad"]) as u8), &bytes[end - 1]);
            }
            total = end;
            cx.kind = save;
        }
        cx.eq("Layout", "total_len", &total, &bytes.len());
        cx.eq("Layout", "total_len_multiple_of_4", &0usize, &(bytes.len() % 4));
    }

    // ---- law 1
    match catch(|| parse_rtcp_packets(&bytes, None)) {
        Ok(Ok(back)) => cmp_rustrtc(cx, "RoundTrip", &ls, &back),
        other => cx.diverge("RoundTrip", "parse_result", json!("Ok"), json!(trunc(format!("{other:?}")))),
    }
    // ---- law 2
    match catch(|| rtcp::packet::unmarshal(&mut &bytes[..])) {
        Ok(Ok(rp)) => cmp_ref(cx, "RefAgrees", &ls, &rp),
        other => cx.diverge("RefAgrees", "reference_parse", json!("Ok"), json!(trunc(format!("{other:?}")))),
    }
    // ---- law 3 (only for packets the reference can express exactly: range class "in")
    if any_canon {
        return;
    }
    let refs: Vec<RBox> = ls.iter().map(|l| to_ref(l, None)).collect();
    let rbytes = match catch(|| rtcp::packet::marshal(&refs)) {
        Ok(Ok(b)) => b,
        _ => return,
    };
    match catch(|| parse_rtcp_packets(&rbytes, None)) {
        Ok(Ok(p3)) => {
            cmp_rustrtc(cx, "RefBytesParse", &ls, &p3);
            match catch(|| marshal_rtcp_packets(&p3)) {
                Ok(Ok(b3)) => match catch(|| rtcp::packet::unmarshal(&mut &b3[..])) {
                    Ok(Ok(rp)) => cmp_ref(cx, "RefBytesParse", &ls, &rp),
                    other => cx.diverge("RefBytesParse", "reference_reparse", json!("Ok"), json!(trunc(format!("{other:?}")))),
                },
                other => cx.diverge("RefBytesParse", "remarshal", json!("Ok"), json!(trunc(format!("{other:?}")))),
            }
        }
        other => cx.diverge("RefBytesParse", "parse_result", json!("Ok"), json!(trunc(format!("{other:?}")))),
    }
}

// ------------------------------------------------------------------------------------------- foreign wire input (EXT)

fn foreign_case(cx: &mut Ctx, rng: &mut Rng) {
    let case = cx.case;
    cx.kind = "foreign".to_string();
    let parts = arr(&case["parts"]);
    let mut refs: Vec<RBox> = Vec::new();
    let mut survivors: Vec<L> = Vec::new();
    let mut rembx: Vec<bool> = Vec::new(); // per survivor: out-of-range REMB
    for (p, l24) in parts.iter().zip(arr(&case["lost24"])) {
        let n = u(&p["n"]) as usize;
        match s(&p["t"]) {
            "RRR" => refs.push(Box::new(RapidResynchronizationRequest { sender_ssrc: rng.next() as u32, media_ssrc: rng.next() as u32 })),
            "SLI" => refs.push(Box::new(SliceLossIndication {
                sender_ssrc: rng.next() as u32,
                media_ssrc: rng.next() as u32,
                sli_entries: (0..n).map(|k| SliEntry { first: k as u16, number: 1, picture: 3 }).collect(),
            })),
            "XR" => refs.push(Box::new(ExtendedReport { sender_ssrc: rng.next() as u32, reports: vec![] })),
            "REMBX" => {
                let a: Vec<i64> = arr(&p["a"]).iter().map(i).collect();
                let l = L::Remb { s: rng.next() as u32, mant: a[0] as u64, exp: a[1] as u32, low: false,
                                  ssrcs: (0..n).map(|_| rng.next() as u32).collect() };
                refs.push(to_ref(&l, None));
                survivors.push(l);
                rembx.push(true);
            }
            _ => {
                let l = logical(p, l24, rng);
                refs.push(to_ref(&l, None));
                survivors.push(l);
                rembx.push(false);
            }
        }
    }
    let rbytes = match catch(|| rtcp::packet::marshal(&refs)) {
        Ok(Ok(b)) => b,
        other => {
            cx.diverge("EXT", "reference_marshal", json!("Ok"), json!(trunc(format!("{other:?}"))));
            return;
        }
    };
    let total: u64 = arr(&case["lens"]).iter().map(u).sum();
    if total as usize != rbytes.len() {
        cx.diverge("EXT", "foreign_total_len_model_vs_reference", json!(total), json!(rbytes.len()));
    }
    cx.nchecks += 1;
    match catch(|| parse_rtcp_packets(&rbytes, None)) {
        Ok(Ok(got)) => {
            let wn: Vec<&str> = survivors.iter().map(l_name).collect();
            let gn: Vec<&str> = got.iter().map(type_name).collect();
            if wn != gn {
                cx.diverge("EXT", "foreign_supported_parts_delivered", json!(wn), json!(gn));
                return;
            }
            for ((w, g), over) in survivors.iter().zip(&got).zip(&rembx) {
                if *over {
                    // value >= 2^64: refused (handled above as Err) or saturated, never silently wrapped
                    if let RtcpPacket::RemoteBitrateEstimate(x) = g
                        && x.bitrate_bps != u64::MAX
                    {
                        cx.diverge("EXT", "remb_over_u64_wraps", json!("Err or u64::MAX"), json!(x.bitrate_bps));
                    }
                } else {
                    // a supported part next to a foreign one is an ordinary wire packet: the listed property applies
                    cmp_rustrtc(cx, "RefBytesParse", std::slice::from_ref(w), std::slice::from_ref(g));
                }
            }
        }
        Ok(Err(e)) => {
            let only_rembx = parts.iter().all(|p| !matches!(s(&p["t"]), "RRR" | "SLI" | "XR"));
            if !(only_rembx && rembx.iter().any(|b| *b)) {
                cx.diverge("EXT", "foreign_part_rejects_whole_compound", json!("Ok (foreign parts skipped)"), json!(format!("Err({e:?})")));
            }
        }
        Err(p) => cx.diverge("RefBytesParse", "parse_panic", json!("no panic"), json!(p)),
    }
}

// ------------------------------------------------------------------------------------------- ext Set/Get

fn ext_value(id: u64, len: u64, ver: u64, seed: u64) -> Vec<u8> {
    let mut r = Rng(seed ^ (id << 40) ^ (len << 20) ^ ver ^ 0xABCD_EF01);
    r.bytes(len as usize)
}

fn ext_case(cx: &mut Ctx, rng: &mut Rng) {
    let case = cx.case;
    let base = s(&case["base"]);
    cx.kind = format!("ext/{base}");
    let seed = rng.next();
    // ---- base header
    let mut header = match base {
        "fresh" => RtpHeader::new(96, 7, 1234, 0x0102_0304),
        "padded1" => {
            // a well-formed, non-canonical one-byte block: padding octets before, between and after the elements
            let mut d = vec![0u8];
            d.push((3 << 4) | 1);
            d.extend(ext_value(3, 2, 0, seed));
            d.extend([0u8, 0]);
            d.push((9 << 4) | 15);
            d.extend(ext_value(9, 16, 0, seed));
            while d.len() % 4 != 0 {
                d.push(0);
            }
            let mut b = vec![0x90u8, 96, 0, 7, 0, 0, 4, 210, 1, 2, 3, 4, 0xBE, 0xDE, 0, (d.len() / 4) as u8];
            b.extend(&d);
            b.extend([1u8, 2, 3]);
            match RtpPacket::parse(&b) {
                Ok(p) => p.header,
                Err(e) => {
                    cx.diverge("RefBytesParse", "parse_result", json!("Ok"), json!(format!("{e:?}")));
                    return;
                }
            }
        }
        _ => {
            // obtained from the wire: serialised by the reference, parsed by rustrtc
            let two = base == "parsed2";
            let els: Vec<(u8, u64)> = if two { vec![(3, 2), (200, 40)] } else { vec![(3, 2), (9, 16)] };
            let h = rtp::header::Header {
                version: 2,
                extension: true,
                payload_type: 96,
                sequence_number: 7,
                timestamp: 1234,
                ssrc: 0x0102_0304,
                extension_profile: if two { 0x1000 } else { 0xBEDE },
                extensions: els
                    .iter()
                    .map(|(id, len)| rtp::header::Extension {
                        id: *id,
                        payload: Bytes::from(ext_value(*id as u64, *len, 0, seed)),
                    })
                    .collect(),
                ..Default::default()
            };
            let b = rtp::packet::Packet { header: h, payload: Bytes::from_static(&[1, 2, 3]) }.marshal().expect("ref marshal");
            match RtpPacket::parse(&b) {
                Ok(p) => p.header,
                Err(e) => {
                    cx.diverge("RefBytesParse", "parse_result", json!("Ok"), json!(format!("{e:?}")));
                    return;
                }
            }
        }
    };
    // ---- apply the history
    let ops = arr(&case["ops"]);
    let mut last: Option<Result<(), String>> = None;
    for (k, o) in ops.iter().enumerate() {
        let (id, len) = (u(&o["id"]), u(&o["len"]));
        let val = ext_value(id, len, k as u64 + 1, seed);
        last = Some(match catch(|| header.set_extension(id as u8, &val)) {
            Ok(Ok(())) => Ok(()),
            Ok(Err(e)) => Err(format!("{e:?}")),
            Err(p) => Err(format!("panic: {p}")),
        });
    }
    let want_ok = s(&case["res"]) == "ok";
    let got_ok = matches!(last, Some(Ok(())));
    cx.nchecks += 1;
    if want_ok != got_ok {
        cx.diverge("ExtSetGet", "set_result", json!(case["res"]), json!(format!("{last:?}")));
    }
    if let Some(Err(e)) = &last
        && e.starts_with("panic")
    {
        cx.diverge("ExtSetGet", "set_panic", json!("no panic"), json!(e));
    }
    // ---- expected map: id -> value
    let mut want: BTreeMap<u8, Vec<u8>> = BTreeMap::new();
    for e in arr(&case["map"]) {
        want.insert(u(&e["id"]) as u8, ext_value(u(&e["id"]), u(&e["len"]), u(&e["ver"]), seed));
    }
    let probe = |h: &RtpHeader| -> BTreeMap<u8, Vec<u8>> {
        (0..=255u8).filter_map(|id| h.get_extension(id).map(|b| (id, b.to_vec()))).collect()
    };
    let got = probe(&header);
    if got != want {
        // which side of the property: the value just set, or another element disturbed
        let last_id = ops.last().map(|o| u(&o["id"]) as u8);
        let field = if last_id.is_some() && got.get(&last_id.unwrap()) != want.get(&last_id.unwrap()) {
            "get_returns_value_set"
        } else {
            "other_elements_intact"
        };
        cx.eq("ExtSetGet", field, &want, &got);
    } else {
        cx.nchecks += 1;
    }
    // ---- the block stays a valid wire block
    let packet = RtpPacket::new(header.clone(), vec![9, 9, 9]);
    match catch(|| packet.marshal()) {
        Ok(Ok(bytes)) => {
            if let Some(x) = &header.extension {
                cx.eq("Layout", "ext_data_multiple_of_4", &0usize, &(x.data.len() % 4));
                let rebuilt = arr(&case["map"]).iter().any(|e| u(&e["ver"]) > 0);
                if base != "parsed2" && (base != "padded1" || rebuilt) && x.data.len() != u(&case["datalen"]) as usize {
                    cx.diverge("EXT", "ext_block_not_compact", json!(case["datalen"]), json!(x.data.len()));
                }
            }
            match catch(|| RtpPacket::parse(&bytes)) {
                Ok(Ok(back)) => {
                    cx.eq("RoundTrip", "extension_after_set", &packet.header.extension, &back.header.extension);
                    let g2 = probe(&back.header);
                    cx.eq("ExtSetGet", "get_after_wire_roundtrip", &want, &g2);
                }
                other => cx.diverge("RoundTrip", "parse_result", json!("Ok"), json!(trunc(format!("{other:?}")))),
            }
            match catch(|| rtp::packet::Packet::unmarshal(&mut &bytes[..])) {
                Ok(Ok(rp)) => {
                    let gm: BTreeMap<u8, Vec<u8>> = rp.header.extensions.iter().map(|e| (e.id, e.payload.to_vec())).collect();
                    cx.eq("RefAgrees", "extension_elements", &want, &gm);
                }
                other => cx.diverge("RefAgrees", "reference_parse", json!("Ok"), json!(trunc(format!("{other:?}")))),
            }
        }
        other => cx.diverge("RoundTrip", "marshal_result", json!("Ok"), json!(trunc(format!("{other:?}")))),
    }
}

// ------------------------------------------------------------------------------------------- NACK sets

fn nack_case(cx: &mut Ctx, rng: &mut Rng) {
    let case = cx.case;
    cx.kind = "nack".to_string();
    let real: Vec<u16> = arr(&case["real"]).iter().map(|v| u(v) as u16).collect();
    let set: BTreeSet<u16> = real.iter().copied().collect();
    let mut order = real.clone();
    for k in (1..order.len()).rev() {
        let j = rng.below(k as u64 + 1) as usize;
        order.swap(k, j);
    }
    if rng.below(2) == 0 {
        order.push(order[0]);
    }
    let (sender, media) = (rng.next() as u32, rng.next() as u32);
    let l = L::Nack { s: sender, m: media, order, set: set.clone() };
    let pkt = to_rustrtc(&l);
    let bytes = match catch(|| marshal_rtcp_packets(std::slice::from_ref(&pkt))) {
        Ok(Ok(b)) => b,
        other => {
            cx.diverge("RoundTrip", "marshal_result", json!("Ok"), json!(trunc(format!("{other:?}"))));
            return;
        }
    };
    let (lo, hi) = (u(&case["minpairs"]) as usize, u(&case["maxpairs"]) as usize);
    let npairs = (bytes.len().saturating_sub(12)) / 4;
    cx.nchecks += 1;
    if bytes.len() % 4 != 0 || npairs < lo || npairs > hi {
        cx.diverge("Layout", "nack_pair_count_range", json!([lo, hi]), json!({"len": bytes.len(), "pairs": npairs}));
    } else if npairs != lo {
        cx.diverge("EXT", "nack_pairs_not_minimal", json!(lo), json!(npairs));
    }
    if bytes.len() >= 4 {
        cx.eq("Layout", "byte0_version_padding_count", &0x81u8, &bytes[0]);
        cx.eq("Layout", "packet_type", &205u8, &bytes[1]);
        cx.eq("Layout", "length_words", &(bytes.len() / 4 - 1), &(u16::from_be_bytes([bytes[2], bytes[3]]) as usize));
    }
    match catch(|| parse_rtcp_packets(&bytes, None)) {
        Ok(Ok(back)) => cmp_rustrtc(cx, "RoundTrip", std::slice::from_ref(&l), &back),
        other => cx.diverge("RoundTrip", "parse_result", json!("Ok"), json!(trunc(format!("{other:?}")))),
    }
    match catch(|| rtcp::packet::unmarshal(&mut &bytes[..])) {
        Ok(Ok(rp)) => cmp_ref(cx, "RefAgrees", std::slice::from_ref(&l), &rp),
        other => cx.diverge("RefAgrees", "reference_parse", json!("Ok"), json!(trunc(format!("{other:?}")))),
    }
    // the MODEL's (wrap-aware) packing put on the wire by the reference, read by rustrtc
    let pairs: Vec<(u16, u16)> = arr(&case["pairs"]).iter().map(|p| (u(&p["pid"]) as u16, u(&p["blp"]) as u16)).collect();
    let refs: Vec<RBox> = vec![to_ref(&l, Some(&pairs))];
    if let Ok(Ok(rbytes)) = catch(|| rtcp::packet::marshal(&refs)) {
        match catch(|| parse_rtcp_packets(&rbytes, None)) {
            Ok(Ok(p3)) => cmp_rustrtc(cx, "RefBytesParse", std::slice::from_ref(&l), &p3),
            other => cx.diverge("RefBytesParse", "parse_result", json!("Ok"), json!(trunc(format!("{other:?}")))),
        }
    }
}

// ------------------------------------------------------------------------------------------- RTX

fn ts_of(cls: &str, seed: u64) -> u32 {
    match cls {
        "lo" => 0,
        "hi" => u32::MAX,
        _ => (seed >> 7) as u32,
    }
}

fn rtx_case(cx: &mut Ctx, rng: &mut Rng) {
    let case = cx.case;
    cx.kind = "rtx".to_string();
    let o = &case["c"]["orig"];
    let seed = rng.next();
    const PRIMARY_SSRC: u32 = 0xAABB_CCDD;
    const RTX_SSRC: u32 = 0x1122_3344;
    let ssrc_of = |name: &str| if name == "rtx" { RTX_SSRC } else { PRIMARY_SSRC };
    let pay: Vec<u8> = arr(&o["pay"]).iter().map(|v| u(v) as u8).collect();
    let mut h = RtpHeader::new(u(&o["pt"]) as u8, u(&o["seq"]) as u16, ts_of(s(&o["ts"]), seed), PRIMARY_SSRC);
    h.marker = o["marker"].as_bool().unwrap();
    let extras = o["extras"].as_bool().unwrap();
    if extras {
        h.csrcs = vec![5, 6];
        let _ = h.set_extension(3, &[1, 2, 3]);
    }
    let orig = RtpPacket { header: h, payload: Bytes::from(pay.clone()), padding_len: if extras { 4 } else { 0 } };
    let cfg = RtxSenderConfig { rtx_ssrc: RTX_SSRC, rtx_payload_type: 97 };
    let rtxseq = u(&case["c"]["rtxseq"]) as u16;
    let wrapped = match catch(|| wrap_rtx_packet(&orig, &cfg, rtxseq)) {
        Ok(w) => w,
        Err(p) => {
            cx.diverge("RtxRestore", "wrap_panic", json!("no panic"), json!(p));
            return;
        }
    };
    let w = &case["wrap"];
    let wpay: Vec<u8> = arr(&w["pay"]).iter().map(|v| u(v) as u8).collect();
    cx.eq("RtxRestore", "wrap.sequence_number", &(u(&w["seq"]) as u16), &wrapped.header.sequence_number);
    cx.eq("RtxRestore", "wrap.timestamp", &ts_of(s(&w["ts"]), seed), &wrapped.header.timestamp);
    cx.eq("RtxRestore", "wrap.marker", &w["marker"].as_bool().unwrap(), &wrapped.header.marker);
    cx.eq("RtxRestore", "wrap.payload_type", &(u(&w["pt"]) as u8), &wrapped.header.payload_type);
    cx.eq("RtxRestore", "wrap.ssrc", &ssrc_of(s(&w["ssrc"])), &wrapped.header.ssrc);
    cx.eq("RtxRestore", "wrap.payload_osn_then_original", &wpay[..], &wrapped.payload[..]);
    cx.eq("RtxRestore", "osn_helpers", &Some(u(&o["seq"]) as u16), &decode_osn(&encode_osn(u(&o["seq"]) as u16)));

    // over the wire
    let bytes = match catch(|| wrapped.marshal()) {
        Ok(Ok(b)) => b,
        other => {
            cx.diverge("RoundTrip", "marshal_result", json!("Ok"), json!(trunc(format!("{other:?}"))));
            return;
        }
    };
    match catch(|| rtp::packet::Packet::unmarshal(&mut &bytes[..])) {
        Ok(Ok(rp)) => {
            cx.eq("RefAgrees", "sequence_number", &rtxseq, &rp.header.sequence_number);
            cx.eq("RefAgrees", "ssrc", &RTX_SSRC, &rp.header.ssrc);
            cx.eq("RefAgrees", "payload", &wpay[..], &rp.payload[..]);
            cx.eq("RefAgrees", "marker", &w["marker"].as_bool().unwrap(), &rp.header.marker);
        }
        other => cx.diverge("RefAgrees", "reference_parse", json!("Ok"), json!(trunc(format!("{other:?}")))),
    }
    let received = match catch(|| RtpPacket::parse(&bytes)) {
        Ok(Ok(p)) => p,
        other => {
            cx.diverge("RoundTrip", "parse_result", json!("Ok"), json!(trunc(format!("{other:?}"))));
            return;
        }
    };
    cx.eq("RoundTrip", "rtx_packet", &wrapped, &received);

    let un = &case["un"];
    match catch(|| unwrap_rtx_packet(&received, PRIMARY_SSRC, 96)) {
        Ok(Some(r)) => {
            cx.eq("RtxRestore", "unwrap.ok", &un["ok"].as_bool().unwrap(), &true);
            let upay: Vec<u8> = arr(&un["pay"]).iter().map(|v| u(v) as u8).collect();
            cx.eq("RtxRestore", "restored.sequence_number", &(u(&un["seq"]) as u16), &r.header.sequence_number);
            cx.eq("RtxRestore", "restored.timestamp", &ts_of(s(&un["ts"]), seed), &r.header.timestamp);
            cx.eq("RtxRestore", "restored.marker", &un["marker"].as_bool().unwrap(), &r.header.marker);
            cx.eq("RtxRestore", "restored.payload", &upay[..], &r.payload[..]);
            cx.eq("RtxRestore", "restored.payload_type", &(u(&un["pt"]) as u8), &r.header.payload_type);
            cx.eq("RtxRestore", "restored.ssrc", &ssrc_of(s(&un["ssrc"])), &r.header.ssrc);
            // and against the original object itself
            cx.eq("RtxRestore", "restored_equals_original.seq", &orig.header.sequence_number, &r.header.sequence_number);
            cx.eq("RtxRestore", "restored_equals_original.payload", &orig.payload, &r.payload);
        }
        Ok(None) => cx.diverge("RtxRestore", "unwrap.ok", json!(un["ok"]), json!(false)),
        Err(p) => cx.diverge("RtxRestore", "unwrap_panic", json!("no panic"), json!(p)),
    }
    // an RTX packet shorter than the OSN cannot be unwrapped
    for n in 0..2usize {
        let short = RtpPacket { header: received.header.clone(), payload: received.payload.slice(..n), padding_len: 0 };
        let r = catch(|| unwrap_rtx_packet(&short, PRIMARY_SSRC, 96).is_none());
        cx.eq("RtxRestore", "short_payload_refused", &Ok(true), &r);
    }
}

// ------------------------------------------------------------------------------------------- sender NACK buffer (EXT)

fn buf_case(cx: &mut Ctx, rt: &tokio::runtime::Runtime) {
    let case = cx.case;
    cx.kind = "buf".to_string();
    let cap = u(&case["cap"]) as usize;
    let h = DefaultRtpSenderNackHandler::new(cap);
    let addr = addr_of("A");
    let t0 = Instant::now();
    let mut clock = Duration::ZERO;
    let mk = |seq: u16, ver: u8| RtpPacket::new(RtpHeader::new(96, seq, 1000, 0x5555), vec![ver, (seq >> 8) as u8, seq as u8]);
    let mut last_out: Vec<(u16, u8)> = Vec::new();
    for (k, o) in arr(&case["ops"]).iter().enumerate() {
        last_out.clear();
        match s(&o["op"]) {
            "push" => {
                let p = mk(u(&o["seq"]) as u16, k as u8 + 1);
                if let Err(e) = catch(|| block_on(rt, h.on_packet_sent(&p, addr, addr))) {
                    cx.diverge("EXT", "buf_push_panic", json!("no panic"), json!(e));
                    return;
                }
            }
            "nack" => {
                let seqs: Vec<u16> = arr(&o["seqs"]).iter().map(|v| u(v) as u16).collect();
                match catch(|| h.packets_for_nack(&seqs, t0 + clock)) {
                    Ok(v) => last_out = v.iter().map(|p| (p.header.sequence_number, p.payload[0])).collect(),
                    Err(e) => {
                        cx.diverge("EXT", "buf_nack_panic", json!("no panic"), json!(e));
                        return;
                    }
                }
            }
            "tick" => clock += Duration::from_millis(25),
            x => panic!("unknown buf op {x}"),
        }
    }
    let want_out: Vec<(u16, u8)> = arr(&case["out"]).iter().map(|e| (u(&e["seq"]) as u16, u(&e["ver"]) as u8)).collect();
    cx.nchecks += 2;
    if want_out != last_out {
        cx.diverge("EXT", "buf_nack_answer", json!(format!("{want_out:?}")), json!(format!("{last_out:?}")));
    }
    let fifo: BTreeSet<(u16, u8)> = arr(&case["fifo"]).iter().map(|e| (u(&e["seq"]) as u16, u(&e["ver"]) as u8)).collect();
    if fifo.len() != h.buffered_packet_count() {
        cx.diverge("EXT", "buf_retained_count", json!(fifo.len()), json!(h.buffered_packet_count()));
    }
    // final probe, long after any cooldown: exactly the retained packets, latest version of each
    let all: Vec<u16> = vec![65533, 65534, 65535, 0, 1, 2];
    let got: BTreeSet<(u16, u8)> = h
        .packets_for_nack(&all, t0 + clock + Duration::from_secs(10))
        .iter()
        .map(|p| (p.header.sequence_number, p.payload[0]))
        .collect();
    if fifo != got {
        cx.diverge("EXT", "buf_retained_set", json!(format!("{fifo:?}")), json!(format!("{got:?}")));
    }
}

// ------------------------------------------------------------------------------------------- receiver gap detector (EXT)

fn gap_case(cx: &mut Ctx, rt: &tokio::runtime::Runtime) {
    let case = cx.case;
    cx.kind = "gap".to_string();
    let h = Arc::new(DefaultRtpReceiverNackHandler::new());
    let addr = addr_of("A");
    let mut last: Option<RtcpPacket> = None;
    let mut last_ssrc = 0u32;
    for o in arr(&case["ops"]) {
        last_ssrc = 0x1111 * u(&o["ssrc"]) as u32;
        let p = RtpPacket::new(RtpHeader::new(96, u(&o["seq"]) as u16, 0, last_ssrc), vec![0]);
        match catch(|| block_on(rt, h.on_packet_received(&p, addr, addr))) {
            Ok(r) => last = r,
            Err(e) => {
                cx.diverge("EXT", "gap_panic", json!("no panic"), json!(e));
                return;
            }
        }
    }
    let want: Vec<u16> = arr(&case["out"]).iter().map(|v| u(v) as u16).collect();
    cx.nchecks += 3;
    match &last {
        None => {
            if !want.is_empty() {
                cx.diverge("EXT", "gap_report", json!(format!("{want:?}")), json!("None"));
            }
        }
        Some(RtcpPacket::GenericNack(n)) => {
            if n.lost_packets != want {
                cx.diverge("EXT", "gap_report", json!(trunc(format!("{want:?}"))), json!(trunc(format!("{:?}", n.lost_packets))));
            }
            if n.media_ssrc != last_ssrc {
                cx.diverge("EXT", "gap_media_ssrc", json!(last_ssrc), json!(n.media_ssrc));
            }
            // the report survives the wire (C15 proper: NACK packing preserves the set)
            let l = L::Nack { s: 1, m: n.media_ssrc, order: n.lost_packets.clone(), set: n.lost_packets.iter().copied().collect() };
            let pk = RtcpPacket::GenericNack(GenericNack { sender_ssrc: 1, ..n.clone() });
            match catch(|| marshal_rtcp_packets(std::slice::from_ref(&pk)).and_then(|b| parse_rtcp_packets(&b, None))) {
                Ok(Ok(back)) => cmp_rustrtc(cx, "RoundTrip", std::slice::from_ref(&l), &back),
                other => cx.diverge("RoundTrip", "nack_wire", json!("Ok"), json!(trunc(format!("{other:?}")))),
            }
        }
        Some(other) => cx.diverge("EXT", "gap_report", json!("GenericNack"), json!(format!("{other:?}"))),
    }
    let sent = h.nack_sent_count.load(Ordering::Relaxed);
    if sent != u(&case["sent"]) {
        cx.diverge("EXT", "gap_sent_count", json!(case["sent"]), json!(sent));
    }
    if !case["fuzzy"].as_bool().unwrap() {
        let rec = h.clone().get_recovered_count();
        if rec != u(&case["rec"]) {
            cx.diverge("EXT", "gap_recovered_count", json!(case["rec"]), json!(rec));
        }
    }
}

// ------------------------------------------------------------------------------------------- main

fn main() {
    let args: Vec<String> = std::env::args().collect();
    if args.len() < 3 {
        eprintln!("usage: rtpwire <cases.ndjson> <out.ndjson>");
        std::process::exit(2);
    }
    quiet_panics();
    let seed = Rng::from_env().0;
    let rt = tokio::runtime::Builder::new_current_thread().enable_all().build().expect("runtime");
    let mut out = NdjsonOut::create(&args[2]);
    let mut per_sig: HashMap<String, u64> = HashMap::new();
    let mut cases = 0u64;
    let mut checks = 0u64;
    let mut divs = 0u64;
    let mut nontrivial: std::collections::HashSet<u64> = std::collections::HashSet::new();
    let mut by_mode: BTreeMap<String, u64> = BTreeMap::new();

    let f = std::fs::File::open(&args[1]).unwrap_or_else(|e| panic!("open {}: {e}", args[1]));
    use std::io::BufRead;
    for line in std::io::BufReader::new(f).lines() {
        let line = line.expect("read");
        let t = line.trim();
        if t.is_empty() {
            continue;
        }
        let case: Value = serde_json::from_str(t).unwrap_or_else(|e| panic!("bad case json: {e}: {t}"));
        let h = fnv(t);
        let mut rng = Rng(seed ^ h);
        let mode = s(&case["mode"]).to_string();
        let mut cx = Ctx { out: &mut out, case: &case, kind: mode.clone(), per_sig: &mut per_sig, ndiv: 0, nchecks: 0 };
        let r = catch(|| match mode.as_str() {
            "rtp" => rtp_case(&mut cx, &mut rng),
            "rtcp" => rtcp_case(&mut cx, &mut rng),
            "foreign" => foreign_case(&mut cx, &mut rng),
            "ext" => ext_case(&mut cx, &mut rng),
            "nack" => nack_case(&mut cx, &mut rng),
            "rtx" => rtx_case(&mut cx, &mut rng),
            "buf" => buf_case(&mut cx, &rt),
            "gap" => gap_case(&mut cx, &rt),
            x => panic!("unknown mode {x}"),
        });
        if let Err(p) = r {
            // a panic outside the guarded calls is a harness bug, not a verdict
            eprintln!("harness panic on case {t}: {p}");
            std::process::exit(3);
        }
        cases += 1;
        checks += cx.nchecks;
        divs += cx.ndiv;
        if cx.nchecks > 0 {
            nontrivial.insert(h);
        }
        *by_mode.entry(mode).or_insert(0) += 1;
    }
    out.push(&json!({"type": "summary", "cases": cases, "checks": checks, "divergences": divs,
        "distinct_nontrivial": nontrivial.len(), "by_mode": by_mode,
        "per_signature": per_sig.iter().map(|(k, v)| (k.clone(), json!(v))).collect::<serde_json::Map<String, Value>>()}));
    out.finish();
}
