//! EXT04 - replay of NackLoop.tla edges on the real NACK -> retransmission -> unwrap loop:
//! DefaultRtpSenderNackHandler + RtpTransport::send_rtp on a loopback socket, DefaultRtpReceiverNackHandler,
//! marshal / parse of the NACK and of every media packet, rtx::unwrap_rtx_packet.
//! usage: nackloop <edges.ndjson> <out.ndjson> [shard i/n]
//!
//! Every edge runs in a fresh world. What the transport put on the wire is read back from the peer socket up to a
//! sentinel datagram sent through a dup of the transport's own socket (no timeouts decide anything). Rows:
//! "replay" = the real loop differs from the pinned model; "contract" = judged on the real packets alone
//! (Restores: a retransmission, unwrapped, equals the packet as it went on the wire; RtxNumbers; Answered).
use rtcverif::*;
use rustrtc::peer_connection::{
    DefaultRtpReceiverNackHandler, DefaultRtpSenderNackHandler, NackStats, RtpReceiverInterceptor, RtpSenderInterceptor,
};
use rustrtc::rtp::{GenericNack, RtcpPacket, RtpHeader, RtpPacket, marshal_rtcp_packets, parse_rtcp_packets};
use rustrtc::rtx::{RtxSenderConfig, unwrap_rtx_packet};
use rustrtc::transports::ice::IceSocketWrapper;
use rustrtc::transports::ice::conn::IceConn;
use rustrtc::transports::rtp::RtpTransport;
use serde_json::{Value, json};
use std::collections::{BTreeSet, HashMap};
use std::net::SocketAddr;
use std::sync::Arc;
use std::sync::atomic::Ordering;
use std::time::{Duration, Instant};
use tokio::sync::watch;

const PRIMARY_SSRC: u32 = 0x0A0B_0C0D;
const RTX_SSRC: u32 = 0x5566_7788;
const COOLDOWN: Duration = Duration::from_millis(25);

fn seq_of(i: i64) -> u16 {
    ((65533 + i).rem_euclid(65536)) as u16
}
fn idx_of(seq: u16) -> i64 {
    (seq as i64 - 65533).rem_euclid(65536)
}
fn primary(i: i64) -> RtpPacket {
    let mut h = RtpHeader::new(96, seq_of(i), 1000 + 160 * i as u32, PRIMARY_SSRC);
    h.marker = i % 3 == 0;
    RtpPacket::new(h, vec![i as u8, (i + 1) as u8, (i + 2) as u8, 0xAB])
}

struct World {
    tr: Arc<RtpTransport>,
    _conn: Arc<IceConn>,
    _tx: watch::Sender<Option<IceSocketWrapper>>,
    side: std::net::UdpSocket,
    peer: std::net::UdpSocket,
    peer_addr: SocketAddr,
    sock_addr: SocketAddr,
    sentinel: u64,
    sender: Arc<DefaultRtpSenderNackHandler>,
    receiver: Arc<DefaultRtpReceiverNackHandler>,
}

async fn world(cap: usize, rtx: bool) -> World {
    let raw = std::net::UdpSocket::bind("127.0.0.1:0").expect("bind");
    raw.set_nonblocking(true).unwrap();
    let side = raw.try_clone().expect("dup");
    let s = tokio::net::UdpSocket::from_std(raw).expect("from_std");
    s.writable().await.unwrap();
    let sock_addr = s.local_addr().unwrap();
    let peer = std::net::UdpSocket::bind("127.0.0.1:0").expect("bind");
    peer.set_read_timeout(Some(Duration::from_secs(20))).unwrap();
    let peer_addr = peer.local_addr().unwrap();
    let (tx, rx) = watch::channel(Some(IceSocketWrapper::Udp(Arc::new(s))));
    let conn = IceConn::new(rx, peer_addr, None);
    let tr = Arc::new(RtpTransport::new(conn.clone(), false));
    let sender = Arc::new(DefaultRtpSenderNackHandler::new(cap));
    if rtx {
        sender.set_rtx(Some(RtxSenderConfig { rtx_ssrc: RTX_SSRC, rtx_payload_type: 97 }));
    }
    World { tr, _conn: conn, _tx: tx, side, peer, peer_addr, sock_addr, sentinel: 0, sender,
            receiver: Arc::new(DefaultRtpReceiverNackHandler::new()) }
}

impl World {
    /// everything the transport put on the wire since the previous call
    fn capture(&mut self) -> Vec<Vec<u8>> {
        self.sentinel += 1;
        let mut s = b"SENTINEL".to_vec();
        s.extend_from_slice(&self.sentinel.to_be_bytes());
        loop {
            match self.side.send_to(&s, self.peer_addr) {
                Ok(_) => break,
                Err(e) if e.kind() == std::io::ErrorKind::WouldBlock => std::thread::sleep(Duration::from_millis(1)),
                Err(e) => panic!("TOOL: sentinel send: {e}"),
            }
        }
        let mut out = Vec::new();
        let mut buf = [0u8; 4096];
        loop {
            let (n, from) = self.peer.recv_from(&mut buf).unwrap_or_else(|e| panic!("TOOL: sentinel not received: {e}"));
            if from != self.sock_addr {
                continue;
            }
            if buf[..n] == s[..] {
                return out;
            }
            out.push(buf[..n].to_vec());
        }
    }
}

#[derive(Default)]
struct Outcome {
    nack: Vec<i64>,
    resent: Vec<Value>,
    recovered: Vec<i64>,
}

struct Run {
    w: World,
    wire: HashMap<i64, RtpPacket>,  // the packet as it went on the wire
    k: i64,
    reported: BTreeSet<i64>,        // holes reported by our detector and not yet filled
    last_nack: Vec<u16>,
    first_rtx_seq: Option<u16>,
    first_answer_since_tick: Option<Instant>,
    ambiguous: bool,
    broken: Vec<(String, Value, Value)>,
}

impl Run {
    async fn round(&mut self, seqs: Vec<u16>, rtx_lost: bool, out: &mut Outcome) {
        if let Some(t) = self.first_answer_since_tick
            && t.elapsed() >= COOLDOWN.mul_f32(0.8)
        {
            self.ambiguous = true;
        }
        let pk = RtcpPacket::GenericNack(GenericNack { sender_ssrc: 0x99, media_ssrc: PRIMARY_SSRC, lost_packets: seqs });
        let bytes = marshal_rtcp_packets(std::slice::from_ref(&pk)).expect("nack marshal");
        let parsed = parse_rtcp_packets(&bytes, None).expect("nack parse");
        let t0 = Instant::now();
        for p in &parsed {
            if let RtcpPacket::GenericNack(n) = p {
                out.nack = n.lost_packets.iter().map(|s| idx_of(*s)).collect();
            }
            self.w.sender.on_rtcp_received(p, self.w.tr.clone()).await;
        }
        let dgs = self.w.capture();
        if !dgs.is_empty() && self.first_answer_since_tick.is_none() {
            self.first_answer_since_tick = Some(t0);
        }
        let mut answered = BTreeSet::new();
        for dg in dgs {
            let pkt = match RtpPacket::parse(&dg) {
                Ok(p) => p,
                Err(e) => {
                    self.broken.push(("Restores".into(), json!("a parsable RTP packet"), json!(format!("{e:?}"))));
                    continue;
                }
            };
            let (restored, ord) = if pkt.header.ssrc == RTX_SSRC {
                let first = *self.first_rtx_seq.get_or_insert(pkt.header.sequence_number);
                let ord = pkt.header.sequence_number.wrapping_sub(first) as i64 + 1;
                if pkt.header.payload_type != 97 {
                    self.broken.push(("RtxNumbers".into(), json!({"rtx_payload_type": 97}), json!(pkt.header.payload_type)));
                }
                match unwrap_rtx_packet(&pkt, PRIMARY_SSRC, 96) {
                    Some(r) => (r, ord),
                    None => {
                        self.broken.push(("Restores".into(), json!("unwrappable"), json!("None")));
                        continue;
                    }
                }
            } else {
                (pkt, 0)
            };
            let i = idx_of(restored.header.sequence_number);
            out.resent.push(json!({"i": i, "ord": ord, "marker": restored.header.marker}));
            // contract, on the real packets: equals what went on the wire; requested; held; once
            match self.wire.get(&i) {
                Some(wp) => {
                    let same = wp.header.sequence_number == restored.header.sequence_number
                        && wp.header.timestamp == restored.header.timestamp
                        && wp.header.marker == restored.header.marker
                        && wp.header.payload_type == restored.header.payload_type
                        && wp.header.ssrc == restored.header.ssrc
                        && wp.payload == restored.payload;
                    if !same {
                        let field = if wp.header.marker != restored.header.marker { "Restores/marker" } else { "Restores" };
                        self.broken.push((field.into(), json!(format!("{:?} {:?}", wp.header, wp.payload)),
                            json!(format!("{:?} {:?}", restored.header, restored.payload))));
                    }
                }
                None => self.broken.push(("Answered".into(), json!("only packets that were sent"), json!(i))),
            }
            if !out.nack.contains(&i) || !answered.insert(i) {
                self.broken.push(("Answered".into(), json!({"requested": out.nack}), json!({"resent": i})));
            }
            if !rtx_lost && self.reported.remove(&i) {
                // the retransmission fills a hole our detector reported: it goes through the detector
                let before = self.w.receiver.clone().get_recovered_count();
                let r = self.w.receiver.on_packet_received(&restored, self.w.peer_addr, self.w.sock_addr).await;
                let after = self.w.receiver.clone().get_recovered_count();
                if r.is_some() || after != before + 1 {
                    self.broken.push(("Accounting".into(), json!("recovered + 1, no new report"),
                        json!({"new_report": r.is_some(), "recovered_delta": after - before})));
                }
                out.recovered.push(i);
            }
        }
        let ords: Vec<i64> = out.resent.iter().map(|r| r["ord"].as_i64().unwrap()).filter(|o| *o > 0).collect();
        if ords.windows(2).any(|w| w[1] != w[0] + 1) {
            self.broken.push(("RtxNumbers".into(), json!("consecutive RTX sequence numbers"), json!(ords)));
        }
    }

    async fn apply(&mut self, op: &Value) -> (String, Outcome) {
        let mut out = Outcome::default();
        let rtx_lost = op["rtxLost"].as_bool().unwrap();
        match op["op"].as_str().unwrap() {
            "send" => {
                self.k += 1;
                let i = self.k;
                let p = primary(i);
                self.w.sender.on_packet_sent(&p, self.w.peer_addr, self.w.sock_addr).await;
                self.w.tr.send_rtp(p).await.expect("TOOL: send_rtp");
                let dgs = self.w.capture();
                assert!(dgs.len() == 1, "TOOL: one primary on the wire, got {}", dgs.len());
                let wp = RtpPacket::parse(&dgs[0]).expect("TOOL: primary parses");
                self.wire.insert(i, wp.clone());
                if op["lost"].as_bool().unwrap() {
                    return ("lost".into(), out);
                }
                match self.w.receiver.on_packet_received(&wp, self.w.peer_addr, self.w.sock_addr).await {
                    Some(RtcpPacket::GenericNack(n)) => {
                        for s in &n.lost_packets {
                            self.reported.insert(idx_of(*s));
                        }
                        self.last_nack = n.lost_packets.clone();
                        self.round(n.lost_packets.clone(), rtx_lost, &mut out).await;
                        ("gap".into(), out)
                    }
                    Some(other) => panic!("TOOL: unexpected report {other:?}"),
                    None => ("delivered".into(), out),
                }
            }
            "repeat" => {
                if op["tick"].as_bool().unwrap() {
                    std::thread::sleep(COOLDOWN + Duration::from_millis(6));
                    self.first_answer_since_tick = None;
                }
                let seqs = self.last_nack.clone();
                self.round(seqs, rtx_lost, &mut out).await;
                ("repeat".into(), out)
            }
            "foreign" => {
                let seqs: Vec<u16> = op["req"].as_array().unwrap().iter().map(|v| seq_of(v.as_i64().unwrap())).collect();
                self.round(seqs, rtx_lost, &mut out).await;
                ("foreign".into(), out)
            }
            x => panic!("unknown op {x}"),
        }
    }
}

fn main() {
    let args: Vec<String> = std::env::args().collect();
    if args.len() < 3 {
        eprintln!("usage: nackloop <edges.ndjson> <out.ndjson> [i/n]");
        std::process::exit(2);
    }
    let (shard, nshards) = args
        .get(3)
        .and_then(|s| s.split_once('/'))
        .map(|(a, b)| (a.parse::<usize>().unwrap(), b.parse::<usize>().unwrap()))
        .unwrap_or((0, 1));
    let rt = tokio::runtime::Builder::new_current_thread().enable_all().build().expect("runtime");
    let mut out = NdjsonOut::create(&args[2]);
    let mut per: HashMap<String, u64> = HashMap::new();
    let (mut edges, mut checks, mut divs, mut skipped) = (0u64, 0u64, 0u64, 0u64);
    use std::io::BufRead;
    let f = std::fs::File::open(&args[1]).unwrap_or_else(|e| panic!("open {}: {e}", args[1]));
    for (ln, line) in std::io::BufReader::new(f).lines().enumerate() {
        if ln % nshards != shard {
            continue;
        }
        let line = line.expect("read");
        if line.trim().is_empty() {
            continue;
        }
        let e: Value = serde_json::from_str(&line).unwrap_or_else(|x| panic!("bad edge json: {x}"));
        edges += 1;
        let mut push = |typ: &str, field: &str, expected: Value, observed: Value| {
            divs += 1;
            let n = per.entry(format!("{typ}:{field}")).or_insert(0);
            *n += 1;
            if *n <= 5 {
                out.push(&json!({"type": typ, "field": field, "expected": expected, "observed": observed, "case": e}));
            }
        };
        let (obs, broken, ambiguous) = rt.block_on(async {
            let w = world(e["cfg"]["cap"].as_u64().unwrap() as usize, e["cfg"]["rtx"].as_bool().unwrap()).await;
            let mut r = Run { w, wire: HashMap::new(), k: 0, reported: BTreeSet::new(), last_nack: vec![], first_rtx_seq: None,
                              first_answer_since_tick: None, ambiguous: false, broken: vec![] };
            for op in e["pre"].as_array().unwrap() {
                r.apply(op).await;
            }
            let (_kind, o) = r.apply(&e["act"]).await;
            let s = &r.w.sender;
            let rc = r.w.receiver.clone();
            let obs = json!({
                "out": {"nack": o.nack, "resent": o.resent, "recovered": o.recovered},
                "cnt": {"nackRecv": s.nack_recv_count.load(Ordering::Relaxed), "rtxSent": s.clone().get_rtx_sent_count(),
                        "suppressed": s.retransmit_suppressed_count.load(Ordering::Relaxed),
                        "nackSent": rc.nack_sent_count.load(Ordering::Relaxed), "recovered": rc.get_recovered_count()},
                "buffered": s.buffered_packet_count(), "sent": r.k});
            (obs, r.broken, r.ambiguous)
        });
        if ambiguous {
            skipped += 1;
            continue;
        }
        if e["nocompare"].as_bool() != Some(true) {
            for k in ["nack", "resent", "recovered"] {
                checks += 1;
                if e["out"][k] != obs["out"][k] {
                    push("replay", k, e["out"][k].clone(), obs["out"][k].clone());
                }
            }
            for k in ["cnt", "buffered", "sent"] {
                checks += 1;
                if e[k] != obs[k] {
                    push("replay", k, e[k].clone(), obs[k].clone());
                }
            }
        }
        checks += 4;
        let mut seen = BTreeSet::new();
        for (rule, want, got) in broken {
            if seen.insert(rule.clone()) {
                push("contract", &rule, want, got);
            }
        }
    }
    out.push(&json!({"type": "summary", "edges": edges, "checks": checks, "divergences": divs, "skipped_timing_ambiguous": skipped,
        "per_signature": per.iter().map(|(k, v)| (k.clone(), json!(v))).collect::<serde_json::Map<String, Value>>()}));
    out.finish();
}
