//! EXT01 - replay of Jitter.tla edges on a real `JitterBuffer` (src/media/jitter_buffer.rs).
//! usage: jitter <edges.ndjson> <out.ndjson> [shard i/n]
//!
//! An edge is {cfg, pre, act, exp}: a fresh buffer is built, `pre` then `act` are applied, and the observables
//! after `act` (pop result, is_empty, awaiting_next, last_ssrc, next_pop_wait class) are compared with the model.
//! Independently of the model, the documented contract is evaluated on what the real object delivered during
//! the replay (rows of type "contract"): samples leave in sequence order, never before their delay.
//!
//! Time: the buffer reads `Instant::now()` itself. Delay class 0 = zero, 2 = one hour (never elapses in a replay),
//! 1 = M (6 ms), elapsed after a `tick` (sleep M + 2 ms). Whether "not yet elapsed" really held is MEASURED (time
//! since the first push after the last tick, taken before the call); if it did not, the edge is skipped as
//! timing-ambiguous instead of being judged.
use bytes::Bytes;
use rtcverif::*;
use rustrtc::media::{AudioFrame, JitterBuffer, MediaSample};
use rustrtc::rtp::{RtpHeader, RtpPacket};
use serde_json::{Value, json};
use std::collections::HashMap;
use std::time::{Duration, Instant};

const M: Duration = Duration::from_millis(6);

fn delay(class: u64) -> Duration {
    match class {
        0 => Duration::ZERO,
        1 => M,
        _ => Duration::from_secs(3600),
    }
}

fn sample(op: &Value) -> MediaSample {
    let seq = op["seq"].as_u64().unwrap() as u16;
    let ts = op["ts"].as_i64().unwrap() as u32;
    let ssrc = op["ssrc"].as_u64().unwrap() as u32;
    let raw = if ssrc != 0 {
        Some(RtpPacket::new(RtpHeader::new(0, seq, ts, 0x1000 * ssrc), vec![0u8; 4]))
    } else {
        None
    };
    MediaSample::Audio(AudioFrame {
        sequence_number: Some(seq),
        rtp_timestamp: ts,
        payload_type: Some(0),
        clock_rate: 8000,
        marker: op["marker"].as_bool().unwrap(),
        data: Bytes::from(vec![seq as u8; 8]),
        raw_packet: raw,
        ..Default::default()
    })
}

fn seq_of(s: &MediaSample) -> i64 {
    match s {
        MediaSample::Audio(f) => f.sequence_number.map(|x| x as i64).unwrap_or(-1),
        MediaSample::Video(f) => f.sequence_number.map(|x| x as i64).unwrap_or(-1),
    }
}

fn exp_drain(e: &Value) -> Value {
    e["drain"].clone()
}

fn newer(a: i64, b: i64) -> bool {
    a != b && ((a - b).rem_euclid(65536)) < 32768
}

struct Run {
    jb: JitterBuffer,
    uses_m: bool,
    first_unticked: Option<Instant>,
    ambiguous: bool,
    out: Vec<i64>,
    /// (seq, was next in sequence, ticked since its push) for every delivery
    deliveries: Vec<(i64, bool, bool)>,
    ticked: HashMap<u16, bool>,
    last: i64,
}

impl Run {
    fn check_time(&mut self) {
        if self.uses_m
            && let Some(t) = self.first_unticked
            && t.elapsed() >= M.mul_f32(0.8)
        {
            self.ambiguous = true;
        }
    }
    fn apply(&mut self, op: &Value) -> Value {
        match op["op"].as_str().unwrap() {
            "push" => {
                let s = sample(op);
                let t = Instant::now();
                self.jb.push(s);
                if self.first_unticked.is_none() {
                    self.first_unticked = Some(t);
                }
                // a restart (SSRC change, sequence gap, clock remap) starts a new delivery epoch
                if matches!(op["branch"].as_str(), Some("ssrc") | Some("gap") | Some("ts")) {
                    self.out.clear();
                    self.last = -1;
                    self.ticked.clear();
                }
                if op["branch"].as_str() == Some("marker") {
                    self.ticked.clear();
                }
                if op["branch"].as_str() != Some("late") {
                    self.ticked.insert(op["seq"].as_u64().unwrap() as u16, false);
                }
                json!(-1)
            }
            "pop" => {
                let popped = self.jb.pop();
                // judged AFTER the call: if the delay has not elapsed now, it had not when the buffer looked at the clock
                self.check_time();
                match popped {
                    Some(s) => {
                        let q = seq_of(&s);
                        let was_next = self.last == -1 || q == (self.last + 1).rem_euclid(65536);
                        self.deliveries.push((q, was_next, *self.ticked.get(&(q as u16)).unwrap_or(&false)));
                        self.out.push(q);
                        self.last = q;
                        json!(q)
                    }
                    None => json!(-1),
                }
            }
            "tick" => {
                std::thread::sleep(M + Duration::from_millis(2));
                for v in self.ticked.values_mut() {
                    *v = true;
                }
                self.first_unticked = None;
                json!(-1)
            }
            "reset" => {
                self.jb.reset();
                self.out.clear();
                self.last = -1;
                self.ticked.clear();
                self.first_unticked = None;
                json!(-1)
            }
            x => panic!("unknown op {x}"),
        }
    }
}

fn main() {
    let args: Vec<String> = std::env::args().collect();
    if args.len() < 3 {
        eprintln!("usage: jitter <edges.ndjson> <out.ndjson> [i/n]");
        std::process::exit(2);
    }
    let (shard, nshards) = args
        .get(3)
        .and_then(|s| s.split_once('/'))
        .map(|(a, b)| (a.parse::<usize>().unwrap(), b.parse::<usize>().unwrap()))
        .unwrap_or((0, 1));
    quiet_panics();
    let mut out = NdjsonOut::create(&args[2]);
    let mut per: HashMap<String, u64> = HashMap::new();
    let (mut edges, mut skipped, mut checks, mut divs) = (0u64, 0u64, 0u64, 0u64);
    use std::io::BufRead;
    let f = std::fs::File::open(&args[1]).unwrap_or_else(|e| panic!("open {}: {e}", args[1]));
    for (ln, line) in std::io::BufReader::new(f).lines().enumerate() {
        if ln % nshards != shard {
            continue;
        }
        let line = line.expect("read");
        if line.trim().is_empty() {
            continue;
        }
        let e: Value = serde_json::from_str(&line).unwrap_or_else(|x| panic!("bad edge json: {x}"));
        let cfg = &e["cfg"];
        let (mind, maxd) = (cfg["minD"].as_u64().unwrap(), cfg["maxD"].as_u64().unwrap());
        let mut r = Run {
            jb: JitterBuffer::new(delay(mind), delay(maxd), cfg["cap"].as_u64().unwrap() as usize),
            uses_m: mind == 1 || maxd == 1,
            first_unticked: None,
            ambiguous: false,
            out: vec![],
            deliveries: vec![],
            ticked: HashMap::new(),
            last: -1,
        };
        let mut push = |field: &str, expected: Value, observed: Value, typ: &str, per: &mut HashMap<String, u64>, divs: &mut u64| {
            *divs += 1;
            let n = per.entry(format!("{typ}:{field}")).or_insert(0);
            *n += 1;
            if *n <= 5 {
                out.push(&json!({"type": typ, "field": field, "expected": expected, "observed": observed, "case": e}));
            }
        };
        let res = catch(|| {
            for op in e["pre"].as_array().unwrap() {
                r.apply(op);
            }
            let v = r.apply(&e["act"]);
            let wait = match r.jb.next_pop_wait() {
                None => "none",
                Some(d) if d.is_zero() => "zero",
                Some(_) => "positive",
            };
            r.check_time();
            let mut o = json!({"seq": v, "empty": r.jb.is_empty(), "awaiting": r.jb.awaiting_next(),
                   "ssrc": r.jb.last_ssrc().map(|s| s / 0x1000).unwrap_or(0), "wait": wait});
            // hidden content: let everything wait M, then drain (always when no sleep is needed, else 1 edge in 8)
            if e.get("drain").is_some() && !r.ambiguous && (!r.uses_m || (ln / nshards) % 8 == 0) {
                if r.uses_m {
                    r.apply(&json!({"op": "tick"}));
                }
                let mut d = Vec::new();
                for _ in 0..64 {
                    match r.apply(&json!({"op": "pop"})).as_i64() {
                        Some(q) if q >= 0 => d.push(q),
                        _ => break,
                    }
                }
                o["drain"] = json!(d);
            }
            o
        });
        edges += 1;
        let obs = match res {
            Ok(o) => o,
            Err(p) => {
                push("panic", json!("no panic"), json!(p), "panic", &mut per, &mut divs);
                continue;
            }
        };
        if r.ambiguous {
            skipped += 1;
            continue;
        }
        // ---- the pinned model's expectation (witness edges come from partial deviation sets: contract only)
        let exp = if e["nocompare"].as_bool() == Some(true) { &obs } else { &e["exp"] };
        if obs.get("drain").is_some() {
            checks += 1;
            if e["nocompare"].as_bool() != Some(true) && exp_drain(&e) != obs["drain"] {
                push("drain", e["drain"].clone(), obs["drain"].clone(), "replay", &mut per, &mut divs);
            }
        }
        for k in ["seq", "empty", "awaiting", "ssrc", "wait"] {
            checks += 1;
            if exp[k] != obs[k] {
                push(k, exp[k].clone(), obs[k].clone(), "replay", &mut per, &mut divs);
            }
        }
        // ---- the documented contract, on what the real object delivered
        checks += 2;
        if let Some(w) = r.out.windows(2).find(|w| !newer(w[1], w[0])) {
            push("Ordered", json!("each delivered number newer than the previous one"),
                 json!({"delivered": r.out, "pair": w}), "contract", &mut per, &mut divs);
        }
        for (q, was_next, ticked) in &r.deliveries {
            let d = if *was_next { mind } else { maxd };
            if d == 2 || (d == 1 && !*ticked) {
                push("Delays", json!(format!("delay class {d} not elapsed for {q}")),
                     json!({"delivered": q, "next_in_sequence": was_next, "ticked": ticked}), "contract", &mut per, &mut divs);
                break;
            }
        }
    }
    out.push(&json!({"type": "summary", "edges": edges, "skipped_timing_ambiguous": skipped, "checks": checks,
        "divergences": divs, "per_signature": per.iter().map(|(k, v)| (k.clone(), json!(v))).collect::<serde_json::Map<String, Value>>()}));
    out.finish();
}
