//! Scenario runner for the SCTP association / data-channel checks (C01, C12, C13).
//!
//! usage: sctp <scenarios.ndjson> <out-trace.ndjson> [<shard>/<nshards>]
//!
//! A scenario (one JSON object per line, produced by the driver from TLC output) names a fault
//! schedule, a stack configuration, channels and a workload.  The runner builds the mini-stack
//! (two real endpoints + decrypting proxy), lets application tasks submit the workload, waits for
//! the outcome without judging it, and writes every event of the run (hooks of the code under
//! test, proxy wire view, application submit/recv) in global sequence order, one scenario after
//! the other, separated by `reset` events.  All verdicts are taken later by TLC on the trace.

use rtcverif::ministack::*;
use rtcverif::*;
use rustrtc::transports::datachannel::{DataChannel, DataChannelEvent};
use rustrtc::verif;
use serde_json::{Value, json};
use std::collections::HashMap;
use std::sync::Arc;
use std::sync::atomic::{AtomicBool, AtomicUsize, Ordering};
use std::time::{Duration, Instant};
use tokio::sync::Notify;
use tokio::task::JoinHandle;

fn inst(c: char) -> &'static str {
    if c == 'A' { "A" } else { "B" }
}

/// payload of message `mid`: 4 bytes of id, then a keyed pseudo-random stream
fn payload(seed: u64, mid: u32, len: usize) -> Vec<u8> {
    let mut r = Rng(seed ^ ((mid as u64) << 20) ^ 0xD1B5_4A32_D192_ED03);
    let mut v = Vec::with_capacity(len);
    v.extend_from_slice(&mid.to_be_bytes()[..len.min(4)]);
    while v.len() < len {
        let x = r.next().to_le_bytes();
        let n = (len - v.len()).min(8);
        v.extend_from_slice(&x[..n]);
    }
    v
}

#[derive(Default)]
struct ChanStatus {
    open: AtomicBool,
    closed: AtomicBool,
    recvd: AtomicUsize,
    notify: Notify,
}

type StatusMap = Arc<parking_lot::Mutex<HashMap<(char, u16), Arc<ChanStatus>>>>;

fn status(map: &StatusMap, side: char, sid: u16) -> Arc<ChanStatus> {
    map.lock().entry((side, sid)).or_default().clone()
}

fn spawn_receiver(side: char, dc: Arc<DataChannel>, map: StatusMap) -> JoinHandle<()> {
    let st = status(&map, side, dc.id);
    tokio::spawn(async move {
        while let Some(ev) = dc.recv().await {
            match ev {
                DataChannelEvent::Open => {
                    verif::emit("app", inst(side), "recv", json!({"kind": "open", "sid": dc.id}));
                    st.open.store(true, Ordering::SeqCst);
                    st.notify.notify_waiters();
                }
                DataChannelEvent::Message(b) => {
                    verif::emit(
                        "app",
                        inst(side),
                        "recv",
                        json!({"kind": "msg", "sid": dc.id, "len": b.len(), "h": verif::hash32(&b)}),
                    );
                    st.recvd.fetch_add(1, Ordering::SeqCst);
                }
                DataChannelEvent::Close => {
                    verif::emit("app", inst(side), "recv", json!({"kind": "close", "sid": dc.id}));
                    st.closed.store(true, Ordering::SeqCst);
                    st.notify.notify_waiters();
                }
            }
        }
    })
}

struct Msg {
    from: char,
    sid: u16,
    len: usize,
    task: u64,
    mid: u32,
    phase: u64,
}

#[derive(Default)]
struct Snap {
    sentq: u64,
    outq: u64,
    rcvq: u64,
    unacked: u64,
    st: String,
}

struct Collector {
    log: Vec<Value>,
    snap: HashMap<String, Snap>,
}

impl Collector {
    fn drain(&mut self) {
        for e in verif::take_events() {
            // other layers' hooks (dtls, ...) share the sink; this check does not use them
            if !matches!(e["comp"].as_str(), Some("sctp") | Some("net") | Some("app")) {
                continue;
            }
            if e["comp"] == "sctp" && e["ev"] == "snap" {
                let s = self.snap.entry(e["inst"].as_str().unwrap_or("").to_string()).or_default();
                s.sentq = e["sentq"].as_u64().unwrap_or(0);
                s.outq = e["outq"].as_u64().unwrap_or(0);
                s.rcvq = e["rcvq"].as_u64().unwrap_or(0);
                s.unacked = e["unacked"].as_u64().unwrap_or(0);
                s.st = e["st"].as_str().unwrap_or("").to_string();
            }
            self.log.push(e);
        }
    }
    fn drained_out(&self) -> bool {
        ["A", "B"].iter().all(|i| match self.snap.get(*i) {
            Some(s) => s.sentq == 0 && s.outq == 0 && s.rcvq == 0,
            None => false,
        })
    }
}

async fn sleep_ms(ms: u64) {
    tokio::time::sleep(Duration::from_millis(ms)).await;
}

/// Wait until no event has been logged for `quiet_ms` (and `cond` holds), or `max_ms` elapsed.
/// Returns true if quiescence was reached.
async fn settle(col: &mut Collector, quiet_ms: u64, max_ms: u64, need_drained: bool) -> bool {
    let t0 = Instant::now();
    let mut last = verif::event_count();
    let mut since = Instant::now();
    loop {
        sleep_ms(5).await;
        col.drain();
        let n = verif::event_count();
        if n != last {
            last = n;
            since = Instant::now();
        }
        if since.elapsed() >= Duration::from_millis(quiet_ms) && (!need_drained || col.drained_out()) {
            return true;
        }
        if t0.elapsed() >= Duration::from_millis(max_ms) {
            return false;
        }
    }
}

async fn run_scenario(sc: &Value, seed: u64) -> Vec<Value> {
    let id = sc["id"].as_str().unwrap_or("?").to_string();
    let cfg = StackCfg::from_json(&sc["cfg"]);
    let chans: Vec<ChanSpec> = sc["chans"].as_array().map(|a| a.iter().map(ChanSpec::from_json).collect()).unwrap_or_default();
    let faults: Vec<Fault> = sc["faults"].as_array().map(|a| a.iter().map(fault_from_json).collect()).unwrap_or_default();
    let deadline_ms = sc["deadline_ms"].as_u64().unwrap_or(8000);
    let idle_ms = sc["idle_ms"].as_u64().unwrap_or(0);
    let settle_ms = sc["settle_ms"].as_u64().unwrap_or(3 * cfg.rto_min_ms);
    let mut msgs: Vec<Msg> = Vec::new();
    for (i, m) in sc["msgs"].as_array().cloned().unwrap_or_default().iter().enumerate() {
        msgs.push(Msg {
            from: m["from"].as_str().unwrap().chars().next().unwrap(),
            sid: m["sid"].as_u64().unwrap() as u16,
            len: m["len"].as_u64().unwrap() as usize,
            task: m.get("task").and_then(|x| x.as_u64()).unwrap_or(0),
            mid: (i + 1) as u32,
            phase: m.get("phase").and_then(|x| x.as_u64()).unwrap_or(1),
        });
    }

    let _ = verif::take_events();
    verif::set_enabled(true);
    verif::emit(
        "app",
        "H",
        "reset",
        json!({"scenario": id, "chans": sc["chans"], "cfg": sc["cfg"], "faults": sc["faults"], "nmsgs": msgs.len()}),
    );
    let mut col = Collector { log: Vec::new(), snap: HashMap::new() };
    let mut pair = build_pair(&cfg, &chans, faults).await;
    let map: StatusMap = Arc::new(parking_lot::Mutex::new(HashMap::new()));
    let mut app_tasks: Vec<JoinHandle<()>> = Vec::new();

    for side in ['A', 'B'] {
        let locals: Vec<Arc<DataChannel>> = pair.ep(side).local.clone();
        for dc in locals {
            app_tasks.push(spawn_receiver(side, dc, map.clone()));
        }
        // channels announced in-band by the peer
        let mut rx = pair.ep_mut(side).new_dc_rx.take().unwrap();
        let map2 = map.clone();
        app_tasks.push(tokio::spawn(async move {
            let mut kids = Vec::new();
            while let Some(dc) = rx.recv().await {
                verif::emit(
                    "app",
                    inst(side),
                    "newchan",
                    json!({"sid": dc.id, "label": dc.label, "protocol": dc.protocol, "ordered": dc.ordered,
                           "max_retransmits": dc.max_retransmits, "max_life_ms": dc.max_packet_life_time}),
                );
                kids.push(spawn_receiver(side, dc, map2.clone()));
            }
            for k in kids {
                k.abort();
            }
        }));
    }

    // optional: a side closes one of its channels (stream reset) as soon as it has received k messages on it,
    // while the peer may still be sending on that channel
    for c in sc["close_mid"].as_array().cloned().unwrap_or_default() {
        let side = c["side"].as_str().unwrap_or("A").chars().next().unwrap();
        let sid = c["sid"].as_u64().unwrap_or(0) as u16;
        let after = c["after_recv"].as_u64().unwrap_or(1) as usize;
        let sctp = pair.ep(side).sctp.clone();
        let st = status(&map, side, sid);
        app_tasks.push(tokio::spawn(async move {
            while st.recvd.load(Ordering::SeqCst) < after {
                sleep_ms(1).await;
            }
            verif::emit("app", inst(side), "close_call", json!({"sid": sid}));
            let r = sctp.close_data_channel(sid).await;
            verif::emit("app", inst(side), "close_done", json!({"sid": sid, "ok": r.is_ok()}));
        }));
    }

    // sender tasks: messages of one (side, task, phase) are submitted sequentially by one task
    let phases: Vec<u64> = {
        let mut p: Vec<u64> = msgs.iter().map(|m| m.phase).collect();
        p.sort();
        p.dedup();
        p
    };
    let t_start = Instant::now();
    let mut summary = serde_json::Map::new();
    let mut stalled_any = false;
    for (pi, phase) in phases.iter().enumerate() {
        let mut groups: HashMap<(char, u64), Vec<&Msg>> = HashMap::new();
        for m in msgs.iter().filter(|m| m.phase == *phase) {
            groups.entry((m.from, m.task)).or_default().push(m);
        }
        let mut senders = Vec::new();
        let mut keys: Vec<(char, u64)> = groups.keys().cloned().collect();
        keys.sort();
        for key in keys {
            let list: Vec<(u16, usize, u32)> = groups[&key].iter().map(|m| (m.sid, m.len, m.mid)).collect();
            let side = key.0;
            let sctp = pair.ep(side).sctp.clone();
            let map2 = map.clone();
            senders.push(tokio::spawn(async move {
                for (sid, len, mid) in list {
                    let st = status(&map2, side, sid);
                    // the application sends after it has seen Open
                    loop {
                        let n = st.notify.notified();
                        if st.open.load(Ordering::SeqCst) || st.closed.load(Ordering::SeqCst) {
                            break;
                        }
                        n.await;
                    }
                    let data = payload(seed, mid, len);
                    verif::emit(
                        "app",
                        inst(side),
                        "submit",
                        json!({"sid": sid, "mid": mid, "len": len, "h": verif::hash32(&data)}),
                    );
                    let r = sctp.send_data(sid, &data).await;
                    verif::emit("app", inst(side), "submit_done", json!({"sid": sid, "mid": mid, "ok": r.is_ok()}));
                }
            }));
        }
        // expected arrivals on channels that must deliver everything (reliable ones)
        let mut expect: HashMap<(char, u16), usize> = HashMap::new();
        for m in msgs.iter().filter(|m| m.phase <= *phase) {
            let reliable = chans.iter().find(|c| c.sid == m.sid).map(|c| c.max_retransmits.is_none() && c.max_life_ms.is_none()).unwrap_or(true);
            if reliable {
                let to = if m.from == 'A' { 'B' } else { 'A' };
                *expect.entry((to, m.sid)).or_insert(0) += 1;
            }
        }
        let t_phase = Instant::now();
        let mut complete;
        loop {
            sleep_ms(5).await;
            col.drain();
            let senders_done = senders.iter().all(|h| h.is_finished());
            complete = senders_done && expect.iter().all(|((to, sid), n)| status(&map, *to, *sid).recvd.load(Ordering::SeqCst) >= *n);
            let closed = col.snap.values().any(|s| s.st == "Closed");
            if complete || closed || t_phase.elapsed() >= Duration::from_millis(deadline_ms) {
                break;
            }
        }
        for h in &senders {
            h.abort();
        }
        let ph_ms = t_phase.elapsed().as_millis() as u64;
        verif::emit("app", "H", "phase_end", json!({"phase": phase, "complete": complete, "ms": ph_ms}));
        summary.insert(format!("phase{}_complete", phase), complete.into());
        summary.insert(format!("phase{}_ms", phase), ph_ms.into());
        if !complete {
            stalled_any = true;
        }
        if pi == 0 {
            // end of the fault phase: whatever is still held is released now (late duplicates)
            pair.proxy.flush().await;
            // EXT scenario: the peer's SCTP stack "restarts" (fresh INIT with a different tag) after the fault phase
            if let Some(side) = sc["restart_init_from"].as_str() {
                let ok = pair.proxy.forge_init(side.chars().next().unwrap(), 0x5EED_0001, 0x0100_0000).await;
                verif::emit("app", "H", "restart_init", json!({"from": side, "sent": ok}));
            }
            let q = settle(&mut col, settle_ms, deadline_ms, !stalled_any).await;
            verif::emit("app", "H", "flushed", json!({"settled": q}));
        }
    }
    // the network has been fault-free since the flush: everything should drain
    let settled = settle(&mut col, settle_ms, if stalled_any { 4 * settle_ms } else { deadline_ms }, !stalled_any).await;
    summary.insert("settled".into(), settled.into());
    if idle_ms > 0 && settled && !stalled_any {
        verif::emit("app", "H", "quiet_begin", json!({}));
        sleep_ms(idle_ms).await;
        col.drain();
        verif::emit("app", "H", "quiet_end", json!({}));
    }
    // optional: close individual channels first (stream reset), then the association
    for c in sc["close_chans"].as_array().cloned().unwrap_or_default() {
        let side = c["side"].as_str().unwrap_or("A").chars().next().unwrap();
        let sid = c["sid"].as_u64().unwrap_or(0) as u16;
        verif::emit("app", inst(side), "close_call", json!({"sid": sid}));
        let r = pair.ep(side).sctp.close_data_channel(sid).await;
        verif::emit("app", inst(side), "close_done", json!({"sid": sid, "ok": r.is_ok()}));
        let _ = settle(&mut col, settle_ms.min(60), 500, false).await;
    }
    // association teardown: every open channel must report Close (at most once)
    if sc["close"].as_bool().unwrap_or(true) {
        verif::emit("app", "H", "closing", json!({}));
        pair.a.sctp.close();
        pair.b.sctp.close();
        let t0 = Instant::now();
        loop {
            sleep_ms(5).await;
            col.drain();
            let all_closed = map.lock().values().all(|s| s.closed.load(Ordering::SeqCst) || !s.open.load(Ordering::SeqCst));
            if all_closed || t0.elapsed() > Duration::from_millis(1000) {
                break;
            }
        }
        sleep_ms(20).await;
    }
    col.drain();
    summary.insert("scenario".into(), id.clone().into());
    summary.insert("faults_applied".into(), pair.proxy.faults_applied().into());
    summary.insert("faults_unused".into(), (pair.proxy.faults_pending() as u64).into());
    summary.insert("complete".into(), (!stalled_any).into());
    summary.insert("wall_ms".into(), (t_start.elapsed().as_millis() as u64).into());
    verif::emit("app", "H", "end", Value::Object(summary));
    col.drain();
    verif::set_enabled(false);
    pair.shutdown();
    for t in app_tasks {
        t.abort();
    }
    drop(pair);
    sleep_ms(10).await;
    let _ = verif::take_events();
    let mut log = col.log;
    log.sort_by_key(|e| e["seq"].as_u64().unwrap_or(0));
    log
}

fn main() {
    let args: Vec<String> = std::env::args().collect();
    if args.len() < 3 {
        eprintln!("usage: sctp <scenarios.ndjson> <out.ndjson> [i/n]");
        std::process::exit(2);
    }
    let (shard, nshards) = match args.get(3) {
        Some(s) => {
            let mut it = s.split('/');
            (it.next().unwrap().parse::<usize>().unwrap(), it.next().unwrap().parse::<usize>().unwrap())
        }
        None => (0, 1),
    };
    let seed = Rng::from_env().0;
    let scenarios = read_ndjson(&args[1]);
    let mut out = NdjsonOut::create(&args[2]);
    let rt = tokio::runtime::Builder::new_multi_thread().worker_threads(4).enable_all().build().expect("runtime");
    for (i, sc) in scenarios.iter().enumerate() {
        if i % nshards != shard {
            continue;
        }
        let log = rt.block_on(run_scenario(sc, seed));
        for e in &log {
            out.push(e);
        }
    }
    out.finish();
}
