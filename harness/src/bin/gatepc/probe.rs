//! Probe: one PeerConnection in SDES-SRTP (or plain RTP) mode against a raw UDP socket playing a SIP-style remote.
//! `gatepc srtp|rtp offerer|answerer` prints what the connection puts on the wire and its final state.
use bytes::Bytes;
use rustrtc::media::MediaStreamTrack;
use rustrtc::media::frame::{AudioFrame, MediaKind, MediaSample};
use rustrtc::peer_connection::{PeerConnection, PeerConnectionEvent, RtpCodecParameters};
use rustrtc::{RtcConfiguration, SdpType, SessionDescription, TransportMode};
use std::time::Duration;

pub fn b64(d: &[u8]) -> String {
    const T: &[u8] = b"ABCDEFGHIJKLMNOPQRSTUVWXYZabcdefghijklmnopqrstuvwxyz0123456789+/";
    let mut s = String::new();
    for c in d.chunks(3) {
        let n = (c[0] as u32) << 16 | (*c.get(1).unwrap_or(&0) as u32) << 8 | *c.get(2).unwrap_or(&0) as u32;
        s.push(T[(n >> 18) as usize & 63] as char);
        s.push(T[(n >> 12) as usize & 63] as char);
        s.push(if c.len() > 1 { T[(n >> 6) as usize & 63] as char } else { '=' });
        s.push(if c.len() > 2 { T[n as usize & 63] as char } else { '=' });
    }
    s
}

pub async fn run(mode: String, role: String) {
    let sock = std::net::UdpSocket::bind("127.0.0.1:0").unwrap();
    sock.set_read_timeout(Some(Duration::from_millis(1500))).unwrap();
    let port = sock.local_addr().unwrap().port();
    let key: Vec<u8> = (0..30u8).collect();
    let mut cfg = RtcConfiguration::default();
    cfg.transport_mode = if mode == "rtp" { TransportMode::Rtp } else { TransportMode::Srtp };
    let pc = PeerConnection::new(cfg);
    let (source, track, _fb) = rustrtc::media::track::sample_track(MediaKind::Audio, 64);
    let _ = pc.add_track(track.clone(), RtpCodecParameters { payload_type: 0, name: "PCMU".into(), clock_rate: 8000, channels: 1 });
    let proto = if mode == "rtp" { "RTP/AVP" } else { "RTP/SAVP" };
    let crypto = if mode == "rtp" { String::new() } else { format!("a=crypto:1 AES_CM_128_HMAC_SHA1_80 inline:{}\r\n", b64(&key)) };
    let offer = format!(
        "v=0\r\no=- 1 1 IN IP4 127.0.0.1\r\ns=-\r\nc=IN IP4 127.0.0.1\r\nt=0 0\r\nm=audio {port} {proto} 0\r\n{crypto}a=rtpmap:0 PCMU/8000\r\na=ssrc:3405691582 cname:x\r\na=sendrecv\r\n"
    );
    let t0 = std::time::Instant::now();
    if role == "answerer" {
        let offer = SessionDescription::parse(SdpType::Offer, &offer).expect("parse");
        pc.set_remote_description(offer).await.expect("set remote");
        let answer = pc.create_answer().await.expect("answer");
        println!("answer:\n{}", answer.to_sdp_string());
        pc.set_local_description(answer).expect("set local");
    } else {
        let o = pc.create_offer().await.expect("offer");
        pc.set_local_description(o).expect("set local");
        pc.wait_for_gathering_complete().await;
        let l = pc.local_description().unwrap();
        println!("offer:\n{}", l.to_sdp_string());
        let pt = l.media_sections[0].formats.first().cloned().unwrap_or("0".into());
        let ans = format!(
            "v=0\r\no=- 1 1 IN IP4 127.0.0.1\r\ns=-\r\nc=IN IP4 127.0.0.1\r\nt=0 0\r\nm=audio {port} {proto} {pt}\r\n{crypto}a=ssrc:3405691582 cname:x\r\na=sendrecv\r\n"
        );
        let ans = SessionDescription::parse(SdpType::Answer, &ans).expect("parse");
        pc.set_remote_description(ans).await.expect("set remote answer");
    }
    println!("negotiated in {:?}", t0.elapsed());
    let pc2 = pc.clone();
    tokio::spawn(async move {
        while let Some(ev) = pc2.recv().await {
            match ev {
                PeerConnectionEvent::Track(t) => {
                    println!("event: Track");
                    if let Some(r) = t.receiver() {
                        let tr = r.track();
                        tokio::spawn(async move {
                            while let Ok(s) = tr.recv().await {
                                if let MediaSample::Audio(a) = s {
                                    println!("track sample: {} bytes {:?}", a.data.len(), &a.data[..a.data.len().min(8)]);
                                }
                            }
                        });
                    }
                }
                _ => println!("event: other"),
            }
        }
    });
    for i in 0..5u32 {
        let ok = source
            .send(MediaSample::Audio(AudioFrame { rtp_timestamp: i * 160, clock_rate: 8000, data: Bytes::from(vec![0x55u8; 160]), ..Default::default() }))
            .is_ok();
        println!("sample {i} pushed: {ok}");
        tokio::time::sleep(Duration::from_millis(20)).await;
    }
    let mut buf = [0u8; 2048];
    let mut pc_addr = None;
    sock.set_read_timeout(Some(Duration::from_millis(50))).unwrap();
    let drain = |sock: &std::net::UdpSocket, buf: &mut [u8], ms: u64, tag: &str, pc_addr: &mut Option<std::net::SocketAddr>| {
        let end = std::time::Instant::now() + Duration::from_millis(ms);
        let (mut stun, mut rtp, mut rtcp, mut other) = (0, 0, 0, 0);
        while std::time::Instant::now() < end {
            if let Ok((n, from)) = sock.recv_from(buf) {
                *pc_addr = Some(from);
                let d = &buf[..n];
                if d[0] < 4 {
                    stun += 1;
                } else if (128..192).contains(&d[0]) {
                    if (192..=223).contains(&d[1]) {
                        rtcp += 1;
                        println!("{tag} RTCP {n} bytes {:02x?}", &d[..n.min(24)]);
                    } else {
                        rtp += 1;
                        if rtp < 3 {
                            println!("{tag} RTP {n} bytes {:02x?}", &d[..n.min(24)]);
                        }
                    }
                } else {
                    other += 1;
                }
            }
        }
        println!("{tag}: stun={stun} rtp={rtp} rtcp={rtcp} other={other}");
    };
    drain(&sock, &mut buf, 1000, "phase1", &mut pc_addr);
    println!("state {:?} reason {:?}", *pc.subscribe_peer_state().borrow(), *pc.subscribe_disconnect_reason().borrow());
    if let Some(a) = pc_addr {
        // clear RTP towards the connection
        let mut p = vec![0x80u8, 0, 0, 1, 0, 0, 0, 160, 0xCA, 0xFE, 0xBA, 0xBE];
        p.extend([0x11u8; 160]);
        sock.send_to(&p, a).unwrap();
        tokio::time::sleep(Duration::from_millis(200)).await;
    }
    pc.close();
    drain(&sock, &mut buf, 500, "after-close", &mut pc_addr);
}
