//! Property C14 at the level of whole PeerConnections (scenarios of spec/SrtpGatePc.tla).
//!
//! usage: gatepc run <edges.ndjson> <out.ndjson> [i/n]
//!        gatepc srtp|rtp offerer|answerer          (probe, see probe.rs)
//!
//! Endpoint A is observed from the network side.
//!   WebRtc: A and a second connection B are joined by a UDP relay (candidate addresses in the exchanged SDP are
//!           rewritten to the relay's). The relay withholds every DTLS datagram until the scenario's `Keys` step, so
//!           neither side can have SRTP keys before it: "before keys" is a causal fact, not a time. After the
//!           handshake the keys are read with the DTLS-SRTP exporter through the verif accessor.
//!   Srtp / Rtp: A is the SDP offerer, the remote is a raw UDP socket of the harness; the keys are the a=crypto
//!           attributes. `Keys` = the answer is applied.
//! Every RTP/RTCP-looking datagram A sends is captured (relay / raw socket) and classified with an independent SRTP
//! receiver context under A's transmit keys; everything that reaches A's receive track, A's RtpObserver or A's
//! feedback channel is traced to the inbound packet by content. Verdicts are raised only on positively observed
//! datagrams / deliveries (a wait that expires only reduces what was looked at).
mod probe;

use bytes::Bytes;
use rtcverif::*;
use rustrtc::media::MediaStreamTrack;
use rustrtc::media::frame::{AudioFrame, MediaKind, MediaSample};
use rustrtc::media::track::{FeedbackEvent, SampleStreamSource};
use rustrtc::peer_connection::{PeerConnection, PeerConnectionEvent, RtpCodecParameters, RtpObserver};
use rustrtc::rtp::{GenericNack, PictureLossIndication, ReceiverReport, RtcpPacket, RtpHeader, RtpPacket, marshal_rtcp_packets};
use rustrtc::srtp::{SrtpKeyingMaterial, SrtpPacket, SrtpProfile, SrtpSession};
use rustrtc::{RtcConfiguration, SdpType, SessionDescription, TransportMode};
use serde_json::{Value, json};
use std::net::SocketAddr;
use std::sync::Arc;
use std::sync::atomic::{AtomicBool, Ordering};
use std::time::{Duration, Instant};
use tokio::net::UdpSocket;
use tokio::sync::mpsc;

const OUT_MARK: &[u8] = b"C14PC-OUTBOUND-CLEARTEXT:";
const IN_MARK: &[u8] = b"C14PC-INBOUND-CLEARTEXT:";
const PROFILES: [SrtpProfile; 3] = [SrtpProfile::Aes128Sha1_80, SrtpProfile::Aes128Sha1_32, SrtpProfile::AeadAes128Gcm];

fn tool_error(msg: &str) -> ! {
    eprintln!("gatepc: {msg}");
    std::process::exit(2)
}

fn kind(d: &[u8]) -> &'static str {
    match d.first() {
        Some(0..=3) => "stun",
        Some(20..=63) => "dtls",
        Some(128..=191) => {
            if d.len() > 1 && (192..=223).contains(&d[1]) {
                "rtcp"
            } else {
                "rtp"
            }
        }
        _ => "other",
    }
}

fn contains(hay: &[u8], needle: &[u8]) -> bool {
    hay.len() >= needle.len() && hay.windows(needle.len()).any(|w| w == needle)
}

fn unb64(s: &str) -> Vec<u8> {
    let mut out = Vec::new();
    let mut acc = 0u32;
    let mut bits = 0;
    for c in s.bytes() {
        let v = match c {
            b'A'..=b'Z' => c - b'A',
            b'a'..=b'z' => c - b'a' + 26,
            b'0'..=b'9' => c - b'0' + 52,
            b'+' => 62,
            b'/' => 63,
            _ => continue,
        } as u32;
        acc = acc << 6 | v;
        bits += 6;
        if bits >= 8 {
            bits -= 8;
            out.push((acc >> bits) as u8);
        }
    }
    out
}

// ---------------------------------------------------------------------------------------------- capture

/// A media datagram A put on the wire.
#[derive(Clone)]
struct Cap {
    before_keys: bool,
    data: Vec<u8>,
}

struct Relay {
    ra: UdpSocket, // faces A
    rb: UdpSocket, // faces B
    a_addr: parking_lot::Mutex<Option<SocketAddr>>,
    b_addr: parking_lot::Mutex<Option<SocketAddr>>,
    hold: AtomicBool,
    held: parking_lot::Mutex<Vec<(bool, Vec<u8>)>>,
    from_a: parking_lot::Mutex<Vec<Cap>>,
    /// the latest media datagram B sent (material for a forged one)
    last_b_media: parking_lot::Mutex<Option<Vec<u8>>>,
    /// > 0: let that many RTP datagrams of B pass, then drop one (a hole in what A receives)
    drop_b_after: std::sync::atomic::AtomicI64,
}

impl Relay {
    async fn forward(&self, a_to_b: bool, d: &[u8]) {
        let (sock, to) = if a_to_b { (&self.rb, *self.b_addr.lock()) } else { (&self.ra, *self.a_addr.lock()) };
        if let Some(to) = to {
            let _ = sock.send_to(d, to).await;
        }
    }
    async fn run(self: Arc<Self>, a_to_b: bool) {
        let mut buf = vec![0u8; 2048];
        loop {
            let sock = if a_to_b { &self.ra } else { &self.rb };
            let Ok((n, from)) = sock.recv_from(&mut buf).await else { return };
            // only the two endpoints' own sockets speak here (learned from the SDP / the first check)
            {
                let mut known = if a_to_b { self.a_addr.lock() } else { self.b_addr.lock() };
                match *known {
                    None => *known = Some(from),
                    Some(k) if k != from => continue, // foreign sender
                    _ => {}
                }
            }
            let d = buf[..n].to_vec();
            let k = kind(&d);
            let holding = self.hold.load(Ordering::SeqCst);
            if k == "rtp" || k == "rtcp" {
                if a_to_b {
                    self.from_a.lock().push(Cap { before_keys: holding, data: d.clone() });
                } else {
                    *self.last_b_media.lock() = Some(d.clone());
                    if k == "rtp" {
                        let left = self.drop_b_after.load(Ordering::SeqCst);
                        if left > 0 {
                            self.drop_b_after.store(left - 1, Ordering::SeqCst);
                            if left == 1 {
                                self.drop_b_after.store(-1, Ordering::SeqCst); // the next one is the hole
                            }
                        } else if left == -1 {
                            self.drop_b_after.store(0, Ordering::SeqCst);
                            continue;
                        }
                    }
                }
            }
            if k == "dtls" && holding {
                self.held.lock().push((a_to_b, d));
                continue;
            }
            self.forward(a_to_b, &d).await;
        }
    }
    async fn release(&self) {
        self.hold.store(false, Ordering::SeqCst);
        let held: Vec<_> = std::mem::take(&mut *self.held.lock());
        for (dir, d) in held {
            self.forward(dir, &d).await;
        }
    }
}

#[derive(Default)]
struct Obs {
    ingress: parking_lot::Mutex<Vec<Vec<u8>>>,
}
impl RtpObserver for Obs {
    fn on_ingress(&self, p: &RtpPacket, _src: SocketAddr) {
        self.ingress.lock().push(p.payload.to_vec());
    }
}

// ------------------------------------------------------------------------------------------------- rig

fn cfg(label: &str, mode: TransportMode) -> RtcConfiguration {
    let mut c = RtcConfiguration::default();
    c.label = Some(label.into());
    c.transport_mode = mode;
    c.bind_ip = Some("127.0.0.1".into());
    c.disable_ipv6 = true;
    // generic NACK on the audio stream: the sender keeps a retransmission buffer and answers NACKs, the receiver
    // reports gaps (the feedback / retransmission paths above the transport become egress sources)
    let mut caps = rustrtc::config::MediaCapabilities::default();
    for a in caps.audio.iter_mut() {
        a.rtcp_fbs = vec!["nack".to_string()];
    }
    c.media_capabilities = Some(caps);
    c
}

fn codec() -> RtpCodecParameters {
    RtpCodecParameters { payload_type: 111, name: "opus".into(), clock_rate: 48000, channels: 2 }
}

/// Point every candidate address of `sdp` at `relay`; returns the original addresses.
fn retarget(sdp: &str, relay: SocketAddr) -> (String, Vec<SocketAddr>) {
    let mut out = String::new();
    let mut addrs = vec![];
    for line in sdp.lines() {
        if let Some(c) = line.strip_prefix("a=candidate:") {
            let mut f: Vec<String> = c.split_whitespace().map(|s| s.to_string()).collect();
            if f.len() > 5 {
                if let (Ok(ip), Ok(port)) = (f[4].parse::<std::net::IpAddr>(), f[5].parse::<u16>()) {
                    addrs.push(SocketAddr::new(ip, port));
                }
                f[4] = relay.ip().to_string();
                f[5] = relay.port().to_string();
            }
            out.push_str(&format!("a=candidate:{}\r\n", f.join(" ")));
        } else {
            out.push_str(line);
            out.push_str("\r\n");
        }
    }
    (out, addrs)
}

struct End {
    pc: PeerConnection,
    src: SampleStreamSource,
    fb: mpsc::Receiver<FeedbackEvent>,
    got: Arc<parking_lot::Mutex<Vec<Vec<u8>>>>,
    obs: Arc<Obs>,
    _track: Arc<rustrtc::media::track::SampleStreamTrack>,
    /// the track media from the peer arrives on (once known)
    rx_track: Arc<parking_lot::Mutex<Option<Arc<dyn MediaStreamTrack>>>>,
    ts: u32,
}

impl End {
    fn new(label: &str, mode: TransportMode) -> End {
        let pc = PeerConnection::new(cfg(label, mode));
        let (src, track, fb) = rustrtc::media::track::sample_track(MediaKind::Audio, 64);
        let _ = pc.add_track(track.clone(), codec());
        let got = Arc::new(parking_lot::Mutex::new(Vec::new()));
        let rx_track: Arc<parking_lot::Mutex<Option<Arc<dyn MediaStreamTrack>>>> = Default::default();
        let pc2 = pc.clone();
        let got2 = got.clone();
        let rxt = rx_track.clone();
        tokio::spawn(async move {
            while let Some(ev) = pc2.recv().await {
                if let PeerConnectionEvent::Track(t) = ev {
                    if let Some(r) = t.receiver() {
                        let tr = r.track();
                        *rxt.lock() = Some(tr.clone() as Arc<dyn MediaStreamTrack>);
                        let got = got2.clone();
                        tokio::spawn(async move {
                            while let Ok(s) = tr.recv().await {
                                if let MediaSample::Audio(a) = s {
                                    got.lock().push(a.data.to_vec());
                                }
                            }
                        });
                    }
                }
            }
        });
        End { pc, src, fb, got, obs: Arc::new(Obs::default()), _track: track, rx_track, ts: 0 }
    }
    fn push(&mut self, payload: Vec<u8>) -> bool {
        self.ts = self.ts.wrapping_add(960);
        self.src
            .send(MediaSample::Audio(AudioFrame { rtp_timestamp: self.ts, clock_rate: 48000, data: Bytes::from(payload), ..Default::default() }))
            .is_ok()
    }
    fn connected(&self) -> bool {
        *self.pc.subscribe_peer_state().borrow() == rustrtc::PeerConnectionState::Connected
    }
}

enum Net {
    Pair { b: End, relay: Arc<Relay> },
    Raw { sock: Arc<UdpSocket>, from_a: Arc<parking_lot::Mutex<Vec<Cap>>>, keyed: Arc<AtomicBool>, a_addr: Option<SocketAddr>, answer: String,
          /// answerer role: A's own answer, created but not yet set
          pending: Option<SessionDescription>,
          /// the remote's own sender (harness side): protects valid inbound packets
          peer_tx: Option<SrtpSession> },
}

struct Rig {
    mode: String,
    /// the remote description allows a session to be derived
    crypto_ok: bool,
    a: End,
    net: Net,
    /// A's transmit keys once known: (profile candidates tried in order, keying material)
    a_tx: Vec<SrtpKeyingMaterial>,
    keyed: bool,
    closed: bool,
    in_seq: u16,
    notes: Vec<String>,
}

async fn wait_until(ms: u64, mut f: impl FnMut() -> bool) -> bool {
    let t0 = Instant::now();
    loop {
        if f() {
            return true;
        }
        if t0.elapsed() > Duration::from_millis(ms) {
            return false;
        }
        tokio::time::sleep(Duration::from_millis(2)).await;
    }
}

impl Rig {
    /// Bring the scenario to phase "up": everything that can be done without keys.
    async fn setup(mode: &str, role: &str, crypto: &str, nonce: u16) -> Rig {
        let tm = match mode {
            "WebRtc" => TransportMode::WebRtc,
            "Srtp" => TransportMode::Srtp,
            _ => TransportMode::Rtp,
        };
        let a = End::new("A", tm.clone());
        let mut notes = vec![];
        let net = if mode == "WebRtc" {
            let relay = Arc::new(Relay {
                ra: UdpSocket::bind("127.0.0.1:0").await.unwrap_or_else(|e| tool_error(&format!("bind: {e}"))),
                rb: UdpSocket::bind("127.0.0.1:0").await.unwrap_or_else(|e| tool_error(&format!("bind: {e}"))),
                a_addr: Default::default(),
                b_addr: Default::default(),
                hold: AtomicBool::new(true),
                held: Default::default(),
                from_a: Default::default(),
                last_b_media: Default::default(),
                drop_b_after: Default::default(),
            });
            let ra_addr = relay.ra.local_addr().unwrap();
            let rb_addr = relay.rb.local_addr().unwrap();
            tokio::spawn(relay.clone().run(true));
            tokio::spawn(relay.clone().run(false));
            let b = End::new("B", tm);
            let must = |what: &str, e: String| -> ! { tool_error(&format!("signalling ({what}): {e}")) };
            let offer = a.pc.create_offer().await.unwrap_or_else(|e| must("offer", e.to_string()));
            a.pc.set_local_description(offer).unwrap_or_else(|e| must("set_local offer", e.to_string()));
            a.pc.wait_for_gathering_complete().await;
            let offer = a.pc.local_description().unwrap();
            let (offer_for_b, a_c) = retarget(&offer.to_sdp_string(), rb_addr);
            if let Some(x) = a_c.first() {
                *relay.a_addr.lock() = Some(*x);
            }
            let o = SessionDescription::parse(SdpType::Offer, &offer_for_b).unwrap_or_else(|e| must("parse offer", format!("{e:?}")));
            b.pc.set_remote_description(o).await.unwrap_or_else(|e| must("set_remote offer", e.to_string()));
            let answer = b.pc.create_answer().await.unwrap_or_else(|e| must("answer", e.to_string()));
            b.pc.set_local_description(answer).unwrap_or_else(|e| must("set_local answer", e.to_string()));
            b.pc.wait_for_gathering_complete().await;
            let answer = b.pc.local_description().unwrap();
            let (answer_for_a, b_c) = retarget(&answer.to_sdp_string(), ra_addr);
            if let Some(x) = b_c.first() {
                *relay.b_addr.lock() = Some(*x);
            }
            let an = SessionDescription::parse(SdpType::Answer, &answer_for_a).unwrap_or_else(|e| must("parse answer", format!("{e:?}")));
            a.pc.set_remote_description(an).await.unwrap_or_else(|e| must("set_remote answer", e.to_string()));
            // ICE completes through the relay; DTLS cannot (its first flight is being held): wait for that point
            let r2 = relay.clone();
            if !wait_until(3000, || !r2.held.lock().is_empty()).await {
                notes.push("no DTLS datagram reached the relay within 3 s".into());
            }
            Net::Pair { b, relay }
        } else {
            let sock = Arc::new(UdpSocket::bind("127.0.0.1:0").await.unwrap_or_else(|e| tool_error(&format!("bind: {e}"))));
            let port = sock.local_addr().unwrap().port();
            // the remote's description: its media address, and - in Srtp mode - an a=crypto line that is usable or not
            let mine = Rng(0xC14 ^ nonce as u64).bytes(30);
            let (proto, crypto_line) = if mode == "Srtp" {
                match crypto {
                    "ok" => ("RTP/SAVP", format!("a=crypto:1 AES_CM_128_HMAC_SHA1_80 inline:{}\r\n", probe::b64(&mine))),
                    "suite" => ("RTP/SAVP", format!("a=crypto:1 F8_128_HMAC_SHA1_80 inline:{}\r\n", probe::b64(&mine))),
                    "key" => ("RTP/SAVP", format!("a=crypto:1 AES_CM_128_HMAC_SHA1_80 inline:{}\r\n", probe::b64(&mine[..10]))),
                    _ => ("RTP/AVP", String::new()), // the usual downgrade: no a=crypto at all
                }
            } else {
                ("RTP/AVP", String::new())
            };
            let remote_sdp = |pt: &str| {
                format!(
                    "v=0\r\no=- 1 1 IN IP4 127.0.0.1\r\ns=-\r\nc=IN IP4 127.0.0.1\r\nt=0 0\r\nm=audio {port} {proto} {pt}\r\n{crypto_line}a=rtpmap:{pt} opus/48000/2\r\na=rtcp-mux\r\na=rtcp-fb:{pt} nack\r\na=ssrc:3405691582 cname:x\r\na=sendrecv\r\n"
                )
            };
            // A's side of the exchange, as far as it goes without keys
            let (local, pending) = if role == "answerer" {
                let offer = SessionDescription::parse(SdpType::Offer, &remote_sdp("111")).unwrap_or_else(|e| tool_error(&format!("parse offer: {e:?}")));
                if let Err(e) = a.pc.set_remote_description(offer).await {
                    notes.push(format!("set_remote_description(offer) failed: {e}"));
                }
                match a.pc.create_answer().await {
                    Ok(ans) => (ans.clone(), Some(ans)),
                    Err(e) => tool_error(&format!("create_answer: {e}")),
                }
            } else {
                let offer = a.pc.create_offer().await.unwrap_or_else(|e| tool_error(&format!("offer: {e}")));
                a.pc.set_local_description(offer).unwrap_or_else(|e| tool_error(&format!("set_local: {e}")));
                a.pc.wait_for_gathering_complete().await;
                (a.pc.local_description().unwrap(), None)
            };
            let sec = &local.media_sections[0];
            let pt = sec.formats.first().cloned().unwrap_or("111".into());
            let a_ip: std::net::IpAddr = sec
                .connection
                .as_ref()
                .or(local.session.connection.as_ref())
                .and_then(|c| c.split_whitespace().nth(2).and_then(|s| s.parse().ok()))
                .unwrap_or("127.0.0.1".parse().unwrap());
            let a_addr = SocketAddr::new(a_ip, sec.port);
            let mut peer_tx = None;
            let mut a_tx = vec![];
            if mode == "Srtp" {
                // A's transmit key is in its own description; the remote protects with `mine`
                for at in &sec.attributes {
                    if at.key == "crypto" {
                        if let Some(v) = &at.value {
                            if let Some(p) = v.split_whitespace().find(|x| x.starts_with("inline:")) {
                                let ks = unb64(p[7..].split('|').next().unwrap_or(""));
                                if ks.len() >= 30 {
                                    a_tx.push(SrtpKeyingMaterial::new(ks[..16].to_vec(), ks[16..30].to_vec()));
                                }
                            }
                        }
                    }
                }
                if crypto == "ok" {
                    peer_tx = SrtpSession::new(
                        SrtpProfile::Aes128Sha1_80,
                        SrtpKeyingMaterial::new(mine[..16].to_vec(), mine[16..30].to_vec()),
                        SrtpKeyingMaterial::new(vec![0; 16], vec![0; 14]),
                    )
                    .ok();
                }
            }
            let answer = remote_sdp(&pt);
            let from_a = Arc::new(parking_lot::Mutex::new(Vec::new()));
            let keyed = Arc::new(AtomicBool::new(false));
            {
                let (sock, from_a, keyed) = (sock.clone(), from_a.clone(), keyed.clone());
                tokio::spawn(async move {
                    let mut buf = vec![0u8; 2048];
                    loop {
                        let Ok((n, from)) = sock.recv_from(&mut buf).await else { return };
                        if from.port() != a_addr.port() {
                            continue; // foreign sender
                        }
                        let d = buf[..n].to_vec();
                        let k = kind(&d);
                        if k == "rtp" || k == "rtcp" {
                            from_a.lock().push(Cap { before_keys: !keyed.load(Ordering::SeqCst), data: d });
                        }
                    }
                });
            }
            let rig_net = Net::Raw { sock, from_a, keyed, a_addr: Some(a_addr), answer, pending, peer_tx };
            return Rig { mode: mode.into(), crypto_ok: crypto == "ok", a, net: rig_net, a_tx, keyed: false, closed: false, in_seq: 100, notes };
        };
        Rig { mode: mode.into(), crypto_ok: true, a, net, a_tx: vec![], keyed: false, closed: false, in_seq: 100, notes }
    }

    fn captured(&self) -> Vec<Cap> {
        match &self.net {
            Net::Pair { relay, .. } => relay.from_a.lock().clone(),
            Net::Raw { from_a, .. } => from_a.lock().clone(),
        }
    }

    async fn keys(&mut self) {
        match &mut self.net {
            Net::Pair { b, relay } => {
                relay.release().await;
                let (pa, pb) = (self.a.pc.clone(), b.pc.clone());
                let ok = tokio::time::timeout(Duration::from_secs(8), async {
                    let _ = pa.wait_for_connected().await;
                    let _ = pb.wait_for_connected().await;
                })
                .await
                .is_ok();
                if !ok || !self.a.connected() {
                    self.notes.push("pair did not connect within 8 s after the DTLS datagrams were released".into());
                }
                // DTLS-SRTP exporter (RFC 5764): client key, server key, client salt, server salt; A may be either role
                if let Some(dt) = self.a.pc.verif_dtls_transport() {
                    if let Ok(m) = dt.export_keying_material("EXTRACTOR-dtls_srtp", 60) {
                        self.a_tx.push(SrtpKeyingMaterial::new(m[0..16].to_vec(), m[32..46].to_vec()));
                        self.a_tx.push(SrtpKeyingMaterial::new(m[16..32].to_vec(), m[46..60].to_vec()));
                    }
                    if let Ok(m) = dt.export_keying_material("EXTRACTOR-dtls_srtp", 56) {
                        // AEAD profile: 12-byte salts
                        self.a_tx.push(SrtpKeyingMaterial::new(m[0..16].to_vec(), m[32..44].to_vec()));
                        self.a_tx.push(SrtpKeyingMaterial::new(m[16..32].to_vec(), m[44..56].to_vec()));
                    }
                }
            }
            Net::Raw { keyed, answer, pending, .. } => {
                // from here on A knows both descriptions; a session exists iff the remote a=crypto is usable
                if self.crypto_ok {
                    keyed.store(true, Ordering::SeqCst);
                }
                let r = match pending.take() {
                    Some(ans) => self.a.pc.set_local_description(ans).map_err(|e| e.to_string()),
                    None => {
                        let an = SessionDescription::parse(SdpType::Answer, answer).unwrap_or_else(|e| tool_error(&format!("parse answer: {e:?}")));
                        self.a.pc.set_remote_description(an).await.map_err(|e| e.to_string())
                    }
                };
                if let Err(e) = r {
                    if self.crypto_ok {
                        self.notes.push(format!("applying the last description failed: {e}"));
                    }
                }
                let pa = self.a.pc.clone();
                match tokio::time::timeout(Duration::from_secs(if self.crypto_ok { 5 } else { 1 }), pa.wait_for_connected()).await {
                    Err(_) if self.crypto_ok => self.notes.push("connection did not report Connected within 5 s".into()),
                    Ok(Err(e)) if self.crypto_ok => self.notes.push(format!("connection failed: {e}; reason {:?}", self.a.pc.disconnect_reason())),
                    _ => {} // without usable a=crypto the connection is expected to fail (and must stay shut)
                }
            }
        }
        if !self.crypto_ok {
            // phase "failed": no session can exist; give the transport start a moment to run its course
            tokio::time::sleep(Duration::from_millis(30)).await;
            self.a.pc.add_observer(self.a.obs.clone());
            return;
        }
        self.keyed = true;
        self.a.pc.add_observer(self.a.obs.clone());
    }

    /// Deliver `d` to A's socket as if its peer had sent it.
    async fn to_a(&self, d: &[u8]) {
        match &self.net {
            Net::Pair { relay, .. } => relay.forward(false, d).await,
            Net::Raw { sock, a_addr, .. } => {
                if let Some(a) = a_addr {
                    let _ = sock.send_to(d, *a).await;
                }
            }
        }
    }

    fn in_packet(&mut self, tag: &str, k: usize) -> RtpPacket {
        self.in_seq = self.in_seq.wrapping_add(1);
        let mut p = IN_MARK.to_vec();
        p.extend_from_slice(format!("{tag}:{k:02}:").as_bytes());
        p.extend([0x5Au8; 40]);
        RtpPacket::new(RtpHeader::new(111, self.in_seq, 960 * self.in_seq as u32, 3405691582), p)
    }

    /// A's receive keys (= its peer's transmit keys) and profile, learnt from a datagram A sent (WebRtc) or from the
    /// harness's own SDES session.
    fn peer_rtcp(&mut self, pk: &[RtcpPacket]) -> Option<Vec<u8>> {
        let mut raw = marshal_rtcp_packets(pk).ok()?;
        match &mut self.net {
            Net::Raw { peer_tx, .. } => {
                if let Some(s) = peer_tx {
                    s.protect_rtcp(&mut raw).ok()?;
                }
                Some(raw)
            }
            Net::Pair { .. } => {
                let caps = self.captured();
                let mut followers = Vec::new();
                let mut role = None;
                for c in caps.iter().filter(|c| !c.before_keys) {
                    if let ('p', d) = self.classify(&mut followers, &c.data) {
                        role = Some((d["key"].as_u64()? as usize, d["profile"].as_str()?.to_string()));
                        break;
                    }
                }
                let (ki, prof) = role?;
                let prof = PROFILES.into_iter().find(|p| format!("{p:?}") == prof)?;
                let mut k = self.a_tx.get(ki ^ 1)?.clone();
                if prof == SrtpProfile::AeadAes128Gcm {
                    k.master_salt.truncate(12);
                }
                let mut s = SrtpSession::new(prof, k, SrtpKeyingMaterial::new(vec![0; 16], vec![0; 14])).ok()?;
                // (an index far above what B itself has used)
                for _ in 0..50 {
                    let mut scratch = marshal_rtcp_packets(pk).ok()?;
                    s.protect_rtcp(&mut scratch).ok()?;
                }
                s.protect_rtcp(&mut raw).ok()?;
                Some(raw)
            }
        }
    }

    /// One valid media packet from the peer (WebRtc: B pushes a sample; raw: protected under the a=crypto key).
    async fn valid_media(&mut self, tag: &str, k: usize) {
        let pk = self.in_packet(tag, k);
        match &mut self.net {
            Net::Pair { b, .. } => {
                b.push(pk.payload.to_vec());
            }
            Net::Raw { peer_tx, sock, a_addr, .. } => {
                let d = match peer_tx {
                    Some(s) => {
                        let mut out = vec![0u8; s.protected_rtp_len(&pk)];
                        let _ = s.protect_rtp(&pk, &mut out);
                        out
                    }
                    None => pk.marshal().unwrap(),
                };
                if let Some(a) = a_addr {
                    let _ = sock.send_to(&d, *a).await;
                }
            }
        }
    }

    fn count(&self, what: &str) -> usize {
        self.captured().iter().filter(|c| kind(&c.data) == what).count()
    }

    async fn step(&mut self, op: &str, k: usize) {
        // (observers can only be registered once the transport exists; registration is idempotent)
        self.a.pc.add_observer(self.a.obs.clone());
        if self.mode == "Srtp" && !self.crypto_ok && matches!(op, "InValid" | "Gap" | "InValidNack") {
            return; // no keys can ever exist: the remote has no way to send anything valid
        }
        match op {
            "Push" => {
                let mut p = OUT_MARK.to_vec();
                p.extend_from_slice(format!("push:{k:02}:").as_bytes());
                p.extend([0xA5u8; 40]);
                let n0 = self.captured().len();
                self.a.push(p);
                if self.keyed && !self.closed {
                    let me = &*self;
                    wait_until(1500, || me.captured().len() > n0).await;
                }
            }
            "Raw" => {
                let mut p = OUT_MARK.to_vec();
                p.extend_from_slice(format!("raw:{k:02}:").as_bytes());
                p.extend([0xA6u8; 40]);
                // (its own SSRC: the sender's stream has a sequence space of its own, and a jump of more than 2^15 inside
                //  one SSRC would legitimately move the sender's rollover counter)
                let pk = RtpPacket::new(RtpHeader::new(101, 7000 + k as u16, 160 * k as u32, 0x0C14_0001), p);
                let pc = self.a.pc.clone();
                let _ = catch_future(pc.send_raw_rtp(pk)).await;
            }
            "InClearRtp" => {
                // a burst: gates that only drop the first few unauthenticated packets are reached as well
                for _ in 0..5 {
                    let d = self.in_packet("clear", k).marshal().unwrap();
                    self.to_a(&d).await;
                }
            }
            "InClearRtcp" => {
                // feedback for A's sender: accepted, the picture-loss indication surfaces on A's feedback channel and
                // the NACK makes A retransmit (a second datagram with a sequence number it already used)
                let seqs: Vec<u16> = self
                    .captured()
                    .iter()
                    .filter(|c| kind(&c.data) == "rtp" && c.data.len() >= 4)
                    .map(|c| u16::from_be_bytes([c.data[2], c.data[3]]))
                    .collect();
                let mut pk = vec![
                    RtcpPacket::ReceiverReport(ReceiverReport { sender_ssrc: 3405691582, report_blocks: vec![] }),
                    RtcpPacket::PictureLossIndication(PictureLossIndication { sender_ssrc: 3405691582, media_ssrc: 10000 }),
                ];
                if !seqs.is_empty() {
                    pk.push(RtcpPacket::GenericNack(GenericNack { sender_ssrc: 3405691582, media_ssrc: 10000, lost_packets: seqs }));
                }
                let d = marshal_rtcp_packets(&pk).unwrap();
                for i in 0..5u8 {
                    let mut d2 = d.clone();
                    if i > 0 && self.keyed {
                        d2.extend(std::iter::repeat(i).take(10)); // one SHA1_80 tag's worth of trailer
                    }
                    self.to_a(&d2).await;
                }
            }
            "InForged" => {
                let pk = self.in_packet("forged", k);
                let d = match &mut self.net {
                    Net::Pair { relay, .. } => {
                        // a datagram B really sent, one bit of the body flipped
                        let base = relay.last_b_media.lock().clone();
                        match base {
                            Some(mut m) if m.len() > 20 => {
                                let i = m.len() - 12;
                                m[i] ^= 0x10;
                                m
                            }
                            _ => {
                                let mut m = pk.marshal().unwrap();
                                m.extend([0x77u8; 10]); // looks like SRTP, authenticates under nothing
                                m
                            }
                        }
                    }
                    Net::Raw { peer_tx, .. } => match peer_tx {
                        Some(s) => {
                            let mut out = vec![0u8; s.protected_rtp_len(&pk)];
                            let _ = s.protect_rtp(&pk, &mut out);
                            let n = out.len();
                            out[n - 1] ^= 1;
                            out
                        }
                        None => {
                            let mut m = pk.marshal().unwrap();
                            m.truncate(14); // garbage in the unprotected mode
                            m
                        }
                    },
                };
                self.to_a(&d).await;
            }
            "InValid" => {
                let pk = self.in_packet("valid", k);
                let keyed = self.keyed;
                let n0 = self.a.got.lock().len();
                match &mut self.net {
                    Net::Pair { b, .. } => {
                        b.push(pk.payload.to_vec());
                    }
                    Net::Raw { peer_tx, sock, a_addr, .. } => {
                        let d = match peer_tx {
                            Some(s) => {
                                let mut out = vec![0u8; s.protected_rtp_len(&pk)];
                                let _ = s.protect_rtp(&pk, &mut out);
                                out
                            }
                            None => pk.marshal().unwrap(),
                        };
                        if let Some(a) = a_addr {
                            let _ = sock.send_to(&d, *a).await;
                        }
                    }
                }
                if keyed && !self.closed {
                    let got = self.a.got.clone();
                    wait_until(1500, || got.lock().len() > n0).await;
                }
            }
            "InValidNack" => {
                // an authenticated NACK for what A has sent: the retransmission path is an egress source
                if self.keyed && !self.closed && self.count("rtp") == 0 {
                    let mut p = OUT_MARK.to_vec();
                    p.extend_from_slice(format!("push:{k:02}:").as_bytes());
                    p.extend([0xA7u8; 40]);
                    self.a.push(p);
                    let me = &*self;
                    wait_until(1500, || me.count("rtp") > 0).await;
                }
                let sent: Vec<(u32, u16)> = self
                    .captured()
                    .iter()
                    .filter(|c| kind(&c.data) == "rtp" && c.data.len() >= 12)
                    .map(|c| (u32::from_be_bytes(c.data[8..12].try_into().unwrap()), u16::from_be_bytes([c.data[2], c.data[3]])))
                    .collect();
                if let Some((ssrc, _)) = sent.first().copied() {
                    let seqs: Vec<u16> = sent.iter().filter(|x| x.0 == ssrc).map(|x| x.1).collect();
                    let pk = vec![
                        RtcpPacket::ReceiverReport(ReceiverReport { sender_ssrc: 3405691582, report_blocks: vec![] }),
                        RtcpPacket::GenericNack(GenericNack { sender_ssrc: 3405691582, media_ssrc: ssrc, lost_packets: seqs }),
                    ];
                    let n0 = self.count("rtp");
                    if let Some(d) = self.peer_rtcp(&pk) {
                        self.to_a(&d).await;
                        if self.keyed && !self.closed {
                            let me = &*self;
                            wait_until(600, || me.count("rtp") > n0).await;
                        }
                    }
                }
            }
            "Gap" => {
                // valid media with a hole: the receiver's NACK generation is an egress source
                let n0 = self.count("rtcp");
                if let Net::Pair { relay, .. } = &self.net {
                    relay.drop_b_after.store(1, Ordering::SeqCst);
                }
                for i in 0..4 {
                    if i == 1 {
                        if let Net::Raw { .. } = &self.net {
                            self.in_seq = self.in_seq.wrapping_add(2);
                        }
                    }
                    self.valid_media("valid", k).await;
                    tokio::time::sleep(Duration::from_millis(5)).await;
                }
                if self.keyed && !self.closed {
                    let me = &*self;
                    wait_until(600, || me.count("rtcp") > n0).await;
                }
            }
            "KeyFrame" => {
                // the application asks for a key frame on the received track: PLI / FIR generation is an egress source
                let t = self.a.rx_track.lock().clone();
                if let Some(t) = t {
                    let n0 = self.count("rtcp");
                    let _ = tokio::time::timeout(Duration::from_millis(200), t.request_key_frame()).await;
                    if self.keyed && !self.closed {
                        let me = &*self;
                        wait_until(400, || me.count("rtcp") > n0).await;
                    }
                }
            }
            "Report" => {
                // periodic sender reports (first one 3 s after the sender started, only once media has been sent)
                let mut p = OUT_MARK.to_vec();
                p.extend_from_slice(format!("push:{k:02}:").as_bytes());
                p.extend([0xA8u8; 40]);
                let n0 = self.count("rtcp");
                self.a.push(p);
                if self.keyed && !self.closed {
                    let me = &*self;
                    wait_until(3600, || me.count("rtcp") > n0).await;
                }
            }
            "Keys" => self.keys().await,
            "Close" => {
                let n0 = self.captured().len();
                self.a.pc.close();
                self.closed = true;
                if self.keyed {
                    let me = &*self;
                    wait_until(300, || me.captured().len() > n0).await;
                }
            }
            x => tool_error(&format!("unknown op {x}")),
        }
    }

    /// Give in-flight work a bounded chance to surface, then, when possible, push a valid packet through the same
    /// path as a barrier: A's socket read loop and track queue are FIFO, so once it is delivered everything sent to A
    /// before it has been handled.
    async fn settle(&mut self) {
        if self.keyed && !self.closed {
            let n0 = self.a.got.lock().len();
            let pk = self.in_packet("barrier", 99);
            match &mut self.net {
                Net::Pair { b, .. } => {
                    b.push(pk.payload.to_vec());
                }
                Net::Raw { peer_tx, sock, a_addr, .. } => {
                    let d = match peer_tx {
                        Some(s) => {
                            let mut out = vec![0u8; s.protected_rtp_len(&pk)];
                            let _ = s.protect_rtp(&pk, &mut out);
                            out
                        }
                        None => pk.marshal().unwrap(),
                    };
                    if let Some(a) = a_addr {
                        let _ = sock.send_to(&d, *a).await;
                    }
                }
            }
            let got = self.a.got.clone();
            if !wait_until(2000, || got.lock().iter().skip(n0).any(|p| contains(p, b"barrier"))).await {
                self.notes.push("barrier packet was not delivered within 2 s".into());
            }
        } else {
            tokio::time::sleep(Duration::from_millis(60)).await;
        }
    }

    /// 'p' if the datagram authenticates under A's transmit keys (any profile), else 'c'. Datagrams are presented in
    /// the order they were captured; a receiver context that follows the stream is tried first, then a fresh one.
    fn classify(&self, followers: &mut Vec<Option<SrtpSession>>, d: &[u8]) -> (char, Value) {
        let is_rtcp = kind(d) == "rtcp";
        let leaks = contains(d, OUT_MARK) || contains(d, IN_MARK);
        let mut slot = 0;
        for (ki, k) in self.a_tx.iter().enumerate() {
            for prof in PROFILES {
              for fresh in [false, true] {
                let mut k2 = k.clone();
                if prof == SrtpProfile::AeadAes128Gcm {
                    k2.master_salt.truncate(12);
                } else if k2.master_salt.len() < 14 {
                    continue;
                }
                let mk = || SrtpSession::new(prof, SrtpKeyingMaterial::new(vec![0; 16], vec![0; 14]), k2.clone()).ok();
                let mut tmp;
                let v: &mut SrtpSession = if fresh {
                    tmp = mk();
                    match tmp.as_mut() {
                        Some(v) => v,
                        None => continue,
                    }
                } else {
                    slot += 1;
                    while followers.len() < slot {
                        followers.push(None);
                    }
                    if followers[slot - 1].is_none() {
                        followers[slot - 1] = mk();
                    }
                    match followers[slot - 1].as_mut() {
                        Some(v) => v,
                        None => continue,
                    }
                };
                let mut types: Vec<&'static str> = vec![];
                let ok = if is_rtcp {
                    let mut b = d.to_vec();
                    let ok = matches!(catch(|| v.unprotect_rtcp(&mut b)), Ok(Ok(())));
                    if ok {
                        types = rtcp_types(&b);
                    }
                    ok
                } else {
                    match SrtpPacket::parse(bytes::BytesMut::from(d)) {
                        Ok(sp) => matches!(catch(|| v.unprotect_rtp(sp)), Ok(Ok(_))),
                        Err(_) => false,
                    }
                };
                if ok {
                    if leaks {
                        return ('c', json!({"why": "authenticates but the plaintext is visible"}));
                    }
                    return ('p', json!({"profile": format!("{prof:?}"), "key": ki, "rtcp": is_rtcp, "types": types}));
                }
              }
            }
        }
        ('c', json!({"why": if leaks { "plaintext visible" } else { "does not authenticate under A's transmit keys" },
                     "types": if is_rtcp { rtcp_types(d) } else { vec![] },
                     "rtcp": is_rtcp, "len": d.len(), "keys_known": self.a_tx.len(), "first": format!("{:02x?}", &d[..d.len().min(16)])}))
    }
}

/// Kinds of the RTCP packets in a plaintext compound.
fn rtcp_types(b: &[u8]) -> Vec<&'static str> {
    match rustrtc::rtp::parse_rtcp_packets(b, None) {
        Ok(pk) => pk
            .iter()
            .map(|p| match p {
                RtcpPacket::SenderReport(_) => "sr",
                RtcpPacket::ReceiverReport(_) => "rr",
                RtcpPacket::GenericNack(_) => "nack",
                RtcpPacket::PictureLossIndication(_) => "pli",
                RtcpPacket::FullIntraRequest(_) => "fir",
                RtcpPacket::Goodbye(_) => "bye",
                _ => "other",
            })
            .collect(),
        Err(_) => vec![],
    }
}

async fn catch_future<F: std::future::Future>(f: F) -> Result<F::Output, String> {
    use std::panic::AssertUnwindSafe;
    use std::pin::Pin;
    use std::task::{Context, Poll};
    struct Catch<F>(Pin<Box<F>>);
    impl<F: std::future::Future> std::future::Future for Catch<F> {
        type Output = Result<F::Output, String>;
        fn poll(mut self: Pin<&mut Self>, cx: &mut Context<'_>) -> Poll<Self::Output> {
            let inner = &mut self.0;
            match catch(AssertUnwindSafe(|| inner.as_mut().poll(cx))) {
                Ok(Poll::Ready(v)) => Poll::Ready(Ok(v)),
                Ok(Poll::Pending) => Poll::Pending,
                Err(m) => Poll::Ready(Err(m)),
            }
        }
    }
    Catch(Box::pin(f)).await
}

// ------------------------------------------------------------------------------------------------- run

#[derive(Default)]
struct Stats {
    scenarios: u64,
    steps: u64,
    datagrams: u64,
    protected: u64,
    clear: u64,
    deliveries: u64,
    diverged: u64,
    inconclusive: u64,
    retries: u64,
    /// egress sources seen on the observed endpoint's wire
    src: std::collections::BTreeMap<String, u64>,
}

async fn run_edge(case: &Value, idx: usize, out: &mut NdjsonOut, stats: &mut Stats) {
    // a scenario whose connection could not be established says nothing about C14: try again (known, unrelated:
    // SDES-mode transports start before both descriptions are stored and then fail to find the a=crypto lines)
    for attempt in 0..4 {
        if run_edge_once(case, idx, out, stats, attempt == 3).await {
            return;
        }
        stats.retries += 1;
    }
}

/// false = the rig did not come up and nothing was reported (caller retries unless `last`).
async fn run_edge_once(case: &Value, idx: usize, out: &mut NdjsonOut, stats: &mut Stats, last: bool) -> bool {
    let mode = case["mode"].as_str().unwrap().to_string();
    let required = mode != "Rtp";
    let mut ops: Vec<String> = case["pre"].as_array().unwrap().iter().map(|v| v.as_str().unwrap().to_string()).collect();
    ops.push(case["act"].as_str().unwrap().to_string());
    let exp = case["exp"].as_array().unwrap();
    let (exp_w, exp_d, exp_dx) = (exp[0].as_str().unwrap_or("").to_string(), exp[1].as_u64().unwrap_or(0), exp[4].as_u64().unwrap_or(1));
    let role = case.get("role").and_then(|v| v.as_str()).unwrap_or("offerer").to_string();
    let crypto = case.get("crypto").and_then(|v| v.as_str()).unwrap_or("ok").to_string();
    let mut rig = Rig::setup(&mode, &role, &crypto, idx as u16).await;
    let mut before = (0usize, 0usize, 0usize); // wire, track, observer counts before the last step
    let mut fb_before = 0usize;
    let mut fb_total = 0usize;
    for (k, op) in ops.iter().enumerate() {
        if k + 1 == ops.len() {
            rig.settle().await;
            while rig.a.fb.try_recv().is_ok() {
                fb_total += 1;
            }
            before = (rig.captured().len(), rig.a.got.lock().len(), rig.a.obs.ingress.lock().len());
            fb_before = fb_total;
        }
        rig.step(op, k).await;
        stats.steps += 1;
    }
    rig.settle().await;
    while rig.a.fb.try_recv().is_ok() {
        fb_total += 1;
    }
    let mut divs: Vec<Value> = vec![];
    // ---- wire: everything A ever sent in this scenario
    let caps = rig.captured();
    let mut last_w = String::new();
    let mut followers = Vec::new();
    for (i, c) in caps.iter().enumerate() {
        let (cls, detail) = rig.classify(&mut followers, &c.data);
        stats.datagrams += 1;
        if cls == 'p' {
            stats.protected += 1;
        } else {
            stats.clear += 1;
        }
        if let Some(ts) = detail["types"].as_array() {
            for t in ts {
                *stats.src.entry(format!("rtcp:{}", t.as_str().unwrap_or("?"))).or_insert(0) += 1;
            }
        }
        if kind(&c.data) == "rtp" {
            *stats.src.entry("rtp".into()).or_insert(0) += 1;
        }
        if i >= before.0 && !last_w.contains(cls) {
            last_w.push(cls);
        }
        if required && c.before_keys {
            divs.push(json!({"rule": "NothingBeforeKeys", "field": "wire", "observed": cls.to_string(), "kind": kind(&c.data),
                             "detail": detail, "len": c.data.len()}));
        } else if required && cls != 'p' {
            divs.push(json!({"rule": "NoClearEgress", "field": "wire", "observed": cls.to_string(), "kind": kind(&c.data), "detail": detail}));
        }
    }
    // a retransmission (same sequence number twice) can only have been asked for by the clear NACK the scenario sends
    {
        let mut seen = std::collections::HashSet::new();
        let mut rtx = 0;
        for c in caps.iter().filter(|c| kind(&c.data) == "rtp" && c.data.len() >= 12) {
            if !seen.insert((c.data[2], c.data[3], c.data[8], c.data[9], c.data[10], c.data[11])) {
                rtx += 1;
            }
        }
        if rtx > 0 {
            *stats.src.entry("rtp:retransmission".into()).or_insert(0) += rtx;
            stats.deliveries += rtx;
            // (legitimate when the scenario also sent an authenticated NACK)
            if required && !ops.iter().any(|o| o == "InValidNack") {
                divs.push(json!({"rule": "NoClearIngress", "field": "sink", "sink": "nack-retransmission", "class": "clear", "count": rtx}));
            }
        }
    }
    // ---- sinks: track samples, ingress observer, feedback channel
    let mut last_d = 0u64;
    let judge = |sink: &str, payload: &[u8], divs: &mut Vec<Value>| {
        let class = if contains(payload, b":valid:") || contains(payload, b":barrier:") {
            "valid"
        } else if contains(payload, b":clear:") {
            "clear"
        } else if contains(payload, b":forged:") {
            "forged"
        } else {
            "unknown"
        };
        // a packet can only have been authenticated if A had keys; content that is not one of the valid packets
        // was not authenticated
        if required && class != "valid" {
            divs.push(json!({"rule": "NoClearIngress", "field": "sink", "sink": sink, "class": class}));
        }
        class
    };
    let got = rig.a.got.lock().clone();
    for (i, p) in got.iter().enumerate() {
        stats.deliveries += 1;
        let c = judge("track", p, &mut divs);
        if i >= before.1 && c != "valid" || (i >= before.1 && contains(p, format!(":{:02}:", ops.len() - 1).as_bytes())) {
            last_d = 1;
        }
    }
    let ing = rig.a.obs.ingress.lock().clone();
    for (i, p) in ing.iter().enumerate() {
        stats.deliveries += 1;
        let c = judge("observer", p, &mut divs);
        if i >= before.2 && c != "valid" {
            last_d = 1;
        }
    }
    if fb_total > 0 {
        stats.deliveries += fb_total as u64;
        // feedback can only stem from the clear PLI the scenario injected (B / the raw peer never send one)
        if required {
            divs.push(json!({"rule": "NoClearIngress", "field": "sink", "sink": "feedback", "class": "clear", "count": fb_total}));
        }
        if fb_total > fb_before {
            last_d = 1;
        }
    }
    // ---- beyond the property: the contract's exact expectation for the scenario's own last step
    let inconclusive = !rig.notes.is_empty();
    if inconclusive && !last && divs.is_empty() {
        if !rig.closed {
            rig.a.pc.close();
        }
        if let Net::Pair { b, .. } = &rig.net {
            b.pc.close();
        }
        return false;
    }
    if inconclusive {
        stats.inconclusive += 1;
    }
    // (with NACK feedback negotiated the receiver answers holes in what it gets on its own: what an inbound step puts
    //  on the wire is not part of the exact expectation, only what it delivers)
    let wire_exact = matches!(ops.last().map(|s| s.as_str()), Some("Push") | Some("Raw") | Some("Close") | Some("Keys"));
    if exp_dx == 1 && !inconclusive && ((wire_exact && last_w != exp_w) || last_d != exp_d) {
        divs.push(json!({"rule": "EXT", "field": "exact", "expected": {"wire": exp_w, "delivered": exp_d},
                         "observed": {"wire": last_w, "delivered": last_d}}));
    }
    for n in &rig.notes {
        divs.push(json!({"rule": "EXT", "field": "inconclusive", "observed": n}));
    }
    if std::env::var("GATE_DEBUG").is_ok() {
        eprintln!("{mode}/{role}/{crypto} {ops:?}: wire {} (last '{last_w}' exp '{exp_w}') track {} obs {} fb {fb_total} (last_d {last_d} exp {exp_d} dx {exp_dx}) notes {:?}",
                  caps.len(), got.len(), ing.len(), rig.notes);
    }
    stats.scenarios += 1;
    if divs.iter().any(|d| d["rule"] != "EXT") {
        stats.diverged += 1;
    }
    for d in divs {
        let mut rec = json!({"type": "divergence", "level": "pc", "behaviour": idx, "mode": mode, "role": role, "crypto": crypto, "op": ops.last().unwrap(),
                             "ops": ops, "keyed": rig.keyed, "case": case});
        for (k2, v2) in d.as_object().unwrap() {
            rec[k2] = v2.clone();
        }
        out.push(&rec);
    }
    // tear down
    if !rig.closed {
        rig.a.pc.close();
    }
    if let Net::Pair { b, .. } = &rig.net {
        b.pc.close();
    }
    true
}

fn main() {
    let args: Vec<String> = std::env::args().collect();
    if args.len() >= 2 && (args[1] == "srtp" || args[1] == "rtp") {
        let rt = tokio::runtime::Builder::new_multi_thread().worker_threads(2).enable_all().build().unwrap();
        rt.block_on(probe::run(args[1].clone(), args.get(2).cloned().unwrap_or("offerer".into())));
        std::process::exit(0);
    }
    if args.len() < 4 || args[1] != "run" {
        eprintln!("usage: gatepc run <edges.ndjson> <out.ndjson> [i/n] | gatepc srtp|rtp offerer|answerer");
        std::process::exit(2);
    }
    let (shard, nshards) = match args.get(4) {
        Some(s) => {
            let (a, b) = s.split_once('/').unwrap_or_else(|| tool_error("shard must be i/n"));
            (a.parse::<usize>().unwrap(), b.parse::<usize>().unwrap())
        }
        None => (0, 1),
    };
    quiet_panics();
    let rt = tokio::runtime::Builder::new_multi_thread().worker_threads(2).enable_all().build().unwrap();
    rt.block_on(async {
        let mut out = NdjsonOut::create(&args[3]);
        let mut stats = Stats::default();
        let cases = read_ndjson(&args[2]);
        for (i, case) in cases.iter().enumerate() {
            if i % nshards != shard {
                continue;
            }
            run_edge(case, i, &mut out, &mut stats).await;
        }
        out.push(&json!({"type": "summary", "behaviours": stats.scenarios, "steps": stats.steps, "datagrams": stats.datagrams,
                         "protected": stats.protected, "clear": stats.clear, "deliveries": stats.deliveries,
                         "diverged": stats.diverged, "inconclusive": stats.inconclusive, "retries": stats.retries, "sources": stats.src}));
        out.finish();
    });
    std::process::exit(0);
}
